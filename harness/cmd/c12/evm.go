// EVM layer of C12: the side lists of core/vm/evm.go (ETXCache, CoinbaseDeletedHashes,
// CoinbasesDeleted) and the lockup deletions staged in EVM.Batch by the lockup precompile
// (core/vm/contracts.go ClaimCoinbaseLockup), observed through real bytecode frames.
package main

import (
	"encoding/binary"
	"fmt"
	"math/big"

	"github.com/dominant-strategies/go-quai/common"
	"github.com/dominant-strategies/go-quai/core"
	"github.com/dominant-strategies/go-quai/core/rawdb"
	"github.com/dominant-strategies/go-quai/core/state"
	"github.com/dominant-strategies/go-quai/core/types"
	"github.com/dominant-strategies/go-quai/core/vm"
	"github.com/dominant-strategies/go-quai/crypto"
	"github.com/dominant-strategies/go-quai/params"
	"github.com/holiman/uint256"

	"verifharness/hlib"
)

// EvmCase: a transaction calling contract Top with a 53-byte claim input.
//   Shape "claim-then-revert"  : Top = A;  A: CALL lockup(claim); REVERT
//   Shape "inner-revert"       : Top = B;  B: CALL A (A claims then REVERTs); STOP   (tx succeeds)
//   Shape "claim-ok"           : Top = C;  C: CALL lockup(claim); STOP
//   Shape "inner-ok-outer-revert": Top = D; D: CALL C (claims, returns); REVERT
type EvmCase struct {
	ID    int    `json:"id"`
	Shape string `json:"shape"`
	Evm   bool   `json:"evm"`
}

type evmObs struct {
	Err          int // 0 ok, 1 reverted, 2 other
	ETXs         int
	DelHashes    int
	DelMap       int
	LockupBefore string // balance/elements visible through (db, batch) before the tx
	LockupInDB   string // after UndoCoinbasesDeleted-if-failed and batch.Write: what the next block reads
}

var (
	cA = mkAddrFull(0xA1)
	cB = mkAddrFull(0xB1)
	cC = mkAddrFull(0xC1)
	cD = mkAddrFull(0xD1)
)

func mkAddrFull(last byte) common.Address {
	b := make([]byte, 20)
	b[19] = last
	return common.BytesToAddress(b, loc)
}

// code: copy calldata to memory 0, CALL target with it, then STOP or REVERT(0,0)
func callThen(target common.Address, revert bool) []byte {
	var c []byte
	c = append(c, byte(vm.CALLDATASIZE), byte(vm.PUSH1), 0, byte(vm.PUSH1), 0, byte(vm.CALLDATACOPY))
	// CALL(gas, addr, value, inOff, inSize, outOff, outSize): push in reverse
	c = append(c, byte(vm.PUSH1), 0, byte(vm.PUSH1), 0, byte(vm.CALLDATASIZE), byte(vm.PUSH1), 0, byte(vm.PUSH1), 0)
	c = append(c, byte(vm.PUSH20))
	c = append(c, target.Bytes()...)
	c = append(c, byte(vm.GAS), byte(vm.CALL), byte(vm.POP))
	if revert {
		c = append(c, byte(vm.PUSH1), 0, byte(vm.PUSH1), 0, byte(vm.REVERT))
	} else {
		c = append(c, byte(vm.STOP))
	}
	return c
}

func runEvmCase(shape string) (obs evmObs, what string) {
	vm.InitializePrecompiles(loc)
	lockup := vm.LockupContractAddresses[[2]byte{0, 0}]
	raw := rawdb.NewMemoryDatabase(logger)
	sdb := state.NewDatabase(raw)
	s := newState(types.EmptyRootHash, sdb)
	s.ConfigureAccessListChecks(false)
	set := func(a common.Address, code []byte) {
		ia, err := a.InternalAndQuaiAddress()
		if err != nil {
			panic(err)
		}
		s.SetCode(ia, code)
		s.SetNonce(ia, 1)
	}
	set(cA, callThen(lockup, true))
	set(cC, callThen(lockup, false))
	set(cB, callThen(cA, false))
	set(cD, callThen(cC, true))
	origin := mkAddrFull(0x55)
	oi, _ := origin.InternalAndQuaiAddress()
	s.SetBalance(oi, big.NewInt(1e18))
	var top, owner common.Address
	switch shape {
	case "claim-then-revert":
		top, owner = cA, cA
	case "inner-revert":
		top, owner = cB, cA
	case "claim-ok":
		top, owner = cC, cC
	case "inner-ok-outer-revert":
		top, owner = cD, cC
	default:
		panic("shape")
	}
	beneficiary := mkAddrFull(0x66)
	to := mkAddrFull(0x67)
	const lockupByte, epoch = 1, 0
	if _, err := rawdb.WriteCoinbaseLockup(raw, owner, beneficiary, lockupByte, epoch, big.NewInt(1000), 5, 3, common.Zero); err != nil {
		panic(err)
	}
	batch := raw.NewBatch()
	batch.SetPending(true)
	rd := func() string {
		bal, h, el, _ := rawdb.ReadCoinbaseLockup(raw, batch, owner, beneficiary, lockupByte, epoch)
		return fmt.Sprintf("%s/%d/%d", bal, h, el)
	}
	obs.LockupBefore = rd()
	blockCtx := vm.BlockContext{
		CanTransfer: core.CanTransfer, Transfer: core.Transfer,
		GetHash:            func(uint64) common.Hash { return common.Hash{} },
		CheckIfEtxEligible: func(common.Hash, common.Location) bool { return true },
		PrimaryCoinbase:    origin, GasLimit: 30000000,
		BlockNumber:        new(big.Int).SetUint64(params.MaxCodeSizeForkHeight + 10),
		Time:               big.NewInt(1700000000), Difficulty: big.NewInt(1000000), BaseFee: big.NewInt(1),
		QuaiStateSize:       new(big.Int).Lsh(big.NewInt(1), 20),
		PrimeTerminusNumber: params.ShaEquivalentDifficultyForkBlock + 1,
	}
	txCtx := vm.TxContext{Origin: origin, GasPrice: big.NewInt(1), Hash: common.BytesToHash([]byte{0xc1, 0x2})}
	evm := vm.NewEVM(blockCtx, txCtx, s, &params.ChainConfig{ChainID: big.NewInt(1), Location: loc}, vm.Config{}, batch)
	in := make([]byte, 53)
	copy(in[:20], beneficiary.Bytes())
	copy(in[20:40], to.Bytes())
	in[40] = lockupByte
	binary.BigEndian.PutUint32(in[41:45], epoch)
	binary.BigEndian.PutUint64(in[45:53], 21000)
	var err error
	p := safe(func() { _, _, _, err = evm.Call(vm.AccountRef(origin), top, in, 5000000, big.NewInt(0)) })
	if p {
		return obs, "panic"
	}
	switch {
	case err == nil:
		obs.Err = 0
	case err == vm.ErrExecutionReverted:
		obs.Err = 1
	default:
		obs.Err = 2
		what = err.Error()
	}
	obs.ETXs = len(evm.ETXCache)
	obs.DelHashes = len(evm.CoinbaseDeletedHashes)
	obs.DelMap = len(evm.CoinbasesDeleted)
	// what core/state_processor.go applyTransaction does with a failed result
	if obs.Err != 0 {
		evm.UndoCoinbasesDeleted()
	}
	if e := batch.Write(); e != nil {
		panic(e)
	}
	fresh := raw.NewBatch()
	bal, h, el, _ := rawdb.ReadCoinbaseLockup(raw, fresh, owner, beneficiary, lockupByte, epoch)
	obs.LockupInDB = fmt.Sprintf("%s/%d/%d", bal, h, el)
	return obs, what
}

var evmShapes = []string{"claim-ok", "claim-then-revert", "inner-revert", "inner-ok-outer-revert"}

// the call trees as terms of Model/C12.v (eframe); every CALL is a frame, the lockup call included
var evmTrees = map[string]string{
	"claim-ok":              "(ECall [ECall [EClaim [1] 7 9] false] false)",
	"claim-then-revert":     "(ECall [ECall [EClaim [1] 7 9] false] true)",
	"inner-revert":          "(ECall [ECall [ECall [EClaim [1] 7 9] false] true] false)",
	"inner-ok-outer-revert": "(ECall [ECall [ECall [EClaim [1] 7 9] false] false] true)",
}

// evmCases runs the lockup-claim scenarios and evaluates the monitor
//   a claim whose frame (or an enclosing frame) reverted leaves the lockup record in place;
//   a lockup record is gone exactly when a payout ETX for it is in the ETX cache.
func evmCases(c *ctx, only string) {
	for _, sh := range evmShapes {
		if only != "" && sh != only {
			continue
		}
		obs, what := runEvmCase(sh)
		c.rep.Evaluations++
		c.rep.Count("evm:" + sh)
		id := 900000
		for i, x := range evmShapes {
			if x == sh {
				id += i
			}
		}
		cj := EvmCase{ID: id, Shape: sh, Evm: true}
		if what != "panic" {
			c.addOld(fmt.Sprintf("CE %d [1] [3;232] %s %d %d %d %s", id, evmTrees[sh], obs.ETXs, obs.DelHashes, obs.DelMap, hlib.CoqBool(obs.LockupInDB == obs.LockupBefore)), cj)
			c.rep.TracesValidated++
		}
		c.rep.Note(fmt.Sprintf("evm %s: err=%d etxs=%d delHashes=%d delMap=%d lockup before=%s afterBlockWrite=%s %s", sh, obs.Err, obs.ETXs, obs.DelHashes, obs.DelMap, obs.LockupBefore, obs.LockupInDB, what))
		if what == "panic" {
			c.rep.Fail("evm/panic", "EVM call panicked in "+sh, cj)
			continue
		}
		gone := obs.LockupInDB != obs.LockupBefore
		paid := obs.ETXs == 1
		if obs.LockupBefore == "0/0/0" {
			c.rep.Fail("evm/harness", "lockup record was not readable before the transaction", cj)
		}
		if sh != "claim-ok" && (obs.ETXs != 0 || obs.DelHashes != 0 || obs.DelMap != 0) {
			// the only claim sits in a frame that failed (or inside one): the EVM side lists must be as at entry
			c.rep.Fail("evm-lists-not-restored/"+sh, fmt.Sprintf("after the reverted frame ETXCache=%d CoinbaseDeletedHashes=%d CoinbasesDeleted=%d (all 0 at entry)", obs.ETXs, obs.DelHashes, obs.DelMap), cj)
		}
		if gone != paid {
			c.rep.Fail("f9-lockup-claim-reverted/"+sh, fmt.Sprintf("lockup record gone=%v but payout ETXs in cache=%d (record before %s, after %s; deleted-hashes=%d undo-map=%d)", gone, obs.ETXs, obs.LockupBefore, obs.LockupInDB, obs.DelHashes, obs.DelMap), cj)
		}
		c.rep.Nontrivial("evm|" + sh)
	}
}

// ---------- contract creation frames ----------
// A creation whose init code writes storage and receives an endowment, then
//   "create-ok"          returns 1 byte of code
//   "create-revert"      REVERTs
//   "create-codestore-oog" returns 10000 bytes with too little gas for the code deposit
// Property: a creation that ends in failure leaves no account, no storage, no moved value.

type createObs struct {
	Err      int // 0 ok, 1 reverted, 2 code-store out of gas, 3 other
	Exists   bool
	Nonce    uint64
	Balance  string
	Slot     string
	CallerBal string
}

func initCode(kind string) []byte {
	c := []byte{byte(vm.PUSH1), 7, byte(vm.PUSH1), 1, byte(vm.SSTORE)}
	switch kind {
	case "create-ok":
		c = append(c, byte(vm.PUSH1), 1, byte(vm.PUSH1), 0, byte(vm.RETURN))
	case "create-revert":
		c = append(c, byte(vm.PUSH1), 0, byte(vm.PUSH1), 0, byte(vm.REVERT))
	case "create-codestore-oog":
		c = append(c, byte(vm.PUSH2), 0x27, 0x10, byte(vm.PUSH1), 0, byte(vm.RETURN)) // RETURN(0, 10000)
	}
	return c
}

func runCreateCase(kind string) (obs createObs, what string) {
	vm.InitializePrecompiles(loc)
	raw := rawdb.NewMemoryDatabase(logger)
	s := newState(types.EmptyRootHash, state.NewDatabase(raw))
	s.ConfigureAccessListChecks(false)
	origin := mkAddrFull(0x55)
	oi, _ := origin.InternalAndQuaiAddress()
	s.SetBalance(oi, big.NewInt(1000))
	s.SetNonce(oi, 1)
	blockCtx := vm.BlockContext{
		CanTransfer: core.CanTransfer, Transfer: core.Transfer,
		GetHash:            func(uint64) common.Hash { return common.Hash{} },
		CheckIfEtxEligible: func(common.Hash, common.Location) bool { return true },
		PrimaryCoinbase:    origin, GasLimit: 30000000,
		BlockNumber:        new(big.Int).SetUint64(params.MaxCodeSizeForkHeight + 10),
		Time:               big.NewInt(1700000000), Difficulty: big.NewInt(1000000), BaseFee: big.NewInt(1),
		QuaiStateSize:       new(big.Int).Lsh(big.NewInt(1), 20),
		PrimeTerminusNumber: params.ShaEquivalentDifficultyForkBlock + 1,
	}
	txCtx := vm.TxContext{Origin: origin, GasPrice: big.NewInt(1), Hash: common.BytesToHash([]byte{0xc1, 0x3})}
	evm := vm.NewEVM(blockCtx, txCtx, s, &params.ChainConfig{ChainID: big.NewInt(1), Location: loc}, vm.Config{}, nil)
	code := initCode(kind)
	var salt *uint256.Int
	var addr common.Address
	for i := uint64(0); i < 100000; i++ {
		sl := uint256.NewInt(i)
		a := crypto.CreateAddress2(origin, sl.Bytes32(), crypto.Keccak256(code), loc)
		if _, err := a.InternalAndQuaiAddress(); err == nil {
			salt, addr = sl, a
			break
		}
	}
	if salt == nil {
		return obs, "no in-scope create2 address found"
	}
	var err error
	gas := uint64(400000) + params.CallNewAccountGas(blockCtx.QuaiStateSize)
	p := safe(func() { _, _, _, _, err = evm.Create2(vm.AccountRef(origin), code, gas, big.NewInt(5), salt) })
	if p {
		return obs, "panic"
	}
	switch {
	case err == nil:
		obs.Err = 0
	case err == vm.ErrExecutionReverted:
		obs.Err = 1
	case err == vm.ErrCodeStoreOutOfGas:
		obs.Err = 2
	default:
		obs.Err = 3
		what = err.Error()
	}
	ia, _ := addr.InternalAndQuaiAddress()
	obs.Exists = s.Exist(ia)
	obs.Nonce = s.GetNonce(ia)
	obs.Balance = s.GetBalance(ia).String()
	obs.Slot = s.GetState(ia, common.BytesToHash([]byte{1})).Big().String()
	obs.CallerBal = s.GetBalance(oi).String()
	return obs, what
}

var createShapes = []string{"create-ok", "create-revert", "create-codestore-oog"}

func createCases(c *ctx, only string) {
	for i, sh := range createShapes {
		if only != "" && sh != only {
			continue
		}
		obs, what := runCreateCase(sh)
		c.rep.Evaluations++
		c.rep.Count("evm:" + sh)
		id := 900100 + i
		cj := EvmCase{ID: id, Shape: sh, Evm: true}
		c.rep.Note(fmt.Sprintf("evm %s: err=%d exists=%v nonce=%d balance=%s slot1=%s callerBalance=%s %s", sh, obs.Err, obs.Exists, obs.Nonce, obs.Balance, obs.Slot, obs.CallerBal, what))
		if what == "panic" || obs.Err == 3 || what != "" {
			c.rep.Fail("evm/create-harness", "creation scenario did not run: "+what, cj)
			continue
		}
		trace := obs.Exists || obs.Slot != "0" || obs.CallerBal != "1000"
		// Coq case: the failure class and whether the frame's effects are still there
		c.addOld(fmt.Sprintf("CO %d %d %s", id, obs.Err, hlib.CoqBool(trace)), cj)
		c.rep.TracesValidated++
		if obs.Err != 0 && trace {
			c.rep.Fail("create-failure-not-reverted/"+sh, fmt.Sprintf("creation failed (class %d) but its effects stay: account exists=%v nonce=%d balance=%s slot1=%s, creator balance %s (was 1000)", obs.Err, obs.Exists, obs.Nonce, obs.Balance, obs.Slot, obs.CallerBal), cj)
		}
		if obs.Err == 0 && !trace {
			c.rep.Fail("create-success-lost", "successful creation left no account", cj)
		}
		c.rep.Nontrivial("evm|" + sh)
	}
}

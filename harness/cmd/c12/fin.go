// C12 - account blocks: ONE storage-free account over the transactions of a block, on a trie-backed and a
// snapshot-backed StateDB opened on a committed parent state.  Frames (Snapshot / RevertToSnapshot) of
// CreateAccount / AddBalance / SetNonce / SetCode / Suicide, transaction boundaries Finalize or
// IntermediateRoot.  After the frames of every transaction and after every boundary the harness reads the
// object, snapDestructs / snapAccounts, the journal length, journal.dirties, stateObjectsPending /
// stateObjectsDirty and the account trie entry; the Coq model Model/C12_Fin.v is run on the same block
// (case CF).  Model-independent monitors:
//
//	fin/failed-frame-left-trace/<field>  everything read right after RevertToSnapshot equals what was read
//	                                     at the Snapshot (object, snapshot bookkeeping, journal, dirties,
//	                                     pending / dirty sets, trie entry)
//	fin/erasure/<field>                  the block and the block without its failed frames give the same
//	                                     observations at every boundary and the same root at Commit
package main

import (
	"fmt"
	"math/big"
	"strings"

	"github.com/dominant-strategies/go-quai/common"
	"github.com/dominant-strategies/go-quai/core/state"
	"github.com/dominant-strategies/go-quai/core/types"
	"github.com/dominant-strategies/go-quai/crypto"

	"verifharness/hlib"
)

var finAddr = mkAddr(0x12)

type FFrame struct {
	Op   string   `json:"op,omitempty"` // Create, Credit, SetNonce, SetCode, Suicide
	V    int64    `json:"v,omitempty"`
	Call bool     `json:"call,omitempty"`
	Sub  []FFrame `json:"sub,omitempty"`
	Fail bool     `json:"fail,omitempty"`
}

type FTx struct {
	F    []FFrame `json:"f"`
	Root bool     `json:"root,omitempty"`
}

type FinCase struct {
	ID    int    `json:"id"`
	Mode  string `json:"mode"` // "fin"
	Base  int    `json:"base"`
	Snaps bool   `json:"snaps"`
	Txs   []FTx  `json:"txs"`
	Src   string `json:"src,omitempty"`
}

func fo(op string, v int64) FFrame          { return FFrame{Op: op, V: v} }
func fcall(fail bool, sub ...FFrame) FFrame { return FFrame{Call: true, Sub: sub, Fail: fail} }

func (f FFrame) coq() string {
	if f.Call {
		var l []string
		for _, g := range f.Sub {
			l = append(l, g.coq())
		}
		return fmt.Sprintf("FFCall %s %s", hlib.CoqList(l), hlib.CoqBool(f.Fail))
	}
	switch f.Op {
	case "Create":
		return "FFOp FCreate"
	case "Credit":
		return fmt.Sprintf("FFOp (FCredit %s)", coqZi(f.V))
	case "SetNonce":
		return fmt.Sprintf("FFOp (FSetNonce %d)", f.V)
	case "SetCode":
		return "FFOp FSetCode"
	case "Suicide":
		return "FFOp FSuicide"
	}
	panic("fin op " + f.Op)
}

func (f FFrame) String() string {
	if !f.Call {
		if f.Op == "Credit" || f.Op == "SetNonce" {
			return fmt.Sprintf("%s %d", f.Op, f.V)
		}
		return f.Op
	}
	var l []string
	for _, g := range f.Sub {
		l = append(l, g.String())
	}
	end := "ok"
	if f.Fail {
		end = "FAIL"
	}
	return "frame{" + strings.Join(l, " ; ") + "}" + end
}

// the block without its failed frames
func finErase(fs []FFrame) []FFrame {
	out := []FFrame{}
	for _, f := range fs {
		if !f.Call {
			out = append(out, f)
		} else if !f.Fail {
			out = append(out, FFrame{Call: true, Sub: finErase(f.Sub)})
		}
	}
	return out
}

func finHasFail(fs []FFrame) bool {
	for _, f := range fs {
		if f.Call && (f.Fail || finHasFail(f.Sub)) {
			return true
		}
	}
	return false
}

// parent states of the account under test: absent; plain funded; nonce only; contract
const nFinBases = 4

type finBase struct {
	present bool
	nonce   uint64
	bal     int64
	code    bool
}

var finBases = []finBase{{}, {true, 0, 7, false}, {true, 3, 0, false}, {true, 1, 5, true}}

func (b finBase) coq() string {
	if !b.present {
		return "None"
	}
	return fmt.Sprintf("(Some (%d, %s, %s))", b.nonce, coqZi(b.bal), hlib.CoqBool(b.code))
}

// one observation; every field is a projection of StateDB state (no pointers, no hashes)
type finObs struct {
	Obj                string // "-" or deleted/suicided/nonce/balance/hascode
	Destruct, SnapAcct bool
	JLen, Dirt         int
	Pending, Dirty     bool
	Trie               string
	objCoq, trieCoq    string
}

func (o finObs) fields() map[string]string {
	return map[string]string{
		"object": o.Obj, "snap-destructs": fmt.Sprint(o.Destruct), "snap-accounts": fmt.Sprint(o.SnapAcct),
		"journal": fmt.Sprint(o.JLen), "dirties": fmt.Sprint(o.Dirt), "pending": fmt.Sprint(o.Pending),
		"objects-dirty": fmt.Sprint(o.Dirty), "trie": o.Trie,
	}
}

func (o finObs) coq() string {
	return fmt.Sprintf("(%s, %s, %s, %d, %d, %s, %s, %s)", o.objCoq, hlib.CoqBool(o.Destruct), hlib.CoqBool(o.SnapAcct),
		o.JLen, o.Dirt, hlib.CoqBool(o.Pending), hlib.CoqBool(o.Dirty), o.trieCoq)
}

var finAddrHash = fmt.Sprintf("%x", crypto.Keccak256(finAddr.Bytes()))

func finObserve(s *state.StateDB) finObs {
	var o finObs
	v := s.VerifC12Account(finAddr, nil)
	if !v.Present {
		o.Obj, o.objCoq = "-", "None"
	} else {
		hasCode := len(v.Code) > 0
		o.Obj = fmt.Sprintf("deleted=%v suicided=%v nonce=%d balance=%s code=%v", v.Deleted, v.Suicided, v.Nonce, v.Balance, hasCode)
		o.objCoq = fmt.Sprintf("Some (%s, %s, %d, %s, %s)", hlib.CoqBool(v.Deleted), hlib.CoqBool(v.Suicided), v.Nonce, coqZ(v.Balance), hlib.CoqBool(hasCode))
	}
	ds, as, _ := s.VerifC12SnapBookkeeping()
	for _, h := range ds {
		if h == finAddrHash {
			o.Destruct = true
		}
	}
	for _, h := range as {
		if h == finAddrHash {
			o.SnapAcct = true
		}
	}
	o.JLen = s.VerifC12JournalLen()
	da, dc := s.VerifC12Dirties()
	for i, a := range da {
		if string(a) == string(finAddr.Bytes()) {
			o.Dirt = dc[i]
		}
	}
	o.Pending, o.Dirty, _ = s.VerifC12Lifecycle(finAddr)
	tp, tn, tb, tc := s.VerifC12TrieAccount(finAddr)
	if !tp {
		o.Trie, o.trieCoq = "-", "None"
	} else {
		o.Trie = fmt.Sprintf("nonce=%d balance=%s code=%v", tn, tb, tc)
		o.trieCoq = fmt.Sprintf("Some (%d, %s, %s)", tn, coqZ(tb), hlib.CoqBool(tc))
	}
	return o
}

type finRun struct {
	obs    [][2]finObs // per transaction: after its frames, after its boundary
	root   common.Hash // Commit at the end
	view   string      // the account read from a StateDB opened on the committed root
	traces []string    // failed frames that left a trace: "<field>: at snapshot .. after revert .."
	fields []string
}

func finApply(s *state.StateDB, f FFrame) {
	switch f.Op {
	case "Create":
		s.CreateAccount(finAddr)
	case "Credit":
		s.AddBalance(finAddr, big.NewInt(f.V))
	case "SetNonce":
		s.SetNonce(finAddr, uint64(f.V))
	case "SetCode":
		s.SetCode(finAddr, []byte{0x60, 0x00})
	case "Suicide":
		s.Suicide(finAddr)
	default:
		panic("fin op " + f.Op)
	}
}

func runFin(base int, txs []FTx, withSnaps bool) (r finRun, ok bool) {
	ok = !safe(func() {
		e := newChainEnv(withSnaps)
		s0 := e.open(types.EmptyRootHash, big.NewInt(0), withSnaps)
		populate(s0)
		if b := finBases[base]; b.present {
			s0.SetBalance(finAddr, big.NewInt(b.bal))
			s0.SetNonce(finAddr, b.nonce)
			if b.code {
				s0.SetCode(finAddr, []byte{0x60, 0x00})
			}
		}
		root0, err := s0.Commit(true)
		if err != nil {
			panic(err)
		}
		s := e.open(root0, s0.GetQuaiTrieSize(), withSnaps)
		if s.VerifC12SnapActive() != withSnaps {
			panic("snapshot layer of the parent state missing")
		}
		s.Prepare(thash, 0)
		var rec func(fs []FFrame)
		rec = func(fs []FFrame) {
			for _, f := range fs {
				if !f.Call {
					finApply(s, f)
					continue
				}
				var before finObs
				if f.Fail {
					before = finObserve(s)
				}
				id := s.Snapshot()
				rec(f.Sub)
				if f.Fail {
					s.RevertToSnapshot(id)
					after := finObserve(s)
					bf, af := before.fields(), after.fields()
					for _, k := range hlib.SortedKeys(bf) {
						if bf[k] != af[k] {
							r.fields = append(r.fields, k)
							r.traces = append(r.traces, fmt.Sprintf("%s: %s at the snapshot, %s after the revert of %s", k, bf[k], af[k], f))
						}
					}
				}
			}
		}
		for i, tx := range txs {
			rec(tx.F)
			o1 := finObserve(s)
			if tx.Root {
				apply(s, rootTx(i+1))
			} else {
				apply(s, endTx(i+1))
			}
			r.obs = append(r.obs, [2]finObs{o1, finObserve(s)})
		}
		root, err := s.Commit(true)
		if err != nil {
			panic(err)
		}
		r.root = root
		s2 := e.open(root, s.GetQuaiTrieSize(), withSnaps)
		r.view = fmt.Sprintf("%v/%d/%s/%x/%s", s2.Exist(finAddr), s2.GetNonce(finAddr), s2.GetBalance(finAddr), s2.GetCode(finAddr), s.GetQuaiTrieSize())
	})
	return
}

func (c *ctx) evalFin(base int, txs []FTx, src string, emit bool) {
	for _, snaps := range []bool{false, true} {
		c.evalFinOne(base, txs, snaps, src, emit)
	}
}

func (c *ctx) evalFinOne(base int, txs []FTx, snaps bool, src string, emit bool) {
	for once := true; once; once = false {
		cj := FinCase{ID: -1, Mode: "fin", Base: base, Snaps: snaps, Txs: txs, Src: src}
		if emit {
			cj.ID = c.finID
		}
		r, ok := runFin(base, txs, snaps)
		c.rep.Evaluations++
		c.rep.Count(fmt.Sprintf("fin:base%d", base))
		if !ok {
			c.fail("fin/panic", "an account block panicked", cj)
			continue
		}
		for i, f := range r.fields {
			c.fail("fin/failed-frame-left-trace/"+f, r.traces[i], cj)
		}
		hasFail := false
		erased := make([]FTx, len(txs))
		for i, tx := range txs {
			hasFail = hasFail || finHasFail(tx.F)
			erased[i] = FTx{F: finErase(tx.F), Root: tx.Root}
		}
		if hasFail {
			c.rep.Nontrivial(fmt.Sprintf("fin|%d|%v|%d", base, snaps, len(txs)))
			if r2, ok2 := runFin(base, erased, snaps); ok2 {
				for i := range r.obs {
					b1, b2 := r.obs[i][1].fields(), r2.obs[i][1].fields()
					for _, k := range hlib.SortedKeys(b1) {
						if b1[k] != b2[k] {
							c.fail("fin/erasure/"+k, fmt.Sprintf("after the boundary of transaction %d: %s = %s, but %s in the block without its failed frames", i+1, k, b1[k], b2[k]), cj)
						}
					}
				}
				if r.root != r2.root || r.view != r2.view {
					c.fail("fin/erasure/commit", fmt.Sprintf("Commit: root %x account %s, but root %x account %s in the block without its failed frames", r.root[:4], r.view, r2.root[:4], r2.view), cj)
				}
			} else {
				c.fail("fin/panic", "the account block without its failed frames panicked", cj)
			}
		}
		if !emit {
			continue
		}
		var bl, ob []string
		for i, tx := range txs {
			var l []string
			for _, f := range tx.F {
				l = append(l, f.coq())
			}
			bl = append(bl, hlib.CoqPair(hlib.CoqList(l), hlib.CoqBool(tx.Root)))
			ob = append(ob, hlib.CoqPair(r.obs[i][0].coq(), r.obs[i][1].coq()))
		}
		c.cw.Add(fmt.Sprintf("CF %d %s %s %s %s", c.finID, hlib.CoqBool(snaps), finBases[base].coq(), hlib.CoqList(bl), hlib.CoqList(ob)), cj)
		c.rep.TracesValidated++
		c.rep.Count("fin:coq-case")
		c.finID++
	}
}

// ---------- generators ----------

var finOps = []FFrame{fo("Create", 0), fo("Credit", 4), fo("Credit", 0), fo("SetNonce", 2), fo("SetCode", 0), fo("Suicide", 0)}

type finCorpusCase struct {
	base int
	txs  []FTx
}

func finCorpus() []finCorpusCase {
	cr, c4, c0, n2, sc, su := finOps[0], finOps[1], finOps[2], finOps[3], finOps[4], finOps[5]
	return []finCorpusCase{
		// self-destruct in tx 1 (Finalize marks the destruct); a re-creation in a failed frame of tx 2 must not erase the mark
		{1, []FTx{{F: []FFrame{su}}, {F: []FFrame{fcall(true, cr, c4)}}}},
		{3, []FTx{{F: []FFrame{su}}, {F: []FFrame{fcall(true, cr, n2)}, Root: true}}},
		// the same, the failed re-creation followed by a kept one (resurrect)
		{1, []FTx{{F: []FFrame{su}}, {F: []FFrame{fcall(true, cr, c4), cr, n2}}}},
		// first re-creation of a live account of the parent state inside a failed frame: the mark must go away again
		{1, []FTx{{F: []FFrame{fcall(true, cr, c4)}}}},
		{2, []FTx{{F: []FFrame{fcall(true, cr)}, Root: true}, {F: []FFrame{c4}}}},
		// two re-creations, the inner one fails: the outer mark stays
		{3, []FTx{{F: []FFrame{fcall(false, cr, n2, fcall(true, cr, c4))}}}},
		{3, []FTx{{F: []FFrame{fcall(true, cr, n2, fcall(false, cr, c4))}}}},
		// creation of an absent account inside a failed frame, then for real; then emptied again
		{0, []FTx{{F: []FFrame{fcall(true, c4), n2}}, {F: []FFrame{fcall(true, su)}}}},
		{0, []FTx{{F: []FFrame{fcall(true, fcall(false, c4)), c0}}, {F: []FFrame{c4}, Root: true}}},
		// touch of an empty account (deleted at the boundary) vs the touch reverted
		{0, []FTx{{F: []FFrame{c0}}, {F: []FFrame{fcall(true, c0)}}}},
		// self-destruct reverted, then kept; code deposit reverted
		{3, []FTx{{F: []FFrame{fcall(true, su), c4}, Root: true}, {F: []FFrame{su, fcall(true, c4)}}, {F: []FFrame{fcall(true, cr, sc), c4}}}},
		{2, []FTx{{F: []FFrame{fcall(true, sc), fcall(false, n2)}}, {F: []FFrame{fcall(true, su, fcall(true, cr))}, Root: true}}},
	}
}

func randFFrames(r *hlib.Rng, n, depth int) []FFrame {
	var out []FFrame
	for i := 0; i < n; i++ {
		if depth > 0 && r.Chance(40) {
			out = append(out, FFrame{Call: true, Sub: randFFrames(r, 1+r.Intn(3), depth-1), Fail: r.Chance(60)})
		} else {
			out = append(out, finOps[r.Intn(len(finOps))])
		}
	}
	return out
}

func finCases(c *ctx, rng *hlib.Rng, thorough bool) {
	for _, cc := range finCorpus() {
		c.evalFin(cc.base, cc.txs, "corpus", true)
	}
	// [tx1: first?] boundary [tx2: frame{a}FAIL ; b?]
	firsts := [][]FFrame{{}, {finOps[5]}, {finOps[1]}, {finOps[0], finOps[3]}}
	n := 0
	for base := 0; base < nFinBases; base++ {
		for fi, first := range firsts {
			for _, root := range []bool{false, true} {
				for _, a := range finOps {
					for bi := -1; bi < len(finOps); bi++ {
						tx2 := []FFrame{fcall(true, a)}
						if bi >= 0 {
							tx2 = append(tx2, finOps[bi])
						}
						if !thorough && rng.Intn(8) != 0 {
							continue
						}
						c.evalFin(base, []FTx{{F: first, Root: root}, {F: tx2}}, fmt.Sprintf("enum-first%d", fi), n%4 == 0)
						n++
					}
				}
			}
		}
	}
	nr := 80
	if thorough {
		nr = 2500
	}
	for i := 0; i < nr; i++ {
		ntx := 1 + rng.Intn(3)
		txs := make([]FTx, ntx)
		for j := range txs {
			txs[j] = FTx{F: randFFrames(rng, 1+rng.Intn(4), 2), Root: rng.Chance(25)}
		}
		c.evalFin(rng.Intn(nFinBases), txs, "random", i%3 == 0 && (!thorough || i%9 == 0))
	}
}

// addOld writes a case of Model/C12.v (CS, CE, CO, CM, CL) into the case type of Model/C12_All.v.
func (c *ctx) addOld(term string, cj any) { c.cw.Add("Old ("+term+")", cj) }

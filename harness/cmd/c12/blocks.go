// Block level of C12: histories with transaction boundaries (Finalize) run on the real StateDB
// WITH and WITHOUT a snapshot tree (core/state/snapshot, as the state processor uses it), committed,
// and read back in a following block through both backends.
//
// Monitors:
//   revert-restores/*            (runHistory) now also on a snapshot-backed StateDB, including the
//                                snapshot-side bookkeeping snapDestructs / snapAccounts / snapStorage;
//   backend/root-differs         root or trie size after Commit depends on whether a snapshot layer exists;
//   backend/view-differs         the committed post-state read through the snapshot layers differs from
//                                the same state read from the trie (accounts, code, size counter, slots);
//   backend/next-root-differs    the same writes applied in the next block give different roots;
//   erasure/block-*              root / trie size / views after the block == after the block without
//                                its reverted frames (effects of earlier transactions and of sibling
//                                frames included), on each backend.
package main

import (
	"fmt"
	"math/big"
	"strings"

	"github.com/dominant-strategies/go-quai/common"
	"github.com/dominant-strategies/go-quai/core/rawdb"
	"github.com/dominant-strategies/go-quai/core/state"
	"github.com/dominant-strategies/go-quai/core/state/snapshot"
	"github.com/dominant-strategies/go-quai/core/types"

	"verifharness/hlib"
)

type BlockCase struct {
	ID   int    `json:"id"`
	Mode string `json:"mode"` // "block"
	Base int    `json:"base"`
	Ops  []Op   `json:"ops"`
	Src  string `json:"src,omitempty"`
}

type chainEnv struct {
	db    state.Database
	snaps *snapshot.Tree
}

func newChainEnv(withSnaps bool) *chainEnv {
	raw := rawdb.NewMemoryDatabase(logger)
	e := &chainEnv{db: state.NewDatabase(raw)}
	if withSnaps {
		t, err := snapshot.New(raw, e.db.TrieDB(), 1, types.EmptyRootHash, true, false, logger)
		if err != nil || t == nil {
			panic(fmt.Sprint("snapshot.New: ", err))
		}
		t.VerifC12WaitBuild()
		e.snaps = t
	}
	return e
}

func (e *chainEnv) open(root common.Hash, size *big.Int, snaps bool) *state.StateDB {
	var t *snapshot.Tree
	if snaps {
		t = e.snaps
	}
	s, err := state.New(root, types.EmptyRootHash, size, e.db, e.db, t, loc, logger)
	if err != nil {
		panic(err)
	}
	return s
}

const nBases = 2

// block 0: the parent state, written through the real API on the backend under test
func (e *chainEnv) buildBase(base int) (common.Hash, *big.Int) {
	s := e.open(types.EmptyRootHash, big.NewInt(0), e.snaps != nil)
	populate(s)
	if base == 1 {
		s.SetState(addrs[1], slots[0], common.BytesToHash([]byte{9}))
		s.SetCode(addrs[1], []byte{3, 3})
		s.SetNonce(addrs[1], 2)
	}
	root, err := s.Commit(true)
	if err != nil {
		panic(err)
	}
	return root, s.GetQuaiTrieSize()
}

func committable(s *state.StateDB) bool {
	for _, a := range addrs {
		v := s.VerifC12Account(a, nil)
		if v.Present && (v.Balance.Sign() < 0 || v.Size.Sign() < 0) {
			return false
		}
	}
	return true
}

// view reads the accounts through the public API of a StateDB opened on a committed root.
func view(s *state.StateDB) string { return viewX(s, true) }

func viewX(s *state.StateDB, withSize bool) string {
	var sb strings.Builder
	for _, a := range addrs {
		sz := "-"
		if withSize {
			sz = s.GetSize(a).String()
		}
		fmt.Fprintf(&sb, "%v/%d/%s/%x/%s/", s.Exist(a), s.GetNonce(a), s.GetBalance(a), s.GetCode(a), sz)
		for _, k := range slots {
			fmt.Fprintf(&sb, "%x,", s.GetState(a, k).Big())
		}
		sb.WriteString(";")
	}
	return sb.String()
}

// probe applies the same writes of a "next block" and returns the resulting root.
func probe(s *state.StateDB) (root common.Hash, ok bool) {
	ok = !safe(func() {
		s.Prepare(common.BytesToHash([]byte{0x79}), 0)
		for i, a := range addrs[:2] {
			s.SetState(a, slots[1], common.BytesToHash([]byte{7}))
			s.SetState(a, slots[2], common.Hash{})
			s.AddBalance(a, big.NewInt(int64(3+i)))
		}
		root = s.IntermediateRoot(true)
	})
	return
}

type blockRun struct {
	ok                 bool // committed
	res                *runResult
	fails              []failure
	root               common.Hash
	size               string
	viewTrie, viewSnap string
	viewNS             string // viewTrie without the storage-size counters
	nextTrie, nextSnap common.Hash
	nextOK             bool
	snapActive         bool
}

func runBlock(base int, ops []Op, withSnaps bool, monitors bool) *blockRun {
	return runBlockX(base, ops, withSnaps, monitors, false)
}

// runBlockX: with commitEach every transaction boundary of the history becomes a block boundary
// (Finalize, Commit, a NEW StateDB opened on the committed root): nothing but the committed state can
// flow from one transaction to the next.  ops must not contain Snapshot/Revert then (revision ids restart).
func runBlockX(base int, ops []Op, withSnaps bool, monitors bool, commitEach bool) *blockRun {
	e := newChainEnv(withSnaps)
	root0, size0 := e.buildBase(base)
	s := e.open(root0, size0, withSnaps)
	br := &blockRun{snapActive: s.VerifC12SnapActive()}
	s.Prepare(thash, 0)
	if monitors {
		br.res, br.fails = runHistory(s, ops)
	} else {
		for _, o := range ops {
			if commitEach && (o.K == "EndTx" || o.K == "RootTx") {
				if !committable(s) {
					return br
				}
				var r common.Hash
				var err error
				if safe(func() {
					s.Finalize(true)
					r, err = s.Commit(true)
				}) || err != nil {
					return br
				}
				s = e.open(r, s.GetQuaiTrieSize(), withSnaps)
				s.Prepare(common.BytesToHash([]byte{0x78, byte(o.V)}), int(o.V))
				continue
			}
			apply(s, o)
		}
	}
	if !committable(s) {
		return br
	}
	var root1 common.Hash
	var err error
	if safe(func() {
		s.Finalize(true)
		root1, err = s.Commit(true)
	}) || err != nil {
		return br
	}
	br.ok = true
	br.root = root1
	size1 := s.GetQuaiTrieSize()
	br.size = size1.String()
	vt := e.open(root1, size1, false)
	br.viewTrie = view(vt)
	br.viewNS = viewX(vt, false)
	var okT, okS bool
	br.nextTrie, okT = probe(vt)
	okS = true
	if withSnaps {
		vs := e.open(root1, size1, true)
		if !vs.VerifC12SnapActive() {
			br.viewSnap = "no snapshot layer for the committed root"
		} else {
			br.viewSnap = view(vs)
		}
		br.nextSnap, okS = probe(vs)
	}
	br.nextOK = okT && okS
	return br
}

func (c *ctx) evalBlock(base int, ops []Op, src string) {
	c.rep.Evaluations++
	c.rep.Count("block:src:" + src)
	cj := BlockCase{ID: -1, Mode: "block", Base: base, Ops: ops, Src: src}
	var fails []failure
	runs := map[bool]*blockRun{}
	for _, withSnaps := range []bool{false, true} {
		name := "trie"
		if withSnaps {
			name = "snapshot"
		}
		br := runBlock(base, ops, withSnaps, true)
		runs[withSnaps] = br
		if withSnaps && !br.snapActive {
			fails = append(fails, failure{"block/harness", "the snapshot-backed StateDB has no snapshot layer"})
		}
		for _, f := range br.fails {
			fails = append(fails, failure{f.sig, "[" + name + " backend] " + f.what})
		}
		if !br.ok {
			c.rep.Count("block:not-committable")
			continue
		}
		if withSnaps {
			if br.viewSnap != br.viewTrie {
				fails = append(fails, failure{"backend/view-differs", fmt.Sprintf("post-state of the block read through the snapshot layers: %s ; read from the trie: %s", br.viewSnap, br.viewTrie)})
			}
			if br.nextOK && br.nextSnap != br.nextTrie {
				fails = append(fails, failure{"backend/next-root-differs", fmt.Sprintf("the same writes in the next block give root %x on the snapshot-backed state and %x on the trie-backed one", br.nextSnap[:6], br.nextTrie[:6])})
			}
		}
		// the block without its reverted frames
		if br.res != nil && br.res.reverted > 0 {
			er := runBlock(base, br.res.erased, withSnaps, false)
			if er.ok {
				c.rep.Count("block:erasure-compared")
				if er.root != br.root || er.size != br.size || er.viewTrie != br.viewTrie || er.viewSnap != br.viewSnap || er.nextTrie != br.nextTrie || er.nextSnap != br.nextSnap {
					sig := "erasure/block-differs"
					if br.res.f8 {
						sig = "f8-suicide-size/root"
					} else if br.res.sizeLeak {
						sig = "sizechange-rejournal/erasure"
					}
					what := "root"
					switch {
					case er.root != br.root || er.size != br.size:
					case er.viewTrie != br.viewTrie:
						what = "post-state (trie)"
					case er.viewSnap != br.viewSnap:
						what = "post-state read through the snapshot layers"
					default:
						what = "root of the next block"
					}
					fails = append(fails, failure{sig, fmt.Sprintf("[%s backend] %s after the block differs from the block without its reverted frames: root %x/%x size %s/%s snapshot view %s / %s",
						name, what, br.root[:6], er.root[:6], br.size, er.size, br.viewSnap, er.viewSnap)})
				}
			}
		}
	}
	// transaction boundaries carry nothing but the committed state: the block (Finalize-only boundaries, one
	// StateDB) == the same transactions without their reverted frames, each committed and re-opened
	if hasBoundary(ops) && boundarySrc(src) {
		for _, withSnaps := range []bool{false, true} {
			br := runs[withSnaps]
			if br == nil || !br.ok || br.res == nil {
				continue
			}
			cm := runBlockX(base, br.res.erased, withSnaps, false, true)
			if !cm.ok {
				continue
			}
			c.rep.Count("block:boundary-compared")
			if cm.root != br.root || cm.size != br.size || cm.viewTrie != br.viewTrie || cm.viewSnap != br.viewSnap || cm.nextTrie != br.nextTrie {
				sig := "txboundary/block-differs"
				if br.res.f8 {
					sig = "f8-suicide-size/root"
				} else if br.res.sizeLeak {
					sig = "sizechange-rejournal/erasure"
				} else if hasRootTx(ops) && cm.viewNS == br.viewNS {
					// only the storage-size counters differ and the history computed a root in the middle of
					// the block (not done in production): see design/C12.md, finding "size counter after a
					// mid-block root"
					sig = "midblock-root-size-counter/txboundary"
				}
				name := map[bool]string{false: "trie", true: "snapshot"}[withSnaps]
				fails = append(fails, failure{sig, fmt.Sprintf("[%s backend] the block run on one StateDB with Finalize between its transactions ends in root %x size %s post-state %s ; the same transactions (reverted frames removed) each committed and re-opened from the root end in root %x size %s post-state %s: state of an earlier transaction other than its committed result leaks into a later one",
					name, br.root[:6], br.size, br.viewTrie, cm.root[:6], cm.size, cm.viewTrie)})
			}
		}
	}
	if a, b := runs[false], runs[true]; a.ok && b.ok {
		c.rep.Count("block:backends-compared")
		if a.root != b.root || a.size != b.size {
			fails = append(fails, failure{"backend/root-differs", fmt.Sprintf("root/trie size after the block: %x/%s without a snapshot layer, %x/%s with one", a.root[:6], a.size, b.root[:6], b.size)})
		}
		if a.viewTrie != b.viewTrie {
			fails = append(fails, failure{"backend/root-differs", "post-states differ between the two backends"})
		}
	}
	seen := map[string]bool{}
	for _, f := range fails {
		if !seen[f.sig] {
			seen[f.sig] = true
			c.fail(f.sig, f.what, cj)
		}
	}
	if r := runs[true]; r != nil && r.res != nil {
		ks := hlib.SortedKeys(r.res.kinds)
		c.rep.Nontrivial(fmt.Sprintf("block|%d|%s|%d", base, strings.Join(ks, ","), r.res.reverted))
	}
}

func endTx(i int) Op  { return Op{K: "EndTx", V: int64(i)} }
func rootTx(i int) Op { return Op{K: "RootTx", V: int64(i)} }

func hasRootTx(ops []Op) bool {
	for _, o := range ops {
		if o.K == "RootTx" {
			return true
		}
	}
	return false
}

// The transaction-boundary monitor runs on the blocks whose operations follow what the EVM can do to an
// account (layer-*, acct-boundary, corpus).  The older enumerations and the random blocks issue
// sequences the EVM cannot (a zero SSTORE that instantiates an object over a destroyed predecessor and
// journals nothing; CreateAccount over a live account that has storage): there the two ways of running
// the block differ on the unchanged code for the documented resetObjectChange reason (false alarm 6).
func boundarySrc(src string) bool {
	return strings.HasPrefix(src, "layer-") || src == "acct-boundary" || src == "corpus"
}

func hasBoundary(ops []Op) bool {
	for _, o := range ops {
		if o.K == "EndTx" || o.K == "RootTx" {
			return true
		}
	}
	return false
}

func blockCorpus() []corpusCase {
	return []corpusCase{
		// a reverted frame re-creates an account that an EARLIER transaction of the block destroyed
		{0, []Op{op("Suicide", 0), endTx(1), snap(), op("CreateAccount", 0), {K: "AddBalance", A: 0, V: 5}, rev(0), {K: "AddBalance", A: 1, V: 1}}},
		{0, []Op{op("Suicide", 0), endTx(1), snap(), {K: "AddBalance", A: 0, V: 5}, rev(0)}},
		{0, []Op{op("Suicide", 0), endTx(1), snap(), {K: "SetState", A: 0, S: 0, V: 4}, rev(0)}},
		{0, []Op{op("Suicide", 0), endTx(1), snap(), {K: "SetCode", A: 0, C: []byte{7}}, {K: "SetNonce", A: 0, V: 1}, rev(0), endTx(2), {K: "AddBalance", A: 1, V: 1}}},
		{0, []Op{{K: "SubBalance", A: 1, V: 5}, endTx(1), snap(), {K: "AddBalance", A: 1, V: 2}, rev(0)}}, // emptied and deleted, then touched in a reverted frame
		{0, []Op{op("Suicide", 0), endTx(1), snap(), snap(), op("CreateAccount", 0), rev(1), {K: "AddBalance", A: 1, V: 1}, rev(0)}},
		{0, []Op{op("Suicide", 0), endTx(1), snap(), op("CreateAccount", 0), {K: "SetNonce", A: 0, V: 1}, snap(), {K: "SetState", A: 0, S: 1, V: 4}, rev(1)}}, // re-creation kept, inner frame reverted
		{1, []Op{op("Suicide", 1), endTx(1), snap(), op("CreateAccount", 1), {K: "SetState", A: 1, S: 0, V: 3}, rev(0), endTx(2), snap(), {K: "AddBalance", A: 1, V: 1}, rev(2)}},
		{0, []Op{snap(), op("CreateAccount", 0), rev(0), endTx(1), op("Suicide", 0)}},
		// CreateAccount over an account of the parent state, then storage writes (size counter, storage root)
		{0, []Op{op("CreateAccount", 0), {K: "SetNonce", A: 0, V: 1}, {K: "SetState", A: 0, S: 0, V: 5}}},
		{0, []Op{op("CreateAccount", 0), {K: "SetState", A: 0, S: 0, V: 5}, {K: "SetState", A: 0, S: 1, V: 2}, {K: "SetNonce", A: 0, V: 1}}},
		{0, []Op{op("CreateAccount", 0), {K: "AddBalance", A: 0, V: 1}, endTx(1), {K: "SetState", A: 0, S: 2, V: 8}}},
		{0, []Op{op("Suicide", 0), endTx(1), {K: "SetState", A: 0, S: 0, V: 5}, {K: "SetBalance", A: 0, V: 1}}},
		{1, []Op{op("CreateAccount", 1), {K: "SetNonce", A: 1, V: 1}, {K: "SetState", A: 1, S: 0, V: 9}, {K: "SetState", A: 1, S: 1, V: 1}}},
		{1, []Op{op("CreateAccount", 1), {K: "AddBalance", A: 1, V: 1}, {K: "SetState", A: 1, S: 0, V: 0}}},
		{0, []Op{snap(), op("CreateAccount", 0), {K: "SetState", A: 0, S: 0, V: 5}, rev(0), {K: "SetState", A: 0, S: 0, V: 6}}},
		{0, []Op{{K: "SetState", A: 0, S: 0, V: 0}, {K: "SetState", A: 0, S: 1, V: 0}, endTx(1), {K: "SetState", A: 0, S: 0, V: 3}}},
		{0, []Op{{K: "SetState", A: 1, S: 0, V: 3}, endTx(1), op("Suicide", 1), endTx(2), {K: "SetState", A: 1, S: 1, V: 3}, {K: "AddBalance", A: 1, V: 1}}},
	}
}

// the alphabet of the block enumeration: account-level writes on both accounts.  CreateAccount comes
// the way the EVM issues it: followed at once by SetNonce(1) (EVM.create) or by the credit of the
// transferred value (EVM.Call -> Transfer; Call creates only accounts that do not exist, for which even
// a zero credit is a journalled touch).  A CreateAccount over a live account that is followed by no
// journalled write of that account is not an EVM behaviour (resetObjectChange dirties nothing, so the
// reset never reaches the trie while the snapshot bookkeeping records a destruct) and is left out of
// the block level.
func blockAlphabet() [][]Op {
	var l [][]Op
	for a := 0; a < 2; a++ {
		l = append(l, []Op{{K: "AddBalance", A: a, V: 2}}, []Op{{K: "SetNonce", A: a, V: 5}}, []Op{{K: "SetCode", A: a, C: []byte{9}}},
			[]Op{{K: "SetState", A: a, S: 0, V: 2}}, []Op{{K: "SetState", A: a, S: 0, V: 0}}, []Op{{K: "Suicide", A: a}},
			[]Op{{K: "CreateAccount", A: a}, {K: "SetNonce", A: a, V: 1}}, []Op{{K: "CreateAccount", A: a}, {K: "AddBalance", A: a, V: 1}})
	}
	return l
}

func firstTxs() [][]Op {
	return [][]Op{
		{op("Suicide", 0)}, {op("Suicide", 1)}, {op("CreateAccount", 0), {K: "SetNonce", A: 0, V: 1}}, {op("CreateAccount", 1), {K: "AddBalance", A: 1, V: 3}},
		{{K: "SetState", A: 0, S: 0, V: 2}}, {{K: "SetState", A: 0, S: 0, V: 0}}, {{K: "AddBalance", A: 0, V: 0}}, {{K: "SetBalance", A: 1, V: 0}},
	}
}

func randomBlock(r *hlib.Rng, base int) []Op {
	e := newChainEnv(false)
	root0, size0 := e.buildBase(base)
	s := e.open(root0, size0, false)
	s.Prepare(thash, 0)
	var h []Op
	ntx := 2 + r.Intn(3)
	for t := 0; t < ntx; t++ {
		h = append(h, randomOps(r, s, 2+r.Intn(9), true)...)
		if t < ntx-1 {
			o := endTx(t + 1)
			apply(s, o)
			h = append(h, o)
		}
	}
	return h
}

func blockCases(c *ctx, rng *hlib.Rng, thorough bool) {
	for _, cc := range blockCorpus() {
		c.evalBlock(cc.setup, cc.ops, "corpus")
	}
	al := blockAlphabet()
	firsts := firstTxs()
	cat := func(l ...[]Op) []Op {
		var h []Op
		for _, x := range l {
			h = append(h, x...)
		}
		return h
	}
	mk := func(first []Op, prefix, body []Op) []Op {
		h := append(append([]Op{}, first...), endTx(1))
		h = append(h, prefix...)
		h = append(h, snap())
		h = append(h, body...)
		return append(h, rev(0))
	}
	n := 0
	// every first transaction x every single-operation reverted frame
	for _, f := range firsts {
		for _, b := range al {
			c.evalBlock(0, mk(f, nil, b), "enum-1")
			n++
		}
	}
	if thorough {
		for base := 0; base < nBases; base++ {
			for _, f := range firsts {
				for _, x := range al {
					for _, y := range al {
						c.evalBlock(base, mk(f, x, y), "enum-2")
						c.evalBlock(base, mk(f, nil, cat(x, y)), "enum-2")
						c.evalBlock(base, cat(f, []Op{endTx(1)}, x, y), "enum-plain")
						n += 3
					}
				}
			}
		}
	} else {
		for i := 0; i < 260; i++ {
			f := firsts[rng.Intn(len(firsts))]
			x, y := al[rng.Intn(len(al))], al[rng.Intn(len(al))]
			switch i % 3 {
			case 0:
				c.evalBlock(rng.Intn(nBases), mk(f, x, y), "enum-2-sampled")
			case 1:
				c.evalBlock(rng.Intn(nBases), mk(f, nil, cat(x, y)), "enum-2-sampled")
			default:
				c.evalBlock(rng.Intn(nBases), cat(f, []Op{endTx(1)}, x, y), "enum-plain-sampled")
			}
			n++
		}
	}
	nr := 60
	if thorough {
		nr = 1500
	}
	for i := 0; i < nr; i++ {
		base := rng.Intn(nBases)
		c.evalBlock(base, randomBlock(rng.Fork(), base), "random")
	}
	c.rep.Note(fmt.Sprintf("block level: %d enumerated two-transaction blocks (first transaction x reverted frame) + %d random multi-transaction blocks, each on a trie-backed and a snapshot-backed StateDB, with and without the reverted frames", n, nr))
}

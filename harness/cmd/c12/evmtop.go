// Top-level calls of C12: a transaction whose destination is not an account of this chain's Quai
// ledger is turned into an outbound ETX by EVM.CreateETX (cross-zone transfer, Quai->Qi conversion)
// or handled by the lockup contract (claim, unwrap).  These paths fail LATE - after the sender was
// debited / the wrapped balance was reduced - when the destination slice is not eligible or the ETX
// index would overflow; the caller (EVM.Call) must unwind.  Monitor: a failed top-level call leaves
// the side lists and every watched account as at entry; a successful one has exactly its effect.
package main

import (
	"encoding/binary"
	"fmt"
	"math/big"

	"github.com/dominant-strategies/go-quai/common"
	"github.com/dominant-strategies/go-quai/core/rawdb"
	"github.com/dominant-strategies/go-quai/core/state"
	"github.com/dominant-strategies/go-quai/core/types"
	"github.com/dominant-strategies/go-quai/core/vm"
	"github.com/dominant-strategies/go-quai/ethdb"
	"github.com/dominant-strategies/go-quai/params"
)

type TopCase struct {
	ID       int    `json:"id"`
	Mode     string `json:"mode"` // "top"
	Shape    string `json:"shape"`
	Dest     string `json:"dest"` // ext-quai ext-qi convert claim unwrap
	Prefill  int    `json:"prefill"`
	Eligible bool   `json:"eligible"`
	Gas      uint64 `json:"gas"`
	Value    string `json:"value"`
	Record   bool   `json:"record"` // a lockup record / wrapped balance exists
	WantOK   bool   `json:"want_ok"`
}

func topCorpus() []TopCase {
	big1 := "1000"
	conv := new(big.Int).Add(minConv, big.NewInt(5)).String()
	g := uint64(1000000)
	l := []TopCase{
		{Shape: "ext-quai/eligible", Dest: "ext-quai", Eligible: true, Gas: g, Value: big1, WantOK: true},
		{Shape: "ext-quai/eligible-after-others", Dest: "ext-quai", Prefill: 3, Eligible: true, Gas: g, Value: big1, WantOK: true},
		{Shape: "ext-quai/ineligible", Dest: "ext-quai", Eligible: false, Gas: g, Value: big1},
		{Shape: "ext-quai/ineligible-zero-value", Dest: "ext-quai", Eligible: false, Gas: g, Value: "0"},
		{Shape: "ext-quai/index-overflow", Dest: "ext-quai", Prefill: 65536, Eligible: true, Gas: g, Value: big1},
		{Shape: "ext-quai/index-last", Dest: "ext-quai", Prefill: 65535, Eligible: true, Gas: g, Value: big1, WantOK: true},
		{Shape: "ext-quai/low-gas", Dest: "ext-quai", Eligible: true, Gas: params.ETXGas + params.TxGas - 1, Value: big1},
		{Shape: "ext-quai/no-gas", Dest: "ext-quai", Eligible: true, Gas: params.ETXGas - 1, Value: big1},
		{Shape: "ext-quai/insufficient-balance", Dest: "ext-quai", Eligible: true, Gas: g, Value: "2000000000000000000000000000"},
		{Shape: "ext-qi/other-zone", Dest: "ext-qi", Eligible: true, Gas: g, Value: big1},
		{Shape: "convert/ok", Dest: "convert", Eligible: true, Gas: g, Value: conv, WantOK: true},
		{Shape: "convert/ineligible-slices-ignored", Dest: "convert", Eligible: false, Gas: g, Value: conv, WantOK: true},
		{Shape: "convert/index-overflow", Dest: "convert", Prefill: 65536, Eligible: true, Gas: g, Value: conv},
		{Shape: "convert/below-minimum", Dest: "convert", Eligible: true, Gas: g, Value: big1},
		{Shape: "claim/ok", Dest: "claim", Eligible: true, Gas: g, Value: "0", Record: true, WantOK: true},
		{Shape: "claim/no-record", Dest: "claim", Eligible: true, Gas: g, Value: "0"},
		{Shape: "claim/index-overflow", Dest: "claim", Prefill: 65536, Eligible: true, Gas: g, Value: "0", Record: true},
		{Shape: "unwrap/ok", Dest: "unwrap", Eligible: true, Gas: g, Value: "0", Record: true, WantOK: true},
		{Shape: "unwrap/no-balance", Dest: "unwrap", Eligible: true, Gas: g, Value: "0"},
		{Shape: "unwrap/index-overflow", Dest: "unwrap", Prefill: 65536, Eligible: true, Gas: g, Value: "0", Record: true},
	}
	for i := range l {
		l[i].ID = -1
		l[i].Mode = "top"
	}
	return l
}

func (c *ctx) evalTop(tc TopCase) {
	c.rep.Evaluations++
	c.rep.Count("top:" + tc.Shape)
	vm.InitializePrecompiles(loc)
	lockup := vm.LockupContractAddresses[[2]byte{0, 0}]
	raw := rawdb.NewMemoryDatabase(logger)
	s := newState(types.EmptyRootHash, state.NewDatabase(raw))
	s.ConfigureAccessListChecks(false)
	oi, _ := treeOrigin.InternalAndQuaiAddress()
	li, _ := lockup.InternalAndQuaiAddress()
	s.SetBalance(oi, endowment(0))
	s.SetNonce(oi, 1)
	ownerKey := common.BytesToHash(oi[:])
	if tc.Dest == "unwrap" && tc.Record {
		s.SetState(li, ownerKey, common.BigToHash(big.NewInt(900)))
	}
	if tc.Dest == "claim" && tc.Record {
		if _, err := rawdb.WriteCoinbaseLockup(raw, treeOrigin, treeBeneficiary, 1, 0, big.NewInt(1000), 5, 3, common.Zero); err != nil {
			panic(err)
		}
	}
	var batch ethdb.Batch = raw.NewBatch()
	batch.SetPending(true)
	txCtx := vm.TxContext{Origin: treeOrigin, GasPrice: big.NewInt(1), Hash: common.BytesToHash([]byte{0xc1, 0x5})}
	evm := vm.NewEVM(treeBlockCtx(2000000, func(uint64) common.Hash { return common.Hash{} }, tc.Eligible), txCtx, s,
		&params.ChainConfig{ChainID: big.NewInt(1), Location: loc}, vm.Config{}, batch)
	if tc.Prefill > 0 {
		to := extQuaiAddr()
		dummy := types.NewTx(&types.ExternalTx{To: &to, Sender: treeOrigin, Value: big.NewInt(0), Gas: params.TxGas})
		pre := make([]*types.Transaction, tc.Prefill, tc.Prefill+4)
		for i := range pre {
			pre[i] = dummy
		}
		evm.ETXCache = pre
	}
	var to common.Address
	var input []byte
	switch tc.Dest {
	case "ext-quai":
		to = extQuaiAddr()
	case "ext-qi":
		b := make([]byte, 20)
		b[0], b[1], b[19] = 0x01, 0x80, 0x97
		to = common.BytesToAddress(b, loc)
	case "convert":
		to = qiAddr()
	case "claim":
		to = lockup
		input = make([]byte, 53)
		copy(input[:20], treeBeneficiary.Bytes())
		copy(input[20:40], treePayoutTo.Bytes())
		input[40] = 1
		binary.BigEndian.PutUint64(input[45:53], params.TxGas)
	case "unwrap":
		to = lockup
		input = make([]byte, 60)
		copy(input[:20], qiAddr().Bytes())
		big.NewInt(400).FillBytes(input[20:52])
		binary.BigEndian.PutUint64(input[52:60], params.TxGas)
	}
	value, _ := new(big.Int).SetString(tc.Value, 10)
	watch := []common.InternalAddress{oi, li}
	keys := [4]common.Hash{ownerKey, common.BytesToHash([]byte{1}), common.BytesToHash([]byte{2}), common.BytesToHash([]byte{3})}
	pre := takeSnapKeys(evm, s, watch, keys)
	lockupBefore := func() bool {
		_, h, _, _ := rawdb.ReadCoinbaseLockup(raw, batch, treeOrigin, treeBeneficiary, 1, 0)
		return h != 0
	}()
	var err error
	if safe(func() { _, _, _, err = evm.Call(vm.AccountRef(treeOrigin), to, input, tc.Gas, value) }) {
		c.fail("evm/panic", "top-level call panicked: "+tc.Shape, tc)
		return
	}
	post := takeSnapKeys(evm, s, watch, keys)
	ok := err == nil
	c.rep.Note(fmt.Sprintf("top %s: err=%v etxs %d->%d origin %s->%s", tc.Shape, err, len(pre.etxs), len(post.etxs), pre.accts[0].balance, post.accts[0].balance))
	if ok != tc.WantOK {
		c.fail("evm/top-harness", fmt.Sprintf("%s: expected success=%v, got err=%v", tc.Shape, tc.WantOK, err), tc)
	}
	if !ok {
		for _, f := range diffSnap(pre, post, watch, nil) {
			c.fail("top-call-failed-left-trace/"+tc.Shape+"/"+f, fmt.Sprintf("top-level call %s failed (%v) but %s is not what it was at entry: origin balance %s -> %s, ETX cache %d -> %d",
				tc.Shape, err, f, pre.accts[0].balance, post.accts[0].balance, len(pre.etxs), len(post.etxs)), tc)
		}
	} else {
		b0, _ := new(big.Int).SetString(pre.accts[0].balance, 10)
		b1, _ := new(big.Int).SetString(post.accts[0].balance, 10)
		debit := new(big.Int).Sub(b0, b1)
		wantDebit := value
		wantVal := value
		switch tc.Dest {
		case "claim":
			wantDebit, wantVal = big.NewInt(0), big.NewInt(1000)
		case "unwrap":
			wantDebit, wantVal = big.NewInt(0), big.NewInt(400)
		}
		if len(post.etxs) != len(pre.etxs)+1 || post.etxs[len(post.etxs)-1].Value().Cmp(wantVal) != 0 || int(post.etxs[len(post.etxs)-1].ETXIndex()) != len(pre.etxs) || debit.Cmp(wantDebit) != 0 {
			c.fail("top-call-ok-wrong-effect/"+tc.Shape, fmt.Sprintf("top-level call %s succeeded: ETX cache %d -> %d, origin debited %s (value %s)", tc.Shape, len(pre.etxs), len(post.etxs), debit, value), tc)
		}
	}
	if tc.Dest == "claim" && tc.Record {
		// what the block does next: undo on a failed result, then the batch is written
		if !ok {
			evm.UndoCoinbasesDeleted()
		}
		if e := batch.Write(); e != nil {
			panic(e)
		}
		_, h, _, _ := rawdb.ReadCoinbaseLockup(raw, raw.NewBatch(), treeOrigin, treeBeneficiary, 1, 0)
		gone := lockupBefore && h == 0
		if gone != ok {
			c.fail("f9-lockup-claim-reverted/top/"+tc.Shape, fmt.Sprintf("lockup record gone=%v after the block's batch write, claim paid=%v", gone, ok), tc)
		}
	}
	c.rep.Nontrivial("top|" + tc.Shape)
}

func topCases(c *ctx, only string) {
	for _, tc := range topCorpus() {
		if only == "" || tc.Shape == only {
			c.evalTop(tc)
		}
	}
}

// C12 harness: histories of StateDB mutators with nested Snapshot/RevertToSnapshot on the
// REAL *state.StateDB of /repo (memory database).  For every history it writes a Coq case
// (initial state, ops with observed results, observed final state incl. journal entries,
// dirties and revisions) for comparison with Model/C12.v, and evaluates model-independent
// monitors:
//   revert-restores : full dump right after RevertToSnapshot(id) == dump right after Snapshot() = id
//   erasure         : IntermediateRoot / trie size / accounts after the history == after the same
//                     history with every reverted region removed ("leaves no trace")
//   revert-panicked : RevertToSnapshot of a valid id never panics
package main

import (
	"bytes"
	"encoding/hex"
	"fmt"
	"math/big"
	"os"
	"sort"
	"strconv"
	"strings"
	"time"

	"github.com/dominant-strategies/go-quai/common"
	"github.com/dominant-strategies/go-quai/core/rawdb"
	"github.com/dominant-strategies/go-quai/core/state"
	"github.com/dominant-strategies/go-quai/core/types"
	"github.com/dominant-strategies/go-quai/log"

	"verifharness/hlib"
)

// ---------- universe ----------

var loc = common.Location{0, 0}

func mkAddr(last byte) common.InternalAddress {
	var a common.InternalAddress
	a[19] = last
	return a
}

var addrs = []common.InternalAddress{mkAddr(0x10), mkAddr(0x11), mkAddr(0x03)} // index 2 = RIPEMD precompile address
var slots = []common.Hash{common.BytesToHash([]byte{1}), common.BytesToHash([]byte{2}), common.BytesToHash([]byte{3})}
var preimgs = []common.Hash{common.BytesToHash([]byte{0x21}), common.BytesToHash([]byte{0x22})}
var thash = common.BytesToHash([]byte{0x77})

// ---------- ops ----------

type Op struct {
	K string `json:"k"`
	A int    `json:"a,omitempty"` // address index
	S int    `json:"s,omitempty"` // slot / preimage index
	V int64  `json:"v,omitempty"` // amount / value / id / nonce / gas
	U uint64 `json:"u,omitempty"` // large unsigned (refund)
	C []byte `json:"c,omitempty"` // code / preimage
}

type Out struct {
	Kind string `json:"kind"` // none bool id panic crash
	B    bool   `json:"b,omitempty"`
	N    int    `json:"n,omitempty"`
}

func keyOfBytes(b []byte) string { return "[" + new(big.Int).SetBytes(b).String() + "]" }
func aKey(i int) string          { return keyOfBytes(addrs[i][:]) }
func sKey(i int) string          { return keyOfBytes(slots[i][:]) }
func coqZ(x *big.Int) string {
	if x.Sign() < 0 {
		return "(" + x.String() + ")%Z"
	}
	return x.String() + "%Z"
}
func coqZi(x int64) string { return coqZ(big.NewInt(x)) }

func (o Op) Coq() string {
	switch o.K {
	case "AddBalance", "SubBalance", "SetBalance", "SetSize":
		return fmt.Sprintf("O%s %s %s", o.K, aKey(o.A), coqZi(o.V))
	case "SetNonce":
		return fmt.Sprintf("OSetNonce %s %d", aKey(o.A), o.V)
	case "SetCode":
		return fmt.Sprintf("OSetCode %s %s", aKey(o.A), hlib.CoqBytes(o.C))
	case "SetState":
		return fmt.Sprintf("OSetState %s %s %d", aKey(o.A), sKey(o.S), o.V)
	case "Suicide", "CreateAccount", "GetOrNew", "AddSize", "SubSize":
		return fmt.Sprintf("O%s %s", o.K, aKey(o.A))
	case "AddLog":
		return fmt.Sprintf("OAddLog %d", o.V)
	case "AddPreimage":
		return fmt.Sprintf("OAddPreimage %s %s", keyOfBytes(preimgs[o.S][:]), hlib.CoqBytes(o.C))
	case "AddRefund":
		return fmt.Sprintf("OAddRefund %d", o.U)
	case "SubRefund":
		return fmt.Sprintf("OSubRefund %d", o.U)
	case "ALAddr":
		return fmt.Sprintf("OALAddr %s", aKey(o.A))
	case "ALSlot":
		return fmt.Sprintf("OALSlot %s %s", aKey(o.A), sKey(o.S))
	case "SetTransient":
		return fmt.Sprintf("OSetTransient %s %s %d", aKey(o.A), sKey(o.S), o.V)
	case "Snapshot":
		return "OSnapshot"
	case "Revert":
		return fmt.Sprintf("ORevert %d", o.V)
	}
	panic("op " + o.K)
}

func (o Out) Coq() string {
	switch o.Kind {
	case "none":
		return "OutNone"
	case "bool":
		return "OutBool " + hlib.CoqBool(o.B)
	case "id":
		return fmt.Sprintf("OutId %d", o.N)
	case "panic":
		return "OutPanic"
	case "crash":
		return "OutCrash"
	}
	panic("out")
}

func isSizeOp(k string) bool { return k == "SetSize" || k == "AddSize" || k == "SubSize" }

// ---------- the real StateDB ----------

var logger *log.Logger

func newState(root common.Hash, db state.Database) *state.StateDB {
	s, err := state.New(root, types.EmptyRootHash, big.NewInt(0), db, db, nil, loc, logger)
	if err != nil {
		panic(err)
	}
	return s
}

// setups: pre-states built through the real API (kind 0..5).
const nSetups = 7

func setupName(k int) string {
	return []string{"empty", "live-committed-size3", "live+deleted", "reopened-from-root", "live-journal-base", "live-size-1+1", "deleted-holding-value"}[k]
}

func populate(s *state.StateDB) {
	a0, a1 := addrs[0], addrs[1]
	s.SetBalance(a0, big.NewInt(100))
	s.SetNonce(a0, 1)
	s.SetCode(a0, []byte{1, 2})
	s.SetState(a0, slots[0], common.BytesToHash([]byte{1}))
	s.SetState(a0, slots[1], common.BytesToHash([]byte{2}))
	s.SetState(a0, slots[2], common.BytesToHash([]byte{3}))
	s.SetBalance(a1, big.NewInt(5))
}

func buildSetup(kind int) *state.StateDB {
	db := state.NewDatabase(rawdb.NewMemoryDatabase(logger))
	s := newState(types.EmptyRootHash, db)
	switch kind {
	case 0:
	case 1: // objects live, storage written to the trie: data.Size = 3; journal cleared
		populate(s)
		s.IntermediateRoot(true)
		s.Finalize(true)
	case 2: // plus a self-destructed, finalised (deleted) object in the live set
		populate(s)
		s.IntermediateRoot(true)
		s.Suicide(addrs[1])
		s.Finalize(true)
		s.IntermediateRoot(true)
		s.Finalize(true)
	case 3: // committed, reopened: nothing live, everything loaded from the trie on demand
		populate(s)
		root, err := s.Commit(true)
		if err != nil {
			panic(err)
		}
		s = newState(root, db)
	case 4: // IntermediateRoot leaves sizeChange entries in a fresh journal: non-empty journal/dirties base
		populate(s)
		s.IntermediateRoot(true)
	case 5: // both accounts carry a non-zero size counter
		populate(s)
		s.SetState(addrs[1], slots[0], common.BytesToHash([]byte{9}))
		s.IntermediateRoot(true)
		s.Finalize(true)
	case 6: // both accounts self-destructed and then credited / written in the same transaction: Finalize
		// leaves deleted objects that still hold a balance, a nonce and dirty storage in the live set
		populate(s)
		s.IntermediateRoot(true)
		s.Finalize(true)
		s.Suicide(addrs[0])
		s.AddBalance(addrs[0], big.NewInt(5))
		s.SetState(addrs[0], slots[0], common.BytesToHash([]byte{6}))
		s.Suicide(addrs[1])
		s.AddBalance(addrs[1], big.NewInt(7))
		s.SetNonce(addrs[1], 3)
		s.Finalize(true)
	}
	s.Prepare(thash, 0)
	return s
}

// ---------- dumps ----------

type AcctDump struct {
	Addr                           int
	Present, Live, Deleted, Suicided bool
	Nonce                          uint64
	Balance, Size                  *big.Int
	Code, CodeHash                 []byte
	Slots                          []*big.Int
}

type Dump struct {
	Accts   []AcctDump
	Refund  uint64
	Logs    []int
	LogSize uint
	Preim   [][2][]byte
	ALAddrs [][]byte
	ALIdx   []int
	ALSlots [][][]byte
	TrA     [][]byte
	TrK     [][]byte
	TrV     []*big.Int
	TrEmpty bool
	DirtA   [][]byte
	DirtC   []int
	Journal []state.VerifC12Entry
	RevIds  []int
	RevIdx  []int
	Next    int
	Added   *big.Int
	Removed *big.Int
	SnapD   []string // snapshot-side bookkeeping (empty without a snapshot layer): snapDestructs,
	SnapA   []string // snapAccounts,
	SnapS   []string // snapStorage keys
}

func dump(s *state.StateDB) *Dump {
	d := &Dump{}
	d.SnapD, d.SnapA, d.SnapS = s.VerifC12SnapBookkeeping()
	for i, a := range addrs {
		v := s.VerifC12Account(a, slots)
		ad := AcctDump{Addr: i, Present: v.Present, Live: v.Live, Deleted: v.Deleted, Suicided: v.Suicided, Nonce: v.Nonce,
			Balance: v.Balance, Size: v.Size, Code: v.Code, CodeHash: v.CodeHash}
		for _, h := range v.Slots {
			ad.Slots = append(ad.Slots, h.Big())
		}
		d.Accts = append(d.Accts, ad)
	}
	d.Refund = s.GetRefund()
	lg := s.Logs() // concatenation over the per-transaction map: order by the block-wide log index
	sort.SliceStable(lg, func(i, j int) bool { return lg[i].Index < lg[j].Index })
	for _, l := range lg {
		p := -1
		if len(l.Data) > 0 {
			p = int(l.Data[0])
		}
		d.Logs = append(d.Logs, p)
	}
	d.LogSize = s.VerifC12LogSize()
	for h, p := range s.Preimages() {
		d.Preim = append(d.Preim, [2][]byte{common.CopyBytes(h[:]), common.CopyBytes(p)})
	}
	sort.Slice(d.Preim, func(i, j int) bool { return bytes.Compare(d.Preim[i][0], d.Preim[j][0]) < 0 })
	d.ALAddrs, d.ALIdx, d.ALSlots = s.VerifC12AccessList()
	d.TrA, d.TrK, d.TrV = s.VerifC12Transient()
	d.TrEmpty = s.VerifC12TransientEmptyInner()
	d.DirtA, d.DirtC = s.VerifC12Dirties()
	d.Journal = s.VerifC12Journal(slots)
	d.RevIds, d.RevIdx, d.Next = s.VerifC12Revisions()
	d.Added = new(big.Int).Set(s.SupplyAdded)
	d.Removed = new(big.Int).Set(s.SupplyRemoved)
	return d
}

func acctCoq(nonce uint64, bal, size *big.Int, code []byte, sl []*big.Int, suic, del bool) string {
	var st []string
	for i, v := range sl {
		if v.Sign() != 0 {
			st = append(st, hlib.CoqPair(sKey(i), v.String()))
		}
	}
	return fmt.Sprintf("(mkAcct %d %s %s %s %s %s %s)", nonce, coqZ(bal), hlib.CoqBytes(code), hlib.CoqList(st), coqZ(size), hlib.CoqBool(suic), hlib.CoqBool(del))
}

func (d *Dump) coreCoq() string {
	var objs []string
	// addrs sorted by numeric value: index 2 (0x03) < 0 (0x10) < 1 (0x11)
	for _, i := range []int{2, 0, 1} {
		a := d.Accts[i]
		if a.Present {
			objs = append(objs, hlib.CoqPair(aKey(i), acctCoq(a.Nonce, a.Balance, a.Size, a.Code, a.Slots, a.Suicided, a.Deleted)))
		}
	}
	var logs []string
	for _, p := range d.Logs {
		logs = append(logs, fmt.Sprint(p))
	}
	var pre []string
	for _, p := range d.Preim {
		pre = append(pre, hlib.CoqPair(keyOfBytes(p[0]), hlib.CoqBytes(p[1])))
	}
	var ala []string
	for i := range d.ALAddrs {
		ala = append(ala, hlib.CoqPair(keyOfBytes(d.ALAddrs[i]), coqZi(int64(d.ALIdx[i]))))
	}
	var als []string
	for _, m := range d.ALSlots {
		var l []string
		for _, k := range m {
			l = append(l, hlib.CoqPair(keyOfBytes(k), "tt"))
		}
		als = append(als, hlib.CoqList(l))
	}
	var tr []string
	for i := range d.TrA {
		k := "[" + new(big.Int).SetBytes(d.TrA[i]).String() + ";" + new(big.Int).SetBytes(d.TrK[i]).String() + "]"
		tr = append(tr, hlib.CoqPair(k, d.TrV[i].String()))
	}
	return fmt.Sprintf("(mkCore %s %d %s %d %s %s %s %s)", hlib.CoqList(objs), d.Refund, hlib.CoqList(logs), d.LogSize,
		hlib.CoqList(pre), hlib.CoqList(ala), hlib.CoqList(als), hlib.CoqList(tr))
}

func (d *Dump) dirtCoq() string {
	var l []string
	for i := range d.DirtA {
		l = append(l, hlib.CoqPair(keyOfBytes(d.DirtA[i]), coqZi(int64(d.DirtC[i]))))
	}
	return hlib.CoqList(l)
}

func entryCoq(e state.VerifC12Entry) string {
	a := keyOfBytes(e.Addr)
	switch e.Kind {
	case "createObjectChange":
		return "ECreateObject " + a
	case "resetObjectChange":
		p := e.Prev
		var sl []*big.Int
		for _, h := range p.Slots {
			sl = append(sl, h.Big())
		}
		return "EResetObject " + a + " " + acctCoq(p.Nonce, p.Balance, p.Size, p.Code, sl, p.Suicided, p.Deleted)
	case "suicideChange":
		ps := "None"
		if e.PrevSize != nil {
			ps = "(Some " + coqZ(e.PrevSize) + ")"
		}
		return fmt.Sprintf("ESuicide %s %s %s %s", a, hlib.CoqBool(e.PrevBool), coqZ(e.PrevBig), ps)
	case "balanceChange":
		return fmt.Sprintf("EBalance %s %s", a, coqZ(e.PrevBig))
	case "nonceChange":
		return fmt.Sprintf("ENonce %s %d", a, e.PrevU64)
	case "storageChange":
		return fmt.Sprintf("EStorage %s %s %s", a, keyOfBytes(e.Key), e.PrevBig.String())
	case "codeChange":
		return fmt.Sprintf("ECode %s %s", a, hlib.CoqBytes(e.PrevCode))
	case "sizeChange":
		return fmt.Sprintf("ESize %s %s", a, coqZ(e.PrevBig))
	case "refundChange":
		return fmt.Sprintf("ERefund %d", e.PrevU64)
	case "addLogChange":
		return "EAddLog"
	case "addPreimageChange":
		return "EAddPreimage " + keyOfBytes(e.Key)
	case "touchChange":
		return "ETouch " + a
	case "accessListAddAccountChange":
		return "EALAccount " + a
	case "accessListAddSlotChange":
		return "EALSlot " + a + " " + keyOfBytes(e.Key)
	case "transientStorageChange":
		return fmt.Sprintf("ETransient %s %s %s", a, keyOfBytes(e.Key), e.PrevBig.String())
	}
	return "EAddLog (* unknown journal entry kind " + e.Kind + " *)"
}

// sdbCoq prints the final state relative to the base (journal length, supply counters) of the initial one.
func (d *Dump) sdbCoq(base *Dump) string {
	j0 := len(base.Journal)
	var jr []string
	for i := len(d.Journal) - 1; i >= j0; i-- { // newest first
		jr = append(jr, entryCoq(d.Journal[i]))
	}
	var revs []string
	for i := range d.RevIds {
		revs = append(revs, fmt.Sprintf("(%d, %d%%nat)", d.RevIds[i], d.RevIdx[i]-j0))
	}
	added := new(big.Int).Sub(d.Added, base.Added)
	removed := new(big.Int).Sub(d.Removed, base.Removed)
	return fmt.Sprintf("(mkSdb (mkM %s %s %s) %s %d %s %s)", d.coreCoq(), d.dirtCoq(), hlib.CoqList(jr), hlib.CoqList(revs), d.Next, coqZ(added), coqZ(removed))
}

// ---------- comparison of dumps (monitors) ----------

func bigEq(a, b *big.Int) bool { return a.Cmp(b) == 0 }

func bytesListEq(a, b [][]byte) bool {
	if len(a) != len(b) {
		return false
	}
	for i := range a {
		if !bytes.Equal(a[i], b[i]) {
			return false
		}
	}
	return true
}

func entryEq(a, b state.VerifC12Entry) bool {
	if a.Kind != b.Kind || !bytes.Equal(a.Addr, b.Addr) || !bytes.Equal(a.Key, b.Key) || a.PrevU64 != b.PrevU64 || a.PrevBool != b.PrevBool || !bytes.Equal(a.PrevCode, b.PrevCode) {
		return false
	}
	if (a.PrevBig == nil) != (b.PrevBig == nil) || (a.PrevBig != nil && !bigEq(a.PrevBig, b.PrevBig)) {
		return false
	}
	if (a.PrevSize == nil) != (b.PrevSize == nil) || (a.PrevSize != nil && !bigEq(a.PrevSize, b.PrevSize)) {
		return false
	}
	return true
}

// diffState lists the journalled fields in which two dumps differ ("" = none). Dirties are compared separately.
func diffState(x, y *Dump) []string {
	var out []string
	add := func(s string) { out = append(out, s) }
	for i := range x.Accts {
		a, b := x.Accts[i], y.Accts[i]
		if a.Present != b.Present {
			add("acct.exists")
			continue
		}
		if !a.Present {
			continue
		}
		if a.Deleted != b.Deleted {
			add("acct.deleted")
		}
		if a.Suicided != b.Suicided {
			add("acct.suicided")
		}
		if a.Nonce != b.Nonce {
			add("acct.nonce")
		}
		if !bigEq(a.Balance, b.Balance) {
			add("acct.balance")
		}
		if !bigEq(a.Size, b.Size) {
			add(fmt.Sprintf("acct.size#%d", i))
		}
		if !bytes.Equal(a.Code, b.Code) || !bytes.Equal(a.CodeHash, b.CodeHash) {
			add("acct.code")
		}
		for k := range a.Slots {
			if !bigEq(a.Slots[k], b.Slots[k]) {
				add("acct.storage")
				break
			}
		}
	}
	if x.Refund != y.Refund {
		add("refund")
	}
	if fmt.Sprint(x.Logs) != fmt.Sprint(y.Logs) || x.LogSize != y.LogSize {
		add("logs")
	}
	if fmt.Sprint(x.Preim) != fmt.Sprint(y.Preim) {
		add("preimages")
	}
	if !bytesListEq(x.ALAddrs, y.ALAddrs) || fmt.Sprint(x.ALIdx) != fmt.Sprint(y.ALIdx) || fmt.Sprint(x.ALSlots) != fmt.Sprint(y.ALSlots) {
		add("accesslist")
	}
	if !bytesListEq(x.TrA, y.TrA) || !bytesListEq(x.TrK, y.TrK) || fmt.Sprint(x.TrV) != fmt.Sprint(y.TrV) || x.TrEmpty != y.TrEmpty {
		add("transient")
	}
	if strings.Join(x.SnapD, ",") != strings.Join(y.SnapD, ",") {
		add("snap-destructs")
	}
	if strings.Join(x.SnapA, ",") != strings.Join(y.SnapA, ",") || strings.Join(x.SnapS, ",") != strings.Join(y.SnapS, ",") {
		add("snap-accounts-storage")
	}
	if len(x.Journal) != len(y.Journal) {
		add("journal.length")
	} else {
		for i := range x.Journal {
			if !entryEq(x.Journal[i], y.Journal[i]) {
				add("journal.entries")
				break
			}
		}
	}
	return out
}

func dirtMap(d *Dump) map[string]int {
	m := map[string]int{}
	for i := range d.DirtA {
		m[hex.EncodeToString(d.DirtA[i])] = d.DirtC[i]
	}
	return m
}

// ---------- running a history ----------

type snapInfo struct {
	at      *Dump        // dump right after Snapshot()
	tainted map[int]bool // accounts on which Suicide ran with a non-zero size counter since
	pos     int          // index of the Snapshot op in the history
	sizeLeak map[string]int // sizeChange entries undone since (sizeChange.revert re-journals: dirties[a]++ survives)
	ripemd   int            // touchChange entries of the RIPEMD address undone since (sticky by design)
}

type runResult struct {
	outs     []Out
	fin      *Dump
	erased   []Op // the history with every successfully reverted region (and all Snapshot/Revert calls) removed
	f8       bool // some revert undid a Suicide of an account with non-zero size counter
	reverted int  // number of successful reverts that undid at least one journal entry
	sizeLeak bool // some revert undid a sizeChange entry (dirties leak)
	kinds    map[string]bool
}

func safe(f func()) (panicked bool) {
	defer func() {
		if r := recover(); r != nil {
			panicked = true
		}
	}()
	f()
	return false
}

func apply(s *state.StateDB, o Op) Out {
	r := Out{Kind: "none"}
	p := safe(func() {
		switch o.K {
		case "AddBalance":
			s.AddBalance(addrs[o.A], big.NewInt(o.V))
		case "SubBalance":
			s.SubBalance(addrs[o.A], big.NewInt(o.V))
		case "SetBalance":
			s.SetBalance(addrs[o.A], big.NewInt(o.V))
		case "SetNonce":
			s.SetNonce(addrs[o.A], uint64(o.V))
		case "SetCode":
			s.SetCode(addrs[o.A], o.C)
		case "SetState":
			s.SetState(addrs[o.A], slots[o.S], common.BigToHash(big.NewInt(o.V)))
		case "Suicide":
			r = Out{Kind: "bool", B: s.Suicide(addrs[o.A])}
		case "CreateAccount":
			s.CreateAccount(addrs[o.A])
		case "GetOrNew":
			s.GetOrNewStateObject(addrs[o.A])
		case "SetSize":
			s.GetOrNewStateObject(addrs[o.A]).SetSize(big.NewInt(o.V))
		case "AddSize":
			s.GetOrNewStateObject(addrs[o.A]).AddSize()
		case "SubSize":
			s.GetOrNewStateObject(addrs[o.A]).SubSize()
		case "AddLog":
			s.AddLog(&types.Log{Data: []byte{byte(o.V)}})
		case "AddPreimage":
			s.AddPreimage(preimgs[o.S], o.C)
		case "AddRefund":
			s.AddRefund(o.U)
		case "SubRefund":
			s.SubRefund(o.U)
		case "ALAddr":
			s.AddAddressToAccessList(addrs[o.A].Bytes20())
		case "ALSlot":
			s.AddSlotToAccessList(addrs[o.A].Bytes20(), slots[o.S])
		case "SetTransient":
			s.SetTransientState(addrs[o.A], slots[o.S], common.BigToHash(big.NewInt(o.V)))
		case "Snapshot":
			r = Out{Kind: "id", N: s.Snapshot()}
		case "Revert":
			s.RevertToSnapshot(int(o.V))
		case "EndTx": // transaction boundary as in core/state_processor.go applyTransaction: Finalize, then Prepare of the next one
			s.Finalize(true)
			s.Prepare(common.BytesToHash([]byte{0x78, byte(o.V)}), int(o.V))
		case "RootTx": // the other in-block boundary: IntermediateRoot (Finalize + tries updated), then Prepare
			s.IntermediateRoot(true)
			s.Prepare(common.BytesToHash([]byte{0x78, byte(o.V)}), int(o.V))
		default:
			panic("unknown op " + o.K)
		}
	})
	if p {
		r = Out{Kind: "panic"}
	}
	return r
}

type failure struct{ sig, what string }

// ---------- monitor: an account that does not exist is (re-)created empty ----------
// Whatever a destroyed predecessor held when an earlier transaction's Finalize removed it (value sent to
// it after its SELFDESTRUCT, nonce, code, storage, size counter) must not reappear: after a write to an
// address that did not exist, the account is exactly Account{} plus that write.

func freshOp(k string) bool {
	switch k {
	case "AddBalance", "SubBalance", "SetBalance", "SetNonce", "SetCode", "SetState", "CreateAccount", "GetOrNew":
		return true
	}
	return false
}

func notFresh(s *state.StateDB, o Op) (out []string) {
	v := s.VerifC12Account(addrs[o.A], slots)
	if !v.Present || v.Deleted {
		return []string{"exists"} // every one of these writes instantiates the account (GetOrNewStateObject / createObject)
	}
	var nonce uint64
	bal := new(big.Int)
	var code []byte
	sl := make([]int64, len(slots))
	switch o.K {
	case "AddBalance", "SetBalance":
		bal.SetInt64(o.V)
	case "SubBalance":
		bal.SetInt64(-o.V)
	case "SetNonce":
		nonce = uint64(o.V)
	case "SetCode":
		code = o.C
	case "SetState":
		sl[o.S] = o.V
	}
	if v.Nonce != nonce {
		out = append(out, "nonce")
	}
	if v.Balance.Cmp(bal) != 0 {
		out = append(out, "balance")
	}
	if !bytes.Equal(v.Code, code) {
		out = append(out, "code")
	}
	if v.Size.Sign() != 0 {
		out = append(out, "size")
	}
	if v.Suicided {
		out = append(out, "suicided")
	}
	for i := range slots {
		if v.Slots[i].Big().Cmp(big.NewInt(sl[i])) != 0 {
			out = append(out, "storage")
			break
		}
	}
	return
}

// runHistory executes h on s, evaluating the revert-restores monitor at every successful revert.
func runHistory(s *state.StateDB, h []Op) (*runResult, []failure) {
	res := &runResult{kinds: map[string]bool{}}
	var fails []failure
	snaps := map[int]*snapInfo{}
	var kept []Op      // ops not (yet) reverted, without Snapshot/Revert
	keptAt := map[int]int{} // snapshot id -> len(kept) at snapshot time
	for i, o := range h {
		res.kinds[o.K] = true
		var before *Dump
		validBefore := false
		if o.K == "Revert" {
			before = dump(s)
			for _, id := range before.RevIds {
				if id == int(o.V) {
					validBefore = true
				}
			}
		}
		if o.K == "Suicide" {
			v := s.VerifC12Account(addrs[o.A], nil)
			if v.Present && !v.Deleted && v.Size.Sign() != 0 {
				for _, si := range snaps {
					si.tainted[o.A] = true
				}
			}
		}
		fresh := false
		if freshOp(o.K) {
			v := s.VerifC12Account(addrs[o.A], nil)
			fresh = !v.Present || v.Deleted
		}
		r := apply(s, o)
		if fresh && r.Kind == "none" {
			for _, f := range notFresh(s, o) {
				fails = append(fails, failure{"recreate/not-fresh/" + f, fmt.Sprintf("%s on address #%d, which did not exist (never created, or removed at the end of an earlier transaction of the block), gives an account whose %s is not that of a new account plus this write: state of a destroyed predecessor leaks", o.K, o.A, f)})
			}
		}
		switch o.K {
		case "Snapshot":
			if r.Kind == "id" {
				snaps[r.N] = &snapInfo{at: dump(s), tainted: map[int]bool{}, pos: i, sizeLeak: map[string]int{}}
				keptAt[r.N] = len(kept)
			}
		case "Revert":
			id := int(o.V)
			if r.Kind == "panic" && validBefore {
				r = Out{Kind: "crash"}
				fails = append(fails, failure{"revert-panicked", fmt.Sprintf("RevertToSnapshot(%d) of a valid revision panicked", id)})
			}
			if r.Kind == "none" {
				si := snaps[id]
				after := dump(s)
				if si != nil {
					// entries being undone, for the dirties expectation
					sizeUndone := map[string]int{}
					ripemdTouch := 0
					jidx := -1
					for k, rid := range before.RevIds {
						if rid == id {
							jidx = before.RevIdx[k]
						}
					}
					if jidx >= 0 && jidx < len(before.Journal) {
						res.reverted++
						for _, e := range before.Journal[jidx:] {
							if e.Kind == "sizeChange" {
								sizeUndone[hex.EncodeToString(e.Addr)]++
							}
							if e.Kind == "touchChange" && bytes.Equal(e.Addr, addrs[2][:]) {
								ripemdTouch++
							}
						}
					}
					for _, f := range diffState(si.at, after) {
						sig := "revert-restores/" + f
						if strings.HasPrefix(f, "acct.size#") {
							var ai int
							fmt.Sscanf(f, "acct.size#%d", &ai)
							sig = "revert-restores/acct.size"
							if si.tainted[ai] && after.Accts[ai].Size.Sign() == 0 {
								sig = "f8-suicide-size/dump"
								res.f8 = true
							}
						}
						fails = append(fails, failure{sig, fmt.Sprintf("state after RevertToSnapshot(%d) differs from the state at Snapshot in %s", id, f)})
					}
					// revisions: everything before the snapshot, nothing else
					wantIds := si.at.RevIds[:len(si.at.RevIds)-1]
					if fmt.Sprint(wantIds) != fmt.Sprint(after.RevIds) || fmt.Sprint(si.at.RevIdx[:len(wantIds)]) != fmt.Sprint(after.RevIdx) {
						fails = append(fails, failure{"revert-restores/revisions", "validRevisions after revert are not those before the snapshot"})
					}
					// dirties: journal.dirties is restored, except that (a) sizeChange.revert calls the journalling
					// setter SetSize, so dirties[a] keeps one count per undone sizeChange (recorded finding), and
					// (b) a touch of the RIPEMD address stays dirty by design (journal.dirty, "ugly hack").
					for sid, sj := range snaps {
						if sj.pos <= si.pos {
							for a, n := range sizeUndone {
								sj.sizeLeak[a] += n
							}
							sj.ripemd += ripemdTouch
						}
						_ = sid
					}
					norm := func(m map[string]int) map[string]int {
						for a, n := range m {
							if n == 0 {
								delete(m, a)
							}
						}
						return m
					}
					strictWant := dirtMap(si.at)
					strictWant[hex.EncodeToString(addrs[2][:])] += si.ripemd
					strictWant = norm(strictWant)
					leakWant := dirtMap(si.at)
					leakWant[hex.EncodeToString(addrs[2][:])] += si.ripemd
					leaked := false
					for a, n := range si.sizeLeak {
						leakWant[a] += n
						leaked = leaked || n > 0
					}
					leakWant = norm(leakWant)
					got := dirtMap(after)
					switch {
					case fmt.Sprint(got) == fmt.Sprint(strictWant):
					case leaked && fmt.Sprint(got) == fmt.Sprint(leakWant):
						res.sizeLeak = true
						fails = append(fails, failure{"sizechange-rejournal/dirties", fmt.Sprintf("journal.dirties after revert %v, at the snapshot %v: sizeChange.revert re-journals through SetSize", got, dirtMap(si.at))})
					default:
						fails = append(fails, failure{"revert-restores/dirties", fmt.Sprintf("journal.dirties after revert %v, expected %v", got, strictWant)})
					}
					// erase the region
					kept = kept[:keptAt[id]]
					for sid, sj := range snaps {
						if sj.pos >= si.pos {
							delete(snaps, sid)
						}
					}
				}
			}
		case "EndTx", "RootTx": // revisions do not survive Finalize
			snaps = map[int]*snapInfo{}
			keptAt = map[int]int{}
			kept = append(kept, o)
		default:
			kept = append(kept, o)
		}
		res.outs = append(res.outs, r)
	}
	res.erased = append([]Op{}, kept...)
	res.fin = dump(s)
	return res, fails
}

// finalView is what a block would commit: root, trie size, accounts.
type finalView struct {
	ok    bool
	root  common.Hash
	size  string
	accts string
}

func finalize(s *state.StateDB) (v finalView) {
	d := dump(s)
	for _, a := range d.Accts {
		if a.Present && (a.Balance.Sign() < 0 || a.Size.Sign() < 0) {
			return finalView{} // RLP cannot encode negative integers: not a committable state
		}
	}
	p := safe(func() {
		v.root = s.IntermediateRoot(true)
		v.size = s.GetQuaiTrieSize().String()
		d2 := dump(s)
		var sb strings.Builder
		for _, a := range d2.Accts {
			fmt.Fprintf(&sb, "%v/%v/%d/%s/%s/%x/%v;", a.Present, a.Deleted, a.Nonce, a.Balance, a.Size, a.CodeHash, a.Slots)
		}
		v.accts = sb.String()
		v.ok = true
	})
	if p {
		return finalView{}
	}
	return v
}

// ---------- cases ----------

type caseJS struct {
	ID    int    `json:"id"`
	Setup int    `json:"setup"`
	Ops   []Op   `json:"ops"`
	Outs  []Out  `json:"outs,omitempty"`
	Src   string `json:"src,omitempty"`
}

type ctx struct {
	rep    *hlib.Report
	cw     *hlib.CaseWriter
	id     int
	perSig map[string]int // failures reported per signature (the report keeps 200 in total)
	treeID int            // next id of an EVM tree case
	layerID int           // next id of a layered-storage case
	finID   int           // next id of an account-block case (Model/C12_Fin.v)
}

// evalCase runs one history with all monitors; emit = also write the Coq case.
func (c *ctx) evalCase(setup int, h []Op, src string, emit bool) {
	s := buildSetup(setup)
	base := dump(s)
	res, fails := runHistory(s, h)
	c.rep.Evaluations++
	cj := caseJS{ID: c.id, Setup: setup, Ops: h, Outs: res.outs, Src: src}
	if !emit {
		cj.ID = -1
	}
	// erasure monitor
	if res.reverted > 0 {
		s2 := buildSetup(setup)
		for _, o := range res.erased {
			apply(s2, o)
		}
		v1, v2 := finalize(s), finalize(s2)
		if v1.ok && v2.ok {
			c.rep.Count("erasure:compared")
			if v1.root != v2.root || v1.size != v2.size || v1.accts != v2.accts {
				sig := "erasure/root-differs"
				if res.f8 {
					sig = "f8-suicide-size/root"
				} else if res.sizeLeak {
					// the account stays in journal.dirties, so Finalize treats it as modified: a deleted object is
					// counted out of the trie size twice, an object replaced by an (undirtying) reset gets flushed
					sig = "sizechange-rejournal/erasure"
				}
				what := fmt.Sprintf("after the history root=%x trieSize=%s, after the history without its reverted frames root=%x trieSize=%s", v1.root[:6], v1.size, v2.root[:6], v2.size)
				fails = append(fails, failure{sig, what})
			}
		} else {
			c.rep.Count("erasure:skipped-negative-or-panic")
		}
	}
	seen := map[string]bool{}
	for _, f := range fails {
		if !seen[f.sig] {
			seen[f.sig] = true
			c.rep.Count("monitor-failure:" + f.sig)
			if c.perSig[f.sig] < 3 {
				c.perSig[f.sig]++
				c.rep.Fail(f.sig, f.what, cj)
			}
		}
	}
	if res.reverted > 0 {
		ks := hlib.SortedKeys(res.kinds)
		c.rep.Nontrivial(fmt.Sprintf("%d|%s|%d", setup, strings.Join(ks, ","), res.reverted))
	}
	if emit {
		pairs := make([]string, len(h))
		for i := range h {
			pairs[i] = "(" + h[i].Coq() + ", " + res.outs[i].Coq() + ")"
			c.rep.Count("op:" + h[i].K)
		}
		c.rep.Count("setup:" + setupName(setup))
		c.rep.Count(fmt.Sprintf("len:%02d-%02d", len(h)/10*10, len(h)/10*10+9))
		c.rep.Count("src:" + src)
		term := fmt.Sprintf("CS (%d, (%s, %s, %d), %s, %s)", c.id, base.coreCoq(), base.dirtCoq(), base.Next, hlib.CoqList(pairs), res.fin.sdbCoq(base))
		c.addOld(term, cj)
		c.rep.TracesValidated++
		c.rep.Sample(cj)
		c.id++
	}
}

// ---------- corpus ----------

func snap() Op         { return Op{K: "Snapshot"} }
func rev(id int) Op    { return Op{K: "Revert", V: int64(id)} }
func op(k string, a int) Op { return Op{K: k, A: a} }

type corpusCase struct {
	setup int
	ops   []Op
}

func corpus() []corpusCase {
	return []corpusCase{
		// F8: reverted self-destruct of an account whose storage-size counter is 3
		{1, []Op{snap(), op("Suicide", 0), rev(0)}},
		{1, []Op{{K: "AddBalance", A: 0, V: 1}, snap(), op("Suicide", 0), rev(0)}}, // dirty before: reaches the trie
		{5, []Op{{K: "SetNonce", A: 1, V: 9}, snap(), snap(), op("Suicide", 1), rev(1), {K: "AddBalance", A: 1, V: 2}, rev(0)}},
		{3, []Op{{K: "SetState", A: 0, S: 0, V: 5}, snap(), op("Suicide", 0), rev(0)}},
		{1, []Op{snap(), {K: "SetSize", A: 0, V: 5}, op("Suicide", 0), rev(0)}}, // size journalled earlier in the frame: restored
		{1, []Op{snap(), op("CreateAccount", 0), op("Suicide", 0), rev(0)}},      // reset undo restores the whole object
		{0, []Op{{K: "AddBalance", A: 0, V: 3}, snap(), op("Suicide", 0), rev(0)}}, // size 0: fully restored
		// creation / reset
		{0, []Op{snap(), {K: "AddBalance", A: 0, V: 3}, {K: "SetState", A: 0, S: 1, V: 2}, rev(0)}},
		{1, []Op{snap(), op("CreateAccount", 0), {K: "SetState", A: 0, S: 0, V: 7}, {K: "SetCode", A: 0, C: []byte{5}}, rev(0)}},
		{2, []Op{snap(), op("CreateAccount", 1), {K: "AddBalance", A: 1, V: 4}, rev(0)}}, // resurrects a deleted object
		{2, []Op{snap(), {K: "AddBalance", A: 1, V: 4}, snap(), op("Suicide", 1), rev(1), rev(0)}},
		{3, []Op{snap(), op("CreateAccount", 0), rev(0), {K: "SetState", A: 0, S: 0, V: 0}}},
		// storage: clear, restore, rewrite
		{1, []Op{snap(), {K: "SetState", A: 0, S: 1, V: 0}, {K: "SetState", A: 0, S: 1, V: 9}, {K: "SetState", A: 0, S: 0, V: 0}, rev(0)}},
		{3, []Op{{K: "SetState", A: 0, S: 1, V: 0}, snap(), {K: "SetState", A: 0, S: 1, V: 2}, rev(0)}},
		// access list
		{0, []Op{snap(), op("ALAddr", 0), {K: "ALSlot", A: 0, S: 0}, {K: "ALSlot", A: 0, S: 1}, {K: "ALSlot", A: 1, S: 0}, rev(0)}},
		{0, []Op{op("ALAddr", 0), {K: "ALSlot", A: 1, S: 2}, snap(), {K: "ALSlot", A: 0, S: 0}, snap(), {K: "ALSlot", A: 1, S: 1}, {K: "ALSlot", A: 0, S: 2}, rev(1), {K: "ALSlot", A: 0, S: 0}, rev(0)}},
		// transient storage
		{0, []Op{{K: "SetTransient", A: 0, S: 0, V: 4}, snap(), {K: "SetTransient", A: 0, S: 0, V: 0}, {K: "SetTransient", A: 0, S: 1, V: 2}, {K: "SetTransient", A: 1, S: 0, V: 1}, rev(0)}},
		{0, []Op{snap(), {K: "SetTransient", A: 0, S: 0, V: 4}, {K: "SetTransient", A: 0, S: 0, V: 0}, rev(0)}},
		// logs, preimages, refund (wrap-around, panic)
		{0, []Op{{K: "AddLog", V: 1}, snap(), {K: "AddLog", V: 2}, {K: "AddLog", V: 3}, rev(0), {K: "AddLog", V: 4}}},
		{0, []Op{snap(), {K: "AddLog", V: 2}, rev(0)}},
		{0, []Op{{K: "AddPreimage", S: 0, C: []byte{1}}, snap(), {K: "AddPreimage", S: 0, C: []byte{2}}, {K: "AddPreimage", S: 1, C: []byte{3}}, rev(0)}},
		{0, []Op{{K: "AddRefund", U: 10}, snap(), {K: "AddRefund", U: 18446744073709551610}, {K: "SubRefund", U: 2}, rev(0)}},
		{0, []Op{{K: "AddRefund", U: 1}, snap(), {K: "SubRefund", U: 2}, rev(0)}},
		// revisions
		{0, []Op{snap(), snap(), snap(), rev(1), rev(2), rev(1), rev(0), rev(0)}},
		{0, []Op{rev(0), rev(7), snap(), rev(1)}},
		{0, []Op{snap(), {K: "AddBalance", A: 0, V: 1}, snap(), {K: "AddBalance", A: 0, V: 2}, snap(), {K: "AddBalance", A: 0, V: 4}, rev(1), snap(), {K: "AddBalance", A: 0, V: 8}, rev(0)}},
		// touch, RIPEMD special case, size setters (dirties leaks)
		{0, []Op{snap(), {K: "AddBalance", A: 0, V: 0}, rev(0)}},
		{0, []Op{snap(), {K: "AddBalance", A: 2, V: 0}, rev(0)}},
		{0, []Op{op("GetOrNew", 2), snap(), {K: "AddBalance", A: 2, V: 0}, {K: "AddBalance", A: 2, V: 0}, rev(0)}},
		{1, []Op{snap(), op("AddSize", 0), op("SubSize", 1), {K: "SetSize", A: 0, V: 9}, rev(0)}},
		{4, []Op{snap(), op("AddSize", 0), rev(0)}},
		{4, []Op{{K: "SetNonce", A: 0, V: 3}, snap(), {K: "SetCode", A: 0, C: []byte{}}, {K: "SetCode", A: 1, C: []byte{7, 7}}, rev(0)}},
		// re-creation of an account that an earlier transaction destroyed while it held value (C02_3 class)
		{6, []Op{op("CreateAccount", 0), {K: "AddBalance", A: 0, V: 7}}},
		{6, []Op{{K: "AddBalance", A: 1, V: 7}, snap(), op("CreateAccount", 0), {K: "SetNonce", A: 0, V: 1}, rev(0), {K: "SetState", A: 0, S: 1, V: 4}}},
		{6, []Op{snap(), op("CreateAccount", 1), {K: "AddBalance", A: 1, V: 2}, snap(), op("CreateAccount", 0), rev(1), {K: "SetCode", A: 0, C: []byte{9}}, rev(0), op("GetOrNew", 1)}},
		// siblings: a completed frame followed by a failed one
		{1, []Op{snap(), {K: "AddBalance", A: 1, V: 5}, {K: "SetState", A: 0, S: 0, V: 8}, snap(), {K: "SubBalance", A: 1, V: 5}, {K: "SetState", A: 0, S: 0, V: 0}, {K: "SetNonce", A: 1, V: 2}, rev(1)}},
	}
}

// ---------- generators ----------

// the exhaustive alphabet: 9 account mutations x 2 accounts + 4 account-independent ones
func alphabet() []Op {
	var l []Op
	for a := 0; a < 2; a++ {
		l = append(l,
			Op{K: "AddBalance", A: a, V: 2}, Op{K: "SetNonce", A: a, V: 5}, Op{K: "SetCode", A: a, C: []byte{9}},
			Op{K: "SetState", A: a, S: 0, V: 2}, Op{K: "SetState", A: a, S: 0, V: 0}, Op{K: "Suicide", A: a},
			Op{K: "CreateAccount", A: a}, Op{K: "AddSize", A: a}, Op{K: "AddBalance", A: a, V: 0})
	}
	l = append(l, Op{K: "AddLog", V: 1}, Op{K: "AddRefund", U: 3}, Op{K: "ALSlot", A: 0, S: 0}, Op{K: "SetTransient", A: 0, S: 0, V: 1})
	return l
}

// exhaustive: every prefix p and body b over the alphabet with |p|+|b| <= depth, history p ++ [Snapshot] ++ b ++ [Revert 0]
func exhaustive(c *ctx, al []Op, depth int, setups []int, emitEvery int, rng *hlib.Rng) int {
	count := 0
	var rec func(cur []Op, n int)
	emitAll := func(cur []Op) {
		for split := 0; split < len(cur); split++ { // body non-empty
			for _, su := range setups {
				h := make([]Op, 0, len(cur)+2)
				h = append(h, cur[:split]...)
				h = append(h, snap())
				h = append(h, cur[split:]...)
				h = append(h, rev(0))
				count++
				c.evalCase(su, h, "exhaustive", emitEvery > 0 && rng.Intn(emitEvery) == 0)
			}
		}
	}
	rec = func(cur []Op, n int) {
		if len(cur) > 0 {
			emitAll(cur)
		}
		if n == 0 {
			return
		}
		for _, o := range al {
			rec(append(cur, o), n-1)
		}
	}
	rec(nil, depth)
	return count
}

func randomHistory(r *hlib.Rng, setup int) []Op {
	s := buildSetup(setup) // shadow run on the real code to pick valid ids and affordable debits
	n := 3 + r.Intn(14)
	if r.Chance(25) {
		n = 20 + r.Intn(40)
	}
	return randomOps(r, s, n, false)
}

// randomOps extends the history of the shadow state s by n operations (and possibly a closing revert).
func randomOps(r *hlib.Rng, s *state.StateDB, n int, noSize bool) []Op {
	var h []Op
	depthTarget := 1 + r.Intn(4)
	for i := 0; i < n; i++ {
		ids, _, next := s.VerifC12Revisions()
		var o Op
		k := r.Pick(10, 12, 3) // snapshot-ish, mutator, adversarial
		switch {
		case k == 0 && len(ids) < depthTarget+2 && r.Chance(55):
			o = snap()
		case k == 0 && len(ids) > 0:
			o = rev(ids[r.Intn(len(ids))])
			if r.Chance(60) {
				o = rev(ids[len(ids)-1])
			}
		case k == 2 && r.Chance(40):
			o = rev(r.Intn(next + 2)) // possibly stale or future id
		default:
			a := r.Intn(2)
			if r.Chance(8) {
				a = 2
			}
			switch r.Pick(10, 6, 4, 5, 4, 12, 6, 5, 2, 4, 3, 3, 4, 3, 4, 2, 4, 6, 6) {
			case 0:
				o = Op{K: "AddBalance", A: a, V: int64(r.Intn(4))}
			case 1:
				bal := s.GetBalance(addrs[a])
				v := int64(r.Intn(4))
				if bal.IsInt64() && bal.Int64() >= 0 && v > bal.Int64() && !r.Chance(10) {
					v = bal.Int64()
				}
				o = Op{K: "SubBalance", A: a, V: v}
			case 2:
				o = Op{K: "SetBalance", A: a, V: int64(r.Intn(50))}
			case 3:
				o = Op{K: "SetNonce", A: a, V: int64(r.Intn(5))}
			case 4:
				o = Op{K: "SetCode", A: a, C: [][]byte{{}, {1, 2}, {9}, {7, 7, 7}}[r.Intn(4)]}
			case 5:
				o = Op{K: "SetState", A: a, S: r.Intn(3), V: int64(r.Intn(4))}
			case 6:
				o = op("Suicide", a)
			case 7:
				o = op("CreateAccount", a)
			case 8:
				o = op("GetOrNew", a)
			case 9:
				o = op([]string{"AddSize", "SubSize"}[r.Intn(2)], a)
				if o.K == "SubSize" && s.GetSize(addrs[a]).Sign() <= 0 && !r.Chance(10) {
					o.K = "AddSize"
				}
				if noSize {
					o = Op{K: "SetNonce", A: a, V: int64(1 + r.Intn(3))}
				}
			case 10:
				o = Op{K: "SetSize", A: a, V: int64(r.Intn(5))}
				if noSize {
					o = Op{K: "SetState", A: a, S: r.Intn(3), V: int64(r.Intn(3))}
				}
			case 11:
				o = Op{K: "AddLog", V: int64(r.Intn(200))}
			case 12:
				o = Op{K: "AddPreimage", S: r.Intn(2), C: r.Bytes(1 + r.Intn(3))}
			case 13:
				o = Op{K: "AddRefund", U: uint64(r.Intn(10))}
				if r.Chance(10) {
					o.U = ^uint64(0) - uint64(r.Intn(3))
				}
			case 14:
				g := uint64(r.Intn(6))
				if g > s.GetRefund() && !r.Chance(10) {
					g = s.GetRefund()
				}
				o = Op{K: "SubRefund", U: g}
			case 15:
				o = op("ALAddr", r.Intn(3))
			case 16:
				o = Op{K: "ALSlot", A: r.Intn(3), S: r.Intn(3)}
			case 17:
				o = Op{K: "SetTransient", A: a, S: r.Intn(3), V: int64(r.Intn(3))}
			case 18:
				o = Op{K: "AddBalance", A: a, V: 0}
			}
		}
		apply(s, o)
		h = append(h, o)
		if noSize && o.K == "CreateAccount" { // block level: the write the EVM makes right after CreateAccount
			o2 := Op{K: "SetNonce", A: o.A, V: 1}
			if r.Bool() {
				o2 = Op{K: "AddBalance", A: o.A, V: int64(1 + r.Intn(3))}
			}
			apply(s, o2)
			h = append(h, o2)
		}
	}
	// close some open frames by reverting (a failed outer frame)
	ids, _, _ := s.VerifC12Revisions()
	if len(ids) > 0 && r.Chance(70) {
		o := rev(ids[r.Intn(len(ids))])
		apply(s, o)
		h = append(h, o)
	}
	return h
}

func main() {
	f := hlib.ParseFlags()
	logger = hlib.QuietLogs()
	rng := hlib.NewRng(f.Seed)
	rep := hlib.NewReport("C12", "histories of StateDB mutators with nested Snapshot/RevertToSnapshot on the real StateDB over 7 pre-states "+
		"(corpus incl. the F8 witness, exhaustive prefix+reverted-body sequences over a 22-op alphabet, random long histories); "+
		"non-trivial = at least one successful revert that undoes journal entries; distinct by (pre-state, set of op kinds, number of such reverts)")
	cw := hlib.NewCaseWriter(f.Out, "From Coq Require Import List NArith ZArith Bool.\nFrom GQ Require Import Lib.Key Lib.SMap Model.C12 Model.C12_Fin Model.C12_All.\nImport ListNotations.\nLocal Open Scope N_scope.\n", "C12_All.case", 65)
	c := &ctx{rep: rep, cw: cw, perSig: map[string]int{}, treeID: 910000, layerID: 930000, finID: 950000}

	if f.Replay != "" {
		var mode struct {
			Mode string `json:"mode"`
		}
		hlib.ReadReplayCase(f.Replay, &mode)
		switch mode.Mode {
		case "tree":
			var tc TreeCase
			hlib.ReadReplayCase(f.Replay, &tc)
			if tc.ID >= 0 {
				c.treeID = tc.ID
			}
			c.evalTree(tc.Tree, tc.Ptn, "replay", tc.ID >= 0)
		case "top":
			var tc TopCase
			hlib.ReadReplayCase(f.Replay, &tc)
			c.evalTop(tc)
		case "layer":
			var lc LayerCase
			hlib.ReadReplayCase(f.Replay, &lc)
			if lc.ID >= 0 {
				c.layerID = lc.ID
			}
			c.evalLayer(lc.Base, lc.A, lc.S, lc.Txs, "replay", true)
		case "fin":
			var fc FinCase
			hlib.ReadReplayCase(f.Replay, &fc)
			if fc.ID >= 0 {
				c.finID = fc.ID
			}
			c.evalFinOne(fc.Base, fc.Txs, fc.Snaps, "replay", fc.ID >= 0)
		case "block":
			var bc BlockCase
			hlib.ReadReplayCase(f.Replay, &bc)
			src := bc.Src
			if src == "" {
				src = "replay"
			}
			c.evalBlock(bc.Base, bc.Ops, src)
		}
		if mode.Mode != "" {
			cw.Close()
			rep.Write(f.Out)
			return
		}
		var ej EvmCase
		hlib.ReadReplayCase(f.Replay, &ej)
		if ej.Evm {
			if strings.HasPrefix(ej.Shape, "create-") {
				createCases(c, ej.Shape)
			} else {
				evmCases(c, ej.Shape)
			}
			cw.Close()
			rep.Write(f.Out)
			return
		}
		var cj caseJS
		hlib.ReadReplayCase(f.Replay, &cj)
		c.id = cj.ID
		if c.id < 0 {
			c.id = 0
		}
		c.evalCase(cj.Setup, cj.Ops, "replay", true)
		cw.Close()
		rep.Write(f.Out)
		return
	}

	t0 := time.Now()
	lap := func(what string) {
		if os.Getenv("C12_TIMING") != "" {
			fmt.Fprintf(os.Stderr, "c12 timing: %-12s %6d ms\n", what, time.Since(t0).Milliseconds())
		}
		t0 = time.Now()
	}
	for _, cc := range corpus() {
		c.evalCase(cc.setup, cc.ops, "corpus", true)
	}
	evmCases(c, "")
	createCases(c, "")
	topCases(c, "")
	lap("corpus+top")
	nTrees := 250
	if f.Tier == "thorough" {
		nTrees = 3000
	}
	if v, err := strconv.Atoi(os.Getenv("C12_TREES")); err == nil && v > 0 { // experiments only
		nTrees = v
	}
	rng2 := hlib.NewRng(f.Seed + 0x9e3779b9) // own stream: the generators below keep the one they always had
	treeCases(c, rng2.Fork(), nTrees)
	lap("trees")
	blockCases(c, rng2.Fork(), f.Tier == "thorough")
	lap("blocks")
	layerCases(c, rng2.Fork(), f.Tier == "thorough")
	lap("layers")
	finCases(c, rng2.Fork(), f.Tier == "thorough")
	lap("accounts")
	al := alphabet()
	small := append(append([]Op{}, al[:9]...), Op{K: "Suicide", A: 1}, Op{K: "AddBalance", A: 1, V: 2}, Op{K: "AddLog", V: 1})
	if f.Tier == "thorough" {
		n := exhaustive(c, al, 3, []int{1, 2, 3, 5, 6}, 250, rng.Fork())
		n += exhaustive(c, al, 2, []int{0, 4}, 30, rng.Fork())
		n += exhaustive(c, small, 4, []int{1}, 600, rng.Fork())
		rep.Exhaustive = true
		rep.Note(fmt.Sprintf("exhaustive: %d histories = every prefix+reverted body with |prefix|+|body| <= 3 over the 22-op alphabet on pre-states 1,2,3,5,6 (<= 2 on 0,4), <= 4 over a 12-op alphabet on pre-state 1; monitors on all, Coq cases for a sample", n))
	} else {
		n := exhaustive(c, al, 2, []int{0, 1, 2, 3, 4, 5, 6}, 45, rng.Fork())
		m := 0
		sr := rng.Fork()
		for ; m < 1000; m++ { // sampled depth-3 histories
			cur := []Op{al[sr.Intn(len(al))], al[sr.Intn(len(al))], al[sr.Intn(len(al))]}
			split := sr.Intn(3)
			h := append(append(append(append([]Op{}, cur[:split]...), snap()), cur[split:]...), rev(0))
			c.evalCase([]int{1, 1, 5, 2, 3, 6}[sr.Intn(6)], h, "sampled-depth3", sr.Intn(20) == 0)
		}
		rep.Note(fmt.Sprintf("exhaustive: %d histories = every prefix+reverted body with |prefix|+|body| <= 2 over the 22-op alphabet on all 7 pre-states, plus %d sampled of length 3; monitors on all, Coq cases for a sample", n, m))
	}
	for i := 0; i < f.N; i++ {
		su := rng.Intn(nSetups)
		h := randomHistory(rng.Fork(), su)
		c.evalCase(su, h, "random", true)
	}
	lap("histories")
	cw.Close()
	rep.Write(f.Out)
}

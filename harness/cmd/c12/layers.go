// Multi-transaction histories of C12: what an EARLIER transaction of the block left in the StateDB
// (pendingStorage under originStorage, objects deleted by Finalize that stay in the live set) must not
// show through a reverted frame or a re-creation in a LATER transaction.
//
//  1. slot blocks: one storage slot written by a tree of frames (write | frame{...}ok | frame{...}fail) in
//     several transactions separated by Finalize (what applyTransaction does) or IntermediateRoot, the
//     values drawn from {0, the block-start value, two others} so that "set back to the block-start value",
//     "set back to the pending value", "cleared" all occur before, inside and after reverted frames.
//     Every block is (a) flattened to Snapshot/Revert/EndTx operations and given to evalBlock (revert-restores
//     per slot, erasure, backend and transaction-boundary monitors, trie- and snapshot-backed), and
//     (b) for a sample, run frame by frame with the three caches (dirtyStorage / pendingStorage /
//     originStorage) read through a hook, and compared inside Coq with the layered model (case CL).
//  2. account blocks: an account destroyed by an earlier transaction while holding value / nonce / code /
//     storage (self-destruct then credit in the same transaction; emptied) and touched, re-created or
//     written again by a later one, inside kept, reverted and nested frames.
package main

import (
	"fmt"
	"math/big"
	"strings"

	"github.com/dominant-strategies/go-quai/common"

	"verifharness/hlib"
)

func bigI(v int64) *big.Int { return big.NewInt(v) }

type LFrame struct {
	W    int64    `json:"w,omitempty"`
	Call bool     `json:"call,omitempty"`
	Sub  []LFrame `json:"sub,omitempty"`
	Fail bool     `json:"fail,omitempty"`
}

type LTx struct {
	F    []LFrame `json:"f"`
	Root bool     `json:"root,omitempty"` // boundary after the transaction: IntermediateRoot instead of Finalize
}

type LayerCase struct {
	ID   int    `json:"id"`
	Mode string `json:"mode"` // "layer"
	Base int    `json:"base"`
	A    int    `json:"a"`
	S    int    `json:"s"`
	Txs  []LTx  `json:"txs"`
	Src  string `json:"src,omitempty"`
}

func lw(v int64) LFrame                     { return LFrame{W: v} }
func lcall(fail bool, sub ...LFrame) LFrame { return LFrame{Call: true, Sub: sub, Fail: fail} }

// blockStart is the value of slot s of account a in the parent state of base (see populate/buildBase).
func blockStart(base, a, s int) int64 {
	switch {
	case a == 0:
		return int64(s + 1)
	case a == 1 && base == 1 && s == 0:
		return 9
	}
	return 0
}

func (f LFrame) coq() string {
	if !f.Call {
		return fmt.Sprintf("LSet %d", f.W)
	}
	var l []string
	for _, g := range f.Sub {
		l = append(l, g.coq())
	}
	return fmt.Sprintf("LCall %s %s", hlib.CoqList(l), hlib.CoqBool(f.Fail))
}

func (f LFrame) String() string {
	if !f.Call {
		return fmt.Sprint(f.W)
	}
	var l []string
	for _, g := range f.Sub {
		l = append(l, g.String())
	}
	e := "ok"
	if f.Fail {
		e = "FAIL"
	}
	return "{" + strings.Join(l, " ") + "}" + e
}

// flatten turns the transactions into StateDB operations; revision ids count up over the whole block
// (nextRevisionId is not reset by Finalize).
func flattenLayer(a, s int, txs []LTx) []Op {
	var ops []Op
	next := 0
	var rec func(fs []LFrame)
	rec = func(fs []LFrame) {
		for _, f := range fs {
			if !f.Call {
				ops = append(ops, Op{K: "SetState", A: a, S: s, V: f.W})
				continue
			}
			id := next
			next++
			ops = append(ops, snap())
			rec(f.Sub)
			if f.Fail {
				ops = append(ops, rev(id))
			}
		}
	}
	for i, tx := range txs {
		rec(tx.F)
		if tx.Root {
			ops = append(ops, rootTx(i+1))
		} else {
			ops = append(ops, endTx(i+1))
		}
	}
	return ops
}

type layerObs struct {
	vals   []int64 // GetState after the frames of each transaction
	layers [3]int64
	final  int64
}

func (o layerObs) String() string { return fmt.Sprint(o.vals, o.layers, o.final) }

func runLayer(base, a, sl int, txs []LTx, withSnaps bool) (obs layerObs, ok bool) {
	ok = !safe(func() {
		e := newChainEnv(withSnaps)
		root0, size0 := e.buildBase(base)
		s := e.open(root0, size0, withSnaps)
		s.Prepare(thash, 0)
		var rec func(fs []LFrame)
		rec = func(fs []LFrame) {
			for _, f := range fs {
				if !f.Call {
					s.SetState(addrs[a], slots[sl], common.BigToHash(bigI(f.W)))
					continue
				}
				id := s.Snapshot()
				rec(f.Sub)
				if f.Fail {
					s.RevertToSnapshot(id)
				}
			}
		}
		for i, tx := range txs {
			rec(tx.F)
			obs.vals = append(obs.vals, s.GetState(addrs[a], slots[sl]).Big().Int64())
			if tx.Root {
				apply(s, rootTx(i+1))
			} else {
				apply(s, endTx(i+1))
			}
		}
		l := s.VerifC12StorageLayers(addrs[a], slots[sl])
		obs.layers = [3]int64{l.Dirty.Int64(), l.Pending.Int64(), l.Origin.Int64()}
		obs.final = s.GetState(addrs[a], slots[sl]).Big().Int64()
	})
	return
}

func (c *ctx) evalLayer(base, a, s int, txs []LTx, src string, emit bool) {
	c.evalBlock(base, flattenLayer(a, s, txs), "layer-"+src)
	// An IntermediateRoot in the MIDDLE of a block (not a production path) leaves the sizeChange entry of
	// updateTrie's AddSize/SubSize in the fresh journal, so the next Finalize visits the account even if
	// all its slot writes were reverted; the layered model has no size counter: such blocks get the
	// monitors above but are not compared with the model.
	for i, tx := range txs {
		if tx.Root && i < len(txs)-1 {
			emit = false
		}
	}
	if !emit {
		return
	}
	cj := LayerCase{ID: c.layerID, Mode: "layer", Base: base, A: a, S: s, Txs: txs, Src: src}
	ot, ok1 := runLayer(base, a, s, txs, false)
	os, ok2 := runLayer(base, a, s, txs, true)
	c.rep.Evaluations++
	if !ok1 || !ok2 {
		c.fail("layers/panic", "a slot block panicked", cj)
		return
	}
	if ot.String() != os.String() {
		c.fail("backend/layers-differ", fmt.Sprintf("values read and storage caches after the block: %v on the trie-backed StateDB, %v on the snapshot-backed one", ot, os), cj)
	}
	var bl []string
	for _, tx := range txs {
		var l []string
		for _, f := range tx.F {
			l = append(l, f.coq())
		}
		bl = append(bl, hlib.CoqPair(hlib.CoqList(l), hlib.CoqBool(tx.Root)))
	}
	var vs []string
	for _, v := range ot.vals {
		vs = append(vs, fmt.Sprint(v))
	}
	term := fmt.Sprintf("CL %d %d %s %s (%s, %s, %s) %d", c.layerID, blockStart(base, a, s), hlib.CoqList(bl), hlib.CoqList(vs),
		coqZi(ot.layers[0]), coqZi(ot.layers[1]), coqZi(ot.layers[2]), ot.final)
	c.addOld(term, cj)
	c.rep.TracesValidated++
	c.rep.Count("layer:coq-case")
	c.layerID++
}

// ---------- generators ----------

type slotSel struct{ base, a, s int }

func slotVals(b int64) []int64 {
	l := []int64{0}
	if b != 0 {
		l = append(l, b)
	}
	return append(l, 5, 9)
}

func randLFrames(r *hlib.Rng, vals []int64, n, depth int) []LFrame {
	var fs []LFrame
	for i := 0; i < n; i++ {
		if depth > 0 && r.Chance(40) {
			fs = append(fs, lcall(r.Chance(60), randLFrames(r, vals, 1+r.Intn(2), depth-1)...))
		} else {
			fs = append(fs, lw(vals[r.Intn(len(vals))]))
		}
	}
	return fs
}

func layerCorpus() []LayerCase {
	mk := func(base, a, s int, txs ...LTx) LayerCase { return LayerCase{Base: base, A: a, S: s, Txs: txs} }
	tx := func(f ...LFrame) LTx { return LTx{F: f} }
	txr := func(f ...LFrame) LTx { return LTx{F: f, Root: true} }
	return []LayerCase{
		// tx1 changes the slot; tx2: a frame that completes sets it back to the block-start value, a later frame writes it and fails
		mk(0, 1, 0, tx(lw(5)), tx(lcall(false, lw(0)), lcall(true, lw(9)))),
		mk(0, 0, 0, tx(lw(5)), tx(lcall(false, lw(1)), lcall(true, lw(9)))),
		mk(1, 1, 0, tx(lw(0)), tx(lcall(false, lw(9)), lcall(true, lw(5)))),
		// ... the same inside an outer frame that is kept / inside nested failing frames / set back inside the failing frame
		mk(0, 0, 0, tx(lw(5)), tx(lcall(false, lw(1), lcall(true, lw(9), lcall(true, lw(0)))))),
		mk(0, 0, 0, tx(lw(5)), tx(lcall(true, lw(1), lcall(true, lw(9))), lw(1), lcall(true, lw(5), lw(1), lw(9)))),
		mk(0, 1, 0, tx(lw(5)), tx(lw(9), lcall(true, lw(0), lw(5))), tx(lcall(true, lw(0)))),
		// set back to the PENDING value, then a failing frame
		mk(0, 0, 0, tx(lw(5)), tx(lw(9), lw(5), lcall(true, lw(1)))),
		// three transactions; the boundary is IntermediateRoot (originStorage moves) or Finalize
		mk(0, 0, 0, txr(lw(5)), tx(lcall(false, lw(1)), lcall(true, lw(9)))),
		mk(0, 0, 0, tx(lw(5)), txr(lw(0)), tx(lcall(false, lw(5)), lcall(true, lw(1)), lcall(true, lw(0)))),
		mk(0, 1, 0, tx(lw(5)), tx(lw(0)), tx(lcall(true, lw(5)), lcall(false, lcall(true, lw(9))))),
		// nothing pending: the first write of the block happens inside a failing frame
		mk(0, 0, 1, tx(lcall(true, lw(0))), tx(lcall(true, lw(2), lw(9)), lw(2))),
	}
}

func layerCases(c *ctx, rng *hlib.Rng, thorough bool) {
	n := 0
	for _, lc := range layerCorpus() {
		c.evalLayer(lc.Base, lc.A, lc.S, lc.Txs, "corpus", true)
		n++
	}
	// enumeration: [tx1: write p] ; [tx2: frame{write d} kept ; frame{write w} fails]   (p, d possibly absent)
	sels := []slotSel{{0, 0, 0}, {0, 1, 0}}
	if thorough {
		sels = append(sels, slotSel{1, 1, 0}, slotSel{0, 0, 2})
	}
	sr := rng.Fork()
	for _, sel := range sels {
		vals := slotVals(blockStart(sel.base, sel.a, sel.s))
		opt := append([]int64{-1}, vals[:len(vals)-1]...)
		for _, p := range opt {
			for _, d := range opt {
				for _, w := range vals {
					var txs []LTx
					if p >= 0 {
						txs = append(txs, LTx{F: []LFrame{lw(p)}})
					}
					var t2 []LFrame
					if d >= 0 {
						t2 = append(t2, lcall(false, lw(d)))
					}
					t2 = append(t2, lcall(true, lw(w)))
					txs = append(txs, LTx{F: t2})
					c.evalLayer(sel.base, sel.a, sel.s, txs, "enum", sr.Intn(4) == 0)
					n++
				}
			}
		}
	}
	nr := 50
	if thorough {
		nr = 2500
	}
	all := []slotSel{{0, 0, 0}, {0, 1, 0}, {1, 1, 0}, {0, 0, 2}, {1, 0, 1}}
	for i := 0; i < nr; i++ {
		r := rng.Fork()
		sel := all[r.Intn(len(all))]
		vals := slotVals(blockStart(sel.base, sel.a, sel.s))
		if r.Chance(50) { // small value set: collisions with the block-start and pending values are the point
			vals = vals[:len(vals)-1]
		}
		var txs []LTx
		ntx := 2 + r.Intn(3)
		for t := 0; t < ntx; t++ {
			root := r.Chance(20)
			if i%2 == 0 { // compared with the model: a root only as the last boundary
				root = t == ntx-1 && r.Chance(40)
			}
			txs = append(txs, LTx{F: randLFrames(r, vals, 1+r.Intn(3), 2), Root: root})
		}
		c.evalLayer(sel.base, sel.a, sel.s, txs, "random", i%2 == 0)
		n++
	}
	// account blocks
	m := 0
	for _, h := range acctBlocks(rng.Fork(), thorough) {
		c.evalBlock(h.setup, h.ops, "acct-boundary")
		m++
	}
	c.rep.Note(fmt.Sprintf("multi-transaction level: %d slot blocks (frame trees over one slot in 1-4 transactions, Finalize / IntermediateRoot boundaries, values colliding with the block-start and pending values) and %d account blocks (destroyed while holding value/nonce/code/storage by an earlier transaction, then re-created / credited / written inside kept, reverted and nested frames), all through the block monitors on both backends, plus the transaction-boundary monitor; a sample compared with the layered model (CL)", n, m))
}

// acctBlocks: tx1 destroys an account in a way that leaves something in the deleted object, tx2 touches it.
func acctBlocks(r *hlib.Rng, thorough bool) []corpusCase {
	var out []corpusCase
	after := func(a int) [][]Op { // what happens to the account after its SELFDESTRUCT, in the same transaction
		return [][]Op{
			{{K: "AddBalance", A: a, V: 5}},
			{{K: "SetNonce", A: a, V: 3}},
			{{K: "SetState", A: a, S: 1, V: 4}},
			{{K: "SetCode", A: a, C: []byte{8}}},
			{{K: "AddBalance", A: a, V: 5}, {K: "SetState", A: a, S: 0, V: 6}, {K: "SetNonce", A: a, V: 2}},
			{},
		}
	}
	again := func(a int) [][]Op { // how a later transaction brings the address back
		return [][]Op{
			{op("CreateAccount", a), {K: "AddBalance", A: a, V: 7}},
			{{K: "AddBalance", A: a, V: 7}},
			{op("CreateAccount", a), {K: "SetNonce", A: a, V: 1}},
			{{K: "SetState", A: a, S: 0, V: 2}, {K: "AddBalance", A: a, V: 1}},
			{{K: "SetNonce", A: a, V: 1}},
			{{K: "SetCode", A: a, C: []byte{7}}, {K: "SetNonce", A: a, V: 1}},
		}
	}
	cat := func(l ...[]Op) []Op {
		var h []Op
		for _, x := range l {
			h = append(h, x...)
		}
		return h
	}
	for a := 0; a < 2; a++ { // account a on base a (base 1: account 1 has code, a nonce and a storage slot)
		for i, x := range after(a) {
			for j, y := range again(a) {
				t1 := cat([]Op{op("Suicide", a)}, x, []Op{endTx(1)})
				plain := cat(t1, y)
				reverted := cat(t1, []Op{snap()}, y, []Op{rev(0)}, again(a)[(j+1)%6])
				nested := cat(t1, []Op{snap()}, y, []Op{snap()}, again(1 - a)[j], []Op{rev(1), endTx(2)}, again(a)[(j+2)%6])
				third := cat(t1, []Op{{K: "AddBalance", A: 1 - a, V: 1}, endTx(2), snap()}, y, []Op{rev(0)}, y)
				if thorough || a == 0 || (i+j)%2 == 0 {
					out = append(out, corpusCase{a, plain})
				}
				if thorough || (i+j+a)%6 == 0 {
					out = append(out, corpusCase{a, reverted})
				}
				if thorough || (i+j+a)%6 == 1 {
					out = append(out, corpusCase{a, nested})
				}
				if thorough || (i+j+a)%6 == 2 {
					out = append(out, corpusCase{a, third})
				}
			}
		}
	}
	// emptied (not self-destructed) by the first transaction: account 1 of base 0 holds 5
	for _, y := range again(1) {
		out = append(out, corpusCase{0, cat([]Op{{K: "SubBalance", A: 1, V: 5}, endTx(1)}, y)})
		out = append(out, corpusCase{0, cat([]Op{{K: "SubBalance", A: 1, V: 5}, endTx(1), snap()}, y, []Op{rev(0)}, y)})
	}
	_ = r
	return out
}

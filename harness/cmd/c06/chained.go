// Strengthening round 3 (blind change C06_3): blocks of a foreign miner with Qi transactions that spend outputs
// created earlier in the SAME block, and "the header describes the stored state" checked after the node switched
// its head BACK (real HeaderChain.SetCurrentHeader rollback) and forward again.
package main

import (
	"bytes"
	"fmt"
	"math/big"
	"sort"

	"github.com/btcsuite/btcd/btcec/v2"
	"github.com/dominant-strategies/go-quai/common"
	"github.com/dominant-strategies/go-quai/core/rawdb"
	"github.com/dominant-strategies/go-quai/core/types"
)

const sigRollback = "head-switch-leaves-db-different-from-head-commitment"

// chainedTxs builds 2..3 Qi transactions for one block in which a later transaction spends an output of an earlier
// one. Shapes: line2 (c -> x ; x -> y), line3 (... ; y -> z), split (c -> x1,x2 ; x1 -> y: x2 survives),
// join (c -> x ; {x, committed coin c2} -> y, aggregated signature).
func (s *scenario) chainedTxs(n *node, content []entry, nextNo uint64) (txs []*types.Transaction, fees *big.Int, shape string) {
	r := s.r
	chainID := n.z.Config.ChainID
	signer := types.NewSigner(chainID, loc)
	fees = big.NewInt(0)
	var coins []coin
	for _, e := range content {
		if !e.ut || s.used[string(e.key)] || e.utxo.Denomination < 8 || e.utxo.Lock == nil || e.utxo.Lock.Sign() != 0 {
			continue
		}
		ki := s.a.keyFor(e.utxo.Address)
		if ki < 0 {
			continue
		}
		th, ix, _ := rawdb.ReverseUtxoKey(e.key)
		coins = append(coins, coin{e, th, ix, ki})
	}
	if len(coins) == 0 {
		return nil, fees, ""
	}
	type in struct {
		th  common.Hash
		ix  uint16
		key int
		den uint8
	}
	type out struct {
		key int
		den uint8
	}
	mk := func(ins []in, outs []out) *types.Transaction {
		qt := &types.QiTx{ChainID: chainID}
		var keys []*btcec.PrivateKey
		for _, i := range ins {
			qt.TxIn = append(qt.TxIn, types.TxIn{PreviousOutPoint: types.OutPoint{TxHash: i.th, Index: i.ix}, PubKey: s.a.qiKeys[i.key].PubKey().SerializeUncompressed()})
			keys = append(keys, s.a.qiKeys[i.key])
			fees.Add(fees, types.Denominations[i.den])
		}
		for _, o := range outs {
			qt.TxOut = append(qt.TxOut, types.TxOut{Denomination: o.den, Address: s.a.qiAddrs[o.key].Bytes(), Lock: big.NewInt(0)})
			fees.Sub(fees, types.Denominations[o.den])
		}
		tx, err := signQi(qt, keys, signer)
		if err != nil {
			rep.Count("qi_sign_error")
			return nil
		}
		return tx
	}
	other := func(not ...int) int {
		for {
			i := r.Intn(len(s.a.qiAddrs))
			ok := true
			for _, x := range not {
				if x == i {
					ok = false
				}
			}
			if ok {
				return i
			}
		}
	}
	c := coins[r.Intn(len(coins))]
	d := c.e.utxo.Denomination
	cin := in{c.th, c.ix, c.key, d}
	shape = []string{"line2", "line3", "split", "join"}[r.Intn(4)]
	if s.chainedN < 4 {
		shape = []string{"line2", "split", "join", "line3"}[s.chainedN] // each shape once, first
	}
	var c2 *coin
	if shape == "join" {
		for i := range coins {
			if coins[i].key != c.key && !bytes.Equal(coins[i].e.key, c.e.key) {
				c2 = &coins[i]
				break
			}
		}
		if c2 == nil {
			shape = "line2"
		}
	}
	s.chainedN++
	s.used[string(c.e.key)] = true
	switch shape {
	case "line2", "line3":
		k1 := other(c.key)
		t1 := mk([]in{cin}, []out{{k1, d - 1}})
		if t1 == nil {
			return nil, fees, ""
		}
		k2 := other(k1)
		t2 := mk([]in{{t1.Hash(), 0, k1, d - 1}}, []out{{k2, d - 2}})
		if t2 == nil {
			return nil, fees, ""
		}
		txs = []*types.Transaction{t1, t2}
		if shape == "line3" {
			k3 := other(k2)
			t3 := mk([]in{{t2.Hash(), 0, k2, d - 2}}, []out{{k3, d - 3}})
			if t3 == nil {
				return nil, fees, ""
			}
			txs = append(txs, t3)
		}
	case "split":
		k1 := other(c.key)
		k1b := other(c.key, k1)
		t1 := mk([]in{cin}, []out{{k1, d - 1}, {k1b, d - 2}})
		if t1 == nil {
			return nil, fees, ""
		}
		t2 := mk([]in{{t1.Hash(), 0, k1, d - 1}}, []out{{other(k1), d - 2}})
		if t2 == nil {
			return nil, fees, ""
		}
		txs = []*types.Transaction{t1, t2}
	case "join":
		k1 := other(c.key, c2.key)
		t1 := mk([]in{cin}, []out{{k1, d - 1}})
		if t1 == nil {
			return nil, fees, ""
		}
		s.used[string(c2.e.key)] = true
		t2 := mk([]in{{t1.Hash(), 0, k1, d - 1}, {c2.th, c2.ix, c2.key, c2.e.utxo.Denomination}}, []out{{other(k1, c2.key), d - 1}})
		if t2 == nil {
			return nil, fees, ""
		}
		txs = []*types.Transaction{t1, t2}
	}
	return txs, fees, shape
}

const sigInvalidSpend = "invalid-qi-spend-accepted"

// invalidTxs builds Qi transactions for a foreign miner's block that spend ONE output of the committed set twice:
//   dupin   one transaction, inputs {c, c}                 (aggregated signature of the owner's key with itself)
//   dupin3  one transaction, inputs {c, c2, c}              (the duplicate is not adjacent, another input in between)
//   dspend  two transactions of the block, both spending c
// Amounts are what an executor that counts every listed input would see (so fees / outputs are consistent for a
// node that wrongly accepts the transaction). Nothing is marked used: the block must be refused.
func (s *scenario) invalidTxs(n *node, content []entry) (txs []*types.Transaction, fees *big.Int, shape string) {
	chainID := n.z.Config.ChainID
	signer := types.NewSigner(chainID, loc)
	fees = big.NewInt(0)
	var coins []coin
	for _, e := range content {
		if !e.ut || s.used[string(e.key)] || e.utxo.Denomination < 8 || e.utxo.Lock == nil || e.utxo.Lock.Sign() != 0 {
			continue
		}
		ki := s.a.keyFor(e.utxo.Address)
		if ki < 0 {
			continue
		}
		th, ix, _ := rawdb.ReverseUtxoKey(e.key)
		coins = append(coins, coin{e, th, ix, ki})
	}
	if len(coins) == 0 {
		return nil, fees, ""
	}
	mk := func(ins []coin, outs []uint8) *types.Transaction {
		qt := &types.QiTx{ChainID: chainID}
		var keys []*btcec.PrivateKey
		for _, i := range ins {
			qt.TxIn = append(qt.TxIn, types.TxIn{PreviousOutPoint: types.OutPoint{TxHash: i.th, Index: i.ix}, PubKey: s.a.qiKeys[i.key].PubKey().SerializeUncompressed()})
			keys = append(keys, s.a.qiKeys[i.key])
			fees.Add(fees, types.Denominations[i.e.utxo.Denomination])
		}
		for j, d := range outs {
			qt.TxOut = append(qt.TxOut, types.TxOut{Denomination: d, Address: s.a.qiAddrs[(ins[0].key+1+j)%len(s.a.qiAddrs)].Bytes(), Lock: big.NewInt(0)})
			fees.Sub(fees, types.Denominations[d])
		}
		tx, err := signQi(qt, keys, signer)
		if err != nil {
			rep.Count("qi_sign_error")
			return nil
		}
		return tx
	}
	c := coins[s.r.Intn(len(coins))]
	d := c.e.utxo.Denomination
	shape = []string{"dupin", "dspend", "dupin3"}[s.invalidN%3]
	var c2 *coin
	if shape == "dupin3" {
		for i := range coins {
			if !bytes.Equal(coins[i].e.key, c.e.key) {
				c2 = &coins[i]
				break
			}
		}
		if c2 == nil {
			shape = "dupin"
		}
	}
	s.invalidN++
	switch shape {
	case "dupin":
		if t := mk([]coin{c, c}, []uint8{d, d - 1}); t != nil {
			txs = []*types.Transaction{t}
		}
	case "dupin3":
		if t := mk([]coin{c, *c2, c}, []uint8{d, d - 1, c2.e.utxo.Denomination}); t != nil {
			txs = []*types.Transaction{t}
		}
	case "dspend":
		t1 := mk([]coin{c}, []uint8{d - 1})
		t2 := mk([]coin{c}, []uint8{d - 2})
		if t1 != nil && t2 != nil {
			txs = []*types.Transaction{t1, t2}
		}
	}
	return txs, fees, shape
}

// ---------------- head switches ----------------

// what the chain looked like after each appended block (index = height-1)
type histEntry struct {
	block *types.WorkObject
	scan  []entry        // 'ut'/'cl' content (identical on all backends: monitor g)
	dbl   map[string]int // per node: number of double removals (finding F5) recorded up to this block
}

func scanDiff(got, want []entry) string {
	g, w := map[string]string{}, map[string]string{}
	for _, e := range got {
		g[string(e.key)] = string(e.val)
	}
	for _, e := range want {
		w[string(e.key)] = string(e.val)
	}
	extra, missing, changed := 0, 0, 0
	var first string
	keys := make([]string, 0, len(g))
	for k := range g {
		keys = append(keys, k)
	}
	sort.Strings(keys)
	for _, k := range keys {
		if v, ok := w[k]; !ok {
			extra++
			if first == "" {
				first = fmt.Sprintf("stored but not committed to: %x", k)
			}
		} else if v != g[k] {
			changed++
		}
	}
	for k := range w {
		if _, ok := g[k]; !ok {
			missing++
		}
	}
	if extra+missing+changed == 0 {
		return ""
	}
	return fmt.Sprintf("%d entries the head does not commit to, %d committed entries missing, %d with another value (%s)", extra, missing, changed, first)
}

// headSwitch rolls every node back by k blocks with the real SetCurrentHeader and forward again. After each switch
// the head header must describe the database exactly: content = the content recorded when that block was appended,
// UTXORoot = MuHash of the scan, stored size = number of entries (both adjusted by the recorded F5 double removals).
// Returns false if the chain cannot go on.
func headSwitch(nodes []*node, prim *node, hist []histEntry, k int, spec ChainSpec) (cont bool, undone []entry) {
	head := hist[len(hist)-1]
	target := hist[len(hist)-1-k]
	no := head.block.NumberU64(common.ZONE_CTX)
	check := func(n *node, h histEntry, what string) bool {
		ok := true
		if cur := n.z.Hc.CurrentHeader(); cur == nil || cur.Hash() != h.block.Hash() {
			failCase(sigRollback, fmt.Sprintf("%s on %s: block %d is not the head afterwards", what, n.name, h.block.NumberU64(common.ZONE_CTX)), spec, no, n.name)
			return false
		}
		es := scan(n.db)
		dblAt := h.dbl[n.name]
		if dblAt > len(n.dbl) {
			dblAt = len(n.dbl)
		}
		if d := scanDiff(es, h.scan); d != "" {
			failCase(sigRollback, fmt.Sprintf("%s on %s: the database is not the UTXO set head %d was accepted with: %s", what, n.name, h.block.NumberU64(common.ZONE_CTX), d), spec, no, n.name)
			ok = false
		}
		if muOf(es, n.dbl[:dblAt]) != h.block.UTXORoot() {
			failCase(sigRollback, fmt.Sprintf("%s on %s: UTXORoot of head %d is not the MuHash of the %d stored entries", what, n.name, h.block.NumberU64(common.ZONE_CTX), len(es)), spec, no, n.name)
			ok = false
		}
		if size := rawdb.ReadUTXOSetSize(n.db, h.block.Hash()); size != uint64(len(es))-uint64(dblAt) {
			failCase(sigRollback, fmt.Sprintf("%s on %s: head %d commits to a set of %d entries, the database holds %d (%d recorded double removals)", what, n.name, h.block.NumberU64(common.ZONE_CTX), size, len(es), dblAt), spec, no, n.name)
			ok = false
		}
		return ok
	}
	good := true
	for _, n := range nodes {
		rep.Count(fmt.Sprintf("head_switch_back_%d", k))
		if err := n.z.LockedSetHead(target.block); err != nil {
			failCase(sigRollback, fmt.Sprintf("SetCurrentHeader back from block %d to its ancestor %d fails on %s: %s", no, target.block.NumberU64(common.ZONE_CTX), n.name, errClass(err)), spec, no, n.name)
			return false, nil
		}
		if n == prim {
			undone = scan(n.db) // what the rollback loop over these k blocks left (Coq case: o_undone, switch_back)
			if undone == nil {
				undone = []entry{}
			}
		}
		if !check(n, target, fmt.Sprintf("after SetCurrentHeader from block %d back to its ancestor %d", no, target.block.NumberU64(common.ZONE_CTX))) {
			good = false
		}
		if err := n.z.LockedSetHead(head.block); err != nil {
			failCase(sigRollback, fmt.Sprintf("SetCurrentHeader forward again to block %d fails on %s: %s", no, n.name, errClass(err)), spec, no, n.name)
			return false, undone
		}
		if !check(n, head, fmt.Sprintf("after switching back to %d and forward again to block %d", target.block.NumberU64(common.ZONE_CTX), no)) {
			return false, undone
		}
	}
	_ = good // the forward switch re-established the head state: the chain can go on
	return true, undone
}

package main

import (
	"bytes"
	"fmt"
	"math/big"
	"os"

	"github.com/btcsuite/btcd/btcec/v2"
	"github.com/btcsuite/btcd/btcec/v2/schnorr"
	"github.com/dominant-strategies/go-quai/common"
	"github.com/dominant-strategies/go-quai/core"
	"github.com/dominant-strategies/go-quai/core/rawdb"
	"github.com/dominant-strategies/go-quai/core/types"
	"github.com/dominant-strategies/go-quai/crypto"
	"github.com/dominant-strategies/go-quai/crypto/multiset"
	"github.com/dominant-strategies/go-quai/ethdb"
	"github.com/dominant-strategies/go-quai/log"
	"github.com/dominant-strategies/go-quai/params"
	"verifharness/hlib"
)

func grind(r *hlib.Rng, loc common.Location, qi bool) (*btcec.PrivateKey, common.Address) {
	for {
		k, _ := btcec.PrivKeyFromBytes(r.Bytes(32))
		pub := k.PubKey().SerializeUncompressed()
		a := crypto.PubkeyBytesToAddress(pub, loc)
		if !a.Location().Equal(loc) {
			continue
		}
		if a.IsInQiLedgerScope() == qi {
			return k, a
		}
	}
}

func scan(db ethdb.Database) (*multiset.MultiSet, int) {
	ms := multiset.New()
	n := 0
	it := db.NewIterator(rawdb.UtxoPrefix, nil)
	for it.Next() {
		if len(it.Key()) != rawdb.UtxoKeyLength {
			continue
		}
		th, ix, _ := rawdb.ReverseUtxoKey(it.Key())
		u := rawdb.GetUTXO(db, th, ix)
		ms.Add(types.UTXOHash(th, ix, u).Bytes())
		n++
	}
	it.Release()
	return ms, n
}

func main() {
	logger := hlib.QuietLogs()
	if os.Getenv("VLOG") != "" {
		log.Global.SetOutput(os.Stderr)
	}
	params.TimeToStartTx = 0
	types.TrimDepths = map[uint8]uint64{0: 3, 1: 4, 2: 5, 3: 6, 4: 7, 5: 8}
	db := rawdb.NewMemoryDatabase(logger)
	loc := common.Location{0, 0}
	r := hlib.NewRng(1)
	cb := common.HexToAddress("0x0000000000000000000000000000000000000001", loc)
	k1, a1 := grind(r, loc, true)
	_, a2 := grind(r, loc, true)
	fmt.Println(a1.Hex(), a2.Hex())
	z, err := core.VerifNewZone(db, core.VerifZoneOptions{Location: loc, QuaiCoinbase: cb, QiCoinbase: a2, GenesisTime: 1000}, logger)
	if err != nil {
		fmt.Println("newzone:", err)
		return
	}
	foreign := common.HexToAddress("0x0100000000000000000000000000000000000007", common.Location{0, 1})
	var pending types.Transactions
	type op struct {
		h   common.Hash
		idx uint16
		den uint8
		at  uint64
	}
	var mine []op
	for i := 0; i < 30; i++ {
		b, err := z.Assemble(true)
		if err != nil {
			fmt.Println("assemble:", i, err)
			return
		}
		fmt.Println("assembled", b.NumberU64(common.ZONE_CTX), "out", len(b.OutboundEtxs()), "txs", len(b.Transactions()), "gaslimit", b.GasLimit(), "gasused", b.GasUsed(), "basefee", b.BaseFee())
		if err := z.Append(b); err != nil {
			fmt.Println("append:", i, err)
			return
		}
		pending = append(pending, b.OutboundEtxs()...)
		// foreign Qi etx
		for d := 0; d < 3; d++ {
			den := uint8(r.Intn(15))
			if d == 0 {
				den = 5
			}
			oh := common.BytesToHash(r.Bytes(32))
			etx := types.NewTx(&types.ExternalTx{To: &a1, Sender: foreign, Value: big.NewInt(int64(den)), EtxType: types.DefaultType, OriginatingTxHash: oh, ETXIndex: uint16(d), Gas: params.TxGas})
			pending = append(pending, etx)
			mine = append(mine, op{oh, uint16(d), den, b.NumberU64(common.ZONE_CTX) + 1})
		}
		rawdb.WriteInboundEtxs(db, b.Hash(), pending)
		pending = nil
		ms, n := scan(db)
		tr, _ := rawdb.ReadTrimmedUTXOs(db, b.Hash())
		sp, _ := rawdb.ReadSpentUTXOs(db, b.Hash())
		fmt.Println(" utxo set size", rawdb.ReadUTXOSetSize(db, b.Hash()), "scan", n, "root==scan", ms.Hash() == b.UTXORoot(), "stored==root", rawdb.ReadMultiSet(db, b.Hash()).Hash() == b.UTXORoot(), "trimmed", len(tr), "spent", len(sp))
		// try spend
		if i >= 3 {
			for j, o := range mine {
				u := rawdb.GetUTXO(db, o.h, o.idx)
				if u == nil || u.Denomination != 5 || o.at+8 != b.NumberU64(common.ZONE_CTX)+1 {
					continue
				}
				chainID := z.Config.ChainID
				signer := types.NewSigner(chainID, loc)
				qt := &types.QiTx{ChainID: chainID,
					TxIn:  types.TxIns{{PreviousOutPoint: types.OutPoint{TxHash: o.h, Index: o.idx}, PubKey: k1.PubKey().SerializeUncompressed()}},
					TxOut: types.TxOuts{{Denomination: u.Denomination - 1, Address: a2.Bytes(), Lock: big.NewInt(0)}}}
				tx := types.NewTx(qt)
				sig, err := schnorr.Sign(k1, signer.Hash(tx).Bytes())
				if err != nil {
					panic(err)
				}
				qt.Signature = sig
				tx = types.NewTx(qt)
				errs := z.Pool.AddLocal(tx)
				fmt.Println("  spend", j, u.Denomination, errs)
				mine[j].den = 255
				mine = append(mine[:j], mine[j+1:]...)
				break
			}
		}
	}
	_ = bytes.Compare
}

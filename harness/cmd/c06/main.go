// Harness for property C06: block execution is deterministic and the header
// commitments (UTXO root / set size / EVM root / ETX-set root) describe the stored state.
//
// It drives the REAL go-quai zone stack (worker, HeaderChain, StateProcessor.Process,
// BlockValidator.ValidateState, Finalize/TrimBlock, rawdb, MuHash multiset) through the
// `verif` mini node on memorydb, leveldb and pebble side by side, and
//   - re-executes every block several times under different GOMAXPROCS (determinism monitor),
//   - after every appended block scans the 'ut' and 'cl' prefixes of each database and compares the
//     MuHash of the live entries / their number with the stored multiset, the header UTXORoot and the
//     stored set size (commitment monitor), and reopens the state at the header roots,
//   - emits every chain as a Coq case (batch operations, trim candidates, observed content, size,
//     root-matches flag per block) for the model in coq/Model/C06.v.
package main

import (
	"bytes"
	"crypto/ecdsa"
	"crypto/sha256"
	"encoding/binary"
	"encoding/hex"
	"fmt"
	"math/big"
	"os"
	"path/filepath"
	"runtime"
	"runtime/debug"
	"sort"
	"strings"
	"time"

	"github.com/btcsuite/btcd/btcec/v2"
	"github.com/btcsuite/btcd/btcec/v2/schnorr"
	"github.com/btcsuite/btcd/btcec/v2/schnorr/musig2"
	"github.com/dominant-strategies/go-quai/common"
	"github.com/dominant-strategies/go-quai/core"
	"github.com/dominant-strategies/go-quai/core/rawdb"
	"github.com/dominant-strategies/go-quai/core/state"
	"github.com/dominant-strategies/go-quai/core/types"
	"github.com/dominant-strategies/go-quai/crypto"
	"github.com/dominant-strategies/go-quai/crypto/multiset"
	"github.com/dominant-strategies/go-quai/ethdb"
	"github.com/dominant-strategies/go-quai/ethdb/leveldb"
	"github.com/dominant-strategies/go-quai/ethdb/memorydb"
	"github.com/dominant-strategies/go-quai/ethdb/pebble"
	"github.com/dominant-strategies/go-quai/log"
	"github.com/dominant-strategies/go-quai/params"
	"github.com/dominant-strategies/go-quai/trie"
	"google.golang.org/protobuf/proto"
	"verifharness/hlib"
)

var (
	loc      = common.Location{0, 0}
	logger   *log.Logger
	verbose  = os.Getenv("C06_VERBOSE") != ""
	rep      *hlib.Report
	trimDeps = map[uint8]uint64{0: 3, 1: 4, 2: 5, 3: 6, 4: 7, 5: 8}
)

var switchLockup = os.Getenv("C06_SWITCH_LOCKUP") != "" // experiment: head switches in lockup chains too

var trimStaggered = map[uint8]uint64{0: 3, 1: 4, 2: 5, 3: 6, 4: 7, 5: 8}

// setTrimDepths installs the trim schedule of a chain (called while no node is running): staggered = one depth per
// denomination as on mainnet (scaled), flat = all six denominations due at the same depth, so that the six
// TrimBlock goroutines of a block read the same created-keys record.
func setTrimDepths(kind string) {
	m, t := map[uint8]uint64{}, map[uint8]uint64{}
	for k, v := range trimStaggered {
		if kind == "flat" {
			v = 3
		}
		m[k], t[k] = v, v
	}
	trimDeps = m
	types.TrimDepths = t
}

const (
	sigF5       = "trim-and-spend-same-block:double-removal"
	sigRootScan = "utxo-root-differs-from-db-scan"
	sigRootHdr  = "stored-multiset-differs-from-header-utxo-root"
	sigSize     = "utxo-set-size-differs-from-db-scan"
	sigDet      = "process-nondeterministic"
	sigBackend  = "process-backend-dependent"
	sigSnap     = "process-depends-on-snapshot-layer"
	sigRestart  = "head-state-not-on-disk-after-restart"
	sigReject   = "own-block-rejected"
	sigState    = "state-roots-do-not-open"
	sigScanDiff = "db-content-backend-dependent"
	sigMuLaw    = "multiset-not-a-commutative-group-action"
	sigPanic    = "panic-in-code-under-test"
)

// ---------------- actors ----------------

type actors struct {
	qiKeys    []*btcec.PrivateKey
	qiAddrs   []common.Address
	quaiKeys  []*ecdsa.PrivateKey
	quaiAddrs []common.Address
	fQi       common.Address // Qi address in zone 0-1 (foreign sender)
	fQuai     common.Address // Quai address in zone 0-1
}

func grindQi(r *hlib.Rng) (*btcec.PrivateKey, common.Address) {
	for {
		k, _ := btcec.PrivKeyFromBytes(r.Bytes(32))
		a := crypto.PubkeyBytesToAddress(k.PubKey().SerializeUncompressed(), loc)
		if _, err := a.InternalAndQiAddress(); err == nil && a.Location().Equal(loc) {
			return k, a
		}
	}
}
func grindQuai(r *hlib.Rng) (*ecdsa.PrivateKey, common.Address) {
	for {
		k, err := crypto.ToECDSA(r.Bytes(32))
		if err != nil {
			continue
		}
		a := crypto.PubkeyToAddress(k.PublicKey, loc)
		if _, err := a.InternalAndQuaiAddress(); err == nil && a.Location().Equal(loc) {
			return k, a
		}
	}
}

func newActors() *actors {
	r := hlib.NewRng(0xC06) // fixed: the same keys in every run
	a := &actors{}
	for i := 0; i < 6; i++ {
		k, ad := grindQi(r)
		a.qiKeys, a.qiAddrs = append(a.qiKeys, k), append(a.qiAddrs, ad)
	}
	for i := 0; i < 2; i++ {
		k, ad := grindQuai(r)
		a.quaiKeys, a.quaiAddrs = append(a.quaiKeys, k), append(a.quaiAddrs, ad)
	}
	a.fQi = common.HexToAddress("0x0180000000000000000000000000000000000007", common.Location{0, 1})
	a.fQuai = common.HexToAddress("0x0100000000000000000000000000000000000007", common.Location{0, 1})
	return a
}
func (a *actors) keyFor(addr []byte) int {
	for i, x := range a.qiAddrs {
		if bytes.Equal(x.Bytes(), addr) {
			return i
		}
	}
	return -1
}

// ---------------- nodes ----------------

type locMem struct{ *memorydb.Database }

func (l locMem) Location() common.Location { return loc }

type node struct {
	name     string
	db       ethdb.Database
	z        *core.VerifZone
	dir      string
	dbl      []common.Hash // element hashes removed twice from this node's accumulator so far (finding F5)
	opts     core.VerifZoneOptions
	restarts int
}

// restart stops the node (the stop a real node performs: worker, pool, header chain; nothing journals the
// snapshot diff layers or the trie dirty caches) and starts a new one over the same database: NewHeaderChain ->
// loadLastState, NewStateProcessor -> fresh trie caches, snapshot.New(rebuild) for the head root. Everything that
// only lived in the old process' memory is gone.
func (n *node) restart() error {
	n.waitSnapIdle()
	func() {
		defer func() { recover() }()
		n.z.Close()
	}()
	z, err := core.VerifNewZone(n.db, n.opts, logger)
	if err != nil {
		return err
	}
	n.z = z
	n.restarts++
	return nil
}

// waitSnapIdle waits until the background generator of the node's snapshot tree (started by snapshot.New(rebuild)
// at node start) has finished. A real process takes its generator with it when it dies; here the old node's
// goroutines live on in the harness process, so a node is only stopped / its database only closed once they are idle.
func (n *node) waitSnapIdle() {
	t := n.z.VerifC06Snaps()
	if t == nil {
		return
	}
	dl := time.Now().Add(10 * time.Second)
	for time.Now().Before(dl) {
		it, err := t.AccountIterator(t.DiskRoot(), common.Hash{})
		if err == nil {
			it.Release()
			return
		}
		time.Sleep(500 * time.Microsecond)
	}
	rep.Count("snapshot_generator_still_busy")
}

// diskState opens the account state and the ETX set committed by a header from the DATABASE ALONE (fresh
// state/trie databases: no dirty node cache, no clean cache, no snapshot of a running node) and walks every
// node of the account trie, of every storage trie, every contract code and every node of the ETX-set trie.
// Returns "" if everything the header commits to is on disk.
func diskState(db ethdb.Database, block *types.WorkObject) (what string) {
	defer func() {
		if r := recover(); r != nil {
			what = fmt.Sprintf("panic: %v", r)
		}
	}()
	st, err := state.New(block.EVMRoot(), block.EtxSetRoot(), block.QuaiStateSize(), state.NewDatabase(db), state.NewDatabase(db), nil, loc, logger)
	if err != nil {
		return "state at EVMRoot/EtxSetRoot does not open from the database: " + errClass(err)
	}
	it := state.NewNodeIterator(st)
	for it.Next() {
	}
	if it.Error != nil {
		return "account/storage trie under EVMRoot is incomplete in the database: " + errClass(it.Error)
	}
	if st.IntermediateRoot(true) != block.EVMRoot() || st.ETXRoot() != block.EtxSetRoot() {
		return "state opened from the database has other roots than the header"
	}
	tr, err := trie.New(block.EtxSetRoot(), trie.NewDatabase(db))
	if err != nil {
		return "ETX-set trie under EtxSetRoot does not open from the database: " + errClass(err)
	}
	nit := tr.NodeIterator(nil)
	for nit.Next(true) {
	}
	if nit.Error() != nil {
		return "ETX-set trie under EtxSetRoot is incomplete in the database: " + errClass(nit.Error())
	}
	if _, err := st.GetOldestIndex(); err != nil {
		return "ETX queue index unreadable from the database: " + errClass(err)
	}
	return ""
}

// reopen = monitor (f): the live node opens the state at the header roots, recomputes the same roots, balances and the
// ETX queue index are readable.
func reopen(n *node, block *types.WorkObject, a *actors) (what string) {
	defer func() {
		if r := recover(); r != nil {
			what = fmt.Sprintf("reopening the state panicked: %v", r)
		}
	}()
	st, err := n.z.StateAt(block)
	if err != nil {
		return "state at EVMRoot/EtxSetRoot does not open: " + errClass(err)
	}
	if st.IntermediateRoot(true) != block.EVMRoot() || st.ETXRoot() != block.EtxSetRoot() {
		return "reopened state has other roots than the header"
	}
	for _, qa := range a.quaiAddrs {
		ia, _ := qa.InternalAndQuaiAddress()
		st.GetBalance(ia)
	}
	if _, err := st.GetOldestIndex(); err != nil {
		return "ETX queue unreadable"
	}
	return ""
}

func newNode(kind string, tmp string, idx int, a *actors) (*node, error) {
	n := &node{name: kind}
	switch kind {
	case "memorydb":
		// memorydb.Database.Location() returns nil, so a block re-read from it (block cache miss) decodes every
		// in-zone address as external; a production store is opened with the node location. Give it one.
		n.db = rawdb.NewDatabase(&guardKV{locMem{memorydb.New(logger)}, kind})
	case "leveldb":
		n.dir = filepath.Join(tmp, fmt.Sprintf("ldb%d", idx))
		d, err := leveldb.New(n.dir, 16, 16, "", false, logger, loc)
		if err != nil {
			return nil, err
		}
		n.db = rawdb.NewDatabase(&guardKV{d, kind})
	case "pebble":
		n.dir = filepath.Join(tmp, fmt.Sprintf("peb%d", idx))
		d, err := pebble.New(n.dir, 16, 16, "", false, logger, loc)
		if err != nil {
			return nil, err
		}
		n.db = rawdb.NewDatabase(&guardKV{d, kind})
	}
	cb, qi := a.quaiAddrs[1], a.qiAddrs[5]
	n.opts = core.VerifZoneOptions{Location: loc, QuaiCoinbase: cb, QiCoinbase: qi, GenesisTime: 1000}
	z, err := core.VerifNewZone(n.db, n.opts, logger)
	if err != nil {
		return nil, err
	}
	n.z = z
	return n, nil
}
func (n *node) close() {
	defer func() { recover() }()
	n.waitSnapIdle()
	n.z.Close()
	n.db.Close()
	if n.dir != "" {
		os.RemoveAll(n.dir)
	}
}

// ---------------- database content ----------------

type entry struct {
	key  []byte
	val  []byte
	hash common.Hash // the element the multiset holds for this entry
	ut   bool
	utxo *types.UtxoEntry
}

func elemHash(key, val []byte) (common.Hash, *types.UtxoEntry, bool) {
	if len(key) == rawdb.UtxoKeyLength && bytes.HasPrefix(key, rawdb.UtxoPrefix) {
		th, ix, err := rawdb.ReverseUtxoKey(key)
		if err != nil {
			return common.Hash{}, nil, false
		}
		p := new(types.ProtoTxOut)
		if err := proto.Unmarshal(val, p); err != nil {
			return common.Hash{}, nil, false
		}
		u := new(types.UtxoEntry)
		if err := u.ProtoDecode(p); err != nil {
			return common.Hash{}, nil, false
		}
		return types.UTXOHash(th, ix, u), u, true
	}
	if len(key) == rawdb.CoinbaseLockupKeyLength && bytes.HasPrefix(key, rawdb.CoinbaseLockupPrefix) {
		owner, miner, lb, epoch, err := rawdb.ReverseCoinbaseLockupKey(key, loc)
		if err != nil || len(val) < 38 {
			return common.Hash{}, nil, false
		}
		amount := new(big.Int).SetBytes(val[:32])
		height := binary.BigEndian.Uint32(val[32:36])
		elements := binary.BigEndian.Uint16(val[36:38])
		delegate := common.Zero
		if len(val) == 58 {
			delegate = common.BytesToAddress(val[38:], loc)
		}
		return types.CoinbaseLockupHash(owner, miner, delegate, lb, epoch, amount, height, elements), nil, true
	}
	return common.Hash{}, nil, false
}

func isSetKey(key []byte) bool {
	return (len(key) == rawdb.UtxoKeyLength && bytes.HasPrefix(key, rawdb.UtxoPrefix)) ||
		(len(key) == rawdb.CoinbaseLockupKeyLength && bytes.HasPrefix(key, rawdb.CoinbaseLockupPrefix))
}

// scan = full iterator scan of the 'ut' and 'cl' prefixes (sorted by key: iterator order)
func scan(db ethdb.Database) []entry {
	var out []entry
	for _, pfx := range [][]byte{rawdb.CoinbaseLockupPrefix, rawdb.UtxoPrefix} {
		it := db.NewIterator(pfx, nil)
		for it.Next() {
			k := common.CopyBytes(it.Key())
			if !isSetKey(k) {
				continue
			}
			v := common.CopyBytes(it.Value())
			h, u, ok := elemHash(k, v)
			if !ok {
				continue
			}
			out = append(out, entry{key: k, val: v, hash: h, ut: k[0] == 'u', utxo: u})
		}
		it.Release()
	}
	return out
}

func muOf(es []entry, removed []common.Hash) common.Hash {
	ms := multiset.New()
	for _, e := range es {
		ms.Add(e.hash.Bytes())
	}
	for _, h := range removed {
		ms.Remove(h.Bytes())
	}
	return ms.Hash()
}

// ---------------- recording the batch of Process ----------------

type bop struct {
	del bool
	key []byte
	val []byte
}
type recorder struct {
	ops      []bop // operations on 'ut'/'cl' keys, in order
	tutxoAt  int   // len(ops) when the trimmed-utxos record was written (-1: never)
	allKeys  []string
	setBytes int
}

func (r *recorder) Put(key, value []byte) error {
	r.allKeys = append(r.allKeys, "P"+string(key))
	if bytes.HasPrefix(key, []byte("tutxo")) && r.tutxoAt < 0 {
		r.tutxoAt = len(r.ops)
	}
	if isSetKey(key) {
		r.ops = append(r.ops, bop{false, common.CopyBytes(key), common.CopyBytes(value)})
	}
	return nil
}
func (r *recorder) Logger() *log.Logger { return logger }
func (r *recorder) Delete(key []byte) error {
	r.allKeys = append(r.allKeys, "D"+string(key))
	if isSetKey(key) {
		r.ops = append(r.ops, bop{true, common.CopyBytes(key), nil})
	}
	return nil
}

// ---------------- one Process run and its observables ----------------

type procObs struct {
	err       string
	receipts  common.Hash
	etxs      common.Hash
	gas       uint64
	stateUsed uint64
	setSize   uint64
	muhash    common.Hash
	evmRoot   common.Hash
	etxRoot   common.Hash
	trieSize  string
	validate  string
	delta     common.Hash // digest of the final 'ut'/'cl' effect of the batch (sorted by key)
	keyset    common.Hash // digest of the sorted set of all keys the batch touches
	rec       *recorder
}

func (o *procObs) fingerprint() string {
	return fmt.Sprintf("%s|%x|%x|%d|%d|%d|%x|%x|%x|%s|%s|%x|%x", o.err, o.receipts, o.etxs, o.gas, o.stateUsed, o.setSize, o.muhash, o.evmRoot, o.etxRoot, o.trieSize, o.validate, o.delta, o.keyset)
}

// diffFields names the observables in which two runs differ (names only: stable text)
func diffFields(a, b *procObs) string {
	var d []string
	add := func(name string, x, y any) {
		if fmt.Sprint(x) != fmt.Sprint(y) {
			d = append(d, name)
		}
	}
	add("error", a.err, b.err)
	add("receiptRoot", a.receipts, b.receipts)
	add("outboundEtxs", a.etxs, b.etxs)
	add("gasUsed", a.gas, b.gas)
	add("stateUsed", a.stateUsed, b.stateUsed)
	add("utxoSetSize", a.setSize, b.setSize)
	add("utxoRoot", a.muhash, b.muhash)
	add("evmRoot", a.evmRoot, b.evmRoot)
	add("etxSetRoot", a.etxRoot, b.etxRoot)
	add("quaiTrieSize", a.trieSize, b.trieSize)
	add("validateVerdict", a.validate, b.validate)
	add("utxoBatchDelta", a.delta, b.delta)
	add("batchKeySet", a.keyset, b.keyset)
	return strings.Join(d, ",")
}

func errClass(err error) string {
	if err == nil {
		return ""
	}
	s := err.Error()
	if i := strings.IndexAny(s, "(:["); i > 0 {
		s = s[:i]
	}
	return strings.TrimSpace(s)
}

// snapshot configurations under which a block is re-executed (the property: commitments do not depend on
// cache warmth / configuration): "node" = whatever snapshot tree the node's processor has at this point
// (diff layers accumulated since start, or a disk layer under regeneration after a restart), "nosnap" = no
// snapshot tree (SnapshotLimit = 0, or the load failed), "fresh" = a completely generated snapshot of the
// parent state (restart + regeneration finished).
const (
	cfgNode   = "node"
	cfgNoSnap = "nosnap"
	cfgFresh  = "fresh"
)

func parentEvmRoot(n *node, block *types.WorkObject) common.Hash {
	ph := block.ParentHash(common.ZONE_CTX)
	if n.z.Hc.IsGenesisHash(ph) {
		return types.EmptyRootHash
	}
	if p := n.z.Hc.GetHeaderByHash(ph); p != nil {
		return p.EVMRoot()
	}
	return types.EmptyRootHash
}

func parentEtxRoot(n *node, block *types.WorkObject) common.Hash {
	ph := block.ParentHash(common.ZONE_CTX)
	if n.z.Hc.IsGenesisHash(ph) {
		return types.EmptyRootHash
	}
	if p := n.z.Hc.GetHeaderByHash(ph); p != nil {
		return p.EtxSetRoot()
	}
	return types.EmptyRootHash
}

func processOnce(n *node, block *types.WorkObject, cfg string) (o *procObs) {
	o = &procObs{}
	defer func() {
		if r := recover(); r != nil {
			o.err = fmt.Sprintf("PANIC %v", r)
			if verbose {
				fmt.Fprintln(os.Stderr, string(debug.Stack()))
			}
		}
	}()
	batch := n.db.NewBatch()
	var (
		receipts                    types.Receipts
		etxs                        []*types.Transaction
		statedb                     *state.StateDB
		usedGas, usedState, setSize uint64
		ms                          *multiset.MultiSet
		err                         error
	)
	switch cfg {
	case cfgNoSnap:
		receipts, etxs, statedb, usedGas, usedState, setSize, ms, err = n.z.VerifC06ProcessSnaps(nil, block, batch)
	case cfgFresh:
		tree, terr := n.z.VerifC06FreshSnaps(parentEvmRoot(n, block), 20*time.Second)
		if terr != nil {
			o.err = "harness: " + terr.Error()
			return
		}
		if tree.Snapshot(parentEvmRoot(n, block)) == nil {
			o.err = "harness: generated snapshot has no layer for the parent root"
			return
		}
		receipts, etxs, statedb, usedGas, usedState, setSize, ms, err = n.z.VerifC06ProcessSnaps(tree, block, batch)
	default:
		receipts, etxs, _, statedb, usedGas, usedState, setSize, ms, _, err = n.z.Processor().Process(block, batch)
	}
	if err != nil {
		o.err = "process: " + errClass(err)
		if verbose {
			fmt.Fprintln(os.Stderr, "process error:", err)
		}
		return
	}
	o.receipts = types.DeriveSha(receipts, trie.NewStackTrie(nil))
	o.etxs = types.DeriveSha(types.Transactions(etxs), trie.NewStackTrie(nil))
	o.gas, o.stateUsed, o.setSize = usedGas, usedState, setSize
	o.muhash = ms.Hash()
	if verr := n.z.Validator().ValidateState(block, statedb, receipts, etxs, ms, usedGas, usedState); verr != nil {
		o.validate = errClass(verr)
		if verbose {
			fmt.Fprintln(os.Stderr, "validate error:", verr)
		}
	}
	o.evmRoot = statedb.IntermediateRoot(true)
	o.etxRoot = statedb.ETXRoot()
	o.trieSize = statedb.GetQuaiTrieSize().String()
	rec := &recorder{tutxoAt: -1}
	batch.Replay(rec)
	o.rec = rec
	final := map[string]string{}
	for _, op := range rec.ops {
		if op.del {
			final[string(op.key)] = "D"
		} else {
			final[string(op.key)] = "P" + string(op.val)
		}
	}
	h := sha256.New()
	for _, k := range hlib.SortedKeys(final) {
		h.Write([]byte(k))
		h.Write([]byte{0})
		h.Write([]byte(final[k]))
		h.Write([]byte{1})
	}
	copy(o.delta[:], h.Sum(nil))
	ks := map[string]struct{}{}
	for _, k := range rec.allKeys {
		ks[k[1:]] = struct{}{}
	}
	h = sha256.New()
	for _, k := range hlib.SortedKeys(ks) {
		h.Write([]byte(k))
		h.Write([]byte{0})
	}
	copy(o.keyset[:], h.Sum(nil))
	batch.Reset()
	return
}

// ---------------- chain specification / case ----------------

type ChainSpec struct {
	ID      uint64   `json:"id"`
	Seed    uint64   `json:"seed"`
	Kind    string   `json:"kind"` // f5 | clean | random | lockup | recreate | storm | chained
	Depths  string   `json:"depths,omitempty"` // trim schedule of the chain: "" = staggered {3..8}, "flat" = every denomination 3 blocks
	Storm   int      `json:"storm,omitempty"`  // kind storm: small outputs delivered per trimmable denomination and block
	Len     int      `json:"len"`
	Primary int      `json:"primary"` // which backend assembles
	Kinds   []string `json:"backends"`
	Reps    int      `json:"reps"` // Process repetitions per block and backend
	// kind "storage": a batch of storage scenarios (storage.go): either the one scenario given, or the batch
	// regenerated from seed / sto_n / sto_corpus
	Scenario  *stoScenario `json:"scenario,omitempty"`
	StoN      int          `json:"sto_n,omitempty"`
	StoCorpus bool         `json:"sto_corpus,omitempty"`
}

type indexer struct {
	keys  map[string]int
	elems map[common.Hash]int
}

func (ix *indexer) key(k []byte) int {
	if v, ok := ix.keys[string(k)]; ok {
		return v
	}
	v := len(ix.keys) + 1
	ix.keys[string(k)] = v
	return v
}
func (ix *indexer) elem(h common.Hash) int {
	if v, ok := ix.elems[h]; ok {
		return v
	}
	v := len(ix.elems) + 1
	ix.elems[h] = v
	return v
}

type chainResult struct {
	blocks   []string // Coq blk terms
	f5Blocks int
	trimView string // observed: "ParentDb" | "AfterOps" | "" (undetermined)
	nBlocks  int
	broken   string
}

var gomax = []int{1, 4, 16, 2, 8}

const corpusChains = 7 // chains 1..7 are the fixed corpus

// where the wall time goes (reported as notes; not part of any verdict)
var spent = map[string]time.Duration{}

func timed(what string, f func()) {
	t0 := time.Now()
	f()
	spent[what] += time.Since(t0)
}

func failCase(sig, what string, spec ChainSpec, blockNo uint64, extra string) {
	c := map[string]any{"id": spec.ID, "seed": spec.Seed, "kind": spec.Kind, "len": spec.Len, "primary": spec.Primary, "backends": spec.Kinds, "reps": spec.Reps, "depths": spec.Depths, "storm": spec.Storm, "at_block": blockNo, "detail": extra}
	rep.Fail(sig, what, c)
}

// ---------------- scenario ----------------

type scenario struct {
	r          *hlib.Rng
	a          *actors
	spec       ChainSpec
	height     map[string]uint64 // key -> block number that created it
	used       map[string]bool   // outpoints already put into a pool tx
	nonce      map[int]uint64
	funded     map[int]bool
	contract   *common.Address
	deployed   bool
	minerSet   bool
	preferQi   bool
	lockByte   uint8
	store      *common.Address // storage-writing contract (six SSTOREs of the call data word per call)
	storeTx    common.Hash
	lockupTx   common.Hash
	storeReady bool
	rc         *recreate // re-creation script (recreate.go); nil: not played in this chain
	chainedN   int       // blocks with intra-block Qi chains built so far (chained.go)
	invalidN   int       // foreign-miner blocks with an invalid Qi spend offered so far (chained.go)
}

func (s *scenario) foreignQiEtx(to common.Address, den uint8, idx uint16) *types.Transaction {
	oh := common.BytesToHash(s.r.Bytes(32))
	return types.NewTx(&types.ExternalTx{To: &to, Sender: s.a.fQi, Value: big.NewInt(int64(den)), EtxType: types.DefaultType, OriginatingTxHash: oh, ETXIndex: idx, Gas: params.TxGas})
}
func (s *scenario) coinbaseEtx(to common.Address, value int64, data []byte, idx uint16) *types.Transaction {
	oh := common.BytesToHash(s.r.Bytes(32))
	return types.NewTx(&types.ExternalTx{To: &to, Sender: to, Value: big.NewInt(value), EtxType: types.CoinbaseType, OriginatingTxHash: oh, ETXIndex: idx, Gas: params.TxGas, Data: data})
}
func (s *scenario) conversionEtx(from, to common.Address, value *big.Int, idx uint16) *types.Transaction {
	oh := common.BytesToHash(s.r.Bytes(32))
	return types.NewTx(&types.ExternalTx{To: &to, Sender: from, Value: value, EtxType: types.ConversionType, OriginatingTxHash: oh, ETXIndex: idx, Gas: 400000})
}
func (s *scenario) fundEtx(to common.Address, value *big.Int, idx uint16) *types.Transaction {
	oh := common.BytesToHash(s.r.Bytes(32))
	return types.NewTx(&types.ExternalTx{To: &to, Sender: s.a.fQuai, Value: value, EtxType: types.DefaultType, OriginatingTxHash: oh, ETXIndex: idx, Gas: 600000}) // enough gas for new-account creation
}

// afterPrimaryRestart: the assembling node was restarted, its transaction pool is empty again
func (s *scenario) afterPrimaryRestart() {
	s.nonce = map[int]uint64{}
	s.used = map[string]bool{}
	if s.store != nil && !s.storeReady {
		s.store = nil
	}
	if s.contract != nil && !s.deployed {
		s.contract = nil
	}
	if s.rc != nil {
		s.rc.afterPrimaryRestart()
	}
}

// inbound ETXs the "dominant chain" delivers to the child of the block just appended
func (s *scenario) inbound(blockNo uint64) types.Transactions {
	var out types.Transactions
	r := s.r
	idx := uint16(0)
	add := func(t *types.Transaction) { out = append(out, t); idx++ }
	switch s.spec.Kind {
	case "f5":
		// block 1 delivers one denomination-5 and one denomination-8 output to key 0; nothing else small
		if blockNo == 1 {
			add(s.foreignQiEtx(s.a.qiAddrs[0], 5, idx))
			add(s.foreignQiEtx(s.a.qiAddrs[0], 8, idx))
			add(s.foreignQiEtx(s.a.qiAddrs[1], 9, idx))
		}
		return out
	case "storm":
		// every block delivers Storm unlocked outputs of EACH trimmable denomination (and two big ones): from the
		// height at which the deepest trim depth is due on, every block runs all six TrimBlock goroutines with
		// Storm deletions each on the one block batch
		for den := uint8(0); den <= types.MaxTrimDenomination; den++ {
			for i := 0; i < s.spec.Storm; i++ {
				add(s.foreignQiEtx(s.a.qiAddrs[r.Intn(len(s.a.qiAddrs))], den, idx))
			}
		}
		for i := 0; i < 2; i++ {
			add(s.foreignQiEtx(s.a.qiAddrs[r.Intn(len(s.a.qiAddrs))], uint8(8+r.Intn(4)), idx))
		}
		return out
	case "chained":
		// big coins to build intra-block chains from, a few small ones so that trimming goes on as well
		for i := 0; i < 3; i++ {
			add(s.foreignQiEtx(s.a.qiAddrs[r.Intn(len(s.a.qiAddrs))], uint8(8+r.Intn(5)), idx))
		}
		for i := r.Intn(3); i > 0; i-- {
			add(s.foreignQiEtx(s.a.qiAddrs[r.Intn(len(s.a.qiAddrs))], uint8(r.Intn(7)), idx))
		}
		return out
	case "clean":
		// only denominations above MaxTrimDenomination are ever spent; small ones are created and left to be trimmed
		n := r.Intn(4)
		for i := 0; i < n; i++ {
			den := uint8(r.Intn(15))
			add(s.foreignQiEtx(s.a.qiAddrs[r.Intn(len(s.a.qiAddrs))], den, idx))
		}
		return out
	}
	if r.Chance(20) {
		// burst: several unlocked outputs of every trimmable denomination at once (concurrent trimming later on)
		k := 2 + r.Intn(5)
		for den := uint8(0); den <= types.MaxTrimDenomination; den++ {
			for i := 0; i < k; i++ {
				add(s.foreignQiEtx(s.a.qiAddrs[r.Intn(len(s.a.qiAddrs))], den, idx))
			}
		}
		rep.Count("inbound_burst_of_small_outputs")
	}
	n := r.Pick(2, 3, 3, 2, 1)
	for i := 0; i < n; i++ {
		switch r.Pick(8, 3, 1, 2, 2, 4, 1) {
		case 0: // regular Qi ETX from another zone: unlocked UTXO of any denomination (small ones are trimmable)
			den := uint8(r.Intn(15))
			if r.Chance(50) {
				den = uint8(r.Intn(int(types.MaxTrimDenomination) + 2))
			}
			add(s.foreignQiEtx(s.a.qiAddrs[r.Intn(len(s.a.qiAddrs))], den, idx))
		case 1: // Qi coinbase, plain layout: locked UTXOs of the decomposition
			data := append([]byte{byte(r.Intn(4))}, r.Bytes(32)...)
			add(s.coinbaseEtx(s.a.qiAddrs[r.Intn(len(s.a.qiAddrs))], int64(1+r.Intn(30000)), data, idx))
		case 2: // Quai coinbase, plain layout
			data := append([]byte{byte(r.Intn(4))}, r.Bytes(32)...)
			add(s.coinbaseEtx(s.a.quaiAddrs[r.Intn(len(s.a.quaiAddrs))], int64(1+r.Intn(1000000)), data, idx))
		case 3: // coinbase with a contract-lockup data layout (Qi or Quai beneficiary)
			var caddr common.Address
			if s.contract != nil && s.deployed && r.Chance(85) {
				caddr = *s.contract
			} else {
				caddr = s.a.quaiAddrs[r.Intn(len(s.a.quaiAddrs))] // an account without code: reward is lost
			}
			data := append([]byte{byte(r.Intn(4))}, caddr.Bytes()...)
			if r.Bool() {
				data = append(data, s.a.quaiAddrs[r.Intn(len(s.a.quaiAddrs))].Bytes()...) // delegate
			}
			data = append(data, r.Bytes(32)...)
			var to common.Address
			if r.Bool() {
				to = s.a.qiAddrs[r.Intn(2)]
			} else {
				to = s.a.quaiAddrs[r.Intn(len(s.a.quaiAddrs))]
			}
			add(s.coinbaseEtx(to, int64(1+r.Intn(50000)), data, idx))
		case 4: // Quai -> Qi conversion (sender in the same zone): locked UTXOs
			v := big.NewInt(int64(1 + r.Intn(40000)))
			add(s.conversionEtx(s.a.quaiAddrs[r.Intn(len(s.a.quaiAddrs))], s.a.qiAddrs[r.Intn(len(s.a.qiAddrs))], v, idx))
		case 5: // fund a Quai account (plain inbound transfer)
			i := r.Intn(len(s.a.quaiAddrs))
			v := new(big.Int).Mul(big.NewInt(int64(10000+r.Intn(50000))), big.NewInt(1e18))
			add(s.fundEtx(s.a.quaiAddrs[i], v, idx))
			s.funded[i] = true
		case 6: // malformed coinbase data length: reward lost, no entry
			data := append([]byte{byte(r.Intn(4))}, r.Bytes(5+r.Intn(20))...)
			add(s.coinbaseEtx(s.a.qiAddrs[r.Intn(len(s.a.qiAddrs))], int64(1+r.Intn(30000)), data, idx))
		}
	}
	return out
}

func signQi(qt *types.QiTx, keys []*btcec.PrivateKey, signer types.Signer) (*types.Transaction, error) {
	tx := types.NewTx(qt)
	digest := signer.Hash(tx)
	if len(keys) == 1 {
		sig, err := schnorr.Sign(keys[0], digest[:])
		if err != nil {
			return nil, err
		}
		qt.Signature = sig
		return types.NewTx(qt), nil
	}
	pubs := make([]*btcec.PublicKey, len(keys))
	for i, k := range keys {
		pubs[i] = k.PubKey()
	}
	sess := make([]*musig2.Session, len(keys))
	for i, k := range keys {
		c, err := musig2.NewContext(k, false, musig2.WithKnownSigners(pubs))
		if err != nil {
			return nil, err
		}
		sess[i], err = c.NewSession()
		if err != nil {
			return nil, err
		}
	}
	for i := range sess {
		for j := range sess {
			if i != j {
				if _, err := sess[i].RegisterPubNonce(sess[j].PublicNonce()); err != nil {
					return nil, err
				}
			}
		}
	}
	for i := range sess {
		ps, err := sess[i].Sign(digest)
		if err != nil {
			return nil, err
		}
		if i != 0 {
			if _, err := sess[0].CombineSig(ps); err != nil {
				return nil, err
			}
		}
	}
	qt.Signature = sess[0].FinalSig()
	return types.NewTx(qt), nil
}

type coin struct {
	e   entry
	th  common.Hash
	ix  uint16
	key int // owner key index
}

// pool transactions for the next block, chosen from the content of the primary's database
func (s *scenario) poolTxs(n *node, content []entry, nextNo uint64) []*types.Transaction {
	var txs []*types.Transaction
	r := s.r
	chainID := n.z.Config.ChainID
	signer := types.NewSigner(chainID, loc)
	var coins []coin
	for _, e := range content {
		if !e.ut || s.used[string(e.key)] {
			continue
		}
		ki := s.a.keyFor(e.utxo.Address)
		if ki < 0 {
			continue
		}
		if e.utxo.Lock != nil && e.utxo.Lock.Sign() != 0 && e.utxo.Lock.Uint64() > nextNo-1 { // the pool checks locks against the current head
			continue
		}
		th, ix, _ := rawdb.ReverseUtxoKey(e.key)
		coins = append(coins, coin{e, th, ix, ki})
	}
	otherAddr := func(not map[int]bool) (int, bool) {
		for t := 0; t < 12; t++ {
			i := r.Intn(len(s.a.qiAddrs))
			if !not[i] {
				return i, true
			}
		}
		return 0, false
	}
	mk := func(ins []coin, outs []uint8) {
		qt := &types.QiTx{ChainID: chainID}
		not := map[int]bool{}
		var keys []*btcec.PrivateKey
		for _, c := range ins {
			qt.TxIn = append(qt.TxIn, types.TxIn{PreviousOutPoint: types.OutPoint{TxHash: c.th, Index: c.ix}, PubKey: s.a.qiKeys[c.key].PubKey().SerializeUncompressed()})
			not[c.key] = true
			keys = append(keys, s.a.qiKeys[c.key])
		}
		for _, d := range outs {
			i, ok := otherAddr(not)
			if !ok {
				return
			}
			not[i] = true
			qt.TxOut = append(qt.TxOut, types.TxOut{Denomination: d, Address: s.a.qiAddrs[i].Bytes(), Lock: big.NewInt(0)})
		}
		tx, err := signQi(qt, keys, signer)
		if err != nil {
			rep.Count("qi_sign_error")
			return
		}
		for _, c := range ins {
			s.used[string(c.e.key)] = true
		}
		txs = append(txs, tx)
	}
	big6 := func() (coin, bool) { // an unused coin of denomination >= 7
		for t := 0; t < 20 && len(coins) > 0; t++ {
			c := coins[r.Intn(len(coins))]
			if c.e.utxo.Denomination >= 7 && !s.used[string(c.e.key)] {
				return c, true
			}
		}
		return coin{}, false
	}
	switch s.spec.Kind {
	case "f5":
		// spend the denomination-5 output exactly in the block that trims its creation height
		for _, c := range coins {
			if c.e.utxo.Denomination == 5 && s.height[string(c.e.key)]+trimDeps[5] == nextNo {
				mk([]coin{c}, []uint8{4})
			}
		}
		return txs
	case "clean", "storm":
		if c, ok := big6(); ok && r.Chance(70) {
			mk([]coin{c}, []uint8{c.e.utxo.Denomination - 1})
		}
		return txs
	case "chained":
		return txs // the Qi transactions of these chains are put into the block by the "foreign miner" (chained.go)
	}
	nTx := r.Pick(3, 4, 3)
	for i := 0; i < nTx; i++ {
		switch r.Pick(3, 3, 4, 2) {
		case 0: // 1 -> 1
			if c, ok := big6(); ok {
				mk([]coin{c}, []uint8{c.e.utxo.Denomination - 1})
			}
		case 1: // 1 -> 2 (split)
			if c, ok := big6(); ok {
				d := c.e.utxo.Denomination
				mk([]coin{c}, []uint8{d - 1, d - 2})
			}
		case 2: // 2 inputs (aggregated signature): a small, trimmable coin rides along with a big one
			b, ok := big6()
			if !ok {
				continue
			}
			var small []coin
			for _, c := range coins {
				if c.e.utxo.Denomination <= types.MaxTrimDenomination && !s.used[string(c.e.key)] && c.key != b.key {
					small = append(small, c)
				}
			}
			if len(small) == 0 {
				continue
			}
			// prefer a coin whose creation height is being trimmed in the next block (the adversarial timing)
			pick := small[r.Intn(len(small))]
			if r.Chance(60) {
				for _, c := range small {
					if s.height[string(c.e.key)]+trimDeps[c.e.utxo.Denomination] == nextNo {
						pick = c
					}
				}
			}
			mk([]coin{b, pick}, []uint8{b.e.utxo.Denomination - 1})
		case 3: // small coin alone (fee usually too low for the smallest ones: rejected by the pool)
			for _, c := range coins {
				d := c.e.utxo.Denomination
				if d >= 3 && d <= 6 && !s.used[string(c.e.key)] {
					mk([]coin{c}, []uint8{d - 1})
					break
				}
			}
		}
	}
	// Quai transfers between funded accounts
	st, err := n.z.StateAt(n.z.Hc.CurrentHeader())
	if err != nil && verbose {
		fmt.Fprintln(os.Stderr, "  stateAt:", err)
	}
	if err == nil {
		for i := range s.a.quaiAddrs {
			if !s.funded[i] || !r.Chance(75) {
				continue
			}
			ia, _ := s.a.quaiAddrs[i].InternalAndQuaiAddress()
			bal := st.GetBalance(ia)
			if verbose {
				fmt.Fprintf(os.Stderr, "  quai acct %d balance %s nonce %d\n", i, bal, st.GetNonce(ia))
			}
			if bal.Cmp(new(big.Int).Mul(big.NewInt(7000), big.NewInt(1e18))) < 0 {
				continue
			}
			nonce := st.GetNonce(ia)
			if s.nonce[i] > nonce {
				nonce = s.nonce[i]
			}
			to := s.a.quaiAddrs[(i+1)%len(s.a.quaiAddrs)]
			gp := new(big.Int).Mul(n.z.Hc.CurrentHeader().BaseFee(), big.NewInt(3))
			inner := &types.QuaiTx{ChainID: chainID, Nonce: nonce, GasPrice: gp, Gas: 21000, To: &to, Value: big.NewInt(int64(1 + r.Intn(1000000)))}
			grindCreate := func(code []byte) ([]byte, common.Address) {
				for salt := 0; ; salt++ {
					c := append(common.CopyBytes(code), byte(salt), byte(salt>>8), byte(salt>>16))
					ca := crypto.CreateAddress(s.a.quaiAddrs[i], nonce, c, loc)
					if _, err := ca.InternalAndQuaiAddress(); err == nil {
						return c, ca
					}
				}
			}
			isDeploy := ""
			if s.spec.Kind != "f5" && s.spec.Kind != "clean" && i == 1 {
				if s.store == nil {
					// runtime: for slot 0..5: SSTORE(slot, CALLDATALOAD(0)); STOP  -- several dirty slots of one
					// account per transaction: stateObject.updateTrie iterates pendingStorage, a Go map
					runtime := ""
					for slot := 0; slot < 6; slot++ {
						runtime += fmt.Sprintf("60003560%02x55", slot)
					}
					runtime += "00"
					initc := common.FromHex(fmt.Sprintf("60%02x600c60003960%02x6000f3", len(runtime)/2, len(runtime)/2) + runtime)
					code, caddr := grindCreate(initc)
					inner = &types.QuaiTx{ChainID: chainID, Nonce: nonce, GasPrice: gp, Gas: 2000000, To: nil, Value: big.NewInt(0), Data: code, AccessList: types.AccessList{{Address: caddr}}}
					s.store = &common.Address{}
					isDeploy = "store"
				} else if s.storeReady && r.Chance(85) {
					word := r.Bytes(32)
					if r.Chance(20) {
						word = make([]byte, 32) // clears the six slots (size bookkeeping downwards; a later call sets them again)
						rep.Count("storage_call_clearing")
					}
					inner = &types.QuaiTx{ChainID: chainID, Nonce: nonce, GasPrice: gp, Gas: 400000, To: s.store, Value: big.NewInt(0), Data: word}
				}
			}
			if s.spec.Kind == "lockup" && s.contract == nil && i == 0 {
				isDeploy = "lockup"
				// deploy a one-byte (STOP) contract so that coinbase lockups have an owner contract with code
				// init code returning the one-byte runtime code STOP; trailing salt bytes are ground until the
				// CREATE address lies in this zone's Quai ledger; the address must be in the access list
				code := common.FromHex("6001600c60003960016000f300")
				var caddr common.Address
				for salt := 0; ; salt++ {
					c := append(common.CopyBytes(code), byte(salt), byte(salt>>8), byte(salt>>16))
					caddr = crypto.CreateAddress(s.a.quaiAddrs[i], nonce, c, loc)
					if _, err := caddr.InternalAndQuaiAddress(); err == nil {
						code = c
						break
					}
				}
				inner = &types.QuaiTx{ChainID: chainID, Nonce: nonce, GasPrice: gp, Gas: 2000000, To: nil, Value: big.NewInt(0), Data: code, AccessList: types.AccessList{{Address: caddr}}}
				s.contract = &common.Address{}
			}
			tx, err := types.SignTx(types.NewTx(inner), types.LatestSigner(n.z.Config), s.a.quaiKeys[i])
			if err != nil {
				rep.Count("quai_sign_error")
				continue
			}
			s.nonce[i] = nonce + 1
			switch isDeploy {
			case "store":
				s.storeTx = tx.Hash()
			case "lockup":
				s.lockupTx = tx.Hash()
			}
			txs = append(txs, tx)
		}
		txs = append(txs, s.recreateTxs(n, st)...)
	}
	return txs
}

// ---------------- running one chain ----------------

func coqDb(content [][2]int) string {
	ct := make([]string, len(content))
	for i, c := range content {
		ct[i] = fmt.Sprintf("(%d,%d)", c[0], c[1])
	}
	return hlib.CoqList(ct)
}

func coqBlk(ops []string, cands []string, trimmed []int, content [][2]int, size uint64, rootok bool, undone string) string {
	tr := make([]string, len(trimmed))
	for i, t := range trimmed {
		tr[i] = fmt.Sprint(t)
	}
	ct := make([]string, len(content))
	for i, c := range content {
		ct[i] = fmt.Sprintf("(%d,%d)", c[0], c[1])
	}
	return fmt.Sprintf("mkBlk %s %s %s %s %d %s %s", hlib.CoqList(ops), hlib.CoqList(cands), hlib.CoqList(tr), hlib.CoqList(ct), size, hlib.CoqBool(rootok), undone)
}

func runChain(spec ChainSpec, a *actors, tmp string) (res chainResult) {
	defer func() {
		if r := recover(); r != nil {
			res.broken = fmt.Sprintf("panic: %v", r)
			failCase(sigPanic, fmt.Sprintf("panic while running chain: %v", r), spec, 0, string(debug.Stack()))
		}
	}()
	setTrimDepths(spec.Depths)
	guardTake()
	checkGuard := func(where string, no uint64) {
		hits, pairs, backends := guardTake()
		if hits == 0 {
			return
		}
		var ps []string
		for _, k := range hlib.SortedKeys(pairs) {
			ps = append(ps, fmt.Sprintf("%s (%d times)", k, pairs[k]))
		}
		failCase(sigBatchConc, fmt.Sprintf("%s, block %d: one database batch was inside its mutating methods on two goroutines at once %d times (ethdb.Batch: \"A batch cannot be used concurrently\"; the goroutines Finalize starts per denomination share the block batch and must serialise every access): %s; backends %v. Records of an unsynchronised batch buffer are lost in that situation: what the block writes then depends on the schedule", where, no, hits, strings.Join(ps, "; "), hlib.SortedKeys(backends)), spec, no, where)
	}
	var nodes []*node
	for i, k := range spec.Kinds {
		n, err := newNode(k, tmp, int(spec.ID)*10+i, a)
		if err != nil {
			res.broken = "newNode: " + err.Error()
			return
		}
		nodes = append(nodes, n)
	}
	defer func() {
		timed("close", func() {
			for _, n := range nodes {
				n.close()
			}
		})
		runtime.GOMAXPROCS(runtime.NumCPU())
	}()
	prim := nodes[spec.Primary%len(nodes)]
	sc := &scenario{r: hlib.NewRng(spec.Seed), a: a, spec: spec, height: map[string]uint64{}, used: map[string]bool{}, nonce: map[int]uint64{}, funded: map[int]bool{}}
	if spec.Kind == "random" || spec.Kind == "lockup" || spec.Kind == "recreate" {
		sc.preferQi, sc.lockByte = sc.r.Bool(), uint8(sc.r.Intn(4))
		prim.z.VerifC06SetMiner(sc.preferQi, sc.lockByte, nil)
		if spec.Kind == "recreate" || sc.r.Chance(65) {
			sc.rc = newRecreate(sc.r.Fork(), spec.Kind == "recreate")
			rep.Count("chain_plays_recreation_script")
		}
	}
	rr := hlib.NewRng(spec.Seed ^ 0x5e57a47).Fork() // restart schedule (own stream: does not disturb the scenario)
	ix := &indexer{keys: map[string]int{}, elems: map[common.Hash]int{}}
	var backlog types.Transactions
	parentContent := map[string]entry{} // primary's content before the block
	var hist []histEntry                // per appended block: block, content, recorded double removals
	var blkTerms []func(string) string  // per appended block: its Coq record with a given o_undone
	var onlyUts, hasUndone []bool       // per appended block: only 'ut' operations; o_undone already set
	var prevScan []entry

	for step := 0; step < spec.Len; step++ {
		var block *types.WorkObject
		var err error
		timed("assemble", func() { block, err = prim.z.VerifC06Assemble(true) })
		if err != nil {
			res.broken = "assemble: " + errClass(err)
			if verbose {
				fmt.Fprintln(os.Stderr, "assemble:", err)
			}
			return
		}
		no := block.NumberU64(common.ZONE_CTX)
		if spec.Kind == "chained" && step >= 2 {
			// a foreign miner's block that MUST be refused: a Qi transaction naming the same outpoint twice (at any input
			// position), two transactions of the block spending the same output. The node's own worker never assembles
			// these (it has its own duplicate check); the import path has to refuse them on its own. If the node's
			// Process + ValidateState accept one, the chain goes on with it (the scan-vs-commitment monitors and the model
			// then see what it did to the committed set).
			if itxs, ifees, ishape := sc.invalidTxs(prim, prevScan); len(itxs) > 0 {
				var nb *types.WorkObject
				var rerr error
				timed("reseal", func() { nb, rerr = prim.z.VerifC06Reseal(block, itxs, ifees) })
				if rerr != nil {
					rep.Count("invalid_qi_spend_block_refused_" + ishape)
				} else {
					failCase(sigInvalidSpend+":"+ishape, fmt.Sprintf("block %d of a foreign miner whose Qi transactions spend one output twice (%s) is executed and validated by the node (Process + ValidateState accept it)", no, ishape), spec, no, ishape)
					block = nb
				}
			}
		}
		if spec.Kind == "chained" && step >= 2 && len(block.QiTransactions()) == 0 {
			// the block of a foreign miner: Qi transactions spending outputs created earlier in the same block
			if ctxs, fees, shape := sc.chainedTxs(prim, prevScan, no); len(ctxs) > 0 {
				var nb *types.WorkObject
				var rerr error
				timed("reseal", func() { nb, rerr = prim.z.VerifC06Reseal(block, ctxs, fees) })
				if rerr != nil {
					rep.Count("reseal_failed")
					rep.Note(fmt.Sprintf("chain %d block %d: block with intra-block Qi chain (%s) not built: %s", spec.ID, no, shape, errClass(rerr)))
					if verbose {
						fmt.Fprintln(os.Stderr, "reseal:", rerr)
					}
				} else {
					block = nb
					rep.Count("block_with_intra_block_qi_chain_" + shape)
				}
			}
		}
		checkGuard("assembling", no)
		rep.Evaluations++
		// ---- determinism monitor: the same block on the same parent state, several times, each backend ----
		var ref *procObs
		var refName string
		var primObs *procObs
		creates := false
		for _, tx := range block.Transactions() {
			if tx.Type() == types.QuaiTxType && (tx.To() == nil || (sc.rc != nil && sc.rc.txKind[tx.Hash()] != "")) {
				creates = true
			}
		}
		for ni, n := range nodes {
			// what the node itself has for the parent state (input distribution of the snapshot dimension)
			hasTree, hasLayer := n.z.VerifC06SnapState(parentEvmRoot(n, block))
			rep.Count(fmt.Sprintf("snap_tree_%v_layer_%v", hasTree, hasLayer))
			cfgs := make([]string, 0, spec.Reps+2)
			for k := 0; k < spec.Reps; k++ {
				cfgs = append(cfgs, cfgNode)
			}
			cfgs = append(cfgs, cfgNoSnap)
			// the generated-disk-layer configuration: on every backend when the block creates contracts or plays the
			// re-creation script, on one backend in turn otherwise (generation costs as much as the block itself)
			if creates || ni == step%len(nodes) {
				cfgs = append(cfgs, cfgFresh)
			}
			for k, cfg := range cfgs {
				runtime.GOMAXPROCS(gomax[k%len(gomax)])
				var o *procObs
				timed("process_"+cfg, func() { n.z.VerifC06Locked(func() { o = processOnce(n, block, cfg) }) })
				if n == prim && k == 0 {
					primObs = o
				}
				if strings.HasPrefix(o.err, "PANIC") {
					failCase(sigPanic, "Process panicked: "+o.err, spec, no, n.name)
				}
				if strings.HasPrefix(o.err, "harness:") {
					rep.Note(fmt.Sprintf("chain %d block %d %s cfg %s: %s", spec.ID, no, n.name, cfg, o.err))
					rep.Count("snapshot_cfg_not_built")
					continue
				}
				rep.Count("process_cfg_" + cfg)
				if ref == nil {
					ref, refName = o, n.name
					continue
				}
				if o.fingerprint() != ref.fingerprint() {
					sig := sigDet
					if cfg != cfgNode {
						sig = sigSnap
					} else if n.name != refName {
						sig = sigBackend
					}
					failCase(sig, fmt.Sprintf("Process of the same block on the same parent gave different results (%s run %d GOMAXPROCS=%d snapshot configuration %q [node: tree=%v layer for parent root=%v] vs %s run 0 configuration %q): differing: %s: %s <> %s", n.name, k, gomax[k%len(gomax)], cfg, hasTree, hasLayer, refName, cfgNode, diffFields(o, ref), o.fingerprint(), ref.fingerprint()), spec, no, n.name+"/"+cfg)
				}
			}
		}
		runtime.GOMAXPROCS(runtime.NumCPU())
		checkGuard("re-executing Process", no)
		if primObs == nil || primObs.err != "" || primObs.validate != "" {
			failCase(sigReject, fmt.Sprintf("block assembled by the worker fails re-execution on %s: %s %s", prim.name, primObs.err, primObs.validate), spec, no, prim.name)
			res.broken = "own block rejected"
			return
		}
		// trim candidates, read the way TrimBlock reads them (before the block is written)
		candKeys := map[string]bool{}
		var coqCands []string
		for den := uint8(0); den <= types.MaxTrimDenomination; den++ {
			depth := trimDeps[den]
			if no <= depth {
				continue
			}
			target := rawdb.ReadCanonicalHash(prim.db, no-depth)
			keys, _ := rawdb.ReadCreatedUTXOKeys(prim.db, target)
			var cs []string
			for _, k := range keys {
				if k[len(k)-1] != den {
					continue
				}
				k = k[:len(k)-1]
				unlocked := false
				if e, ok := parentContent[string(k)]; ok && e.utxo != nil && e.utxo.Lock.Sign() == 0 && e.utxo.Denomination == den {
					unlocked = true
				}
				candKeys[string(k)] = true
				cs = append(cs, fmt.Sprintf("(%d,%s)", ix.key(k), hlib.CoqBool(unlocked)))
			}
			if len(cs) > 0 {
				coqCands = append(coqCands, hlib.CoqList(cs))
			}
		}
		// ---- append on every backend ----
		for _, n := range nodes {
			var err error
			timed("append", func() { err = n.z.VerifC06Append(block) })
			if err != nil {
				failCase(sigReject, fmt.Sprintf("block %d assembled on %s is rejected by the node on %s: %s", no, prim.name, n.name, errClass(err)), spec, no, n.name)
				if verbose {
					fmt.Fprintln(os.Stderr, "append:", n.name, err)
				}
				res.broken = "append rejected"
				return
			}
		}
		res.nBlocks++
		checkGuard("appending (SetCurrentHeader -> AppendBlock -> Process/Finalize)", no)
		// ---- commitment monitors on every backend ----
		var primScan []entry
		var refScan string
		for _, n := range nodes {
			var es []entry
			timed("scan", func() { es = scan(n.db) })
			if n == prim {
				primScan = es
			}
			// double removals in this block: outpoints both spent by the block and trimmed by it
			spent, _ := rawdb.ReadSpentUTXOs(n.db, block.Hash())
			trimmed, _ := rawdb.ReadTrimmedUTXOs(n.db, block.Hash())
			sp := map[string]bool{}
			for _, s := range spent {
				sp[string(rawdb.UtxoKey(s.TxHash, s.Index))] = true
			}
			nd := 0
			for _, t := range trimmed {
				if sp[string(rawdb.UtxoKey(t.TxHash, t.Index))] {
					n.dbl = append(n.dbl, types.UTXOHash(t.TxHash, t.Index, t.UtxoEntry))
					nd++
				}
			}
			if nd > 0 && n == prim {
				res.f5Blocks++
				failCase(sigF5, fmt.Sprintf("block %d spends %d output(s) that Finalize/TrimBlock also trims in the same block (TrimBlock reads the committed database, where they are still present): their hashes are removed twice from the multiset and the set size is decremented twice; header UTXORoot no longer equals the MuHash of the database content", no, nd), spec, no, n.name)
			}
			stored := rawdb.ReadMultiSet(n.db, block.Hash())
			if stored == nil || stored.Hash() != block.UTXORoot() {
				failCase(sigRootHdr, fmt.Sprintf("stored multiset of block %d on %s does not hash to the header UTXORoot", no, n.name), spec, no, n.name)
			}
			if exp := muOf(es, n.dbl); exp != block.UTXORoot() {
				failCase(sigRootScan, fmt.Sprintf("block %d on %s: header UTXORoot is not the MuHash of the %d live 'ut'/'cl' entries (after accounting for %d recorded double removals)", no, n.name, len(es), len(n.dbl)), spec, no, n.name)
			}
			size := rawdb.ReadUTXOSetSize(n.db, block.Hash())
			if size != uint64(len(es))-uint64(len(n.dbl)) {
				failCase(sigSize, fmt.Sprintf("block %d on %s: stored UTXO set size %d, database holds %d entries (%d recorded double removals)", no, n.name, size, len(es), len(n.dbl)), spec, no, n.name)
			}
			// state reopens at the header roots on the live node ...
			if w := reopen(n, block, a); w != "" {
				failCase(sigState, fmt.Sprintf("block %d on %s: %s", no, n.name, w), spec, no, n.name)
			}
			// ... and everything the header commits to is in the database itself (what a restarted node would find)
			var w string
			timed("diskstate", func() { w = diskState(n.db, block) })
			if w != "" {
				failCase(sigRestart, fmt.Sprintf("block %d is head on %s (%d outbound ETXs emitted, ETX set changed: %v) but %s", no, n.name, len(block.OutboundEtxs()), block.EtxSetRoot() != parentEtxRoot(n, block), w), spec, no, n.name)
			}
			// identical content on every backend
			h := sha256.New()
			for _, e := range es {
				h.Write(e.key)
				h.Write(e.val)
			}
			fp := fmt.Sprintf("%x|%d|%x", h.Sum(nil), size, stored.Serialize())
			if refScan == "" {
				refScan = fp
			} else if fp != refScan {
				failCase(sigScanDiff, fmt.Sprintf("after block %d the 'ut'/'cl' content, set size or multiset of %s differs from %s", no, n.name, nodes[0].name), spec, no, n.name)
			}
		}
		// ---- Coq block record from the primary ----
		rec := primObs.rec
		trimmedRec, _ := rawdb.ReadTrimmedUTXOs(prim.db, block.Hash())
		txOps := rec.ops
		if rec.tutxoAt >= 0 {
			txOps = rec.ops[:rec.tutxoAt]
		}
		// the last len(trimmed) deletes before the trimmed-utxos record are TrimBlock's own batch.Delete calls
		if T := len(trimmedRec); T <= len(txOps) {
			txOps = txOps[:len(txOps)-T]
		} else {
			rep.Note(fmt.Sprintf("chain %d block %d: trimmed record longer than batch deletes", spec.ID, no))
		}
		var coqOps []string
		for _, op := range txOps {
			k := ix.key(op.key)
			if op.del {
				coqOps = append(coqOps, fmt.Sprintf("Spend %d", k))
				continue
			}
			h, _, ok := elemHash(op.key, op.val)
			if !ok {
				rep.Note("undecodable put in batch")
				continue
			}
			if op.key[0] == 'u' {
				coqOps = append(coqOps, fmt.Sprintf("Create %d %d", k, ix.elem(h)))
			} else {
				coqOps = append(coqOps, fmt.Sprintf("Update %d %d", k, ix.elem(h)))
			}
		}
		var trimmedIdx []int
		spentCand, trimmedSpentCand := 0, 0
		trimmedSet := map[string]bool{}
		for _, t := range trimmedRec {
			k := rawdb.UtxoKey(t.TxHash, t.Index)
			trimmedIdx = append(trimmedIdx, ix.key(k))
			trimmedSet[string(k)] = true
		}
		sort.Ints(trimmedIdx)
		for _, op := range txOps {
			if op.del && candKeys[string(op.key)] {
				if e, ok := parentContent[string(op.key)]; ok && e.utxo != nil && e.utxo.Lock.Sign() == 0 {
					spentCand++
					if trimmedSet[string(op.key)] {
						trimmedSpentCand++
					}
				}
			}
		}
		if spentCand > 0 {
			// the observation that decides which trim view the current source implements
			v := "AfterOps"
			if trimmedSpentCand == spentCand {
				v = "ParentDb"
			} else if trimmedSpentCand != 0 {
				v = "mixed"
			}
			if res.trimView == "" {
				res.trimView = v
			} else if res.trimView != v {
				res.trimView = "mixed"
			}
			rep.Count("block_spends_trim_candidate")
		}
		content := make([][2]int, 0, len(primScan))
		newParent := map[string]entry{}
		for _, e := range primScan {
			content = append(content, [2]int{ix.key(e.key), ix.elem(e.hash)})
			newParent[string(e.key)] = e
			if _, ok := sc.height[string(e.key)]; !ok {
				sc.height[string(e.key)] = no
			}
		}
		sort.Slice(content, func(i, j int) bool { return content[i][0] < content[j][0] })
		rootok := muOf(primScan, nil) == block.UTXORoot()
		blkTerm := func(undone string) string {
			return coqBlk(coqOps, coqCands, trimmedIdx, content, rawdb.ReadUTXOSetSize(prim.db, block.Hash()), rootok, undone)
		}
		res.blocks = append(res.blocks, blkTerm("None"))
		onlyUt := true
		for _, op := range txOps {
			if op.key[0] != 'u' {
				onlyUt = false
			}
		}
		blkTerms = append(blkTerms, blkTerm)
		onlyUts = append(onlyUts, onlyUt)
		hasUndone = append(hasUndone, false)
		parentContent = newParent
		prevScan = primScan
		he := histEntry{block: block, scan: primScan, dbl: map[string]int{}}
		for _, n := range nodes {
			he.dbl[n.name] = len(n.dbl)
		}
		hist = append(hist, he)
		// outputs created AND spent inside this block (both undo records of the block list them)
		{
			sp, _ := rawdb.ReadSpentUTXOs(prim.db, block.Hash())
			ck, _ := rawdb.ReadCreatedUTXOKeys(prim.db, block.Hash())
			cks := map[string]bool{}
			for _, k := range ck {
				if len(k) == rawdb.UtxoKeyWithDenominationLength {
					cks[string(k[:rawdb.UtxoKeyLength])] = true
				}
			}
			both := 0
			for _, u := range sp {
				if cks[string(rawdb.UtxoKey(u.TxHash, u.Index))] {
					both++
				}
			}
			if both > 0 {
				rep.Count("block_creates_and_spends_same_output")
			}
		}
		// ---- head switches: the node goes back k blocks (real SetCurrentHeader rollback) and forward again; after each
		// switch the head header must describe the database exactly. Every block in the chained corpus chain, now and
		// then elsewhere (not in lockup chains: rollback of lockup records is C10's known finding F6) ----
		if len(hist) >= 2 && (spec.Kind != "lockup" || switchLockup) && spec.Kind != "f5" {
			do := spec.Kind == "chained" || (spec.Kind == "storm" && step%4 == 3) || rr.Chance(12) || os.Getenv("C06_SWITCH_LOCKUP") == "all"
			if do {
				k := 1 + rr.Intn(3)
				if spec.Kind == "chained" {
					k = 1 + step%3
				}
				if k > len(hist)-1 {
					k = len(hist) - 1
				}
				var ok bool
				var undone []entry
				timed("headswitch", func() { ok, undone = headSwitch(nodes, prim, hist, k, spec) })
				checkGuard("switching the head back and forward", no)
				// the model runs the same rollback loop over the same k blocks (Coq: switch_back) and must arrive at the
				// same content; the observation is attached to the OLDEST of the k blocks (index len-k)
				first := len(res.blocks) - k
				allUt := first >= 0 && len(blkTerms) == len(res.blocks)
				for i := first; allUt && i < len(res.blocks); i++ {
					if !onlyUts[i] {
						allUt = false
					}
				}
				if undone != nil && allUt && !hasUndone[first] {
					uc := make([][2]int, 0, len(undone))
					for _, e := range undone {
						uc = append(uc, [2]int{ix.key(e.key), ix.elem(e.hash)})
					}
					sort.Slice(uc, func(i, j int) bool { return uc[i][0] < uc[j][0] })
					res.blocks[first] = blkTerms[first](fmt.Sprintf("(Some (%d%%nat, %s))", k, coqDb(uc)))
					hasUndone[first] = true
					rep.Count("block_rolled_back_in_model_too")
					rep.Count(fmt.Sprintf("model_rollback_depth_%d", k))
				} else if undone != nil {
					rep.Count("head_switch_not_in_model_lockup_ops_or_already_recorded")
				}
				if !ok {
					res.broken = "head switch failed"
					return
				}
			}
		}
		// distribution
		nCl := 0
		for _, e := range primScan {
			if !e.ut {
				nCl++
			}
		}
		rep.Count(fmt.Sprintf("block_ops_%s", bucket(len(txOps))))
		rep.Count(fmt.Sprintf("block_trimmed_%s", bucket(len(trimmedRec))))
		if nCl > 0 {
			rep.Count("block_with_live_lockups")
		}
		for _, tx := range block.Transactions() {
			switch tx.Type() {
			case types.QiTxType:
				rep.Count(fmt.Sprintf("tx_qi_%din", len(tx.TxIn())))
			case types.QuaiTxType:
				if tx.To() == nil {
					rep.Count("tx_quai_create")
				} else if len(tx.Data()) > 0 {
					rep.Count("tx_quai_storage_call")
				} else {
					rep.Count("tx_quai_transfer")
				}
			case types.ExternalTxType:
				rep.Count(fmt.Sprintf("tx_etx_type%d", tx.EtxType()))
			}
		}
		if len(txOps) > 0 || len(trimmedRec) > 0 {
			rep.Nontrivial(fmt.Sprintf("%s|%d|%d|%d|%v", spec.Kind, len(coqOps), len(trimmedRec), len(coqCands), rootok))
		}
		if verbose {
			for _, e := range block.OutboundEtxs() {
				fmt.Fprintf(os.Stderr, "   out etx type %d to %s sender %s datalen %d value %s\n", e.EtxType(), e.To().Hex(), e.ETXSender().Hex(), len(e.Data()), e.Value())
			}
			fmt.Fprintf(os.Stderr, "chain %d block %d txs %d ops %d trimmed %d content %d size %d rootok %v\n", spec.ID, no, len(block.Transactions()), len(txOps), len(trimmedRec), len(primScan), rawdb.ReadUTXOSetSize(prim.db, block.Hash()), rootok)
		}
		if sc.rc != nil {
			sc.rc.afterBlock(block, rawdb.ReadReceipts(prim.db, block.Hash(), no, prim.z.Config))
		}
		if sc.storeReady {
			rcpts := rawdb.ReadReceipts(prim.db, block.Hash(), no, prim.z.Config)
			for i, tx := range block.Transactions() {
				if tx.Type() == types.QuaiTxType && tx.To() != nil && len(tx.Data()) > 0 && i < len(rcpts) {
					rep.Count(fmt.Sprintf("storage_call_status_%d", rcpts[i].Status))
				}
			}
		}
		// contract deployed?
		if (sc.contract != nil && !sc.deployed) || (sc.store != nil && !sc.storeReady) {
			for _, r := range rawdb.ReadReceipts(prim.db, block.Hash(), no, prim.z.Config) {
				if r.TxHash == sc.storeTx && r.ContractAddress != (common.Address{}) {
					if r.Status == types.ReceiptStatusSuccessful {
						ca := r.ContractAddress
						sc.store, sc.storeReady = &ca, true
						rep.Count("storage_contract_deployed")
					} else {
						sc.store = nil // try again
					}
					continue
				}
				if r.TxHash != sc.lockupTx {
					continue
				}
				if verbose && r.Type == types.QuaiTxType {
					fmt.Fprintf(os.Stderr, "  receipt type %d status %d gas %d contract %s\n", r.Type, r.Status, r.GasUsed, r.ContractAddress.Hex())
				}
				if r.ContractAddress != (common.Address{}) && r.Status == types.ReceiptStatusSuccessful {
					ca := r.ContractAddress
					sc.contract = &ca
					sc.deployed = true
					rep.Count("contract_deployed")
				}
			}
		}
		// ---- restarts: every node now and then (independently, so that the next block is executed by nodes in
		// different cache / snapshot situations), one node at fixed steps in the corpus chains, all nodes at the end ----
		last := step == spec.Len-1
		for i, n := range nodes {
			fixed := spec.ID <= corpusChains && step%5 == 4 && i == (step/5)%len(nodes)
			if !(last || fixed || rr.Chance(10)) {
				continue
			}
			rep.Count("node_restart_" + n.name)
			if block.EtxSetRoot() != parentEtxRoot(n, block) && len(block.OutboundEtxs()) == 0 {
				rep.Count("restart_on_head_that_changed_etx_set_and_emitted_none")
			}
			var err error
			timed("restart", func() { err = n.restart() })
			if err != nil {
				failCase(sigRestart, fmt.Sprintf("node on %s does not start again over its database after block %d: %s", n.name, no, errClass(err)), spec, no, n.name)
				res.broken = "restart failed"
				return
			}
			if h := n.z.Hc.CurrentHeader(); h == nil || h.Hash() != block.Hash() {
				failCase(sigRestart, fmt.Sprintf("after a restart the node on %s does not report the appended block %d as head", n.name, no), spec, no, n.name)
				res.broken = "head lost by restart"
				return
			}
			if w := reopen(n, block, a); w != "" {
				failCase(sigRestart, fmt.Sprintf("restarted node on %s, head %d (%d outbound ETXs emitted, ETX set changed: %v): %s", n.name, no, len(block.OutboundEtxs()), block.EtxSetRoot() != parentEtxRoot(n, block), w), spec, no, n.name)
			}
			if w := diskState(n.db, block); w != "" {
				failCase(sigRestart, fmt.Sprintf("restarted node on %s, head %d: %s", n.name, no, w), spec, no, n.name)
			}
			if n == prim {
				// the pool of the old process is gone: forget what the scenario believed to be pending
				sc.afterPrimaryRestart()
				if spec.Kind == "random" || spec.Kind == "lockup" || spec.Kind == "recreate" {
					var lc *common.Address
					if sc.minerSet {
						lc = sc.contract
					}
					prim.z.VerifC06SetMiner(sc.preferQi, sc.lockByte, lc)
				}
			}
		}
		if last {
			// every node has just been restarted: a successor assembled by one is executed identically by all
			if next, err := prim.z.VerifC06Assemble(true); err != nil {
				failCase(sigRestart, fmt.Sprintf("restarted node on %s cannot assemble a successor of head %d: %s", prim.name, no, errClass(err)), spec, no, prim.name)
			} else {
				var first *procObs
				for _, n := range nodes {
					var o *procObs
					n.z.VerifC06Locked(func() { o = processOnce(n, next, cfgNode) })
					if o.err != "" || o.validate != "" {
						failCase(sigRestart, fmt.Sprintf("restarted node on %s cannot execute the successor of head %d: %s %s", n.name, no, o.err, o.validate), spec, no, n.name)
					}
					if first == nil {
						first = o
					} else if o.fingerprint() != first.fingerprint() {
						failCase(sigBackend, fmt.Sprintf("successor of head %d executed after a restart differs between %s and %s: %s", no, n.name, nodes[0].name, diffFields(o, first)), spec, no, n.name)
					}
				}
			}
			break
		}
		// ---- what the dominant chain delivers to the child, and new pool transactions ----
		backlog = append(backlog, block.OutboundEtxs()...)
		inb := sc.inbound(no)
		inb = append(inb, sc.takeExtraInbound()...)
		if sc.r.Chance(75) || spec.Kind == "f5" {
			inb = append(backlog, inb...)
			backlog = nil
		}
		if len(inb) > 0 {
			for _, n := range nodes {
				rawdb.WriteInboundEtxs(n.db, block.Hash(), inb)
			}
		}
		timed("poolreset", func() { prim.z.VerifC06ResetPool() })
		if sc.deployed && !sc.minerSet {
			prim.z.VerifC06SetMiner(sc.preferQi, sc.lockByte, sc.contract)
			sc.minerSet = true
			rep.Count("miner_uses_lockup_contract")
		}
		txs := sc.poolTxs(prim, primScan, no+1)
		nq := 0
		for _, tx := range txs {
			if err := prim.z.Pool.AddLocal(tx); err != nil {
				rep.Count("pool_reject")
				if verbose {
					fmt.Fprintln(os.Stderr, " pool reject:", err)
				}
			} else {
				rep.Count("pool_accept")
				if tx.Type() == types.QuaiTxType {
					nq++
				}
			}
		}
		if nq > 0 { // Quai transactions become pending asynchronously
			t0 := time.Now()
			dl := time.Now().Add(300 * time.Millisecond)
			for time.Now().Before(dl) {
				if p, _, _ := prim.z.Pool.Stats(); p >= nq {
					break
				}
				time.Sleep(2 * time.Millisecond)
			}
			spent["poolwait"] += time.Since(t0)
		}
	}
	return
}

func bucket(n int) string {
	switch {
	case n == 0:
		return "0"
	case n <= 2:
		return "1-2"
	case n <= 5:
		return "3-5"
	case n <= 10:
		return "6-10"
	}
	return "11+"
}

// ---------------- MuHash algebra monitor (model-independent) ----------------

func muLaws(r *hlib.Rng, rounds int) {
	for i := 0; i < rounds; i++ {
		n := 1 + r.Intn(8)
		var xs [][]byte
		for j := 0; j < n; j++ {
			xs = append(xs, r.Bytes(32))
		}
		base := multiset.New()
		base.Add(r.Bytes(32))
		a, b := base.Clone(), base.Clone()
		sgn := make([]bool, n)
		for j := range xs {
			sgn[j] = r.Bool()
			if sgn[j] {
				a.Add(xs[j])
			} else {
				a.Remove(xs[j])
			}
		}
		perm := make([]int, n)
		for j := range perm {
			perm[j] = j
		}
		for j := n - 1; j > 0; j-- {
			k := r.Intn(j + 1)
			perm[j], perm[k] = perm[k], perm[j]
		}
		for _, j := range perm {
			if sgn[j] {
				b.Add(xs[j])
			} else {
				b.Remove(xs[j])
			}
		}
		if a.Hash() != b.Hash() {
			rep.Fail(sigMuLaw, "MuHash depends on the order of Add/Remove", map[string]any{"id": 0, "kind": "mulaw", "round": i})
		}
		for j := range xs { // inverse
			if sgn[j] {
				a.Remove(xs[j])
			} else {
				a.Add(xs[j])
			}
		}
		if a.Hash() != base.Hash() {
			rep.Fail(sigMuLaw, "Remove is not the inverse of Add", map[string]any{"id": 0, "kind": "mulaw", "round": i})
		}
		c, err := multiset.FromBytes(b.Serialize())
		if err != nil || c.Hash() != b.Hash() {
			rep.Fail(sigMuLaw, "multiset serialization does not round-trip", map[string]any{"id": 0, "kind": "mulaw", "round": i})
		}
		rep.Count("mulaw_rounds")
	}
}

// ---------------- main ----------------

func setSchedule() {
	// Test-network schedule (ZONE_RECIPE): the code paths are unchanged, only the heights are scaled down.
	params.TimeToStartTx = 0
	params.ControllerKickInBlock = 0
	params.CoinbaseLockupPrecompileKickInHeight = 0
	params.ConversionLockPeriod = 4
	params.CoinbaseEpochBlocks = 5 // must stay below the first unlock height (mainnet: 50000 < kick-in height + lock), else AddNewLock's tranche height is 0 = "no record"
	params.LockupByteToBlockDepth = [4]uint64{4, 6, 8, 10}
	setTrimDepths("")
}

func main() {
	fl := hlib.ParseFlags()
	logger = hlib.QuietLogs()
	if os.Getenv("VLOG") != "" {
		log.Global.SetOutput(os.Stderr)
	}
	setSchedule()
	rep = hlib.NewReport("C06", "a block is non-trivial if its batch creates/spends/updates at least one 'ut'/'cl' entry or Finalize trims at least one output; fingerprint = (chain kind, #ops, #trimmed, #candidate lists, root-matches)")
	rep.Note("test-network schedule: TimeToStartTx=0, ControllerKickInBlock=0, CoinbaseLockupPrecompileKickInHeight=0, ConversionLockPeriod=4, CoinbaseEpochBlocks=5, LockupByteToBlockDepth={4,6,8,10}, TrimDepths={0:3,1:4,2:5,3:6,4:7,5:8}")
	a := newActors()
	tmp, _ := os.MkdirTemp("", "c06_")
	defer os.RemoveAll(tmp)
	allKinds := []string{"memorydb", "leveldb", "pebble"}

	var specs []ChainSpec
	var stoSpecs []ChainSpec
	if fl.Replay != "" {
		var s ChainSpec
		hlib.ReadReplayCase(fl.Replay, &s)
		if s.Kind == "storage" {
			stoSpecs = append(stoSpecs, s)
		}
		if s.Kind == "mulaw" || s.Kind == "" {
			muLaws(hlib.NewRng(fl.Seed), 50)
			s = ChainSpec{ID: 1, Seed: 1, Kind: "f5", Len: 14, Primary: 0, Kinds: allKinds, Reps: 3}
		}
		if len(s.Kinds) == 0 {
			s.Kinds = allKinds
		}
		if s.Reps == 0 {
			s.Reps = 3
		}
		if s.Kind != "storage" {
			specs = []ChainSpec{s}
		}
	} else {
		reps := 6
		length := 28
		if fl.Tier == "thorough" {
			length = 40
		}
		// fixed corpus first: the known finding, a chain that never spends a trimmable output, one lockup chain per primary
		specs = append(specs, ChainSpec{ID: 1, Seed: 1, Kind: "f5", Len: 14, Primary: 0, Kinds: allKinds, Reps: 3})
		specs = append(specs, ChainSpec{ID: 2, Seed: 2, Kind: "clean", Len: 20, Primary: 1, Kinds: allKinds, Reps: reps})
		specs = append(specs, ChainSpec{ID: 3, Seed: 3, Kind: "lockup", Len: length, Primary: 2, Kinds: allKinds, Reps: reps})
		specs = append(specs, ChainSpec{ID: 4, Seed: 4, Kind: "recreate", Len: 22, Primary: 0, Kinds: allKinds, Reps: reps})
		// round 3: all six trim goroutines busy on the one block batch (staggered depths: from height 9 on; flat
		// depths: from height 4 on, all six reading the same created-keys record), and a chain whose blocks contain
		// Qi transactions spending outputs of the same block, rolled back and forth after every block
		specs = append(specs, ChainSpec{ID: 5, Seed: 5, Kind: "storm", Len: 12, Primary: 1, Kinds: allKinds, Reps: 3, Storm: 15})
		specs = append(specs, ChainSpec{ID: 6, Seed: 6, Kind: "storm", Len: 6, Primary: 2, Kinds: allKinds, Reps: 3, Depths: "flat", Storm: 25})
		specs = append(specs, ChainSpec{ID: 7, Seed: 7, Kind: "chained", Len: 12, Primary: 0, Kinds: allKinds, Reps: 3})
		r := hlib.NewRng(fl.Seed)
		for i := 0; i < fl.N; i++ {
			kind := "random"
			if r.Chance(30) {
				kind = "lockup"
			}
			specs = append(specs, ChainSpec{ID: uint64(corpusChains + 1 + i), Seed: r.Next() % 1000000, Kind: kind, Len: 12 + r.Intn(length-11), Primary: r.Intn(3), Kinds: allKinds, Reps: reps})
		}
		muLaws(hlib.NewRng(fl.Seed), 200)
		// storage scenarios on the real StateDB, in batches (one Coq case per batch)
		nSto, per := 120, 40
		if fl.Tier == "thorough" {
			nSto = 800
		}
		for i := 0; i*per < nSto; i++ {
			stoSpecs = append(stoSpecs, ChainSpec{ID: uint64(1000 + i), Seed: fl.Seed*1000 + uint64(i), Kind: "storage", StoN: per, StoCorpus: i == 0})
		}
	}

	// run; the trim view of the current source is what the targeted chain (and any other chain that hits
	// the situation) shows
	type done struct {
		spec ChainSpec
		res  chainResult
	}
	var all []done
	view := ""
	for _, s := range specs {
		t0 := time.Now()
		res := runChain(s, a, tmp)
		if verbose {
			fmt.Fprintf(os.Stderr, "chain %d kind %s: %d blocks, f5 %d, view %q, broken %q, %.1fs\n", s.ID, s.Kind, res.nBlocks, res.f5Blocks, res.trimView, res.broken, time.Since(t0).Seconds())
		}
		rep.Count("chain_" + s.Kind)
		if res.broken != "" {
			rep.Count("chain_broken:" + res.broken)
		}
		if res.trimView != "" {
			if view == "" {
				view = res.trimView
			} else if view != res.trimView {
				view = "mixed"
			}
		}
		all = append(all, done{s, res})
	}
	if view == "" {
		rep.Note("no block spent a trim candidate: trim view undetermined, ParentDb assumed")
		view = "ParentDb"
	}
	if view == "mixed" {
		rep.Note("trim view differs between blocks: some spent candidates are trimmed, some are not; ParentDb used, expect model mismatches")
		view = "ParentDb"
	}
	rep.Note("trim view observed on this source: " + view)
	cw := hlib.NewCaseWriter(fl.Out, "From Coq Require Import List NArith ZArith Bool.\nFrom GQ Require Import Model.C06.\nImport ListNotations.\nLocal Open Scope N_scope.\n", "C06.case", 4)
	for _, d := range all {
		if len(d.res.blocks) == 0 {
			continue
		}
		term := fmt.Sprintf("Chain %d %s [\n  %s]", d.spec.ID, view, strings.Join(d.res.blocks, ";\n  "))
		js := map[string]any{"id": d.spec.ID, "seed": d.spec.Seed, "kind": d.spec.Kind, "len": d.spec.Len, "primary": d.spec.Primary, "backends": d.spec.Kinds, "reps": d.spec.Reps, "depths": d.spec.Depths, "storm": d.spec.Storm, "blocks": d.res.nBlocks, "f5_blocks": d.res.f5Blocks}
		cw.Add(term, js)
		rep.Sample(js)
		rep.TracesValidated++
	}
	for _, sp := range stoSpecs {
		var scs []stoScenario
		if sp.Scenario != nil {
			scs = []stoScenario{*sp.Scenario}
		} else {
			scs = storageScenarios(sp.Seed, sp.StoN, sp.StoCorpus)
		}
		t0 := time.Now()
		term := runStorageBatch(sp.ID, scs)
		spent["storage"] += time.Since(t0)
		js := map[string]any{"id": sp.ID, "seed": sp.Seed, "kind": "storage", "sto_n": sp.StoN, "sto_corpus": sp.StoCorpus, "scenarios": len(scs)}
		if sp.Scenario != nil {
			js["scenario"] = sp.Scenario
		}
		cw.Add(term, js)
		rep.Sample(js)
		rep.TracesValidated++
	}
	cw.Close()
	if verbose {
		for _, k := range hlib.SortedKeys(spent) {
			fmt.Fprintf(os.Stderr, "time %-16s %.1fs\n", k, spent[k].Seconds())
		}
	}
	rep.Write(fl.Out)
	_ = hex.EncodeToString
}

// Re-creation script of the C06 harness: blocks in which an account that already exists in the parent
// state is created again and gets fresh storage in the same block.
//
//   - contract deployment (CREATE by a transaction, CREATE2 through a factory) at an address that was funded
//     by an earlier inbound transfer ("counterfactual" deployment),
//   - SELFDESTRUCT of a contract followed by its re-creation at the same address (CREATE2, same salt, same init
//     code) later in the SAME block, optionally followed by further storage writes to the re-created contract,
//   - SELFDESTRUCT alone, re-creation in a later block; plain creation at a fresh address; storage writes.
//
// For the EVM these are the paths where StateDB.CreateAccount meets a previous object (snapDestructs, storage
// "cleared", size bookkeeping restarted); the block's commitments must not depend on whether the executing node
// reads the parent state through a snapshot layer or through the tries.
package main

import (
	"crypto/ecdsa"
	"fmt"
	"math/big"

	"github.com/dominant-strategies/go-quai/common"
	"github.com/dominant-strategies/go-quai/core/state"
	"github.com/dominant-strategies/go-quai/core/types"
	"github.com/dominant-strategies/go-quai/crypto"
	"verifharness/hlib"
)

type rcChild struct {
	salt       [32]byte
	init       []byte
	addr       common.Address
	prefunded  bool // an inbound transfer to the address was scheduled before any creation
	everLive   bool // has been seen with code
	expectLive int  // 1: the last transactions sent should leave it with code, -1: without, 0: nothing pending
}

type recreate struct {
	key  *ecdsa.PrivateKey
	addr common.Address

	fundAsked    bool
	factoryCode  []byte
	factory      common.Address
	factoryNonce uint64
	factoryState int // 0 nothing, 1 address funded by inbound transfer, 2 deployment sent, 3 has code
	children     []*rcChild
	extraInbound []*types.Transaction
	txKind       map[common.Hash]string
	txChild      map[common.Hash]*rcChild
	next         uint64 // sender nonce once everything sent so far is included
	script       []string
}

func newRecreate(r *hlib.Rng, scripted bool) *recreate {
	// the deployer key depends on the chain seed only through r
	k, a := grindQuai(r)
	rc := &recreate{key: k, addr: a, txKind: map[common.Hash]string{}, txChild: map[common.Hash]*rcChild{}}
	if scripted {
		rc.script = []string{"fresh+prefund", "prefunded+store", "destroy+recreate", "destroy+recreate+store", "destroy", "create+prefund", "destroy+recreate", "prefunded"}
	}
	return rc
}

// factory: init code SSTORE(1,0x77) then returns the runtime; runtime: CREATE2(0, calldata[32:], salt = calldata[0:32]),
// SSTORE(0, created address) (0 when the creation failed: the slot is deleted again).
func factoryInit() []byte {
	runtime := "36602090038060206000376000359060006000f560005500"
	n := len(runtime) / 2
	return common.FromHex(fmt.Sprintf("607760015560%02x601160003960%02x6000f3", n, n) + runtime)
}

// child: init code SSTORE(0,v1) SSTORE(1,v2) SSTORE(2,v3), returns the runtime;
// runtime: no call data -> SELFDESTRUCT(CALLER); call data -> SSTORE(3, word) SSTORE(4, word).
func childInit(v1, v2, v3 byte) []byte {
	runtime := "3660065733ff5b60003560035560003560045500"
	n := len(runtime) / 2
	return common.FromHex(fmt.Sprintf("60%02x60005560%02x60015560%02x60025560%02x601b60003960%02x6000f3", v1, v2, v3, n, n) + runtime)
}

func (rc *recreate) newChild(r *hlib.Rng) *rcChild {
	init := childInit(byte(1+r.Intn(254)), byte(1+r.Intn(254)), byte(1+r.Intn(254)))
	h := crypto.Keccak256(init)
	for {
		var salt [32]byte
		copy(salt[:], r.Bytes(32))
		a := crypto.CreateAddress2(rc.factory, salt, h, loc)
		if _, err := a.InternalAndQuaiAddress(); err == nil && a.Location().Equal(loc) {
			c := &rcChild{salt: salt, init: init, addr: a}
			rc.children = append(rc.children, c)
			return c
		}
	}
}

func (s *scenario) takeExtraInbound() types.Transactions {
	if s.rc == nil {
		return nil
	}
	out := s.rc.extraInbound
	s.rc.extraInbound = nil
	return out
}

func ia(a common.Address) common.InternalAddress {
	x, _ := a.InternalAndQuaiAddress()
	return x
}

// recreateTxs returns the deployer's transactions for the next block (consecutive nonces).
func (s *scenario) recreateTxs(n *node, st *state.StateDB) []*types.Transaction {
	rc, r := s.rc, s.r
	if rc == nil {
		return nil
	}
	bal, nonce := st.GetBalance(ia(rc.addr)), st.GetNonce(ia(rc.addr))
	if bal.Cmp(new(big.Int).Mul(big.NewInt(3000), big.NewInt(1e18))) < 0 {
		if !rc.fundAsked {
			rc.extraInbound = append(rc.extraInbound, s.fundEtx(rc.addr, new(big.Int).Mul(big.NewInt(60000), big.NewInt(1e18)), 0))
			rc.fundAsked = true
		}
		return nil
	}
	if nonce < rc.next {
		rep.Count("rc_waiting_for_inclusion")
		return nil
	}
	// did the last round do what it was meant to do?
	for _, c := range rc.children {
		if c.expectLive != 0 {
			live := st.GetCodeSize(ia(c.addr)) > 0
			if live == (c.expectLive > 0) {
				rep.Count("rc_child_state_as_intended")
			} else {
				rep.Count("rc_child_state_not_as_intended")
			}
			c.expectLive = 0
		}
	}
	chainID := n.z.Config.ChainID
	gp := new(big.Int).Mul(n.z.Hc.CurrentHeader().BaseFee(), big.NewInt(3))
	var txs []*types.Transaction
	send := func(kind string, c *rcChild, to *common.Address, gas uint64, data []byte, al types.AccessList) {
		al = append(al, types.AccessTuple{Address: rc.addr})
		inner := &types.QuaiTx{ChainID: chainID, Nonce: nonce, GasPrice: gp, Gas: gas, To: to, Value: big.NewInt(0), Data: data, AccessList: al}
		tx, err := types.SignTx(types.NewTx(inner), types.LatestSigner(n.z.Config), rc.key)
		if err != nil {
			rep.Count("quai_sign_error")
			return
		}
		nonce++
		rc.next = nonce
		rc.txKind[tx.Hash()] = kind
		rc.txChild[tx.Hash()] = c
		txs = append(txs, tx)
	}
	if (rc.factoryState == 1 || rc.factoryState == 2) && st.GetCodeSize(ia(rc.factory)) > 0 {
		rc.factoryState = 3
		rep.Count("rc_factory_deployed_at_funded_address")
	}
	switch rc.factoryState {
	case 0:
		// choose the factory's CREATE address for the current nonce and have it funded first
		base := factoryInit()
		for salt := 0; ; salt++ {
			code := append(common.CopyBytes(base), byte(salt), byte(salt>>8), byte(salt>>16))
			a := crypto.CreateAddress(rc.addr, nonce, code, loc)
			if _, err := a.InternalAndQuaiAddress(); err == nil && a.Location().Equal(loc) {
				rc.factoryCode, rc.factory, rc.factoryNonce = code, a, nonce
				break
			}
		}
		rc.extraInbound = append(rc.extraInbound, s.fundEtx(rc.factory, big.NewInt(1e18), 0))
		rc.factoryState = 1
		return nil
	case 1:
		if nonce != rc.factoryNonce {
			rc.factoryState = 0
			return nil
		}
		if !st.Exist(ia(rc.factory)) {
			return nil // the transfer has not arrived yet
		}
		send("create_at_funded_address", nil, nil, 1500000, rc.factoryCode, types.AccessList{{Address: rc.factory}})
		rc.factoryState = 2
		return txs
	case 2:
		rc.factoryState = 0 // included but failed: start over with the current nonce
		return nil
	}
	// ---- factory ready ----
	var live, dead, funded []*rcChild
	for _, c := range rc.children {
		switch {
		case st.GetCodeSize(ia(c.addr)) > 0:
			live = append(live, c)
			c.everLive = true
		case st.Exist(ia(c.addr)):
			funded = append(funded, c) // exists without code: funded, not created yet
		default:
			dead = append(dead, c) // not created yet, transfer not arrived yet, or destroyed
		}
	}
	create := func(kind string, c *rcChild) {
		data := append(common.CopyBytes(c.salt[:]), c.init...)
		send(kind, c, &rc.factory, 1000000, data, types.AccessList{{Address: c.addr}, {Address: rc.factory}})
		c.expectLive = 1
	}
	destroy := func(c *rcChild) {
		send("selfdestruct", c, &c.addr, 200000, nil, types.AccessList{{Address: c.addr}})
		c.expectLive = -1
	}
	store := func(c *rcChild) {
		send("child_store", c, &c.addr, 300000, r.Bytes(32), types.AccessList{{Address: c.addr}})
	}
	prefund := func() {
		c := rc.newChild(r)
		c.prefunded = true
		rc.extraInbound = append(rc.extraInbound, s.fundEtx(c.addr, big.NewInt(int64(1+r.Intn(1000000))), 0))
	}
	pickOf := func(l []*rcChild) *rcChild {
		if len(l) == 0 {
			return nil
		}
		return l[r.Intn(len(l))]
	}
	var act string
	if len(rc.script) > 0 {
		act, rc.script = rc.script[0], rc.script[1:]
	} else {
		act = []string{"fresh+prefund", "prefunded+store", "destroy+recreate", "destroy+recreate+store", "destroy", "create+prefund", "store", "prefunded"}[r.Pick(2, 3, 4, 3, 1, 2, 1, 2)]
	}
	rep.Count("rc_action_" + act)
	switch act {
	case "fresh+prefund", "create+prefund":
		if c := pickOf(dead); c != nil && c.everLive && act == "create+prefund" {
			create("create_after_destroy_in_earlier_block", c) // destroyed in an earlier block (or never created)
		} else {
			create("create_at_fresh_address", rc.newChild(r))
		}
		prefund()
	case "prefunded", "prefunded+store":
		c := pickOf(funded)
		if c == nil {
			prefund()
			if l := pickOf(live); l != nil {
				store(l)
			}
			break
		}
		create("create_at_funded_address", c)
		if act == "prefunded+store" {
			store(c)
		}
	case "destroy+recreate", "destroy+recreate+store":
		c := pickOf(live)
		if c == nil {
			create("create_at_fresh_address", rc.newChild(r))
			break
		}
		destroy(c)
		create("recreate_after_selfdestruct_same_block", c)
		if act == "destroy+recreate+store" {
			store(c)
		}
	case "destroy":
		if c := pickOf(live); c != nil {
			destroy(c)
		} else {
			prefund()
		}
	case "store":
		if c := pickOf(live); c != nil {
			store(c)
		}
	}
	return txs
}

// afterBlock: distribution of what the block really contained
func (rc *recreate) afterBlock(block *types.WorkObject, receipts types.Receipts) {
	destroyed := map[*rcChild]bool{}
	for i, tx := range block.Transactions() {
		kind, ok := rc.txKind[tx.Hash()]
		if !ok || i >= len(receipts) {
			continue
		}
		rep.Count(fmt.Sprintf("rc_tx_%s_status_%d", kind, receipts[i].Status))
		if receipts[i].Status != types.ReceiptStatusSuccessful {
			continue
		}
		c := rc.txChild[tx.Hash()]
		switch kind {
		case "selfdestruct":
			destroyed[c] = true
		case "recreate_after_selfdestruct_same_block":
			if destroyed[c] {
				rep.Count("block_selfdestruct_then_recreate_same_address")
				rep.Nontrivial("rc|selfdestruct+recreate")
			}
		case "create_at_funded_address":
			rep.Count("block_create_at_address_existing_in_parent_state")
			rep.Nontrivial("rc|create-at-funded")
		}
	}
}

func (rc *recreate) afterPrimaryRestart() {
	rc.next = 0
	if rc.factoryState == 2 {
		rc.factoryState = 1 // the deployment may have been lost with the pool; state 1 re-checks nonce and sends again
	}
	for _, c := range rc.children {
		c.expectLive = 0
	}
}

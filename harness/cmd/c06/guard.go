// Batch guard (strengthening round 3, blind change C06_4).
//
// ethdb.Batch: "A batch cannot be used concurrently". HeaderChain.Finalize runs one TrimBlock goroutine per
// trimmable denomination on the ONE batch of the block; what keeps that legal is the trim lock around every
// batch access. The guard makes the rule observable on the real code, independent of what the Go scheduler
// happens to do in a particular run:
//
//   * every node's key-value store is wrapped (guardKV), so EVERY batch the node makes — the block batch of
//     AppendBlock/Apply, the rollback batch of SetCurrentHeader, the batches of the trie database and of the
//     snapshot generator, and the batches the harness hands to Process for the re-executions — is a guardBatch;
//   * a guardBatch counts the goroutines inside its mutating methods (Put, Delete, Write, Reset, Replay) with an
//     atomic counter and yields the processor (runtime.Gosched) inside the window, so a second goroutine that is
//     allowed to enter DOES enter, also with GOMAXPROCS=1: more than one goroutine inside = monitor failure
//     `batch-used-concurrently` (a property of the locking discipline, not of one lucky interleaving);
//   * the record buffer of the guard is an ordinary unsynchronised append (read length, write record, publish
//     length — what `b.writes = append(b.writes, kv)` of the memorydb batch and the record buffer of a
//     leveldb/pebble batch do), written with atomics/mutexes so that the HARNESS stays memory safe. While no two
//     goroutines are inside, the buffer equals the sequence of calls and the inner (real) batch is used as is.
//     Once two goroutines were inside together, records are lost exactly as in a real append and Write/Replay
//     take the guard's buffer: the scan-vs-commitment monitors then see the database the block really left.
package main

import (
	"fmt"
	"runtime"
	"sort"
	"sync"
	"sync/atomic"

	"github.com/dominant-strategies/go-quai/common"
	"github.com/dominant-strategies/go-quai/ethdb"
	"github.com/dominant-strategies/go-quai/log"
)

const sigBatchConc = "batch-used-concurrently"

type guardKV struct {
	ethdb.KeyValueStore
	name string
}

func (g *guardKV) NewBatch() ethdb.Batch {
	guardStats.batches.Add(1)
	return &guardBatch{inner: g.KeyValueStore.NewBatch(), name: g.name}
}

type gop struct {
	del      bool
	key, val []byte
}

type guardBatch struct {
	inner ethdb.Batch
	name  string
	mu    sync.Mutex // harness memory safety only: protects `inner` and the storage of `log`
	log   []gop
	n     atomic.Int64 // published length of log (unsynchronised-append emulation)

	inside     atomic.Int32
	cur        atomic.Pointer[string]
	concurrent atomic.Int32
}

// what the guards saw since the last guardTake()
var guardStats struct {
	sync.Mutex
	batches atomic.Int64
	ops     atomic.Int64
	hits    int
	pairs   map[string]int // "Delete ut / Delete ut" -> count
	backend map[string]int
}

func keyClass(key []byte) string {
	n := 2
	if len(key) < n {
		n = len(key)
	}
	for i := 0; i < n; i++ {
		if key[i] < 0x20 || key[i] > 0x7e {
			return fmt.Sprintf("%x", key[:n])
		}
	}
	return string(key[:n])
}

func (b *guardBatch) enter(what string) {
	prev := b.cur.Swap(&what)
	if b.inside.Add(1) > 1 {
		b.concurrent.Add(1)
		other := "?"
		if prev != nil {
			other = *prev
		}
		pair := []string{what, other}
		sort.Strings(pair)
		guardStats.Lock()
		guardStats.hits++
		if guardStats.pairs == nil {
			guardStats.pairs, guardStats.backend = map[string]int{}, map[string]int{}
		}
		guardStats.pairs[pair[0]+" || "+pair[1]]++
		guardStats.backend[b.name]++
		guardStats.Unlock()
	}
	guardStats.ops.Add(1)
}

func (b *guardBatch) leave() { b.inside.Add(-1) }

// guardTake returns and clears what the guards recorded
func guardTake() (hits int, pairs map[string]int, backends map[string]int) {
	guardStats.Lock()
	defer guardStats.Unlock()
	hits, pairs, backends = guardStats.hits, guardStats.pairs, guardStats.backend
	guardStats.hits, guardStats.pairs, guardStats.backend = 0, nil, nil
	return
}

func (b *guardBatch) add(op gop, what string) error {
	b.enter(what)
	defer b.leave()
	i := b.n.Load() // position of the next record
	runtime.Gosched()
	b.mu.Lock()
	if int(i) < len(b.log) {
		b.log[i] = op // only possible after a concurrent entry: a record of another goroutine is overwritten
	} else {
		b.log = append(b.log, op)
	}
	var err error
	if op.del {
		err = b.inner.Delete(op.key)
	} else {
		err = b.inner.Put(op.key, op.val)
	}
	b.mu.Unlock()
	b.n.Store(i + 1) // publish
	return err
}

func (b *guardBatch) Put(key, value []byte) error {
	return b.add(gop{false, common.CopyBytes(key), common.CopyBytes(value)}, "Put "+keyClass(key))
}

func (b *guardBatch) Delete(key []byte) error {
	return b.add(gop{true, common.CopyBytes(key), nil}, "Delete "+keyClass(key))
}

func (b *guardBatch) Logger() *log.Logger { return b.inner.Logger() }

func (b *guardBatch) ValueSize() int {
	b.mu.Lock()
	defer b.mu.Unlock()
	return b.inner.ValueSize()
}

func (b *guardBatch) records() []gop {
	n := int(b.n.Load())
	if n > len(b.log) {
		n = len(b.log)
	}
	return b.log[:n]
}

func (b *guardBatch) Write() error {
	b.enter("Write")
	defer b.leave()
	b.mu.Lock()
	defer b.mu.Unlock()
	if b.concurrent.Load() != 0 {
		// the batch was entered concurrently: what reaches the database is what an unsynchronised record buffer holds
		b.inner.Reset()
		for _, op := range b.records() {
			if op.del {
				b.inner.Delete(op.key)
			} else {
				b.inner.Put(op.key, op.val)
			}
		}
	}
	return b.inner.Write()
}

func (b *guardBatch) Reset() {
	b.enter("Reset")
	defer b.leave()
	b.mu.Lock()
	defer b.mu.Unlock()
	b.inner.Reset()
	b.log = b.log[:0]
	b.n.Store(0)
	b.concurrent.Store(0)
}

func (b *guardBatch) Replay(w ethdb.KeyValueWriter) error {
	b.enter("Replay")
	defer b.leave()
	b.mu.Lock()
	defer b.mu.Unlock()
	if b.concurrent.Load() == 0 {
		return b.inner.Replay(w)
	}
	for _, op := range b.records() {
		var err error
		if op.del {
			err = w.Delete(op.key)
		} else {
			err = w.Put(op.key, op.val)
		}
		if err != nil {
			return err
		}
	}
	return nil
}

func (b *guardBatch) SetPending(p bool) {
	b.mu.Lock()
	defer b.mu.Unlock()
	b.inner.SetPending(p)
}

func (b *guardBatch) GetPending(key []byte) (bool, []byte) {
	b.mu.Lock()
	defer b.mu.Unlock()
	return b.inner.GetPending(key)
}

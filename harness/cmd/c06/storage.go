// Storage scenarios of the C06 harness: one block's worth of SLOAD / SSTORE / CreateAccount on one account of a
// REAL core/state.StateDB, executed on the same committed parent state
//
//   - without a snapshot tree                          ("nosnap"),
//   - with a diff layer for the parent root            ("diff": the parent was committed through a snapshot-enabled StateDB),
//   - with a generated disk layer for the parent root  ("disk": snapshot.New(rebuild) on the parent root, generation finished).
//
// Observed per configuration: the words read, the account's Size field, the content of its storage trie and the
// state root after IntermediateRoot. Monitor (model independent): for a scenario with a single IntermediateRoot
// (what Process does) all of this is identical in the three configurations. Correspondence: the Coq model
// (Model/C06.v, sto_block) predicts words, Size and content for each configuration, also for scenarios with several
// IntermediateRoot calls.
package main

import (
	"fmt"
	"math/big"
	"sort"
	"strings"
	"time"

	"github.com/dominant-strategies/go-quai/common"
	"github.com/dominant-strategies/go-quai/core/rawdb"
	"github.com/dominant-strategies/go-quai/core/state"
	"github.com/dominant-strategies/go-quai/core/state/snapshot"
	"github.com/dominant-strategies/go-quai/core/types"
	"github.com/dominant-strategies/go-quai/rlp"
	"verifharness/hlib"
)

const sigSnapState = "state-transition-depends-on-snapshot-layer"

type stoOp struct {
	Op    string `json:"op"` // get | set | create | root | txend
	K     uint64 `json:"k,omitempty"`
	V     uint64 `json:"v,omitempty"`
	Carry bool   `json:"carry,omitempty"`
}

type stoScenario struct {
	Name   string      `json:"name"`
	Parent [][2]uint64 `json:"parent"` // storage of the account in the parent state (slot, word)
	Ops    []stoOp     `json:"ops"`
}

type stoObs struct {
	reads   []uint64
	size    *big.Int
	content [][2]uint64
	root    common.Hash
	err     string
}

var stoUniverse = []uint64{1, 2, 3, 4, 5, 6, 9}

func stoAddr(tag byte) common.InternalAddress {
	b := make([]byte, 20)
	b[0], b[1] = 0x00, 0x01
	for i := 2; i < 20; i++ {
		b[i] = tag
	}
	in, err := common.BytesToAddress(b, loc).InternalAndQuaiAddress()
	if err != nil {
		panic(err)
	}
	return in
}

func h64(x uint64) common.Hash { return common.BigToHash(new(big.Int).SetUint64(x)) }

type stoParent struct {
	disk     *stateBackend
	root     common.Hash
	trieSize *big.Int
	acctSize *big.Int
}

type stateBackend struct {
	db, etx state.Database
	kv      interface{}
	snaps   *snapshot.Tree
}

// buildParent commits the parent state (account with balance, code and the given storage; one more plain account)
func buildParent(sc stoScenario, withSnaps bool) (*stoParent, error) {
	diskdb := rawdb.NewMemoryDatabase(logger)
	b := &stateBackend{db: state.NewDatabase(diskdb), etx: state.NewDatabase(diskdb), kv: diskdb}
	if withSnaps {
		t, err := snapshot.New(diskdb, b.db.TrieDB(), 16, types.EmptyRootHash, true, false, logger)
		if err != nil {
			return nil, err
		}
		b.snaps = t
	}
	ps, err := state.New(types.EmptyRootHash, types.EmptyRootHash, big.NewInt(0), b.db, b.etx, b.snaps, loc, logger)
	if err != nil {
		return nil, err
	}
	a, other := stoAddr(0xc0), stoAddr(0x0e)
	ps.AddBalance(a, big.NewInt(1000))
	ps.AddBalance(other, big.NewInt(5))
	if len(sc.Parent) > 0 {
		ps.SetNonce(a, 1)
		ps.SetCode(a, []byte{0x00})
		for _, kv := range sc.Parent {
			ps.SetState(a, h64(kv[0]), h64(kv[1]))
		}
	}
	root, err := ps.Commit(true)
	if err != nil {
		return nil, err
	}
	if err := b.db.TrieDB().Commit(root, false, nil); err != nil {
		return nil, err
	}
	p := &stoParent{disk: b, root: root, trieSize: new(big.Int).Set(ps.GetQuaiTrieSize()), acctSize: new(big.Int).Set(ps.GetSize(a))}
	if !withSnaps {
		// the node is started on this database: snapshot of the head root is generated from the trie
		t, err := snapshot.New(diskdb, b.db.TrieDB(), 16, root, true, false, logger)
		if err != nil {
			return nil, err
		}
		dl := time.Now().Add(10 * time.Second)
		for {
			it, err := t.AccountIterator(root, common.Hash{})
			if err == nil {
				it.Release()
				break
			}
			if time.Now().After(dl) {
				return nil, fmt.Errorf("snapshot generation did not finish: %v", err)
			}
			time.Sleep(100 * time.Microsecond)
		}
		b.snaps = t
	}
	return p, nil
}

func runSto(p *stoParent, snaps *snapshot.Tree, sc stoScenario) (o stoObs) {
	defer func() {
		if r := recover(); r != nil {
			o.err = fmt.Sprintf("PANIC %v", r)
		}
	}()
	s, err := state.New(p.root, types.EmptyRootHash, new(big.Int).Set(p.trieSize), p.disk.db, p.disk.etx, snaps, loc, logger)
	if err != nil {
		o.err = "state.New: " + errClass(err)
		return
	}
	a, other := stoAddr(0xc0), stoAddr(0x0e)
	s.Prepare(common.Hash{0x01}, 0)
	s.AddBalance(other, big.NewInt(1))
	for _, op := range sc.Ops {
		switch op.Op {
		case "get":
			o.reads = append(o.reads, s.GetState(a, h64(op.K)).Big().Uint64())
		case "set":
			s.SetState(a, h64(op.K), h64(op.V))
		case "create":
			if !op.Carry {
				// the account self-destructs and the transaction ends: the object is deleted
				s.Suicide(a)
				s.Finalize(true)
			}
			s.CreateAccount(a) // evm.create
			s.SetNonce(a, 1)
			if !op.Carry {
				s.AddBalance(a, big.NewInt(7))
			}
		case "txend":
			s.Finalize(true)
		case "root":
			o.root = s.IntermediateRoot(true)
		}
	}
	o.root = s.IntermediateRoot(true)
	if s.Error() != nil {
		o.err = "statedb error: " + errClass(s.Error())
		return
	}
	o.size = new(big.Int).Set(s.GetSize(a))
	tr := s.StorageTrie(a)
	for _, k := range stoUniverse {
		if tr == nil {
			break
		}
		enc, err := tr.TryGet(h64(k).Bytes())
		if err != nil {
			o.err = "storage trie: " + errClass(err)
			return
		}
		if len(enc) == 0 {
			continue
		}
		_, content, _, err := rlp.Split(enc)
		if err != nil {
			o.err = "storage trie value: " + errClass(err)
			return
		}
		o.content = append(o.content, [2]uint64{k, new(big.Int).SetBytes(content).Uint64()})
	}
	sort.Slice(o.content, func(i, j int) bool { return o.content[i][0] < o.content[j][0] })
	return
}

func (o stoObs) coq() string {
	ct := make([]string, len(o.content))
	for i, c := range o.content {
		ct[i] = fmt.Sprintf("(%d,%d)", c[0], c[1])
	}
	rs := make([]string, len(o.reads))
	for i, r := range o.reads {
		rs[i] = fmt.Sprint(r)
	}
	return fmt.Sprintf("(%s, (%s)%%Z, %s)", hlib.CoqList(ct), o.size.String(), hlib.CoqList(rs))
}

func (o stoObs) fp() string {
	return fmt.Sprintf("%s|%v|%v|%v|%x", o.err, o.reads, o.size, o.content, o.root)
}

func (sc stoScenario) epochs() int {
	n := 1
	for i, op := range sc.Ops {
		if op.Op == "root" && i != len(sc.Ops)-1 {
			n++
		}
	}
	return n
}

// coqOps: the model has no transaction boundary (dirty and pending storage are one map there) and always ends with SRoot
func (sc stoScenario) coqOps() string {
	var out []string
	for _, op := range sc.Ops {
		switch op.Op {
		case "get":
			out = append(out, fmt.Sprintf("SGet %d", op.K))
		case "set":
			out = append(out, fmt.Sprintf("SSet %d %d", op.K, op.V))
		case "create":
			out = append(out, "SCreate "+hlib.CoqBool(op.Carry))
		case "root":
			out = append(out, "SRoot")
		}
	}
	out = append(out, "SRoot")
	return hlib.CoqList(out)
}

func stoCorpus() []stoScenario {
	set := func(k, v uint64) stoOp { return stoOp{Op: "set", K: k, V: v} }
	get := func(k uint64) stoOp { return stoOp{Op: "get", K: k} }
	create := func(carry bool) stoOp { return stoOp{Op: "create", Carry: carry} }
	root, txend := stoOp{Op: "root"}, stoOp{Op: "txend"}
	return []stoScenario{
		{Name: "deploy-at-funded-address", Ops: []stoOp{create(true), set(1, 0x11), set(2, 0x22), set(3, 0x33)}},
		{Name: "selfdestruct-recreate", Parent: [][2]uint64{{1, 9}, {2, 8}}, Ops: []stoOp{create(false), set(1, 5), set(4, 6), txend, get(2), set(4, 0), set(5, 1)}},
		{Name: "recreate-over-storage", Parent: [][2]uint64{{1, 9}, {2, 8}}, Ops: []stoOp{get(1), set(3, 4), create(true), set(1, 5), set(2, 6), get(3), set(3, 7), set(3, 0), get(9)}},
		{Name: "plain-writes", Parent: [][2]uint64{{1, 9}, {2, 8}, {3, 7}}, Ops: []stoOp{set(1, 0), set(2, 8), set(3, 1), set(4, 2), txend, set(4, 0), set(5, 3), get(6)}},
		{Name: "fresh-account-writes", Ops: []stoOp{set(1, 1), set(2, 2), txend, set(1, 0), get(2), get(3)}},
		{Name: "recreate-twice", Parent: [][2]uint64{{1, 9}}, Ops: []stoOp{create(true), set(1, 2), txend, create(false), set(2, 3), get(1), create(true), set(3, 4)}},
		// theorem storage_second_update_depends_on_layer_refuted: two IntermediateRoot calls on one StateDB
		{Name: "two-epochs", Ops: []stoOp{create(false), get(1), set(2, 5), root, set(1, 7)}},
		{Name: "two-epochs-delete-readd", Parent: [][2]uint64{{1, 9}, {2, 8}}, Ops: []stoOp{set(1, 0), root, set(1, 3), get(2), root, set(2, 0), set(4, 4)}},
	}
}

func stoRandom(r *hlib.Rng, i int) stoScenario {
	sc := stoScenario{Name: fmt.Sprintf("random-%d", i)}
	slots := []uint64{1, 2, 3, 4, 5, 6}
	if r.Chance(65) {
		for _, k := range slots {
			if r.Chance(45) {
				sc.Parent = append(sc.Parent, [2]uint64{k, uint64(1 + r.Intn(9))})
			}
		}
	}
	multi := r.Chance(20)
	n := 3 + r.Intn(12)
	for j := 0; j < n; j++ {
		k := slots[r.Intn(len(slots))]
		switch r.Pick(10, 5, 3, 2, 2) {
		case 0:
			v := uint64(r.Intn(4)) // 0 deletes
			if r.Chance(30) {
				v = uint64(1 + r.Intn(200))
			}
			sc.Ops = append(sc.Ops, stoOp{Op: "set", K: k, V: v})
		case 1:
			if r.Chance(15) {
				k = 9
			}
			sc.Ops = append(sc.Ops, stoOp{Op: "get", K: k})
		case 2:
			sc.Ops = append(sc.Ops, stoOp{Op: "create", Carry: r.Bool()})
		case 3:
			sc.Ops = append(sc.Ops, stoOp{Op: "txend"})
		case 4:
			if multi {
				sc.Ops = append(sc.Ops, stoOp{Op: "root"})
			} else {
				sc.Ops = append(sc.Ops, stoOp{Op: "txend"})
			}
		}
	}
	return sc
}

// runStorageBatch runs the scenarios and returns the Coq term of the batch (type C06.case)
func runStorageBatch(id uint64, scs []stoScenario) string {
	var terms []string
	for _, sc := range scs {
		rep.Evaluations++
		js := map[string]any{"id": id, "kind": "storage", "scenario": sc}
		pa, err := buildParent(sc, true)
		var pb *stoParent
		if err == nil {
			pb, err = buildParent(sc, false)
		}
		if err != nil {
			rep.Note("storage scenario " + sc.Name + ": parent state not built: " + err.Error())
			rep.Count("storage_parent_not_built")
			continue
		}
		if pa.root != pb.root || pa.acctSize.Cmp(pb.acctSize) != 0 {
			rep.Fail(sigSnapState, fmt.Sprintf("storage scenario %s: committing the same parent state with and without a snapshot tree gives different roots / account sizes", sc.Name), js)
			continue
		}
		if pa.disk.snaps.Snapshot(pa.root) == nil || pb.disk.snaps.Snapshot(pb.root) == nil {
			rep.Count("storage_no_layer_for_parent")
			continue
		}
		obs := map[string]stoObs{
			"nosnap": runSto(pa, nil, sc),
			"diff":   runSto(pa, pa.disk.snaps, sc),
			"disk":   runSto(pb, pb.disk.snaps, sc),
		}
		bad := false
		for _, c := range []string{"nosnap", "diff", "disk"} {
			if strings.HasPrefix(obs[c].err, "PANIC") {
				rep.Fail(sigPanic, fmt.Sprintf("storage scenario %s (%s): %s", sc.Name, c, obs[c].err), js)
				bad = true
			} else if obs[c].err != "" {
				rep.Note(fmt.Sprintf("storage scenario %s (%s): %s", sc.Name, c, obs[c].err))
				rep.Count("storage_run_error")
				bad = true
			}
		}
		if bad {
			continue
		}
		ep := sc.epochs()
		rep.Count(fmt.Sprintf("storage_scenario_epochs_%d", min(ep, 3)))
		recreated := false
		for _, op := range sc.Ops {
			if op.Op == "create" {
				recreated = true
			}
		}
		if recreated {
			rep.Count("storage_scenario_recreates_account")
		}
		differ := obs["diff"].fp() != obs["nosnap"].fp() || obs["disk"].fp() != obs["nosnap"].fp()
		if differ && ep == 1 {
			rep.Fail(sigSnapState, fmt.Sprintf("storage scenario %s: the same transactions on the same parent state give different results depending on the snapshot layer: no layer [reads %v size %v storage %v root %x], diff layer [reads %v size %v storage %v root %x], disk layer [reads %v size %v storage %v root %x]",
				sc.Name, obs["nosnap"].reads, obs["nosnap"].size, obs["nosnap"].content, obs["nosnap"].root.Bytes()[:6],
				obs["diff"].reads, obs["diff"].size, obs["diff"].content, obs["diff"].root.Bytes()[:6],
				obs["disk"].reads, obs["disk"].size, obs["disk"].content, obs["disk"].root.Bytes()[:6]), js)
		} else if differ {
			// not reachable through Process (one IntermediateRoot per StateDB); see theorem storage_second_update_depends_on_layer_refuted
			rep.Count("storage_multi_epoch_layer_dependent")
		}
		rep.Nontrivial(fmt.Sprintf("sto|%d|%v|%d|%v", ep, recreated, len(obs["nosnap"].content), obs["nosnap"].size))
		var par []string
		for _, kv := range sc.Parent {
			par = append(par, fmt.Sprintf("(%d,%d)", kv[0], kv[1]))
		}
		terms = append(terms, fmt.Sprintf("mkSCase %s (%s)%%Z %s %s [%s; %s]", hlib.CoqList(par), pa.acctSize.String(), sc.coqOps(), obs["nosnap"].coq(), obs["diff"].coq(), obs["disk"].coq()))
	}
	return fmt.Sprintf("Storage %d [\n  %s]", id, strings.Join(terms, ";\n  "))
}

func storageScenarios(seed uint64, n int, corpus bool) []stoScenario {
	var scs []stoScenario
	if corpus {
		scs = append(scs, stoCorpus()...)
	}
	r := hlib.NewRng(seed ^ 0x570a6e).Fork()
	for i := 0; i < n; i++ {
		scs = append(scs, stoRandom(r, i))
	}
	return scs
}

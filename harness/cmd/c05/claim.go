package main

import (
	"bytes"
	"encoding/binary"
	"encoding/hex"
	"fmt"
	"math/big"
	"sort"

	"github.com/dominant-strategies/go-quai/common"
	"github.com/dominant-strategies/go-quai/core"
	"github.com/dominant-strategies/go-quai/core/rawdb"
	"github.com/dominant-strategies/go-quai/core/state"
	"github.com/dominant-strategies/go-quai/core/types"
	"github.com/dominant-strategies/go-quai/core/vm"
	"github.com/dominant-strategies/go-quai/log"
	"github.com/dominant-strategies/go-quai/params"

	"verifharness/hlib"
)

// Fourth operation family: the claim of a locked coinbase, reached by a top-level EVM.Call to the lockup
// contract address with a 53-byte input (core/vm/contracts.go:RunLockupContract / ClaimCoinbaseLockup,
// core/vm/evm.go:Call lockup branch).  The ledger of locked coinbases lives in rawdb behind evm.Batch.

type LRec struct {
	Owner  string `json:"owner"`
	Miner  string `json:"miner"`
	Lb     uint8  `json:"lb"`
	Epoch  uint32 `json:"epoch"`
	Bal    string `json:"bal"`
	Unlock uint32 `json:"unlock"`
	Elems  uint16 `json:"elems"`
	Deleg  string `json:"deleg,omitempty"` // delegate stored with the record ("" = none); not part of the Coq model
}

type LCase struct {
	ID      int    `json:"id"`
	Kind    string `json:"kind"` // "claim"
	Note    string `json:"note"`
	Loc     [2]int `json:"loc"`
	Ptn     uint64 `json:"ptn"`
	Height  uint64 `json:"height"` // Context.BlockNumber
	Backend string `json:"backend"` // where the records are before the call: "db" (committed) or "batch" (pending writes of this block)
	Owner   string `json:"owner"`   // caller of the precompile
	Gas     uint64 `json:"gas"`
	Ledger  []LRec `json:"ledger"`
	Prefill int    `json:"prefill"`
	Miner   string `json:"miner"`
	To      string `json:"to"`
	Lb      uint8  `json:"lb"`
	Epoch   uint32 `json:"epoch"`
	GasLim  uint64 `json:"gaslim"`
	// observed
	OK      bool     `json:"ok"`
	Left    uint64   `json:"left"`
	Reads   []LRec   `json:"reads"` // ReadCoinbaseLockup afterwards: every stored key, then the requested key
	Etxs    []EtxObs `json:"etxs"`
	Undo    []LRec   `json:"undo"`   // evm.CoinbasesDeleted, sorted by key
	Hashes  int      `json:"hashes"` // len(evm.CoinbaseDeletedHashes)
	Twin    string   `json:"twin,omitempty"` // difference between the two backends ("" = none)
	Panic   string   `json:"panic,omitempty"`
	obsRepr string
}

func (c *LCase) reqKey() LRec {
	return LRec{Owner: c.Owner, Miner: c.Miner, Lb: c.Lb, Epoch: c.Epoch}
}

func sameKey(a, b *LRec) bool {
	return a.Owner == b.Owner && a.Miner == b.Miner && a.Lb == b.Lb && a.Epoch == b.Epoch
}

// execClaim runs the case on a fresh state with the given backend and fills the observed fields.
func execClaim(c *LCase, backend string, logger *log.Logger) {
	loc := common.Location{byte(c.Loc[0]), byte(c.Loc[1])}
	vm.InitializePrecompiles(loc)
	db := rawdb.NewMemoryDatabase(logger)
	statedb, err := state.New(types.EmptyRootHash, types.EmptyRootHash, big.NewInt(0), state.NewDatabase(db), state.NewDatabase(db), nil, loc, logger)
	if err != nil {
		panic(err)
	}
	statedb.ConfigureAccessListChecks(false)
	A := func(h string) common.Address { return common.BytesToAddress(addrBytes(h), loc) }
	lockup := vm.LockupContractAddresses[[2]byte{loc[0], loc[1]}]
	owner := A(c.Owner)
	if oi, err := owner.InternalAddress(); err == nil {
		statedb.AddBalance(oi, big.NewInt(1000000))
	}
	batch := db.NewBatch()
	batch.SetPending(true) // as StateProcessor.Process and the worker do
	for i := range c.Ledger {
		r := &c.Ledger[i]
		deleg := common.Zero
		if r.Deleg != "" {
			deleg = A(r.Deleg)
		}
		if backend == "db" {
			if _, err := rawdb.WriteCoinbaseLockup(db, A(r.Owner), A(r.Miner), r.Lb, r.Epoch, bi(r.Bal), r.Unlock, r.Elems, deleg); err != nil {
				panic(err)
			}
		} else {
			if _, err := rawdb.WriteCoinbaseLockup(batch, A(r.Owner), A(r.Miner), r.Lb, r.Epoch, bi(r.Bal), r.Unlock, r.Elems, deleg); err != nil {
				panic(err)
			}
		}
	}
	blockCtx := vm.BlockContext{
		CanTransfer:         core.CanTransfer,
		Transfer:            core.Transfer,
		GetHash:             func(uint64) common.Hash { return common.Hash{} },
		CheckIfEtxEligible:  eligChecker.CheckIfEtxIsEligible,
		PrimaryCoinbase:     owner,
		GasLimit:            30000000,
		BlockNumber:         new(big.Int).SetUint64(c.Height),
		Time:                big.NewInt(1700000000),
		Difficulty:          big.NewInt(1000000),
		BaseFee:             big.NewInt(1),
		QuaiStateSize:       new(big.Int).Lsh(big.NewInt(1), 20),
		PrimeTerminusNumber: c.Ptn,
	}
	evm := vm.NewEVM(blockCtx, vm.TxContext{Origin: owner, GasPrice: big.NewInt(1), Hash: common.BytesToHash([]byte{0xc0, 0x05, 0x0c})}, statedb,
		&params.ChainConfig{ChainID: big.NewInt(1), Location: loc}, vm.Config{}, batch)
	if c.Prefill > 0 {
		toA := common.BytesToAddress(append([]byte{0x77}, make([]byte, 19)...), loc)
		dummy := types.NewTx(&types.ExternalTx{To: &toA, Sender: owner, Value: big.NewInt(0), Gas: params.TxGas})
		pre := make([]*types.Transaction, c.Prefill, c.Prefill+16)
		for i := range pre {
			pre[i] = dummy
		}
		evm.ETXCache = pre
	}
	input := append(append([]byte{}, addrBytes(c.Miner)...), addrBytes(c.To)...)
	input = append(input, c.Lb)
	input = binary.BigEndian.AppendUint32(input, c.Epoch)
	input = binary.BigEndian.AppendUint64(input, c.GasLim)
	c.Panic = ""
	func() {
		defer func() {
			if r := recover(); r != nil {
				c.Panic = fmt.Sprint(r)
			}
		}()
		_, left, _, err := evm.Call(vm.AccountRef(owner), lockup, input, c.Gas, big.NewInt(0))
		c.OK, c.Left = err == nil, left
	}()
	read := func(k LRec) LRec {
		b, h, e, d := rawdb.ReadCoinbaseLockup(statedb.UnderlyingDatabase(), batch, A(k.Owner), A(k.Miner), k.Lb, k.Epoch)
		out := LRec{Owner: k.Owner, Miner: k.Miner, Lb: k.Lb, Epoch: k.Epoch, Bal: b.String(), Unlock: h, Elems: e}
		if !d.Equal(common.Zero) {
			out.Deleg = hex.EncodeToString(d.Bytes())
		}
		return out
	}
	c.Reads = nil
	for _, r := range c.Ledger {
		c.Reads = append(c.Reads, read(r))
	}
	c.Reads = append(c.Reads, read(c.reqKey()))
	c.Etxs = []EtxObs{}
	for i := c.Prefill; i < len(evm.ETXCache); i++ {
		c.Etxs = append(c.Etxs, *etxObs(evm.ETXCache[i]))
	}
	c.Hashes = len(evm.CoinbaseDeletedHashes)
	c.Undo = []LRec{}
	keys := make([]string, 0, len(evm.CoinbasesDeleted))
	for k := range evm.CoinbasesDeleted {
		keys = append(keys, string(k[:]))
	}
	sort.Strings(keys)
	for _, k := range keys {
		var kk [rawdb.CoinbaseLockupKeyLength]byte
		copy(kk[:], k)
		data := evm.CoinbasesDeleted[kk]
		o, m, lb, ep, err := rawdb.ReverseCoinbaseLockupKey([]byte(k), loc)
		if err != nil || len(data) < 38 {
			c.Undo = append(c.Undo, LRec{Owner: zeroAddrHex, Miner: zeroAddrHex, Bal: "0"})
			continue
		}
		u := LRec{Owner: hex.EncodeToString(o.Bytes()), Miner: hex.EncodeToString(m.Bytes()), Lb: lb, Epoch: ep,
			Bal: new(big.Int).SetBytes(data[:32]).String(), Unlock: binary.BigEndian.Uint32(data[32:36]), Elems: binary.BigEndian.Uint16(data[36:38])}
		if len(data) == 58 && !bytes.Equal(data[38:], make([]byte, 20)) {
			u.Deleg = hex.EncodeToString(data[38:])
		}
		c.Undo = append(c.Undo, u)
	}
	c.obsRepr = fmt.Sprintf("ok=%v left=%d reads=%+v etxs=%+v undo=%+v hashes=%d panic=%q", c.OK, c.Left, c.Reads, c.Etxs, c.Undo, c.Hashes, c.Panic)
}

var zeroAddrHex = hex.EncodeToString(make([]byte, 20))

// runClaim executes the case with its own backend (that is what the Coq case records) and with the other one:
// where the record sits before the call (committed database or the pending batch of the block) must not matter.
func runClaim(c *LCase, logger *log.Logger) {
	other := "batch"
	if c.Backend == "batch" {
		other = "db"
	}
	twin := *c
	execClaim(&twin, other, logger)
	execClaim(c, c.Backend, logger)
	c.Twin = ""
	if twin.obsRepr != c.obsRepr {
		c.Twin = fmt.Sprintf("backend %s: %s; backend %s: %s", c.Backend, c.obsRepr, other, twin.obsRepr)
	}
}

func coqLKey(r *LRec) string {
	return fmt.Sprintf("(%s, %s, %s, %s)", addrN(r.Owner), addrN(r.Miner), coqU(uint64(r.Lb)), coqU(uint64(r.Epoch)))
}
func coqLEntry(r *LRec) string {
	return fmt.Sprintf("(%s, mkLRec %s %s %s)", coqLKey(r), coqS(r.Bal), coqU(uint64(r.Unlock)), coqU(uint64(r.Elems)))
}

func coqLCase(c *LCase) string {
	ents := func(l []LRec) string {
		items := make([]string, len(l))
		for i := range l {
			items[i] = coqLEntry(&l[i])
		}
		return hlib.CoqList(items)
	}
	etxs := make([]string, len(c.Etxs))
	for i := range c.Etxs {
		etxs[i] = coqEtx(&c.Etxs[i])
	}
	pfx := c.Loc[0]<<4 + c.Loc[1]
	return fmt.Sprintf("KL (mkLCase %s %s %s %s %s %s\n %s %s\n %s %s %s %s %s\n %s %s %s %s %s)",
		coqU(uint64(c.ID)), coqU(uint64(pfx)), coqU(c.Ptn), coqU(c.Height), addrN(c.Owner), coqU(c.Gas),
		ents(c.Ledger), coqU(uint64(c.Prefill)),
		addrN(c.Miner), addrN(c.To), coqU(uint64(c.Lb)), coqU(uint64(c.Epoch)), coqU(c.GasLim),
		hlib.CoqBool(c.OK), coqU(c.Left), ents(c.Reads), hlib.CoqList(etxs), ents(c.Undo))
}

var lsigCount = map[string]int{}

// claimMonitors: all-or-nothing of the claim, evaluated on what the real code did (independent of the Coq model).
func claimMonitors(c *LCase, rep *hlib.Report) {
	fail := func(sig, what string) {
		lsigCount[sig]++
		rep.Count("monitor-failure:" + sig)
		if lsigCount[sig] <= 3 {
			rep.Fail(sig, fmt.Sprintf("case %d (%s): %s", c.ID, c.Note, what), c)
		}
	}
	if c.Twin != "" {
		fail("claimLockup:backends-differ", "the claim behaves differently when the record is committed and when it is a pending write of the block: "+c.Twin)
	}
	req := c.reqKey()
	// the record the request names, as stored before the call (the first one wins, as in the database a later write would)
	var stored *LRec
	for i := range c.Ledger {
		if sameKey(&c.Ledger[i], &req) {
			stored = &c.Ledger[i]
		}
	}
	same := func(a, b *LRec) bool {
		return a.Bal == b.Bal && a.Unlock == b.Unlock && a.Elems == b.Elems && a.Deleg == b.Deleg
	}
	// every other key must read as before, whatever the outcome
	lastOf := map[string]*LRec{}
	for i := range c.Ledger {
		lastOf[coqLKey(&c.Ledger[i])] = &c.Ledger[i]
	}
	for i := range c.Ledger {
		if sameKey(&c.Ledger[i], &req) {
			continue
		}
		if !same(lastOf[coqLKey(&c.Ledger[i])], &c.Reads[i]) {
			fail("claimLockup:other-record-changed", fmt.Sprintf("the claim of %+v changed another record: %+v -> %+v", req, c.Ledger[i], c.Reads[i]))
		}
	}
	after := &c.Reads[len(c.Reads)-1]
	gone := after.Bal == "0" && after.Unlock == 0 && after.Elems == 0
	if c.OK {
		good := stored != nil && gone && len(c.Etxs) == 1 && len(c.Undo) == 1 && c.Hashes == 1 && c.Gas >= c.GasLim && c.Left == c.Gas-c.GasLim
		if good {
			x := c.Etxs[0]
			good = x.Value == stored.Bal && x.Index == c.Prefill && x.To == c.To && x.Sender == c.Owner && x.Gas == c.GasLim && x.Type == uint64(types.CoinbaseLockupType)
			good = good && sameKey(&c.Undo[0], stored) && same(&c.Undo[0], stored)
		}
		if !good {
			fail("claimLockup:success:wrong-effect", fmt.Sprintf("the claim succeeded: stored %+v, afterwards %+v, ETXs %+v (want one of the stored balance, index %d), undo %+v, %d hashes, gas %d -> %d (limit %d)",
				stored, *after, c.Etxs, c.Prefill, c.Undo, c.Hashes, c.Gas, c.Left, c.GasLim))
		}
		// the conditions under which a claim may pay (recomputed here, not taken from the model)
		if stored != nil {
			latest := uint32(c.Height/params.CoinbaseEpochBlocks + 1)
			if stored.Unlock == 0 || stored.Unlock > uint32(c.Height) || stored.Elems == 0 || c.Epoch >= latest {
				fail("claimLockup:success:not-due", fmt.Sprintf("a claim paid although the tranche is not due: %+v at height %d", *stored, c.Height))
			}
		}
		return
	}
	unchanged := (stored == nil && gone) || (stored != nil && same(lastOf[coqLKey(stored)], after))
	if !unchanged || len(c.Etxs) != 0 || len(c.Undo) != 0 || c.Hashes != 0 {
		cls := "unclassified"
		if c.Prefill > 65535 && stored != nil && gone && len(c.Etxs) == 0 {
			cls = "index-overflow"
		}
		fail("claimLockup:"+cls+":failed-call-left-trace", fmt.Sprintf("the claim failed (prime terminus %d) but the record went %+v -> %+v, %d ETXs, %d undo entries, %d hashes",
			c.Ptn, stored, *after, len(c.Etxs), len(c.Undo), c.Hashes))
	}
}

func claimCorpus() []*LCase {
	var out []*LCase
	for _, loc := range [][2]int{{0, 0}, {1, 2}} {
		pfx := byte(loc[0]<<4 + loc[1])
		owner := mkAddr(pfx, 0x02, 0xa1)
		miner := mkAddr(pfx, 0x03, 0xb2)
		to := mkAddr(pfx^0x21, 0x04, 0x56)
		for pi, ptn := range []uint64{params.SelfDestructRefundForkBlock + 5, params.ShaEquivalentDifficultyForkBlock - 1} {
			for _, backend := range []string{"db", "batch"} {
				if pi == 1 && backend == "batch" {
					continue
				}
				base := LCase{Kind: "claim", Loc: loc, Ptn: ptn, Height: 200000, Backend: backend, Owner: owner, Gas: 100000,
					Ledger: []LRec{{Owner: owner, Miner: miner, Lb: 1, Epoch: 2, Bal: "7000", Unlock: 100000, Elems: 3}},
					Miner: miner, To: to, Lb: 1, Epoch: 2, GasLim: 30000}
				add := func(note string, f func(c *LCase)) {
					c := base
					c.Ledger = append([]LRec{}, base.Ledger...)
					c.Note = note
					f(&c)
					out = append(out, &c)
				}
				add("claim an unlocked tranche", func(c *LCase) {})
				add("claim to an address of this zone", func(c *LCase) { c.To = mkAddr(pfx, 0x04, 0x57) })
				add("tranche unlocks exactly at this height", func(c *LCase) { c.Ledger[0].Unlock = 200000 })
				add("tranche unlocks one block later", func(c *LCase) { c.Ledger[0].Unlock = 200001 })
				add("epoch is the running one", func(c *LCase) { c.Epoch, c.Ledger[0].Epoch = 5, 5 })
				add("epoch is the last finished one", func(c *LCase) { c.Epoch, c.Ledger[0].Epoch = 4, 4 })
				add("no record under the key", func(c *LCase) { c.Ledger = nil })
				add("record of another miner only", func(c *LCase) { c.Ledger[0].Miner = mkAddr(pfx, 0x03, 0xb3) })
				add("record of another owner only", func(c *LCase) { c.Ledger[0].Owner = mkAddr(pfx, 0x02, 0xa2) })
				add("record under another lockup byte and another epoch beside the claimed one", func(c *LCase) {
					c.Ledger = append(c.Ledger, LRec{Owner: owner, Miner: miner, Lb: 2, Epoch: 2, Bal: "900", Unlock: 100000, Elems: 1},
						LRec{Owner: owner, Miner: miner, Lb: 1, Epoch: 3, Bal: "800", Unlock: 150000, Elems: 1, Deleg: mkAddr(pfx, 0x06, 0x99)})
				})
				add("record with a delegate", func(c *LCase) { c.Ledger[0].Deleg = mkAddr(pfx, 0x06, 0x98) })
				add("element counter 0", func(c *LCase) { c.Ledger[0].Elems = 0 })
				add("ETX gas limit above the gas", func(c *LCase) { c.GasLim = 100001 })
				add("ETX gas limit equal to the gas", func(c *LCase) { c.GasLim = 100000 })
				add("ETX gas limit 0", func(c *LCase) { c.GasLim = 0 })
				add("Qi miner, Quai destination", func(c *LCase) {
					c.Miner = mkAddr(pfx, 0x83, 0xb2)
					c.Ledger[0].Miner = c.Miner
				})
				add("Qi miner, Qi destination", func(c *LCase) {
					c.Miner = mkAddr(pfx, 0x83, 0xb2)
					c.Ledger[0].Miner = c.Miner
					c.To = mkAddr(pfx^0x21, 0x84, 0x56)
				})
				add("Quai miner, Qi destination", func(c *LCase) { c.To = mkAddr(pfx, 0x84, 0x56) })
				add("miner of another zone", func(c *LCase) {
					c.Miner = mkAddr(pfx^0x21, 0x03, 0xb2)
					c.Ledger[0].Miner = c.Miner
				})
				add("owner in the Qi ledger", func(c *LCase) {
					c.Owner = mkAddr(pfx, 0x82, 0xa1)
					c.Ledger[0].Owner = c.Owner
				})
				add("cache at 65535: the claim takes the last index", func(c *LCase) { c.Prefill = 65535 })
				add("cache at 65536: index overflow AFTER the record was deleted in the batch (never restored)", func(c *LCase) { c.Prefill = 65536 })
				add("cache at 65536 but the tranche is not due: nothing happens", func(c *LCase) { c.Prefill, c.Ledger[0].Unlock = 65536, 200001 })
				add("huge locked balance", func(c *LCase) { c.Ledger[0].Bal = max256.String() })
				add("locked balance 0", func(c *LCase) { c.Ledger[0].Bal = "0" })
			}
		}
	}
	return out
}

func genClaim(r *hlib.Rng) *LCase {
	loc := [][2]int{{0, 0}, {1, 2}, {0, 1}, {2, 0}}[r.Intn(4)]
	pfx := byte(loc[0]<<4 + loc[1])
	c := &LCase{Kind: "claim", Note: "random", Loc: loc, Backend: []string{"db", "batch"}[r.Intn(2)], Gas: uint64(r.Intn(200000))}
	switch r.Pick(5, 3, 2) {
	case 0:
		c.Ptn = params.ShaEquivalentDifficultyForkBlock + uint64(r.Intn(2000000))
	case 1:
		c.Ptn = uint64(r.Intn(int(params.ShaEquivalentDifficultyForkBlock)))
	default:
		c.Ptn = params.ShaEquivalentDifficultyForkBlock + uint64(r.Intn(3)) - 1
	}
	ep := params.CoinbaseEpochBlocks
	c.Height = ep*uint64(1+r.Intn(8)) + uint64(r.Intn(int(ep)))
	if r.Chance(15) {
		c.Height = ep*uint64(1+r.Intn(8)) + []uint64{0, 1, ep - 1}[r.Intn(3)]
	}
	latest := uint32(c.Height/ep + 1)
	owners := []string{mkAddr(pfx, byte(r.Intn(128)), 0xa1), mkAddr(pfx, byte(r.Intn(128)), 0xa2)}
	miners := []string{mkAddr(pfx, byte(r.Intn(128)), 0xb1), mkAddr(pfx, byte(128+r.Intn(128)), 0xb2)}
	n := r.Pick(1, 5, 3, 2)
	for i := 0; i < n; i++ {
		rec := LRec{Owner: owners[r.Pick(4, 1)], Miner: miners[r.Pick(3, 1)], Lb: uint8(r.Intn(3)), Bal: genValue(r, big.NewInt(int64(1+r.Intn(1000000)))).String(), Elems: uint16(1 + r.Intn(5))}
		if bi(rec.Bal).Cmp(two256) >= 0 {
			rec.Bal = "12345"
		}
		switch r.Pick(6, 2, 1) {
		case 0:
			rec.Epoch = uint32(r.Intn(int(latest)))
		case 1:
			rec.Epoch = latest
		default:
			rec.Epoch = latest + uint32(r.Intn(3))
		}
		switch r.Pick(6, 2, 2, 1) {
		case 0:
			rec.Unlock = uint32(1 + r.Intn(int(c.Height)))
		case 1:
			rec.Unlock = uint32(c.Height) + uint32(r.Intn(3)) - 1
		case 2:
			rec.Unlock = uint32(c.Height) + uint32(1+r.Intn(100000))
		default:
			rec.Unlock = 0
		}
		if r.Chance(8) {
			rec.Elems = 0
		}
		if r.Chance(25) {
			rec.Deleg = mkAddr(pfx, byte(r.Intn(128)), 0xd1)
		}
		dup := false
		for j := range c.Ledger {
			if sameKey(&c.Ledger[j], &rec) {
				dup = true
			}
		}
		if !dup {
			c.Ledger = append(c.Ledger, rec)
		}
	}
	// the request: mostly one of the stored records, sometimes a near miss
	c.Owner, c.Miner, c.Lb, c.Epoch = owners[0], miners[0], uint8(r.Intn(3)), uint32(r.Intn(int(latest)+2))
	if len(c.Ledger) > 0 && r.Chance(85) {
		k := c.Ledger[r.Intn(len(c.Ledger))]
		c.Owner, c.Miner, c.Lb, c.Epoch = k.Owner, k.Miner, k.Lb, k.Epoch
		switch r.Pick(16, 1, 1, 1, 1) {
		case 1:
			c.Lb++
		case 2:
			c.Epoch++
		case 3:
			c.Owner = owners[1]
		case 4:
			c.Miner = miners[1]
		}
	}
	if r.Chance(3) {
		c.Owner = mkAddr(pfx, byte(128+r.Intn(128)), 0xa3)
	}
	if r.Chance(3) {
		c.Miner = mkAddr(pfx^0x21, byte(r.Intn(256)), 0xb3)
	}
	minerQi := addrBytes(c.Miner)[1] > 127
	switch r.Pick(8, 1, 1) {
	case 0: // same ledger as the miner, any zone
		b1 := byte(r.Intn(128))
		if minerQi {
			b1 += 128
		}
		c.To = mkAddr([]byte{pfx, pfx ^ 0x21, byte(r.Intn(256))}[r.Intn(3)], b1, byte(r.Intn(256)))
	case 1: // the other ledger
		b1 := byte(128 + r.Intn(128))
		if minerQi {
			b1 -= 128
		}
		c.To = mkAddr(pfx, b1, byte(r.Intn(256)))
	default:
		c.To = hex.EncodeToString(r.Bytes(20))
	}
	c.GasLim = uint64(r.Intn(220000))
	if r.Chance(70) && c.Gas > 0 {
		c.GasLim = uint64(r.Intn(int(c.Gas) + 1))
	}
	c.Prefill = []int{0, 0, 0, 0, 0, 1, 7, 65534, 65535, 65536, 65536}[r.Intn(11)]
	return c
}

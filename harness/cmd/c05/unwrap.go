package main

import (
	"encoding/binary"
	"encoding/hex"
	"fmt"
	"math/big"

	"github.com/dominant-strategies/go-quai/common"
	"github.com/dominant-strategies/go-quai/core"
	"github.com/dominant-strategies/go-quai/core/rawdb"
	"github.com/dominant-strategies/go-quai/core/state"
	"github.com/dominant-strategies/go-quai/core/types"
	"github.com/dominant-strategies/go-quai/core/vm"
	"github.com/dominant-strategies/go-quai/log"
	"github.com/dominant-strategies/go-quai/params"

	"verifharness/hlib"
)

// Second operation family: the lockup precompile's UnwrapQi, reached by a top-level
// EVM.Call to the lockup contract address with a 60-byte input
// (core/vm/contracts.go:RunLockupContract / UnwrapQi, core/vm/evm.go:Call lockup branch).

type UCase struct {
	ID      int    `json:"id"`
	Kind    string `json:"kind"` // "unwrap"
	Note    string `json:"note"`
	Loc     [2]int `json:"loc"`
	Ptn     uint64 `json:"ptn"`
	Owner   string `json:"owner"` // caller of the precompile (holder of the wrapped-Qi balance)
	Gas     uint64 `json:"gas"`
	Wrapped string `json:"wrapped"` // slot of the owner in the lockup contract before the call
	Prefill int    `json:"prefill"`
	Benef   string `json:"benef"`
	Value   string `json:"value"`
	GasLim  uint64 `json:"gaslim"`
	// observed
	OK       bool     `json:"ok"`
	Left     uint64   `json:"left"`
	WrappedA string   `json:"wrapped_after"`
	Etxs     []EtxObs `json:"etxs"`
	Panic    string   `json:"panic,omitempty"`
}

func runUnwrap(c *UCase, logger *log.Logger) {
	loc := common.Location{byte(c.Loc[0]), byte(c.Loc[1])}
	vm.InitializePrecompiles(loc)
	db := rawdb.NewMemoryDatabase(logger)
	statedb, err := state.New(types.EmptyRootHash, types.EmptyRootHash, big.NewInt(0), state.NewDatabase(db), state.NewDatabase(db), nil, loc, logger)
	if err != nil {
		panic(err)
	}
	statedb.ConfigureAccessListChecks(false)
	lockup := vm.LockupContractAddresses[[2]byte{loc[0], loc[1]}]
	lockupI, err := lockup.InternalAndQuaiAddress()
	if err != nil {
		panic(err)
	}
	owner := common.BytesToAddress(addrBytes(c.Owner), loc)
	var slot common.Hash
	if oi, err := owner.InternalAddress(); err == nil {
		statedb.AddBalance(oi, big.NewInt(1000000))
		slot = common.BytesToHash(oi[:])
		if w := bi(c.Wrapped); w.Sign() > 0 {
			statedb.SetState(lockupI, slot, common.BigToHash(w))
		}
	}
	blockCtx := vm.BlockContext{
		CanTransfer:         core.CanTransfer,
		Transfer:            core.Transfer,
		GetHash:             func(uint64) common.Hash { return common.Hash{} },
		CheckIfEtxEligible:  eligChecker.CheckIfEtxIsEligible,
		PrimaryCoinbase:     owner,
		GasLimit:            30000000,
		BlockNumber:         new(big.Int).SetUint64(params.MaxCodeSizeForkHeight + 10),
		Time:                big.NewInt(1700000000),
		Difficulty:          big.NewInt(1000000),
		BaseFee:             big.NewInt(1),
		QuaiStateSize:       new(big.Int).Lsh(big.NewInt(1), 20),
		PrimeTerminusNumber: c.Ptn,
	}
	evm := vm.NewEVM(blockCtx, vm.TxContext{Origin: owner, GasPrice: big.NewInt(1), Hash: common.BytesToHash([]byte{0xc0, 0x05})}, statedb,
		&params.ChainConfig{ChainID: big.NewInt(1), Location: loc}, vm.Config{}, nil)
	if c.Prefill > 0 {
		toA := common.BytesToAddress(append([]byte{0x77}, make([]byte, 19)...), loc)
		dummy := types.NewTx(&types.ExternalTx{To: &toA, Sender: owner, Value: big.NewInt(0), Gas: params.TxGas})
		pre := make([]*types.Transaction, c.Prefill, c.Prefill+16)
		for i := range pre {
			pre[i] = dummy
		}
		evm.ETXCache = pre
	}
	input := make([]byte, 60)
	copy(input[:20], addrBytes(c.Benef))
	v := bi(c.Value).Bytes()
	copy(input[52-len(v):52], v)
	binary.BigEndian.PutUint64(input[52:60], c.GasLim)
	func() {
		defer func() {
			if r := recover(); r != nil {
				c.Panic = fmt.Sprint(r)
			}
		}()
		_, left, _, err := evm.Call(vm.AccountRef(owner), lockup, input, c.Gas, big.NewInt(0))
		c.OK, c.Left = err == nil, left
	}()
	c.WrappedA = statedb.GetState(lockupI, slot).Big().String()
	c.Etxs = []EtxObs{}
	for i := c.Prefill; i < len(evm.ETXCache); i++ {
		c.Etxs = append(c.Etxs, *etxObs(evm.ETXCache[i]))
	}
}

func coqUCase(c *UCase) string {
	etxs := make([]string, len(c.Etxs))
	for i := range c.Etxs {
		etxs[i] = coqEtx(&c.Etxs[i])
	}
	pfx := c.Loc[0]<<4 + c.Loc[1]
	return fmt.Sprintf("KU (mkUCase %s %s %s %s %s %s %s %s %s %s\n %s %s %s %s)", coqU(uint64(c.ID)), coqU(uint64(pfx)), coqU(c.Ptn), addrN(c.Owner), coqU(c.Gas),
		coqS(c.Wrapped), coqU(uint64(c.Prefill)), addrN(c.Benef), coqS(c.Value), coqU(c.GasLim),
		hlib.CoqBool(c.OK), coqU(c.Left), coqS(c.WrappedA), hlib.CoqList(etxs))
}

var usigCount = map[string]int{}

func unwrapMonitors(c *UCase, rep *hlib.Report) {
	fail := func(sig, what string) {
		usigCount[sig]++
		rep.Count("monitor-failure:" + sig)
		if usigCount[sig] <= 3 {
			rep.Fail(sig, fmt.Sprintf("case %d (%s): %s", c.ID, c.Note, what), c)
		}
	}
	before, after, value := bi(c.Wrapped), bi(c.WrappedA), bi(c.Value)
	if c.OK {
		want := new(big.Int).Sub(before, value)
		good := after.Cmp(want) == 0 && len(c.Etxs) == 1
		if good {
			x := c.Etxs[0]
			good = x.Value == c.Value && x.Index == c.Prefill && x.To == c.Benef && x.Sender == c.Owner && x.Gas == c.GasLim && x.Type == uint64(types.UnwrapQiType)
		}
		if !good {
			fail("unwrapQi:success:wrong-effect", fmt.Sprintf("UnwrapQi succeeded: wrapped balance %s -> %s for value %s, ETXs %+v (want one, index %d)", before, after, value, c.Etxs, c.Prefill))
		}
		return
	}
	if after.Cmp(before) != 0 || len(c.Etxs) != 0 {
		cls := "unclassified"
		if c.Prefill > 65535 && c.Ptn < params.ShaEquivalentDifficultyForkBlock {
			cls = "pre-sha-fork:index-overflow"
		}
		fail("unwrapQi:"+cls+":failed-call-left-trace", fmt.Sprintf("UnwrapQi failed (prime terminus %d) but the wrapped balance went %s -> %s and %d ETXs were recorded", c.Ptn, before, after, len(c.Etxs)))
	}
}

func unwrapCorpus() []*UCase {
	var out []*UCase
	for _, loc := range [][2]int{{0, 0}, {1, 2}} {
		pfx := byte(loc[0]<<4 + loc[1])
		owner := mkAddr(pfx, 0x02, 0xa1)
		benef := mkAddr(pfx, 0x85, 0x91)
		for _, ptn := range []uint64{params.ShaEquivalentDifficultyForkBlock - 1, params.ShaEquivalentDifficultyForkBlock, params.SelfDestructRefundForkBlock + 5, 1000} {
			base := UCase{Kind: "unwrap", Loc: loc, Ptn: ptn, Owner: owner, Gas: 100000, Wrapped: "5000", Benef: benef, Value: "1200", GasLim: 30000}
			add := func(note string, f func(c *UCase)) {
				c := base
				c.Note = note
				f(&c)
				out = append(out, &c)
			}
			add("unwrap part of the balance", func(c *UCase) {})
			add("unwrap the whole balance", func(c *UCase) { c.Value = "5000" })
			add("unwrap more than the balance", func(c *UCase) { c.Value = "5001" })
			add("empty slot", func(c *UCase) { c.Wrapped = "0" })
			add("value 0", func(c *UCase) { c.Value = "0" })
			add("ETX gas limit above the gas", func(c *UCase) { c.GasLim = 100001 })
			add("ETX gas limit equal to the gas", func(c *UCase) { c.GasLim = 100000 })
			add("beneficiary in the Quai ledger", func(c *UCase) { c.Benef = mkAddr(pfx, 0x05, 0xd4) })
			add("beneficiary in another zone", func(c *UCase) { c.Benef = mkAddr(pfx^0x21, 0x90, 0x66) })
			add("cache at 65535", func(c *UCase) { c.Prefill = 65535 })
			add("cache at 65536: index overflow after the SetState (reverted only from the Sha fork on)", func(c *UCase) { c.Prefill = 65536 })
			add("huge value and balance", func(c *UCase) { c.Wrapped, c.Value = max256.String(), max256.String() })
		}
	}
	return out
}

func genUnwrap(r *hlib.Rng) *UCase {
	loc := [][2]int{{0, 0}, {1, 2}, {0, 1}, {2, 0}}[r.Intn(4)]
	pfx := byte(loc[0]<<4 + loc[1])
	c := &UCase{Kind: "unwrap", Note: "random", Loc: loc, Owner: mkAddr(pfx, byte(r.Intn(128)), byte(r.Intn(256))), Gas: uint64(r.Intn(200000))}
	switch r.Pick(3, 3, 3, 1) {
	case 0:
		c.Ptn = params.ShaEquivalentDifficultyForkBlock - 1 - uint64(r.Intn(1000000))
	case 1:
		c.Ptn = params.ShaEquivalentDifficultyForkBlock + uint64(r.Intn(1000000))
	case 2:
		c.Ptn = params.ShaEquivalentDifficultyForkBlock + uint64(r.Intn(3)) - 1
	default:
		c.Ptn = uint64(r.Intn(3000000))
	}
	w := genValue(r, big.NewInt(int64(1+r.Intn(1000000))))
	c.Wrapped = w.String()
	switch r.Pick(5, 2, 2, 1) {
	case 0:
		if w.Sign() > 0 {
			c.Value = new(big.Int).Div(w, big.NewInt(int64(1+r.Intn(5)))).String()
		} else {
			c.Value = "1"
		}
	case 1:
		c.Value = w.String()
	case 2:
		c.Value = new(big.Int).Add(w, big.NewInt(1)).String()
		if bi(c.Value).Cmp(two256) >= 0 {
			c.Value = "7"
		}
	default:
		c.Value = "0"
	}
	c.GasLim = uint64(r.Intn(220000))
	if r.Chance(60) && c.Gas > 0 {
		c.GasLim = uint64(r.Intn(int(c.Gas) + 1))
	}
	switch r.Pick(8, 1, 1) {
	case 0:
		c.Benef = mkAddr(pfx, byte(128+r.Intn(128)), byte(r.Intn(256)))
	case 1:
		c.Benef = mkAddr(pfx, byte(r.Intn(128)), byte(r.Intn(256)))
	default:
		c.Benef = hex.EncodeToString(r.Bytes(20))
	}
	c.Prefill = []int{0, 0, 0, 0, 2, 65534, 65535, 65536, 65536, 65536}[r.Intn(10)]
	return c
}

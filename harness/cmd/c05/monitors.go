package main

import (
	"encoding/hex"
	"fmt"
	"math/big"

	"github.com/dominant-strategies/go-quai/common"
	"github.com/dominant-strategies/go-quai/params"

	"verifharness/hlib"
)

// Model-independent monitors: the property's own predicate evaluated on what the
// real EVM did (trace entries: stacks, balances, ETX cache before/after each opcode).

type monState struct {
	c        *Case
	info     *runInfo
	rep      *hlib.Report
	opFail   bool      // an operation-level failure was flagged in this case
	expected []EtxObs  // ETXs of successful operations in frames that were not reverted
	sent     *big.Int  // value+fee of those operations
}

// at most 3 reports per signature: the report keeps only the first 200 failures and an
// unknown signature must never be crowded out by repetitions of a known one
var sigCount = map[string]int{}

func (m *monState) fail(sig, what string) {
	sigCount[sig]++
	m.rep.Count("monitor-failure:" + sig)
	if sigCount[sig] > 3 {
		return
	}
	m.rep.Fail(sig, fmt.Sprintf("case %d (%s): %s", m.c.ID, m.c.Note, what), m.c)
}

func low160(x *big.Int) []byte {
	b := new(big.Int).And(x, new(big.Int).Sub(new(big.Int).Lsh(big.NewInt(1), 160), big.NewInt(1))).Bytes()
	return append(make([]byte, 20-len(b)), b...)
}

func (m *monState) walk(evs []Ev, inFailed bool) {
	c := m.c
	es := m.info.entries
	eligBytes, _ := hex.DecodeString(c.Elig)
	elig := common.BytesToHash(eligBytes)
	preFork := c.Ptn < params.SelfDestructRefundForkBlock
	for _, ev := range evs {
		switch ev.Kind {
		case "etx", "convert":
			e := es[ev.pre]
			name := "opETX"
			var value, gl, fee *big.Int
			wraps := false
			value, gl = e.stack[2], e.stack[3]
			if ev.Kind == "etx" {
				sum := new(big.Int).Add(e.stack[4], e.stack[5])
				fee = new(big.Int).Mul(sum, gl)
				wraps = sum.Cmp(two256) >= 0
			} else {
				name = "opConvert"
				fee = new(big.Int).Mul(bi(c.Price), gl)
			}
			want := new(big.Int).Add(value, fee)
			wraps = preFork && (wraps || fee.Cmp(two256) >= 0 || want.Cmp(two256) >= 0)
			to := low160(e.stack[1])
			toLoc := common.Location{to[0] >> 4, to[0] & 0x0f}
			badAL := ev.Kind == "etx" && e.stack[9].Sign() != 0 && !e.alok
			idxOver := e.cacheLen > 65535
			inelig := ev.Kind == "etx" && !eligChecker.CheckIfEtxIsEligible(elig, toLoc)
			debit := bi(ev.Debit)
			selfHex := hex.EncodeToString(e.self.Bytes())
			switch {
			case !ev.Pushed:
				m.opFail = true
				cls := "unclassified"
				if inelig {
					cls = "ineligible"
				}
				m.fail(name+":"+cls+":no-status-word", fmt.Sprintf("%s at pc %d of %s returned without pushing a status word (stack height %d -> %d)", name, e.pc, selfHex, len(e.stack), len(es[ev.post].stack)))
				if debit.Sign() != 0 {
					m.fail(name+":"+cls+":debit-kept", fmt.Sprintf("%s at pc %d of %s debited %s, recorded no ETX and reported nothing", name, e.pc, selfHex, debit))
				}
				if ev.Emit != nil {
					m.fail(name+":no-status-word:etx-recorded", "an ETX was recorded without a status word")
				}
			case ev.Status == "1":
				if ev.Emit == nil {
					m.opFail = true
					m.fail(name+":status1:no-etx", fmt.Sprintf("%s at pc %d reported success but recorded no ETX (debit %s)", name, e.pc, debit))
				} else {
					x := ev.Emit
					if x.Value != value.String() || x.Index != e.cacheLen || x.To != hex.EncodeToString(to) || x.Sender != selfHex {
						m.opFail = true
						m.fail(name+":status1:etx-fields", fmt.Sprintf("%s at pc %d: recorded ETX %+v does not carry value %s / index %d / to %x / sender %s", name, e.pc, *x, value, e.cacheLen, to, selfHex))
					}
					if gl.Cmp(two64) < 0 && x.Gas != gl.Uint64() {
						m.opFail = true
						m.fail(name+":status1:etx-gas", fmt.Sprintf("%s at pc %d: recorded ETX gas %d, requested %s", name, e.pc, x.Gas, gl))
					}
					if !inFailed {
						m.expected = append(m.expected, *x)
						m.sent.Add(m.sent, want)
					}
				}
				if debit.Cmp(want) != 0 {
					m.opFail = true
					if wraps {
						m.fail(name+":prefork:amount-wraps:debit-differs", fmt.Sprintf("%s at pc %d (prime terminus %d, before the overflow-check fork): debited %s for value %s + fee %s", name, e.pc, c.Ptn, debit, value, fee))
					} else {
						m.fail(name+":status1:wrong-debit", fmt.Sprintf("%s at pc %d: debited %s, value+fee = %s", name, e.pc, debit, want))
					}
				}
			case ev.Status == "0":
				if ev.Emit != nil {
					m.opFail = true
					m.fail(name+":status0:etx-recorded", fmt.Sprintf("%s at pc %d reported failure but recorded an ETX", name, e.pc))
				}
				if debit.Sign() != 0 {
					m.opFail = true
					cls := "unclassified"
					if badAL {
						cls = "bad-access-list"
					} else if idxOver {
						cls = "index-overflow"
					}
					m.fail(name+":"+cls+":debit-kept", fmt.Sprintf("%s at pc %d of %s reported failure (status 0), recorded no ETX, but kept the debit of %s", name, e.pc, selfHex, debit))
				}
			default:
				m.opFail = true
				m.fail(name+":status-word-not-boolean", "status word "+ev.Status)
			}
		case "call":
			// a frame of any kind (CALL, CALLCODE, DELEGATECALL, STATICCALL, CREATE, CREATE2)
			via := ev.Via
			if via == "" {
				via = "call"
			}
			if ev.post >= 0 {
				e, p := es[ev.pre], es[ev.post]
				same := e.cacheLen == p.cacheLen
				for i := 0; i < len(e.bals) || i < len(p.bals); i++ {
					if balOf(&e, i).Cmp(balOf(&p, i)) != 0 {
						same = false
					}
				}
				if ev.Kept {
					// finding: a constructor that cannot pay for the deposit of its code fails without being reverted
					if !same {
						m.fail("create:code-store-out-of-gas:failed-frame-kept", fmt.Sprintf("%s at pc %d depth %d pushed 0 (the constructor returned code it could not pay for) but its effects were kept: balances / ETX cache differ from the state at the opcode (cache %d -> %d)", via, e.pc, e.depth, e.cacheLen, p.cacheLen))
					}
				} else if !ev.OK && !same {
					// signature kept for plain CALL frames; one signature per other frame kind
					sig := "call:failed-frame-left-trace"
					if via != "call" {
						sig = via + ":failed-frame-left-trace"
					}
					m.fail(sig, fmt.Sprintf("%s at pc %d depth %d failed but balances / ETX cache differ from the state at the call (cache %d -> %d)", via, e.pc, e.depth, e.cacheLen, p.cacheLen))
				}
				if via == "staticcall" && !same {
					m.fail("staticcall:frame-changed-state", fmt.Sprintf("STATICCALL at pc %d depth %d returned with balances / ETX cache changed (cache %d -> %d)", e.pc, e.depth, e.cacheLen, p.cacheLen))
				}
				if p.cacheLen < e.cacheLen {
					m.fail(via+":frame-shrank-etx-cache", fmt.Sprintf("%s at pc %d depth %d returned with a shorter ETX cache (%d -> %d): ETXs of the calling frame were dropped", via, e.pc, e.depth, e.cacheLen, p.cacheLen))
				}
			}
			m.walk(ev.Sub, inFailed || !(ev.OK || ev.Kept))
		}
	}
}

func monitors(c *Case, info *runInfo, rep *hlib.Report) {
	m := &monState{c: c, info: info, rep: rep, sent: new(big.Int)}
	topFailed := c.Err != 0
	createPath := false
	if len(c.Tr) == 1 && c.Tr[0].Kind == "create" {
		createPath = true
	} else {
		m.walk(c.Tr, topFailed)
	}
	sumInit, sumFinal := new(big.Int), new(big.Int)
	changed := false
	for i := range c.Bals { // the accounts of the case and the contracts created during the run
		sumInit.Add(sumInit, info.init[i])
		sumFinal.Add(sumFinal, bi(c.Bals[i]))
		if info.init[i].Cmp(bi(c.Bals[i])) != 0 {
			changed = true
		}
	}
	if topFailed && (changed || len(c.Etxs) != 0) {
		m.fail("tx:failed-call-left-trace", fmt.Sprintf("the top-level call failed (class %d) but balances changed=%v, ETXs recorded=%d", c.Err, changed, len(c.Etxs)))
	}
	if createPath {
		ev := c.Tr[0]
		x := ev.Emit
		wantGas := c.Gas - params.ETXGas
		if ev.Debit != c.Value || x == nil || x.Value != c.Value || x.Index != c.Prefill || x.Gas != wantGas || x.To != c.To || x.Sender != c.Origin || c.Left != 0 {
			m.fail("createETX:success:wrong-effect", fmt.Sprintf("top-level CreateETX succeeded: debit %s for value %s, ETX %+v (want index %d gas %d), leftover gas %d", ev.Debit, c.Value, x, c.Prefill, wantGas, c.Left))
		}
		m.expected = append(m.expected, *x)
		m.sent.Add(m.sent, bi(c.Value))
	}
	// outbound set = ETXs of the successful operations of frames that were not reverted, in order, gap-free indices
	okSet := len(m.expected) == len(c.Etxs)
	if okSet {
		for i := range c.Etxs {
			if c.Etxs[i] != m.expected[i] {
				okSet = false
			}
		}
	}
	if !okSet {
		m.fail("tx:outbound-set-differs", fmt.Sprintf("ETX cache after the call holds %d ETXs %+v, the successful operations of non-reverted frames recorded %d %+v", len(c.Etxs), c.Etxs, len(m.expected), m.expected))
	}
	for i := range c.Etxs {
		if c.Etxs[i].Index != c.Prefill+i {
			m.fail("tx:etx-index-gap", fmt.Sprintf("ETX #%d of the call carries index %d, want %d", i, c.Etxs[i].Index, c.Prefill+i))
			break
		}
	}
	// conservation: what left the accounts is what the recorded sends carry (value + prepaid fee)
	if !m.opFail {
		dec := new(big.Int).Sub(sumInit, sumFinal)
		if dec.Cmp(m.sent) != 0 {
			m.fail("tx:balance-decrease-differs-from-recorded-sends", fmt.Sprintf("accounts lost %s in total, recorded sends account for %s", dec, m.sent))
		}
	}
}

// distribution + non-triviality
func classify(c *Case, rep *hlib.Report) {
	regime := "post-fork"
	switch {
	case c.Ptn < params.ControllerKickInBlock:
		regime = "before-controller"
	case c.Ptn < params.SelfDestructRefundForkBlock:
		regime = "pre-fork"
	}
	rep.Count("regime:" + regime)
	rep.Count(fmt.Sprintf("top:err%d", c.Err))
	if c.Prefill > 0 {
		rep.Count(fmt.Sprintf("prefill:%d", c.Prefill))
	}
	fp := regime
	ops := 0
	var walk func(evs []Ev, d int)
	walk = func(evs []Ev, d int) {
		for _, ev := range evs {
			switch ev.Kind {
			case "call":
				via := ev.Via
				if via == "" {
					via = "call"
				}
				k := via + ":failed"
				if ev.OK {
					k = via + ":ok"
				} else if ev.Kept {
					k = via + ":failed-but-kept"
				}
				rep.Count(k)
				if countSends(ev.Sub) > 0 {
					// the shape the blind changes needed: a frame that recorded ETXs and was then reverted / kept
					rep.Count(k + ":with-recorded-etx")
				}
				if d+1 <= 4 {
					rep.Count(fmt.Sprintf("call-depth:%d", d+1))
				} else {
					rep.Count("call-depth:5+")
				}
				fp += "(" + k
				walk(ev.Sub, d+1)
				fp += ")"
			default:
				ops++
				k := ev.Kind + ":"
				switch {
				case !ev.Pushed && ev.Kind != "create":
					k += "no-status"
				case ev.Kind == "create":
					k += "ok"
				default:
					k += "status" + ev.Status
				}
				if ev.Debit != "0" && ev.Emit == nil {
					k += ":debit-kept"
				}
				rep.Count("op:" + k)
				fp += "," + k
			}
		}
	}
	walk(c.Tr, 0)
	if len(c.Tr) == 0 && len(c.Accts) > 0 && acctIndex(c, c.To) < 0 {
		rep.Count("top:create-failed")
		ops++
		fp += ",create:failed"
	}
	if ops > 0 {
		rep.Nontrivial(fp)
	}
}

// number of send operations in a sub-trace that recorded an ETX
func countSends(evs []Ev) int {
	n := 0
	for _, ev := range evs {
		if ev.Kind == "call" {
			n += countSends(ev.Sub)
		} else if ev.Emit != nil {
			n++
		}
	}
	return n
}

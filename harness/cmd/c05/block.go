package main

// Third family: the hand-over of the per-transaction ETX cache to the transaction's result and
// receipt, and the block's outbound list (core/state_transition.go:TransitionDb - dump and reset of
// EVM.ETXCache into ExecutionResult.Etxs; core/state_processor.go:applyTransaction -
// receipt.OutboundEtxs; StateProcessor.Process - ONE EVM per block, Reset per transaction,
// emittedEtxs = concatenation of the receipts' OutboundEtxs).
//
// A block case is a list of 2..6 transactions (plain transfers to foreign / local accounts, calls of
// contracts that execute ETX / CONVERT in frames that succeed or revert, inbound external transactions
// calling such contracts).  It is executed three times on identically initialised states:
//   shared : one EVM for the whole block + core.applyTransaction (what StateProcessor.Process does)
//   fresh  : a new EVM per transaction + core.applyTransaction (what the worker / ApplyTransaction does)
//   msg    : one EVM, evm.Reset + core.ApplyMessage (ExecutionResult.Etxs, the value applyTransaction copies)
// and everything recorded per transaction is read twice: when the transaction returns, and again
// after the LAST transaction of the block (what is committed: receipts are hashed and stored then).

import (
	"encoding/hex"
	"fmt"
	"math/big"
	"time"

	"github.com/dominant-strategies/go-quai/common"
	"github.com/dominant-strategies/go-quai/core"
	"github.com/dominant-strategies/go-quai/core/rawdb"
	"github.com/dominant-strategies/go-quai/core/state"
	"github.com/dominant-strategies/go-quai/core/types"
	"github.com/dominant-strategies/go-quai/core/vm"
	"github.com/dominant-strategies/go-quai/crypto"
	"github.com/dominant-strategies/go-quai/log"
	"github.com/dominant-strategies/go-quai/params"

	"verifharness/hlib"
)

// an outbound transaction as recorded: the projected fields, its hash and the transaction it names as its origin
type EtxRec struct {
	EtxObs
	Hash   string `json:"hash"`
	Origin string `json:"origin"`
}

type BTx struct {
	Kind  string `json:"kind"` // xfer (plain value transfer), call (call of a contract), inbound (inbound external transaction),
	// create (contract-creation transaction, To == nil), inbound-create (inbound external transaction addressed to the zone's zero address)
	Init    []Instr `json:"init,omitempty"`     // create kinds: the init code (the constructor is what sends)
	NewAddr string  `json:"new_addr,omitempty"` // create kinds: the address Create gives the contract, recomputed by the harness (crypto.CreateAddress / vm.GrindContract)
	From  string `json:"from"` // EOA; for inbound: the foreign sender named by the external transaction
	To    string `json:"to"`
	Value string `json:"value"`
	Gas   uint64 `json:"gas"`
	// what the generator built the transaction to do (independent of any run)
	WantOK bool     `json:"want_ok"`
	Want   []EtxObs `json:"want"`
	// observed on the shared-EVM run
	Hash     string   `json:"hash"`
	Status   int      `json:"status"` // 1 successful, 0 failed, -1 rejected by applyTransaction (not part of the block)
	Emit     []EtxObs `json:"emit"`   // EVM.ETXCache when the top-level call returned (tracer), i.e. before TransitionDb's hand-over
	EmitSrc  string   `json:"emit_src"` // "tracer"; "construction" for a plain transfer out of the chain (EVM.Call does not ping the tracer on its CreateETX branch)
	Reject   string   `json:"reject,omitempty"` // diagnostic only: why applyTransaction refused the transaction (never compared)
	CacheIn  int      `json:"cache_in"`  // len(EVM.ETXCache) when the transaction started
	AtReturn []EtxRec `json:"at_return"` // receipt.OutboundEtxs when applyTransaction returned
	AtEnd    []EtxRec `json:"at_end"`    // the same receipt, read after the last transaction of the block
	Debit    string   `json:"debit"`     // decrease of the balance of From over the transaction
	GasUsed  uint64   `json:"gas_used"`
	// the other two runs, read after the last transaction
	Fresh       []EtxRec `json:"fresh"`
	FreshStatus int      `json:"fresh_status"`
	Msg         []EtxRec `json:"msg"`
	MsgAtReturn []EtxRec `json:"msg_at_return"`
	MsgStatus   int      `json:"msg_status"`
}

type BCase struct {
	ID    int    `json:"id"`
	Kind  string `json:"kind"` // "block"
	Note  string `json:"note"`
	Loc   [2]int `json:"loc"`
	Ptn   uint64 `json:"ptn"`
	Elig  string `json:"elig"`
	Accts []Acct `json:"accts"`
	Txs   []BTx  `json:"txs"`
	// observed on the shared-EVM run, read after the last transaction
	Block      []EtxRec `json:"block"` // accumulated the way Process accumulates emittedEtxs
	CacheAfter int      `json:"cache_after"`
	FreshBlock []EtxRec `json:"fresh_block"`
	Panic      string   `json:"panic,omitempty"`
}

func etxRec(tx *types.Transaction) EtxRec {
	return EtxRec{EtxObs: *etxObs(tx), Hash: hex.EncodeToString(tx.Hash().Bytes()), Origin: hex.EncodeToString(tx.OriginatingTxHash().Bytes())}
}
func etxRecs(l []*types.Transaction) []EtxRec {
	out := make([]EtxRec, 0, len(l))
	for _, tx := range l {
		if tx == nil {
			out = append(out, EtxRec{Hash: "nil"})
			continue
		}
		out = append(out, etxRec(tx))
	}
	return out
}

// tracer of the block runs: what the EVM's cache holds when the top-level call of a transaction returns
type btracer struct {
	env  *vm.EVM
	ends [][]EtxObs
}

func (t *btracer) CaptureStart(env *vm.EVM, from common.Address, to common.Address, create bool, input []byte, gas uint64, value *big.Int) {
	t.env = env
}
func (t *btracer) CaptureEnd(output []byte, gasUsed uint64, d time.Duration, err error) {
	if t.env == nil {
		return
	}
	obs := make([]EtxObs, 0, len(t.env.ETXCache))
	for _, tx := range t.env.ETXCache {
		obs = append(obs, *etxObs(tx))
	}
	t.ends = append(t.ends, obs)
}
func (t *btracer) CaptureFault(env *vm.EVM, pc uint64, op vm.OpCode, gas, cost uint64, scope *vm.ScopeContext, depth int, err error) {
}
func (t *btracer) CaptureState(env *vm.EVM, pc uint64, op vm.OpCode, gas, cost uint64, scope *vm.ScopeContext, rData []byte, depth int, err error, loc common.Location) {
}

type bTxRun struct {
	status   int
	receipt  *types.Receipt        // shared / fresh
	result   *core.ExecutionResult // msg
	atReturn []EtxRec
	emit     []EtxObs
	cacheIn  int
	debit    *big.Int
	gasUsed  uint64
	hash     string
	traced   bool
	reject   string
	newAddr  string
}

type bRun struct {
	txs        []bTxRun
	block      []*types.Transaction
	cacheAfter int
}

var blockGasPrice = big.NewInt(2000000000)

// runBlock executes the transactions of c in the given mode on a fresh state and returns the live objects
// (receipts / results) so that the caller can read them again after the block.
func runBlock(c *BCase, mode string, logger *log.Logger) (out bRun) {
	loc := common.Location{byte(c.Loc[0]), byte(c.Loc[1])}
	vm.InitializePrecompiles(loc)
	db := rawdb.NewMemoryDatabase(logger)
	statedb, err := state.New(types.EmptyRootHash, types.EmptyRootHash, big.NewInt(0), state.NewDatabase(db), state.NewDatabase(db), nil, loc, logger)
	if err != nil {
		panic(err)
	}
	for _, a := range c.Accts {
		ad := common.BytesToAddress(addrBytes(a.Addr), loc)
		ia, err := ad.InternalAddress()
		if err != nil {
			panic("account not internal: " + a.Addr)
		}
		if b := bi(a.Bal); b.Sign() > 0 {
			statedb.AddBalance(ia, b)
		}
		if len(a.Code) > 0 {
			bc, _ := compile(a.Code)
			statedb.SetCode(ia, bc)
		}
	}
	statedb.Finalize(true)
	eligBytes, _ := hex.DecodeString(c.Elig)
	coinbase := common.BytesToAddress(addrBytes(mkAddr(byte(c.Loc[0]<<4+c.Loc[1]), 0x0c, 0xcb)), loc)
	blockCtx := vm.BlockContext{
		CanTransfer:         core.CanTransfer,
		Transfer:            core.Transfer,
		GetHash:             func(uint64) common.Hash { return common.Hash{} },
		CheckIfEtxEligible:  eligChecker.CheckIfEtxIsEligible,
		PrimaryCoinbase:     coinbase,
		GasLimit:            30000000,
		BlockNumber:         new(big.Int).SetUint64(harnessBlockNumber),
		Time:                big.NewInt(1700000000),
		Difficulty:          big.NewInt(1000000),
		BaseFee:             big.NewInt(1),
		QuaiStateSize:       new(big.Int).Lsh(big.NewInt(1), 20),
		EtxEligibleSlices:   common.BytesToHash(eligBytes),
		PrimeTerminusNumber: c.Ptn,
	}
	config := &params.ChainConfig{ChainID: big.NewInt(1), Location: loc}
	tr := &btracer{}
	vmcfg := vm.Config{Debug: true, Tracer: tr}
	newEVM := func() *vm.EVM { return vm.NewEVM(blockCtx, vm.TxContext{}, statedb, config, vmcfg, nil) }
	evm := newEVM()
	gp := new(types.GasPool).AddGas(blockCtx.GasLimit)
	usedGas, usedState := new(uint64), new(uint64)
	etxRLimit, etxPLimit := uint64(1)<<40, uint64(1)<<40
	signer := types.LatestSigner(config)
	blockHash := common.BytesToHash([]byte{0xb1, 0x0c})
	out.block = make([]*types.Transaction, 0)
	for i := range c.Txs {
		t := &c.Txs[i]
		creating := t.Kind == "create" || t.Kind == "inbound-create"
		var to common.Address
		var toP *common.Address
		var data []byte
		if creating {
			data, _ = compile(t.Init)
			if t.Kind == "inbound-create" {
				to = common.ZeroAddress(loc)
				toP = &to
			}
		} else {
			to = common.BytesToAddress(addrBytes(t.To), loc)
			toP = &to
		}
		from := common.BytesToAddress(addrBytes(t.From), loc)
		var tx *types.Transaction
		var msg types.Message
		var payer common.InternalAddress
		if t.Kind == "inbound" || t.Kind == "inbound-create" {
			origin := common.BytesToHash(append([]byte{0xe7, byte(i)}, addrBytes(t.From)...))
			tx = types.NewTx(&types.ExternalTx{To: toP, Sender: from, Value: bi(t.Value), Gas: t.Gas, Data: data, OriginatingTxHash: origin, ETXIndex: uint16(i), EtxType: types.DefaultType})
			msg, err = tx.AsMessageWithSender(signer, blockCtx.BaseFee, nil)
			payer = common.ZeroInternal(loc)
		} else if creating {
			payer, err = from.InternalAndQuaiAddress()
			if err != nil {
				panic("sender not an in-scope Quai address: " + t.From)
			}
			sig := new(big.Int).SetBytes(addrBytes(t.From))
			tx = types.NewTx(&types.QuaiTx{ChainID: big.NewInt(1), Nonce: statedb.GetNonce(payer), GasPrice: blockGasPrice, Gas: t.Gas, To: nil, Value: bi(t.Value), Data: data, V: big.NewInt(1), R: sig, S: sig})
			msg, err = tx.AsMessageWithSender(signer, blockCtx.BaseFee, &payer)
		} else {
			payer, err = from.InternalAndQuaiAddress()
			if err != nil {
				panic("sender not an in-scope Quai address: " + t.From)
			}
			// unsigned: the signature fields only make the hashes of different senders' transactions differ, as real signatures would
			sig := new(big.Int).SetBytes(addrBytes(t.From))
			tx = types.NewTx(&types.QuaiTx{ChainID: big.NewInt(1), Nonce: statedb.GetNonce(payer), GasPrice: blockGasPrice, Gas: t.Gas, To: &to, Value: bi(t.Value), V: big.NewInt(1), R: sig, S: sig})
			msg, err = tx.AsMessageWithSender(signer, blockCtx.BaseFee, &payer)
		}
		if err != nil {
			panic(err)
		}
		if mode == "fresh" {
			evm = newEVM()
		}
		statedb.Prepare(tx.Hash(), i)
		tr.ends = nil
		run := bTxRun{hash: hex.EncodeToString(tx.Hash().Bytes()), cacheIn: len(evm.ETXCache)}
		if creating {
			// where EVM.Create will put the contract (core/vm/evm.go:Create), recomputed here from the creator's nonce
			creator := msg.From()
			if ci, err := creator.InternalAndQuaiAddress(); err == nil {
				nonce := statedb.GetNonce(ci)
				na := crypto.CreateAddress(creator, nonce, data, loc)
				if _, err := na.InternalAndQuaiAddress(); err != nil {
					gasCost := int64(params.Sha3Gas) + int64((len(data)+31)/32)*int64(params.Sha3WordGas)
					if a, _, err := vm.GrindContract(creator, nonce, grindProbeGas, gasCost, crypto.Keccak256Hash(data), blockCtx.BlockNumber, loc); err == nil {
						na = a
					}
				}
				run.newAddr = hex.EncodeToString(na.Bytes())
			}
		}
		var before *big.Int
		if t.Kind != "inbound" && t.Kind != "inbound-create" {
			before = new(big.Int).Set(statedb.GetBalance(payer))
		}
		switch mode {
		case "shared", "fresh":
			receipt, _, err := core.VerifC05ApplyTransaction(msg, config, gp, statedb, blockCtx.BlockNumber, blockHash, tx, usedGas, usedState, evm, &etxRLimit, &etxPLimit, logger)
			if err != nil {
				run.status, run.reject = -1, err.Error()
				break
			}
			run.receipt = receipt
			run.gasUsed = receipt.GasUsed
			if receipt.Status == types.ReceiptStatusSuccessful {
				run.status = 1
				// StateProcessor.Process: for _, etx := range receipt.OutboundEtxs { emittedEtxs = append(emittedEtxs, etx) }
				for _, etx := range receipt.OutboundEtxs {
					out.block = append(out.block, etx)
				}
			}
			run.atReturn = etxRecs(receipt.OutboundEtxs)
		case "msg":
			evm.Reset(core.NewEVMTxContext(msg), statedb)
			var prevZero *big.Int
			if msg.IsETX() { // the value of an inbound ETX is staged on the zero address (core.prepareApplyETX)
				prevZero = statedb.GetBalance(payer)
				statedb.SetBalance(payer, msg.Value())
			}
			result, err := core.ApplyMessage(evm, msg, gp)
			if prevZero != nil {
				statedb.SetBalance(payer, prevZero)
			}
			if err != nil {
				run.status, run.reject = -1, err.Error()
				break
			}
			statedb.Finalize(true)
			run.result = result
			run.gasUsed = result.UsedGas
			if !result.Failed() {
				run.status = 1
			}
			run.atReturn = etxRecs(result.Etxs)
		}
		if before != nil {
			run.debit = new(big.Int).Sub(before, statedb.GetBalance(payer))
		} else {
			run.debit = new(big.Int)
		}
		if len(tr.ends) > 0 {
			run.emit, run.traced = tr.ends[len(tr.ends)-1], true
		}
		if run.emit == nil {
			run.emit = []EtxObs{}
		}
		out.txs = append(out.txs, run)
	}
	out.cacheAfter = len(evm.ETXCache)
	return
}

func (r *bTxRun) recorded() []EtxRec {
	switch {
	case r.receipt != nil:
		return etxRecs(r.receipt.OutboundEtxs)
	case r.result != nil:
		return etxRecs(r.result.Etxs)
	}
	return []EtxRec{}
}

func runBlockCase(c *BCase, logger *log.Logger) {
	defer func() {
		if r := recover(); r != nil {
			c.Panic = fmt.Sprint(r)
		}
	}()
	shared := runBlock(c, "shared", logger)
	fresh := runBlock(c, "fresh", logger)
	msg := runBlock(c, "msg", logger)
	// everything below is read AFTER the last transaction of every run
	for i := range c.Txs {
		t := &c.Txs[i]
		s, f, m := &shared.txs[i], &fresh.txs[i], &msg.txs[i]
		t.Hash, t.Status, t.Emit, t.CacheIn, t.AtReturn, t.Debit, t.GasUsed = s.hash, s.status, s.emit, s.cacheIn, s.atReturn, s.debit.String(), s.gasUsed
		t.EmitSrc, t.Reject = "tracer", s.reject+f.reject+m.reject
		if t.Kind == "create" || t.Kind == "inbound-create" {
			// the constructor's own sends are sent by the new contract: its address is known only now (creator's nonce, grinding)
			t.NewAddr = s.newAddr
			for j := range t.Want {
				if t.Want[j].Sender == "" {
					t.Want[j].Sender = s.newAddr
				}
			}
		}
		if !s.traced && t.Kind == "xfer" {
			// EVM.Call's CreateETX branch does not call the tracer: the cache cannot be observed before the hand-over
			t.EmitSrc, t.Emit = "construction", []EtxObs{}
			if s.status == 1 {
				t.Emit = t.Want
			}
		}
		if t.AtReturn == nil {
			t.AtReturn = []EtxRec{}
		}
		t.AtEnd = s.recorded()
		t.Fresh, t.FreshStatus = f.recorded(), f.status
		t.Msg, t.MsgStatus, t.MsgAtReturn = m.recorded(), m.status, m.atReturn
		if t.MsgAtReturn == nil {
			t.MsgAtReturn = []EtxRec{}
		}
	}
	c.Block, c.CacheAfter, c.FreshBlock = etxRecs(shared.block), shared.cacheAfter, etxRecs(fresh.block)
}

// ---------- monitors ----------

var bsigCount = map[string]int{}

func sameObs(a, b []EtxObs) bool {
	if len(a) != len(b) {
		return false
	}
	for i := range a {
		if a[i] != b[i] {
			return false
		}
	}
	return true
}
func sameRecs(a, b []EtxRec) bool {
	if len(a) != len(b) {
		return false
	}
	for i := range a {
		if a[i] != b[i] {
			return false
		}
	}
	return true
}
func obsOf(a []EtxRec) []EtxObs {
	out := make([]EtxObs, len(a))
	for i := range a {
		out[i] = a[i].EtxObs
	}
	return out
}

func blockMonitors(c *BCase, rep *hlib.Report) {
	fail := func(sig, what string) {
		bsigCount[sig]++
		rep.Count("monitor-failure:" + sig)
		if bsigCount[sig] <= 3 {
			rep.Fail(sig, fmt.Sprintf("case %d (%s): %s", c.ID, c.Note, what), c)
		}
	}
	for i := range c.Txs {
		if c.Txs[i].Status < 0 || c.Txs[i].FreshStatus < 0 || c.Txs[i].MsgStatus < 0 {
			// the generator builds transactions that pass the consensus checks; a rejected one makes the block invalid
			rep.Count("block:skipped:transaction-rejected")
			fail("block:harness:transaction-rejected", fmt.Sprintf("transaction %d (%s) was rejected by applyTransaction / ApplyMessage: the generator is wrong (%s)", i, c.Txs[i].Kind, c.Txs[i].Reject))
			return
		}
	}
	var concatReturn, concatEnd, concatWant []EtxRec
	emitters := 0
	for i := range c.Txs {
		t := &c.Txs[i]
		who := fmt.Sprintf("transaction %d of %d (%s %s -> %s, value %s)", i, len(c.Txs), t.Kind, t.From, t.To, t.Value)
		if len(t.Want) > 0 {
			emitters++
		}
		// 1. what the transaction recorded when it returned is what it was built to send (all-or-nothing at transaction level)
		if (t.Status == 1) != t.WantOK {
			fail("block:tx-status-differs-from-expected", fmt.Sprintf("%s: status %d, the program was built to %v", who, t.Status, t.WantOK))
		}
		if !sameObs(obsOf(t.AtReturn), t.Want) {
			fail("block:receipt-outbound-differs-from-sent", fmt.Sprintf("%s: the receipt records %+v, the successful operations of the transaction are %+v", who, obsOf(t.AtReturn), t.Want))
		}
		// 2. the EVM's cache at the end of the execution == what was handed to the receipt (successful transactions; a failed one has an empty cache)
		if t.Status == 1 && t.EmitSrc == "tracer" && !sameObs(obsOf(t.AtReturn), t.Emit) {
			fail("block:receipt-outbound-differs-from-cache", fmt.Sprintf("%s: the receipt records %+v, the EVM's cache held %+v when the call returned", who, obsOf(t.AtReturn), t.Emit))
		}
		if t.Status == 0 && (len(t.AtReturn) != 0 || len(t.Emit) != 0) {
			fail("block:failed-tx-recorded-outbound", fmt.Sprintf("%s failed, yet it records %+v (cache %+v)", who, obsOf(t.AtReturn), t.Emit))
		}
		// 3. every transaction starts with an empty cache: indices restart at 0 and positions are indices
		if t.CacheIn != 0 {
			fail("block:cache-not-reset-between-transactions", fmt.Sprintf("%s started with %d ETXs of earlier transactions in the EVM's cache", who, t.CacheIn))
		}
		for j, e := range t.AtReturn {
			if e.Index != j {
				fail("block:receipt-index-not-position", fmt.Sprintf("%s: outbound ETX %d carries index %d", who, j, e.Index))
				break
			}
		}
		// 4. every recorded ETX names this transaction as its origin
		for j, e := range t.AtReturn {
			if e.Origin != t.Hash {
				fail("block:outbound-names-other-origin", fmt.Sprintf("%s (hash %s): outbound ETX %d names %s as its originating transaction", who, t.Hash, j, e.Origin))
				break
			}
		}
		// 5. RETENTION: what is recorded for the transaction after the whole block == what it recorded when it returned
		if !sameRecs(t.AtEnd, t.AtReturn) {
			fail("block:receipt-outbound-changed-by-later-tx", fmt.Sprintf("%s reported status %d and recorded %+v; after the last transaction of the block (one EVM per block, as StateProcessor.Process) its receipt records %+v",
				who, t.Status, t.AtReturn, t.AtEnd))
		}
		if !sameRecs(t.Msg, t.MsgAtReturn) {
			fail("block:result-etxs-changed-by-later-tx", fmt.Sprintf("%s: ExecutionResult.Etxs was %+v when ApplyMessage returned and is %+v after the later messages run on the same EVM", who, t.MsgAtReturn, t.Msg))
		}
		// 6. a fresh EVM per transaction (worker) and the ApplyMessage path agree with the shared-EVM run (validator)
		if t.FreshStatus != t.Status || !sameRecs(t.Fresh, t.AtEnd) {
			fail("block:shared-evm-differs-from-fresh-evm", fmt.Sprintf("%s: with one EVM per block the receipt finally records %+v (status %d), with one EVM per transaction %+v (status %d)", who, t.AtEnd, t.Status, t.Fresh, t.FreshStatus))
		}
		if t.MsgStatus != t.Status || !sameRecs(t.MsgAtReturn, t.AtReturn) {
			fail("block:receipt-differs-from-execution-result", fmt.Sprintf("%s: the receipt recorded %+v (status %d), ExecutionResult.Etxs of the same message %+v (status %d)", who, t.AtReturn, t.Status, t.MsgAtReturn, t.MsgStatus))
		}
		// 7. all-or-nothing for the plain transfer out of the chain: success <=> one ETX carrying the value; the sender pays value + gas, or gas only
		if t.Kind == "xfer" {
			gasPaid := new(big.Int).Mul(new(big.Int).SetUint64(t.GasUsed), blockGasPrice)
			want := new(big.Int).Set(gasPaid)
			if t.Status == 1 {
				want.Add(want, bi(t.Value))
			}
			if bi(t.Debit).Cmp(want) != 0 {
				fail("block:transfer-debit-differs", fmt.Sprintf("%s: status %d, sender debited %s, value (if successful) + gas is %s; recorded %+v", who, t.Status, t.Debit, want, obsOf(t.AtReturn)))
			}
		}
		if t.Status == 1 {
			concatReturn = append(concatReturn, t.AtReturn...)
			concatEnd = append(concatEnd, t.AtEnd...)
		}
		for _, w := range t.Want {
			concatWant = append(concatWant, EtxRec{EtxObs: w})
		}
	}
	// 8. the block's outbound list = concatenation, in execution order, of what its successful transactions recorded
	if !sameRecs(c.Block, concatReturn) {
		fail("block:outbound-list-differs-from-recorded", fmt.Sprintf("the block's outbound list is %+v, the successful transactions recorded %+v", c.Block, concatReturn))
	}
	if !sameRecs(c.Block, concatEnd) {
		fail("block:outbound-list-differs-from-receipts", fmt.Sprintf("the block's outbound list is %+v, the receipts of the block finally record %+v", c.Block, concatEnd))
	}
	if !sameObs(obsOf(c.Block), obsOf(concatWant)) {
		fail("block:outbound-list-differs-from-sent", fmt.Sprintf("the block's outbound list is %+v, the successful operations of its transactions are %+v", obsOf(c.Block), obsOf(concatWant)))
	}
	if !sameRecs(c.FreshBlock, c.Block) {
		fail("block:shared-evm-differs-from-fresh-evm", fmt.Sprintf("outbound list with one EVM per block %+v, with one EVM per transaction %+v", c.Block, c.FreshBlock))
	}
	seen := map[string]bool{}
	for _, e := range c.Block {
		if seen[e.Hash] {
			fail("block:outbound-list-repeats-an-etx", fmt.Sprintf("the block's outbound list contains %s twice: %+v", e.Hash, c.Block))
			break
		}
		seen[e.Hash] = true
	}
	if c.CacheAfter != 0 {
		fail("block:cache-not-reset-between-transactions", fmt.Sprintf("%d ETXs left in the EVM's cache after the last transaction", c.CacheAfter))
	}
	rep.Count(fmt.Sprintf("block:txs=%d", len(c.Txs)))
	rep.Count(fmt.Sprintf("block:emitting-txs=%d", min(emitters, 4)))
	rep.Count(fmt.Sprintf("block:outbound=%d", min(len(c.Block), 12)))
	fp := fmt.Sprintf("block/loc%d%d/", c.Loc[0], c.Loc[1])
	for i := range c.Txs {
		fp += fmt.Sprintf("%s%d:%d,", c.Txs[i].Kind[:1], c.Txs[i].Status, len(c.Txs[i].AtReturn))
	}
	if emitters >= 2 {
		rep.Nontrivial(fp)
	}
}

// ---------- Coq case ----------

func coqObsList(l []EtxObs) string {
	items := make([]string, len(l))
	for i := range l {
		items[i] = coqEtx(&l[i])
	}
	return hlib.CoqList(items)
}

// KB: per transaction (status, cache at the end of the execution); observed: the receipts' outbound sets and the
// block's outbound list, all read after the last transaction
func coqBCase(c *BCase) string {
	txs := make([]string, len(c.Txs))
	recs := make([]string, len(c.Txs))
	for i := range c.Txs {
		t := &c.Txs[i]
		txs[i] = fmt.Sprintf("(%s, %s)", hlib.CoqBool(t.Status == 1), coqObsList(t.Emit))
		recs[i] = coqObsList(obsOf(t.AtEnd))
	}
	return fmt.Sprintf("KB (mkBCase %s %s\n %s\n %s)", coqU(uint64(c.ID)), hlib.CoqList(txs), hlib.CoqList(recs), coqObsList(obsOf(c.Block)))
}

// ---------- generator ----------

type bscen struct {
	c       *BCase
	pfx     byte
	loc     common.Location
	eoas    []string
	local   string
	fQuai   []string
	inQi    string
	nextTag byte
}

func newBScen(loc [2]int, note string) *bscen {
	pfx := byte(loc[0]<<4 + loc[1])
	s := &bscen{pfx: pfx, loc: common.Location{byte(loc[0]), byte(loc[1])}, nextTag: 0x20}
	for i := 0; i < 4; i++ {
		s.eoas = append(s.eoas, mkAddr(pfx, 0x10+byte(i), 0xe0+byte(i)))
	}
	s.local = mkAddr(pfx, 0x05, 0xd4)
	s.inQi = mkAddr(pfx, 0x85, 0x91)
	var all []byte
	for _, q := range []byte{0x01, 0x02, 0x10, 0x11, 0x12, 0x20, 0x21, 0x22} {
		if q != pfx {
			s.fQuai = append(s.fQuai, mkAddr(q, 0x07, 0x55))
			all = append(all, q)
		}
	}
	s.c = &BCase{Kind: "block", Note: note, Loc: loc, Ptn: params.SelfDestructRefundForkBlock + 5, Elig: eligMask(all...)}
	for _, e := range s.eoas {
		s.c.Accts = append(s.c.Accts, Acct{Addr: e, Bal: e21.String()})
	}
	s.c.Accts = append(s.c.Accts, Acct{Addr: s.local, Bal: "1000"})
	return s
}

// an emitting contract under construction: the program and the ETXs its successful operations record
type emitter struct {
	s    *bscen
	self string
	p    *prog
	want []EtxObs
}

func (s *bscen) newContract() *emitter {
	s.nextTag++
	return &emitter{s: s, self: mkAddr(s.pfx, 0x30, s.nextTag), p: new(prog)}
}
func (e *emitter) etxAs(sender, to string, value int64) *emitter {
	e.p.etx(etxArgs{to: addrWord(to), value: big.NewInt(value), gl: big.NewInt(21000), tip: big.NewInt(1), cap: big.NewInt(2), alSize: big.NewInt(0)}).op("pop")
	e.want = append(e.want, EtxObs{To: to, Sender: sender, Value: big.NewInt(value).String(), Type: uint64(types.DefaultType), Gas: 21000})
	return e
}
func (e *emitter) etx(to string, value int64) *emitter { return e.etxAs(e.self, to, value) }
func (e *emitter) convert(mult int64) *emitter {
	v := new(big.Int).Mul(params.MinQuaiConversionAmount, big.NewInt(mult))
	e.p.convert(addrWord(e.s.inQi), v, big.NewInt(21000)).op("pop")
	e.want = append(e.want, EtxObs{To: e.s.inQi, Sender: e.self, Value: v.String(), Type: uint64(types.ConversionType), Gas: 21000})
	return e
}

// sub runs another contract's code in a frame of the given kind; if it ends well its ETXs are the transaction's
// (sent by the sub-contract through CALL, by this contract through DELEGATECALL / CALLCODE), otherwise none of them is
func (e *emitter) sub(kind string, child *emitter, childOK bool) *emitter {
	e.p.callk(kind, addrWord(child.self), big0, big.NewInt(300000)).op("pop") // a child (at most 2 sends, about 45000 gas) may burn all of it
	if childOK {
		for _, w := range child.want {
			if kind != "call" {
				w.Sender = e.self
			}
			e.want = append(e.want, w)
		}
	}
	return e
}

// install ends the program (stop / revert / invalid) and puts the contract into the case
func (e *emitter) install(end string) *emitter {
	switch end {
	case "stop":
		e.p.op("stop")
	case "revert":
		e.p.revert()
	case "invalid":
		e.p.op("invalid")
	}
	e.s.c.Accts = append(e.s.c.Accts, Acct{Addr: e.self, Bal: e21.String(), Code: e.p.ins})
	return e
}
func indexed(want []EtxObs) []EtxObs {
	out := make([]EtxObs, len(want))
	for i, w := range want {
		w.Index = i
		out[i] = w
	}
	return out
}

func (s *bscen) xfer(from int, to string, value int64) {
	t := BTx{Kind: "xfer", From: s.eoas[from], To: to, Value: big.NewInt(value).String(), Gas: 100000, WantOK: true, Want: []EtxObs{}}
	if addrBytes(to)[0] != s.pfx {
		t.Want = []EtxObs{{To: to, Sender: s.eoas[from], Value: t.Value, Index: 0, Type: uint64(types.DefaultType), Gas: t.Gas - params.TxGas - params.ETXGas}}
	}
	s.c.Txs = append(s.c.Txs, t)
}

// a transfer out of the chain that CreateETX refuses (too little gas for the ETX): fails, records nothing
func (s *bscen) xferShortGas(from int, to string, value int64) {
	s.c.Txs = append(s.c.Txs, BTx{Kind: "xfer", From: s.eoas[from], To: to, Value: big.NewInt(value).String(), Gas: params.TxGas + params.ETXGas + 100, WantOK: false, Want: []EtxObs{}})
}
func (s *bscen) callTx(from int, e *emitter, ok bool) {
	t := BTx{Kind: "call", From: s.eoas[from], To: e.self, Value: "0", Gas: 4000000, WantOK: ok, Want: []EtxObs{}} // 6 transactions fit the block gas pool even if all fail
	if ok {
		t.Want = indexed(e.want)
	}
	s.c.Txs = append(s.c.Txs, t)
}
// a constructor under construction: its own sends are made by the contract being created (sender "" until the run
// has recomputed the address)
func (s *bscen) newCtor() *emitter { return &emitter{s: s, self: "", p: new(prog)} }

// createTx: a contract-creation transaction whose init code is e's program ended by end; the endowment pays the sends
func (s *bscen) createTx(from int, e *emitter, end string, inbound bool) {
	ok := true
	switch end {
	case "stop":
		e.p.op("stop")
	case "return":
		e.p.ret(uint64(7)) // seven bytes of (zero) code are deposited
	case "revert":
		e.p.revert()
		ok = false
	case "invalid":
		e.p.op("invalid")
		ok = false
	}
	t := BTx{Kind: "create", From: s.eoas[from], To: "", Value: "100000000000000000000", Gas: 4000000, WantOK: ok, Want: []EtxObs{}, Init: e.p.ins}
	if inbound {
		t.Kind, t.From = "inbound-create", s.fQuai[len(s.fQuai)-1]
	}
	if ok {
		t.Want = indexed(e.want)
	}
	s.c.Txs = append(s.c.Txs, t)
}
func (s *bscen) inbound(e *emitter, ok bool, value int64) {
	t := BTx{Kind: "inbound", From: s.fQuai[len(s.fQuai)-1], To: e.self, Value: big.NewInt(value).String(), Gas: 4000000, WantOK: ok, Want: []EtxObs{}}
	if ok {
		t.Want = indexed(e.want)
	}
	s.c.Txs = append(s.c.Txs, t)
}

func blockCorpus() []*BCase {
	var out []*BCase
	for _, loc := range [][2]int{{0, 0}, {1, 2}} {
		add := func(note string, f func(s *bscen)) {
			s := newBScen(loc, note)
			f(s)
			out = append(out, s.c)
		}
		// contract-creation transactions whose constructor sends (every transaction kind hands its cache to the receipt)
		add("creation transaction: the constructor sends one ETX out of its endowment", func(s *bscen) {
			s.createTx(0, s.newCtor().etx(s.fQuai[0], 4321), "stop", false)
			s.xfer(1, s.fQuai[1], 2222)
		})
		add("creation transaction between two sending transactions: constructor sends 2 ETXs and converts, then RETURNs code", func(s *bscen) {
			s.xfer(1, s.fQuai[1], 1111)
			s.createTx(0, s.newCtor().etx(s.fQuai[0], 11).convert(1).etx(s.fQuai[2], 12), "return", false)
			a := s.newContract().etx(s.fQuai[0], 5).install("stop")
			s.callTx(2, a, true)
		})
		add("creation transaction whose constructor sends and reverts / hits an invalid opcode: failed, nothing recorded", func(s *bscen) {
			s.createTx(0, s.newCtor().etx(s.fQuai[0], 4321), "revert", false)
			s.createTx(1, s.newCtor().etx(s.fQuai[0], 4322), "invalid", false)
			s.xfer(2, s.fQuai[1], 2222)
		})
		add("creation transaction whose constructor sends through DELEGATECALL and CALL sub-frames, one of them reverting", func(s *bscen) {
			ok := s.newContract().etx(s.fQuai[0], 21).install("stop")
			bad := s.newContract().etx(s.fQuai[1], 22).install("revert")
			s.createTx(0, s.newCtor().sub("delegatecall", ok, true).sub("call", bad, false).sub("call", ok, true).etx(s.fQuai[2], 23), "stop", false)
			s.createTx(0, s.newCtor().etx(s.fQuai[2], 24), "stop", false)
		})
		add("inbound external transaction to the zero address creating a contract whose constructor sends", func(s *bscen) {
			s.createTx(0, s.newCtor().etx(s.fQuai[0], 4321).etx(s.fQuai[1], 4322), "stop", true)
			s.xfer(1, s.fQuai[1], 2222)
		})
		add("creation transaction that sends nothing, then one that does", func(s *bscen) {
			s.createTx(0, s.newCtor(), "return", false)
			s.createTx(1, s.newCtor().convert(2), "stop", false)
		})
		add("two plain transfers out of the chain by two senders", func(s *bscen) {
			s.xfer(0, s.fQuai[0], 1111)
			s.xfer(1, s.fQuai[1], 2222)
		})
		add("two plain transfers out of the chain by the same sender", func(s *bscen) {
			s.xfer(0, s.fQuai[0], 1111)
			s.xfer(0, s.fQuai[0], 1111)
		})
		add("two contract calls, one ETX each", func(s *bscen) {
			a := s.newContract().etx(s.fQuai[0], 501).install("stop")
			b := s.newContract().etx(s.fQuai[1], 502).install("stop")
			s.callTx(0, a, true)
			s.callTx(1, b, true)
		})
		add("the same contract called twice", func(s *bscen) {
			a := s.newContract().etx(s.fQuai[0], 501).etx(s.fQuai[2], 503).install("stop")
			s.callTx(0, a, true)
			s.callTx(0, a, true)
		})
		add("3 ETXs, then 1, then 2 (the cache of the first transaction has room for the later ones)", func(s *bscen) {
			a := s.newContract().etx(s.fQuai[0], 1).etx(s.fQuai[1], 2).etx(s.fQuai[2], 3).install("stop")
			b := s.newContract().etx(s.fQuai[3], 4).install("stop")
			d := s.newContract().etx(s.fQuai[4], 5).etx(s.fQuai[5], 6).install("stop")
			s.callTx(0, a, true)
			s.callTx(1, b, true)
			s.callTx(2, d, true)
		})
		add("1 ETX, then 3 (the cache has to grow in the second transaction)", func(s *bscen) {
			a := s.newContract().etx(s.fQuai[0], 1).install("stop")
			b := s.newContract().etx(s.fQuai[1], 2).etx(s.fQuai[2], 3).etx(s.fQuai[3], 4).install("stop")
			s.callTx(0, a, true)
			s.callTx(1, b, true)
		})
		add("sender, failed transaction (ETX then REVERT), sender", func(s *bscen) {
			a := s.newContract().etx(s.fQuai[0], 1).install("stop")
			b := s.newContract().etx(s.fQuai[1], 2).etx(s.fQuai[1], 3).install("revert")
			d := s.newContract().etx(s.fQuai[2], 4).install("stop")
			s.callTx(0, a, true)
			s.callTx(1, b, false)
			s.callTx(2, d, true)
		})
		add("sender, failed transaction (ETX then invalid opcode), plain transfer out", func(s *bscen) {
			a := s.newContract().etx(s.fQuai[0], 1).etx(s.fQuai[0], 1).install("stop")
			b := s.newContract().etx(s.fQuai[1], 2).install("invalid")
			s.callTx(0, a, true)
			s.callTx(1, b, false)
			s.xfer(2, s.fQuai[3], 77)
		})
		add("sender, local transfer, sender, local transfer", func(s *bscen) {
			a := s.newContract().etx(s.fQuai[0], 1).install("stop")
			s.callTx(0, a, true)
			s.xfer(1, s.local, 5)
			s.xfer(2, s.fQuai[1], 9)
			s.xfer(3, s.local, 6)
		})
		add("transfer out refused by CreateETX (gas), then two that succeed", func(s *bscen) {
			s.xferShortGas(0, s.fQuai[0], 10)
			s.xfer(0, s.fQuai[0], 11)
			s.xfer(1, s.fQuai[0], 12)
		})
		add("a sub-frame that sends and reverts inside the first transaction, then a second sender", func(s *bscen) {
			child := s.newContract().etx(s.fQuai[1], 20).etx(s.fQuai[1], 21).install("revert")
			a := s.newContract().etx(s.fQuai[0], 1).sub("call", child, false).etx(s.fQuai[2], 3).install("stop")
			b := s.newContract().etx(s.fQuai[3], 4).install("stop")
			s.callTx(0, a, true)
			s.callTx(1, b, true)
		})
		add("DELEGATECALL and CALL sub-frames that send, three transactions", func(s *bscen) {
			child := s.newContract().etx(s.fQuai[1], 20).install("stop")
			a := s.newContract().sub("delegatecall", child, true).etx(s.fQuai[0], 1).install("stop")
			b := s.newContract().etx(s.fQuai[3], 4).sub("call", child, true).install("stop")
			s.callTx(0, a, true)
			s.callTx(1, b, true)
			s.callTx(2, child, true)
		})
		add("CONVERT in the first transaction, ETX in the second, CONVERT + ETX in the third", func(s *bscen) {
			a := s.newContract().convert(1).install("stop")
			b := s.newContract().etx(s.fQuai[3], 4).install("stop")
			d := s.newContract().convert(2).etx(s.fQuai[0], 8).install("stop")
			s.callTx(0, a, true)
			s.callTx(1, b, true)
			s.callTx(2, d, true)
		})
		add("inbound external transaction calling a sender, then an ordinary transaction, then another inbound one", func(s *bscen) {
			a := s.newContract().etx(s.fQuai[0], 1).install("stop")
			b := s.newContract().etx(s.fQuai[1], 2).etx(s.fQuai[2], 3).install("stop")
			s.inbound(a, true, 0)
			s.callTx(0, b, true)
			s.inbound(b, true, 1000)
		})
		add("inbound external transaction whose call reverts, between two senders", func(s *bscen) {
			a := s.newContract().etx(s.fQuai[0], 1).install("stop")
			b := s.newContract().etx(s.fQuai[1], 2).install("revert")
			s.xfer(0, s.fQuai[4], 31)
			s.inbound(b, false, 0)
			s.callTx(1, a, true)
		})
		add("20 ETXs in one transaction, then 1, then 20 again", func(s *bscen) {
			a := s.newContract()
			for i := 0; i < 20; i++ {
				a.etx(s.fQuai[i%len(s.fQuai)], int64(100+i))
			}
			a.install("stop")
			b := s.newContract().etx(s.fQuai[1], 2).install("stop")
			s.callTx(0, a, true)
			s.callTx(1, b, true)
			s.callTx(2, a, true)
		})
		add("six transactions, every one sends", func(s *bscen) {
			a := s.newContract().etx(s.fQuai[0], 1).etx(s.fQuai[1], 2).install("stop")
			for i := 0; i < 3; i++ {
				s.xfer(i, s.fQuai[i], int64(40+i))
				s.callTx(i, a, true)
			}
		})
		add("only one transaction of the block sends", func(s *bscen) {
			a := s.newContract().etx(s.fQuai[0], 1).install("stop")
			s.xfer(0, s.local, 1)
			s.callTx(1, a, true)
			s.xfer(2, s.local, 2)
		})
	}
	return out
}

func genBlock(r *hlib.Rng) *BCase {
	loc := [][2]int{{0, 0}, {1, 2}, {2, 1}, {0, 2}}[r.Intn(4)]
	s := newBScen(loc, "random block")
	dest := func() string { return s.fQuai[r.Intn(len(s.fQuai))] }
	mk := func(level int) (*emitter, bool) { return nil, false }
	mk = func(level int) (*emitter, bool) {
		e := s.newContract()
		n := []int{1, 1, 1, 2, 2, 3, 4, 5, 8}[r.Intn(9)]
		if level > 0 {
			n = 1 + r.Intn(2)
		}
		for i := 0; i < n; i++ {
			switch x := r.Intn(100); {
			case x < 70:
				e.etx(dest(), int64(1+r.Intn(100000)))
			case x < 80:
				e.convert(int64(1 + r.Intn(3)))
			case x < 100 && level == 0:
				child, ok := mk(1)
				kind := []string{"call", "call", "delegatecall", "callcode"}[r.Intn(4)]
				e.sub(kind, child, ok)
			default:
				e.etx(dest(), int64(1+r.Intn(100000)))
			}
		}
		end, ok := "stop", true
		if x := r.Intn(100); x < 14 {
			end, ok = "revert", false
		} else if x < 20 {
			end, ok = "invalid", false
		}
		e.install(end)
		return e, ok
	}
	var pool []*emitter
	var poolOK []bool
	n := 2 + r.Intn(5)
	for i := 0; i < n; i++ {
		switch x := r.Intn(100); {
		case x < 26:
			s.xfer(r.Intn(4), dest(), int64(1+r.Intn(100000)))
		case x < 33:
			s.xfer(r.Intn(4), s.local, int64(1+r.Intn(1000)))
		case x < 37:
			s.xferShortGas(r.Intn(4), dest(), int64(1+r.Intn(1000)))
		case x < 49:
			e := s.newCtor()
			for k, m := 0, r.Intn(4); k < m; k++ {
				switch y := r.Intn(10); {
				case y < 6:
					e.etx(dest(), int64(1+r.Intn(100000)))
				case y < 7:
					e.convert(int64(1 + r.Intn(3)))
				default:
					child, ok := mk(1)
					e.sub([]string{"call", "delegatecall", "callcode"}[r.Intn(3)], child, ok)
				}
			}
			s.createTx(r.Intn(4), e, []string{"stop", "stop", "return", "return", "revert", "invalid"}[r.Intn(6)], r.Intn(5) == 0)
		default:
			var e *emitter
			var ok bool
			if len(pool) > 0 && r.Intn(4) == 0 {
				k := r.Intn(len(pool))
				e, ok = pool[k], poolOK[k]
			} else {
				e, ok = mk(0)
				pool, poolOK = append(pool, e), append(poolOK, ok)
			}
			if x < 60 {
				s.inbound(e, ok, int64(r.Intn(2)*1000))
			} else {
				s.callTx(r.Intn(4), e, ok)
			}
		}
	}
	return s.c
}

package main

import (
	"encoding/hex"
	"fmt"
	"math/big"

	"github.com/dominant-strategies/go-quai/common"
	"github.com/dominant-strategies/go-quai/core/types"
	"github.com/dominant-strategies/go-quai/crypto"
	"github.com/dominant-strategies/go-quai/params"
	"github.com/dominant-strategies/go-quai/rlp"

	"verifharness/hlib"
)

// ---------- program builder ----------

type prog struct{ ins []Instr }

func (p *prog) push(x *big.Int) *prog {
	p.ins = append(p.ins, Instr{Op: "push", W: x.String()})
	return p
}
func (p *prog) pushU(x uint64) *prog { return p.push(new(big.Int).SetUint64(x)) }
func (p *prog) op(name string) *prog {
	p.ins = append(p.ins, Instr{Op: name})
	return p
}

// storeBlob writes blob at memory offset base (word by word, zero padded)
func (p *prog) storeBlob(base uint64, blob []byte) *prog {
	for i := 0; i < len(blob); i += 32 {
		w := make([]byte, 32)
		copy(w, blob[i:])
		p.push(new(big.Int).SetBytes(w)).pushU(base + uint64(i)).op("mstore")
	}
	return p
}

type etxArgs struct {
	to                  *big.Int // address word (may carry garbage above bit 160)
	value, gl, tip, cap *big.Int
	blob                []byte
	base                uint64 // where the blob is stored
	alSize              *big.Int
	inOff, inSize       uint64
}

func (p *prog) etx(a etxArgs) *prog {
	p.storeBlob(a.base, a.blob)
	p.push(a.alSize).pushU(a.base).pushU(a.inSize).pushU(a.inOff).push(a.cap).push(a.tip).push(a.gl).push(a.value).push(a.to).pushU(0)
	return p.op("etx")
}
func (p *prog) convert(to, value, gl *big.Int) *prog {
	p.push(gl).push(value).push(to).pushU(0)
	return p.op("convert")
}
func (p *prog) call(to, value, gas *big.Int) *prog {
	p.pushU(0).pushU(0).pushU(0).pushU(0).push(value).push(to).push(gas)
	return p.op("call")
}
func (p *prog) revert() *prog { return p.pushU(0).pushU(0).op("revert") }

// ret returns size bytes of memory that nothing has written to (zeros): in a constructor, the code to deposit
func (p *prog) ret(size uint64) *prog { return p.pushU(size).pushU(4096).op("return") }

// callk: kind is call / callcode (gas, addr, value, in, out) or delegatecall / staticcall (no value)
func (p *prog) callk(kind string, to, value, gas *big.Int) *prog {
	p.pushU(0).pushU(0).pushU(0).pushU(0)
	if kind == "call" || kind == "callcode" {
		p.push(value)
	}
	p.push(to).push(gas)
	return p.op(kind)
}

// create stores the init code at memory offset base and runs CREATE (salt == nil) or CREATE2 on it
func (p *prog) create(init *prog, value, salt *big.Int, base uint64) *prog {
	bc, _ := compile(init.ins)
	p.storeBlob(base, bc)
	if salt != nil {
		p.push(salt)
	}
	p.pushU(uint64(len(bc))).pushU(base).push(value)
	name := "create"
	if salt != nil {
		name = "create2"
	}
	p.ins = append(p.ins, Instr{Op: name, Init: init.ins})
	return p
}

// a salt for which CREATE2 by self on this init code lands on an in-zone Quai address (what a deployer has to find)
func findSalt(self string, loc common.Location, init *prog, from int) *big.Int {
	bc, _ := compile(init.ins)
	h := crypto.Keccak256(bc)
	selfA := common.BytesToAddress(addrBytes(self), loc)
	for i := from; i < from+200000; i++ {
		var s32 [32]byte
		big.NewInt(int64(i)).FillBytes(s32[:])
		if _, err := crypto.CreateAddress2(selfA, s32, h, loc).InternalAndQuaiAddress(); err == nil {
			return big.NewInt(int64(i))
		}
	}
	return big.NewInt(int64(from))
}

// ---------- addresses ----------

func mkAddr(b0, b1 byte, tag byte) string {
	b := make([]byte, 20)
	b[0], b[1] = b0, b1
	for i := 2; i < 20; i++ {
		b[i] = tag
	}
	return hex.EncodeToString(b)
}
func addrWord(h string) *big.Int { return new(big.Int).SetBytes(addrBytes(h)) }

func eligMask(bits ...byte) string {
	var h [32]byte
	for _, b := range bits {
		h[b/8] |= 1 << (b % 8)
	}
	return hex.EncodeToString(h[:])
}

func pow2(n uint) *big.Int { return new(big.Int).Lsh(big.NewInt(1), n) }
func dec(s string) *big.Int { return bi(s) }

var (
	e18  = dec("1000000000000000000")
	e21  = dec("1000000000000000000000")
	gwei = big.NewInt(1000000000)
)

func validAccessList(r *hlib.Rng, loc common.Location, n int) []byte {
	al := types.AccessList{}
	for i := 0; i < n; i++ {
		a := common.BytesToAddress(r.Bytes(20), loc)
		t := types.AccessTuple{Address: a}
		for k := 0; k < r.Intn(3); k++ {
			t.StorageKeys = append(t.StorageKeys, common.BytesToHash(r.Bytes(32)))
		}
		al = append(al, t)
	}
	b, err := rlp.EncodeToBytes(al)
	if err != nil {
		panic(err)
	}
	return b
}

// ---------- a scenario skeleton ----------

type scen struct {
	c      *Case
	pfx    byte
	loc    common.Location
	origin string
	A, B, C string // contracts (A calls B calls C)
	funded, unfunded string // in-scope Quai accounts without code
	inQi   string
	fQuai  []string // foreign Quai destinations
	fQi    string
}

func newScen(loc [2]int, ptn uint64, note string) *scen {
	pfx := byte(loc[0]<<4 + loc[1])
	s := &scen{pfx: pfx, loc: common.Location{byte(loc[0]), byte(loc[1])}}
	s.origin = mkAddr(pfx, 0x01, 0x0e)
	s.A, s.B, s.C = mkAddr(pfx, 0x02, 0xa1), mkAddr(pfx, 0x03, 0xb2), mkAddr(pfx, 0x04, 0xc3)
	s.funded, s.unfunded = mkAddr(pfx, 0x05, 0xd4), mkAddr(pfx, 0x06, 0xe5)
	s.inQi = mkAddr(pfx, 0x85, 0x91)
	for _, q := range []byte{0x01, 0x02, 0x10, 0x11, 0x12, 0x20, 0x21, 0x22, 0xf3} {
		if q != pfx {
			s.fQuai = append(s.fQuai, mkAddr(q, 0x07, 0x55))
		}
	}
	fq := byte(0x21)
	if fq == pfx {
		fq = 0x12
	}
	s.fQi = mkAddr(fq, 0x90, 0x66)
	all := []byte{}
	for _, a := range s.fQuai {
		all = append(all, addrBytes(a)[0])
	}
	s.c = &Case{Note: note, Loc: loc, Ptn: ptn, Elig: eligMask(all...), Price: "1000000000", Origin: s.origin, To: s.A, Gas: 10000000, Value: "0"}
	s.c.Accts = []Acct{{Addr: s.origin, Bal: e21.String()}, {Addr: s.A, Bal: e21.String()}, {Addr: s.B, Bal: e21.String()}, {Addr: s.C, Bal: e21.String()},
		{Addr: s.funded, Bal: "1000"}, {Addr: s.unfunded, Bal: "0"}}
	return s
}
func (s *scen) setCode(addr string, p *prog) *scen {
	for i := range s.c.Accts {
		if s.c.Accts[i].Addr == addr {
			s.c.Accts[i].Code = p.ins
		}
	}
	return s
}
func (s *scen) setBal(addr string, b *big.Int) *scen {
	for i := range s.c.Accts {
		if s.c.Accts[i].Addr == addr {
			s.c.Accts[i].Bal = b.String()
		}
	}
	return s
}
func (s *scen) defaultEtx() etxArgs {
	return etxArgs{to: addrWord(s.fQuai[0]), value: big.NewInt(12345), gl: big.NewInt(21000), tip: big.NewInt(1), cap: big.NewInt(2), alSize: big.NewInt(0)}
}

// ---------- fixed corpus ----------

func corpus() []*Case {
	var out []*Case
	post := params.SelfDestructRefundForkBlock + 5
	pre := params.SelfDestructRefundForkBlock - 5 // after the controller kick-in and outside both hold intervals
	r := hlib.NewRng(424242)
	for _, loc := range [][2]int{{0, 0}, {1, 2}} {
		for _, ptn := range []uint64{post, pre} {
			tag := "post-fork"
			if ptn == pre {
				tag = "pre-fork"
			}
			add := func(note string, f func(s *scen)) {
				s := newScen(loc, ptn, tag+": "+note)
				f(s)
				out = append(out, s.c)
			}
			// --- opETX
			add("ETX to an eligible foreign address, status popped", func(s *scen) {
				s.setCode(s.A, new(prog).etx(s.defaultEtx()).op("pop").op("stop"))
			})
			add("ETX with a valid access list and call data", func(s *scen) {
				a := s.defaultEtx()
				a.blob = validAccessList(r, s.loc, 2)
				a.base, a.alSize, a.inOff, a.inSize = 64, big.NewInt(int64(len(a.blob))), 3, 40
				s.setCode(s.A, new(prog).etx(a).op("stop"))
			})
			add("F2: ETX with a malformed access-list blob (status 0, debit kept)", func(s *scen) {
				a := s.defaultEtx()
				a.blob, a.alSize = []byte{0xc1, 0x01, 0x02}, big.NewInt(3)
				s.setCode(s.A, new(prog).etx(a).op("pop").op("stop"))
			})
			add("F2: ETX with a truncated valid access list", func(s *scen) {
				a := s.defaultEtx()
				a.blob = validAccessList(r, s.loc, 1)
				a.alSize = big.NewInt(int64(len(a.blob) - 1))
				s.setCode(s.A, new(prog).etx(a).op("stop"))
			})
			add("F2: ETX to an ineligible destination, empty stack: POP underflows, frame reverted", func(s *scen) {
				s.c.Elig = eligMask()
				s.setCode(s.A, new(prog).etx(s.defaultEtx()).op("pop").op("stop"))
			})
			add("F2: ETX to an ineligible destination, one word below: POP eats it, debit kept, transaction succeeds", func(s *scen) {
				s.c.Elig = eligMask()
				s.setCode(s.A, new(prog).pushU(7).etx(s.defaultEtx()).op("pop").op("stop"))
			})
			add("F2: ETX to an ineligible destination then STOP", func(s *scen) {
				s.c.Elig = eligMask()
				s.setCode(s.A, new(prog).etx(s.defaultEtx()).op("stop"))
			})
			add("F2: ETX with the cache at 65536 entries (index overflow after the debit)", func(s *scen) {
				s.c.Prefill = 65536
				s.setCode(s.A, new(prog).etx(s.defaultEtx()).op("stop"))
			})
			add("ETX with the cache at 65535 entries (last valid index)", func(s *scen) {
				s.c.Prefill = 65535
				s.setCode(s.A, new(prog).etx(s.defaultEtx()).etx(s.defaultEtx()).op("stop"))
			})
			add("ETX to an in-scope address", func(s *scen) {
				a := s.defaultEtx()
				a.to = addrWord(s.funded)
				s.setCode(s.A, new(prog).etx(a).op("stop"))
			})
			add("ETX value 0 fee 0", func(s *scen) {
				a := s.defaultEtx()
				a.value, a.tip, a.cap = big.NewInt(0), big.NewInt(0), big.NewInt(0)
				s.setCode(s.A, new(prog).etx(a).op("stop"))
			})
			add("ETX value above the balance", func(s *scen) {
				a := s.defaultEtx()
				a.value = new(big.Int).Add(e21, big.NewInt(1))
				s.setCode(s.A, new(prog).etx(a).op("stop"))
			})
			add("ETX value+fee exactly the balance", func(s *scen) {
				a := s.defaultEtx()
				a.value = new(big.Int).Sub(e21, big.NewInt(3*21000))
				s.setCode(s.A, new(prog).etx(a).op("stop"))
			})
			add("ETX value 2^256-1 (value+fee wraps before the fork)", func(s *scen) {
				a := s.defaultEtx()
				a.value = max256
				s.setCode(s.A, new(prog).etx(a).op("stop"))
			})
			add("ETX tip+cap = 2^256 (wraps to a zero fee before the fork)", func(s *scen) {
				a := s.defaultEtx()
				a.tip, a.cap = pow2(255), pow2(255)
				s.setCode(s.A, new(prog).etx(a).op("stop"))
			})
			add("ETX fee*gas overflows", func(s *scen) {
				a := s.defaultEtx()
				a.tip, a.cap, a.gl = pow2(250), big.NewInt(0), big.NewInt(64000)
				s.setCode(s.A, new(prog).etx(a).op("stop"))
			})
			add("ETX gas limit below TxGas", func(s *scen) {
				a := s.defaultEtx()
				a.gl = big.NewInt(20999)
				s.setCode(s.A, new(prog).etx(a).op("stop"))
			})
			add("ETX gas limit 2^64", func(s *scen) {
				a := s.defaultEtx()
				a.gl, a.tip, a.cap = two64, big.NewInt(0), big.NewInt(0)
				s.setCode(s.A, new(prog).etx(a).op("stop"))
			})
			add("ETX with insufficient gas for the opcode", func(s *scen) {
				s.c.Gas = 20000
				s.setCode(s.A, new(prog).etx(s.defaultEtx()).op("stop"))
			})
			add("ETX with garbage above bit 160 of the address word", func(s *scen) {
				a := s.defaultEtx()
				a.to = new(big.Int).Add(a.to, pow2(200))
				s.setCode(s.A, new(prog).etx(a).op("stop"))
			})
			add("ETX memory size overflow", func(s *scen) {
				a := s.defaultEtx()
				a.alSize = two64
				s.setCode(s.A, new(prog).etx(a).op("stop"))
			})
			add("two ETXs then REVERT", func(s *scen) {
				s.setCode(s.A, new(prog).etx(s.defaultEtx()).etx(s.defaultEtx()).revert())
			})
			add("ETX then invalid opcode", func(s *scen) {
				s.setCode(s.A, new(prog).etx(s.defaultEtx()).op("invalid"))
			})
			// --- opConvert
			minC := params.MinQuaiConversionAmount
			add("CONVERT to an in-scope Qi address", func(s *scen) {
				s.setCode(s.A, new(prog).convert(addrWord(s.inQi), minC, big.NewInt(21000)).op("pop").op("stop"))
			})
			add("F3: CONVERT with the cache at 65536 entries", func(s *scen) {
				s.c.Prefill = 65536
				s.setCode(s.A, new(prog).convert(addrWord(s.inQi), minC, big.NewInt(30000)).op("stop"))
			})
			add("CONVERT below the minimum amount", func(s *scen) {
				s.setCode(s.A, new(prog).convert(addrWord(s.inQi), new(big.Int).Sub(minC, big.NewInt(1)), big.NewInt(21000)).op("stop"))
			})
			add("CONVERT to a Quai address / to a foreign Qi address", func(s *scen) {
				s.setCode(s.A, new(prog).convert(addrWord(s.funded), minC, big.NewInt(21000)).convert(addrWord(s.fQi), minC, big.NewInt(21000)).op("stop"))
			})
			add("CONVERT gas limit 2^64+21000 (truncated before the fork)", func(s *scen) {
				s.c.Price = "0"
				s.setCode(s.A, new(prog).convert(addrWord(s.inQi), minC, new(big.Int).Add(two64, big.NewInt(21000))).op("stop"))
			})
			add("CONVERT value 2^256-1", func(s *scen) {
				s.setCode(s.A, new(prog).convert(addrWord(s.inQi), max256, big.NewInt(21000)).op("stop"))
			})
			add("CONVERT with a huge gas price", func(s *scen) {
				s.c.Price = pow2(250).String()
				s.setCode(s.A, new(prog).convert(addrWord(s.inQi), minC, big.NewInt(64000)).op("stop"))
			})
			// --- frames
			add("CALL to a foreign address from a contract (gasCall fails)", func(s *scen) {
				s.setCode(s.A, new(prog).call(addrWord(s.fQuai[0]), big.NewInt(5), big.NewInt(100000)).op("stop"))
			})
			add("sub-frame sends and returns, parent sends", func(s *scen) {
				s.setCode(s.B, new(prog).etx(s.defaultEtx()).op("pop").op("stop"))
				s.setCode(s.A, new(prog).etx(s.defaultEtx()).call(addrWord(s.B), big.NewInt(0), big.NewInt(500000)).etx(s.defaultEtx()).op("stop"))
			})
			add("sub-frame sends and reverts, parent sends", func(s *scen) {
				s.setCode(s.B, new(prog).etx(s.defaultEtx()).revert())
				s.setCode(s.A, new(prog).etx(s.defaultEtx()).call(addrWord(s.B), big.NewInt(9), big.NewInt(500000)).etx(s.defaultEtx()).op("stop"))
			})
			add("three levels, the middle one faults", func(s *scen) {
				s.setCode(s.C, new(prog).etx(s.defaultEtx()).convert(addrWord(s.inQi), minC, big.NewInt(21000)).op("stop"))
				s.setCode(s.B, new(prog).call(addrWord(s.C), big.NewInt(0), big.NewInt(400000)).etx(s.defaultEtx()).op("invalid"))
				s.setCode(s.A, new(prog).call(addrWord(s.B), big.NewInt(0), big.NewInt(900000)).call(addrWord(s.C), big.NewInt(0), big.NewInt(400000)).op("stop"))
			})
			add("sub-frame runs out of gas in its second ETX", func(s *scen) {
				s.setCode(s.B, new(prog).etx(s.defaultEtx()).etx(s.defaultEtx()).op("stop"))
				s.setCode(s.A, new(prog).call(addrWord(s.B), big.NewInt(0), big.NewInt(30000)).op("stop"))
			})
			add("CALL with value to an account that does not exist / exists without code", func(s *scen) {
				s.setCode(s.A, new(prog).call(addrWord(s.unfunded), big.NewInt(77), big.NewInt(0)).call(addrWord(s.funded), big.NewInt(78), big.NewInt(0)).call(addrWord(s.unfunded), big.NewInt(0), big.NewInt(0)).op("stop"))
			})
			add("F2 inside a sub-frame that succeeds: the loss survives", func(s *scen) {
				a := s.defaultEtx()
				a.blob, a.alSize = []byte{0x00}, big.NewInt(1)
				s.setCode(s.B, new(prog).etx(a).op("stop"))
				s.setCode(s.A, new(prog).call(addrWord(s.B), big.NewInt(0), big.NewInt(500000)).op("stop"))
			})
			add("recursive self-call until the gas runs out, one ETX per level", func(s *scen) {
				s.setCode(s.A, new(prog).etx(s.defaultEtx()).op("pop").call(addrWord(s.A), big.NewInt(0), max256).op("stop"))
				s.c.Gas = 1500000
			})
			// --- frames of every kind: a send inside the frame, the frame then ends in every way, the caller goes on
			if ptn == post { // frame semantics do not depend on the fork regime of the send opcodes
				kinds := []string{"call", "callcode", "delegatecall", "staticcall"}
				ends := []struct {
					name string
					f    func(p *prog) *prog
				}{
					{"STOP", func(p *prog) *prog { return p.op("stop") }},
					{"REVERT", func(p *prog) *prog { return p.revert() }},
					{"invalid opcode", func(p *prog) *prog { return p.op("invalid") }},
					{"stack underflow", func(p *prog) *prog { return p.op("pop").op("pop").op("stop") }},
					{"RETURN of 64 bytes", func(p *prog) *prog { return p.ret(64) }},
				}
				for _, kind := range kinds {
					kind := kind
					for _, end := range ends {
						end := end
						add(kind+" frame: ETX then "+end.name+"; the caller swallows the result and sends again", func(s *scen) {
							s.setCode(s.B, end.f(new(prog).etx(s.defaultEtx()).op("pop")))
							s.setCode(s.A, new(prog).callk(kind, addrWord(s.B), big.NewInt(0), big.NewInt(500000)).op("pop").etx(s.defaultEtx()).op("pop").op("stop"))
						})
					}
					add(kind+" frame: CONVERT then REVERT; the caller converts again", func(s *scen) {
						s.setCode(s.B, new(prog).convert(addrWord(s.inQi), minC, big.NewInt(21000)).op("pop").revert())
						s.setCode(s.A, new(prog).etx(s.defaultEtx()).op("pop").callk(kind, addrWord(s.B), big.NewInt(0), big.NewInt(500000)).op("pop").
							convert(addrWord(s.inQi), minC, big.NewInt(22000)).op("pop").op("stop"))
					})
					add(kind+" frame: two ETXs, out of gas in the second; the caller sends again", func(s *scen) {
						s.setCode(s.B, new(prog).etx(s.defaultEtx()).etx(s.defaultEtx()).op("stop"))
						s.setCode(s.A, new(prog).callk(kind, addrWord(s.B), big.NewInt(0), big.NewInt(30000)).op("pop").etx(s.defaultEtx()).op("stop"))
					})
					add(kind+" frame that sends, nested in a CALL frame that reverts after it; outer caller sends", func(s *scen) {
						s.setCode(s.C, new(prog).etx(s.defaultEtx()).op("pop").op("stop"))
						s.setCode(s.B, new(prog).callk(kind, addrWord(s.C), big.NewInt(0), big.NewInt(300000)).op("pop").etx(s.defaultEtx()).op("pop").revert())
						s.setCode(s.A, new(prog).callk("call", addrWord(s.B), big.NewInt(0), big.NewInt(900000)).op("pop").etx(s.defaultEtx()).op("pop").op("stop"))
					})
					add(kind+" frame that reverts, nested in a delegatecall frame that succeeds", func(s *scen) {
						s.setCode(s.C, new(prog).etx(s.defaultEtx()).op("pop").convert(addrWord(s.inQi), minC, big.NewInt(21000)).op("pop").revert())
						s.setCode(s.B, new(prog).etx(s.defaultEtx()).op("pop").callk(kind, addrWord(s.C), big.NewInt(0), big.NewInt(300000)).op("pop").etx(s.defaultEtx()).op("pop").op("stop"))
						s.setCode(s.A, new(prog).callk("delegatecall", addrWord(s.B), big.NewInt(0), big.NewInt(900000)).op("pop").etx(s.defaultEtx()).op("pop").op("stop"))
					})
					add(kind+" to a foreign Quai address / to a Qi address / to an account without code", func(s *scen) {
						s.setCode(s.B, new(prog).etx(s.defaultEtx()).op("pop").callk(kind, addrWord(s.fQuai[0]), big.NewInt(0), big.NewInt(100000)).op("pop").op("stop"))
						s.setCode(s.A, new(prog).callk(kind, addrWord(s.inQi), big.NewInt(0), big.NewInt(100000)).op("pop").
							callk(kind, addrWord(s.funded), big.NewInt(0), big.NewInt(100000)).op("pop").
							callk("call", addrWord(s.B), big.NewInt(0), big.NewInt(400000)).op("pop").etx(s.defaultEtx()).op("stop"))
					})
					add(kind+" with the cache at 65535 entries: the frame takes the last index and reverts, the caller takes it again", func(s *scen) {
						s.c.Prefill = 65535
						s.setCode(s.B, new(prog).etx(s.defaultEtx()).op("pop").revert())
						s.setCode(s.A, new(prog).callk(kind, addrWord(s.B), big.NewInt(0), big.NewInt(500000)).op("pop").etx(s.defaultEtx()).op("pop").etx(s.defaultEtx()).op("pop").op("stop"))
					})
				}
				add("callcode with a value above the balance / with a value it can afford", func(s *scen) {
					s.setCode(s.B, new(prog).etx(s.defaultEtx()).op("pop").op("stop"))
					s.setCode(s.A, new(prog).callk("callcode", addrWord(s.B), new(big.Int).Add(e21, big.NewInt(1)), big.NewInt(200000)).op("pop").
						callk("callcode", addrWord(s.B), big.NewInt(5), big.NewInt(200000)).op("pop").op("stop"))
				})
				add("staticcall frame: value-carrying CALL and value-less CALL inside", func(s *scen) {
					s.setCode(s.C, new(prog).etx(s.defaultEtx()).op("pop").op("stop"))
					s.setCode(s.B, new(prog).callk("call", addrWord(s.C), big.NewInt(0), big.NewInt(100000)).op("pop").callk("call", addrWord(s.C), big.NewInt(1), big.NewInt(100000)).op("pop").op("stop"))
					s.setCode(s.A, new(prog).callk("staticcall", addrWord(s.B), big.NewInt(0), big.NewInt(600000)).op("pop").etx(s.defaultEtx()).op("stop"))
				})
				add("delegatecall chain A -> B -> C: C's send is A's send; B reverts afterwards", func(s *scen) {
					s.setCode(s.C, new(prog).etx(s.defaultEtx()).op("pop").op("stop"))
					s.setCode(s.B, new(prog).callk("delegatecall", addrWord(s.C), big.NewInt(0), big.NewInt(300000)).op("pop").revert())
					s.setCode(s.A, new(prog).callk("delegatecall", addrWord(s.B), big.NewInt(0), big.NewInt(600000)).op("pop").etx(s.defaultEtx()).op("pop").op("stop"))
					s.setBal(s.B, big.NewInt(0)).setBal(s.C, big.NewInt(0))
				})
				add("F2 inside a delegatecall frame that succeeds: the loss is the caller's", func(s *scen) {
					a := s.defaultEtx()
					a.blob, a.alSize = []byte{0x00}, big.NewInt(1)
					s.setCode(s.B, new(prog).etx(a).op("stop"))
					s.setCode(s.A, new(prog).callk("delegatecall", addrWord(s.B), big.NewInt(0), big.NewInt(500000)).op("stop"))
				})
				// constructors
				for _, two := range []bool{false, true} {
					two := two
					name := "CREATE"
					if two {
						name = "CREATE2"
					}
					mk := func(s *scen, init *prog, value int64) *prog {
						var salt *big.Int
						if two {
							salt = findSalt(s.A, s.loc, init, 0)
						}
						return new(prog).create(init, big.NewInt(value), salt, 0)
					}
					for _, end := range ends {
						end := end
						add(name+": the constructor sends out of its endowment then "+end.name+"; the creator sends afterwards", func(s *scen) {
							init := end.f(new(prog).etx(s.defaultEtx()).op("pop"))
							s.setCode(s.A, mk(s, init, 1000000).op("pop").etx(s.defaultEtx()).op("pop").op("stop"))
						})
					}
					for _, size := range []uint64{20000, uint64(params.GetMaxCodeSize(harnessBlockNumber)), uint64(params.GetMaxCodeSize(harnessBlockNumber)) + 1} {
						size := size
						add(name+fmt.Sprintf(": the constructor sends then RETURNs %d bytes of code; enough gas for the deposit / not enough (finding: fails without being reverted)", size), func(s *scen) {
							init := new(prog).etx(s.defaultEtx()).op("pop").ret(size)
							for _, who := range []string{s.B, s.C} {
								var salt *big.Int
								if two {
									salt = findSalt(who, s.loc, init, 0)
								}
								s.setCode(who, new(prog).create(init, big.NewInt(1000000), salt, 0).op("pop").etx(s.defaultEtx()).op("pop").op("stop"))
							}
							s.setCode(s.A, new(prog).callk("call", addrWord(s.B), big.NewInt(0), big.NewInt(9500000)).op("pop").
								callk("call", addrWord(s.C), big.NewInt(0), big.NewInt(2000000)).op("pop").op("stop"))
							s.c.Gas = 14000000
						})
					}
					add(name+": the constructor converts then REVERTs", func(s *scen) {
						init := new(prog).convert(addrWord(s.inQi), minC, big.NewInt(21000)).op("pop").revert()
						var salt *big.Int
						if two {
							salt = findSalt(s.A, s.loc, init, 0)
						}
						s.setCode(s.A, new(prog).create(init, new(big.Int).Mul(minC, big.NewInt(2)), salt, 0).op("pop").etx(s.defaultEtx()).op("pop").op("stop"))
					})
					add(name+": the constructor without endowment cannot pay its send; empty init code; endowment above the balance", func(s *scen) {
						init := new(prog).etx(s.defaultEtx()).op("pop").op("stop")
						p := mk(s, init, 0).op("pop")
						var salt *big.Int
						if two {
							salt = big.NewInt(1)
						}
						p.create(new(prog), big.NewInt(77), salt, 0).op("pop")
						p.create(init, new(big.Int).Add(e21, big.NewInt(1)), salt, 0).op("pop")
						s.setCode(s.A, p.etx(s.defaultEtx()).op("stop"))
					})
					add(name+" inside a frame that reverts after a successful constructor send", func(s *scen) {
						init := new(prog).etx(s.defaultEtx()).op("pop").op("stop")
						var salt *big.Int
						if two {
							salt = findSalt(s.B, s.loc, init, 0)
						}
						s.setCode(s.B, new(prog).create(init, big.NewInt(500000), salt, 0).op("pop").revert())
						s.setCode(s.A, new(prog).callk("call", addrWord(s.B), big.NewInt(0), big.NewInt(3000000)).op("pop").etx(s.defaultEtx()).op("pop").op("stop"))
					})
					add(name+": the constructor delegatecalls code that sends and reverts, then sends itself", func(s *scen) {
						s.setCode(s.B, new(prog).etx(s.defaultEtx()).op("pop").revert())
						init := new(prog).callk("delegatecall", addrWord(s.B), big.NewInt(0), big.NewInt(200000)).op("pop").etx(s.defaultEtx()).op("pop").op("stop")
						s.setCode(s.A, mk(s, init, 2000000).op("pop").etx(s.defaultEtx()).op("pop").op("stop"))
					})
					add(name+" with too little gas for the account creation", func(s *scen) {
						init := new(prog).etx(s.defaultEtx()).op("pop").op("stop")
						var salt *big.Int
						if two {
							salt = findSalt(s.B, s.loc, init, 0)
						}
						s.setCode(s.B, new(prog).create(init, big.NewInt(500000), salt, 0).op("pop").etx(s.defaultEtx()).op("stop"))
						s.setCode(s.A, new(prog).callk("call", addrWord(s.B), big.NewInt(0), big.NewInt(120000)).op("pop").op("stop"))
					})
				}
				add("CREATE2 with a salt that lands outside the zone", func(s *scen) {
					init := new(prog).etx(s.defaultEtx()).op("pop").op("stop")
					salt := findSalt(s.A, s.loc, init, 0)
					s.setCode(s.A, new(prog).create(init, big.NewInt(500000), new(big.Int).Add(salt, big.NewInt(1)), 0).op("pop").etx(s.defaultEtx()).op("stop"))
				})
				add("CREATE inside a staticcall frame (write protection)", func(s *scen) {
					init := new(prog).etx(s.defaultEtx()).op("pop").op("stop")
					s.setCode(s.B, new(prog).create(init, big.NewInt(0), nil, 0).op("pop").op("stop"))
					s.setCode(s.A, new(prog).callk("staticcall", addrWord(s.B), big.NewInt(0), big.NewInt(600000)).op("pop").etx(s.defaultEtx()).op("stop"))
				})
			}
			// --- top-level CreateETX
			add("top-level call to a foreign eligible address", func(s *scen) {
				s.c.To, s.c.Value, s.c.Gas = s.fQuai[1], "1000", 50000
			})
			add("top-level call to a foreign ineligible address (debit reverted)", func(s *scen) {
				s.c.Elig = eligMask()
				s.c.To, s.c.Value, s.c.Gas = s.fQuai[1], "1000", 50000
			})
			add("top-level call to a foreign address with the cache full", func(s *scen) {
				s.c.Prefill = 65536
				s.c.To, s.c.Value, s.c.Gas = s.fQuai[1], "1000", 50000
			})
			add("top-level call to a foreign address, gas one below ETXGas+TxGas", func(s *scen) {
				s.c.To, s.c.Value, s.c.Gas = s.fQuai[1], "1000", 41999
			})
			add("top-level call to a foreign address, gas exactly ETXGas+TxGas", func(s *scen) {
				s.c.To, s.c.Value, s.c.Gas = s.fQuai[1], "0", 42000
			})
			add("top-level call to a foreign Qi address", func(s *scen) {
				s.c.To, s.c.Value, s.c.Gas = s.fQi, "1000", 50000
			})
			add("top-level conversion (call to an in-scope Qi address)", func(s *scen) {
				s.c.To, s.c.Value, s.c.Gas = s.inQi, minC.String(), 50000
			})
			add("top-level conversion below the minimum", func(s *scen) {
				s.c.To, s.c.Value, s.c.Gas = s.inQi, "5", 50000
			})
			add("top-level call with a value above the balance", func(s *scen) {
				s.c.To, s.c.Value, s.c.Gas = s.fQuai[2], new(big.Int).Add(e21, big.NewInt(1)).String(), 50000
			})
		}
	}
	// conversions on both sides of the controller kick-in and of the two hold intervals
	for _, ptn := range forkBoundaries() {
		s := newScen([2]int{0, 0}, ptn, "fork boundary: CONVERT and ETX opcodes, plain and with wrapping amounts")
		wrapE := s.defaultEtx()
		wrapE.value = max256
		bigG := s.defaultEtx()
		bigG.gl, bigG.tip, bigG.cap = new(big.Int).Add(two64, big.NewInt(21000)), big.NewInt(0), big.NewInt(0)
		s.setCode(s.A, new(prog).convert(addrWord(s.inQi), params.MinQuaiConversionAmount, big.NewInt(21000)).etx(s.defaultEtx()).
			etx(wrapE).convert(addrWord(s.inQi), max256, big.NewInt(21000)).etx(bigG).
			convert(addrWord(s.inQi), params.MinQuaiConversionAmount, new(big.Int).Add(two64, big.NewInt(21000))).op("stop"))
		out = append(out, s.c)
		s2 := newScen([2]int{0, 0}, ptn, "fork boundary: top-level conversion")
		s2.c.To, s2.c.Value, s2.c.Gas = s2.inQi, params.MinQuaiConversionAmount.String(), 60000
		out = append(out, s2.c)
	}
	return out
}

func forkBoundaries() []uint64 {
	var out []uint64
	for _, f := range []uint64{params.ControllerKickInBlock, params.KawPowForkBlock, params.KawPowForkBlock + params.KQuaiChangeHoldInterval,
		params.ShaEquivalentDifficultyForkBlock, params.ShaEquivalentDifficultyForkBlock + params.KQuaiChangeHoldInterval, params.SelfDestructRefundForkBlock} {
		out = append(out, f-1, f, f+1)
	}
	return out
}

// ---------- random cases ----------

func pickBig(r *hlib.Rng, xs ...*big.Int) *big.Int { return xs[r.Intn(len(xs))] }

func genPtn(r *hlib.Rng) uint64 {
	switch r.Pick(40, 25, 25, 10) {
	case 0:
		return params.SelfDestructRefundForkBlock + uint64(r.Intn(1000000))
	case 1: // pre-fork window where conversions are allowed
		lo := params.ShaEquivalentDifficultyForkBlock + params.KQuaiChangeHoldInterval
		return lo + uint64(r.Intn(int(params.SelfDestructRefundForkBlock-lo)))
	case 2:
		b := forkBoundaries()
		return b[r.Intn(len(b))]
	default:
		return uint64(r.Intn(int(params.SelfDestructRefundForkBlock)))
	}
}

func (s *scen) genDest(r *hlib.Rng) *big.Int {
	var w *big.Int
	switch r.Pick(62, 8, 8, 8, 6, 8) {
	case 0:
		w = addrWord(s.fQuai[r.Intn(len(s.fQuai))])
	case 1:
		w = addrWord(s.fQi)
	case 2:
		w = addrWord(s.funded)
	case 3:
		w = addrWord(s.inQi)
	case 4:
		w = addrWord(s.A)
	default:
		b := r.Bytes(20)
		if b[0] == s.pfx || isReservedTail(b) {
			b[0] ^= 0x35
		}
		w = new(big.Int).SetBytes(b)
	}
	if r.Chance(8) {
		w = new(big.Int).Add(w, new(big.Int).Lsh(big.NewInt(int64(1+r.Intn(1000))), 160))
	}
	return w
}

func isReservedTail(b []byte) bool {
	for i := 1; i < 19; i++ {
		if b[i] != 0 {
			return false
		}
	}
	return b[19] <= 10
}

func genValue(r *hlib.Rng, bal *big.Int) *big.Int {
	switch r.Pick(30, 8, 8, 8, 5, 5, 6, 30) {
	case 0:
		return big.NewInt(int64(1 + r.Intn(1000000)))
	case 1:
		return big.NewInt(0)
	case 2:
		return new(big.Int).Set(bal)
	case 3:
		return new(big.Int).Add(bal, big.NewInt(1))
	case 4:
		return max256
	case 5:
		return new(big.Int).Sub(two256, big.NewInt(int64(1+r.Intn(100000))))
	case 6:
		return pow2(uint(64 + r.Intn(190)))
	default:
		if bal.Sign() == 0 {
			return big.NewInt(1)
		}
		return new(big.Int).Div(bal, big.NewInt(int64(2+r.Intn(50))))
	}
}

func genGasLimit(r *hlib.Rng) *big.Int {
	switch r.Pick(45, 8, 8, 8, 6, 6, 5, 5, 9) {
	case 0:
		return big.NewInt(int64(21000 + r.Intn(200000)))
	case 1:
		return big.NewInt(21000)
	case 2:
		return big.NewInt(20999)
	case 3:
		return big.NewInt(int64(r.Intn(21000)))
	case 4:
		return new(big.Int).Sub(two64, big.NewInt(1))
	case 5:
		return new(big.Int).Set(two64)
	case 6:
		return new(big.Int).Add(two64, big.NewInt(int64(r.Intn(50000))))
	case 7:
		return max256
	default:
		return new(big.Int).Add(pow2(uint(64+r.Intn(192))), big.NewInt(int64(21000+r.Intn(9))))
	}
}

func genFeePart(r *hlib.Rng) *big.Int {
	switch r.Pick(30, 35, 10, 8, 6, 6, 5) {
	case 0:
		return big.NewInt(0)
	case 1:
		return big.NewInt(int64(1 + r.Intn(2000000000)))
	case 2:
		return new(big.Int).Mul(gwei, big.NewInt(int64(1+r.Intn(1000000))))
	case 3:
		return pow2(255)
	case 4:
		return max256
	case 5:
		return pow2(uint(150 + r.Intn(100)))
	default:
		return new(big.Int).Sub(two256, big.NewInt(int64(1+r.Intn(30000))))
	}
}

func (s *scen) genEtx(r *hlib.Rng, bal *big.Int) etxArgs {
	a := etxArgs{to: s.genDest(r), value: genValue(r, bal), gl: genGasLimit(r), tip: genFeePart(r), cap: genFeePart(r), alSize: big.NewInt(0)}
	if r.Chance(50) {
		a.value = big.NewInt(int64(1 + r.Intn(1000000)))
	}
	if r.Chance(60) { // a fee that fits comfortably, so that the later branches are reached
		a.tip, a.cap = big.NewInt(int64(r.Intn(50))), big.NewInt(int64(r.Intn(50)))
		if r.Chance(80) {
			a.gl = big.NewInt(int64(21000 + r.Intn(100000)))
		}
	}
	a.base = uint64(32 * r.Intn(4))
	switch r.Pick(35, 30, 35) {
	case 0:
	case 1:
		a.blob = validAccessList(r, s.loc, r.Intn(3))
		a.alSize = big.NewInt(int64(len(a.blob)))
	default:
		switch r.Pick(3, 3, 2, 2, 2, 2) {
		case 0:
			a.blob = validAccessList(r, s.loc, 1+r.Intn(2))
			a.alSize = big.NewInt(int64(len(a.blob) - 1 - r.Intn(3)))
		case 1:
			a.blob = append(validAccessList(r, s.loc, r.Intn(2)), byte(r.Intn(256)))
			a.alSize = big.NewInt(int64(len(a.blob)))
		case 2:
			a.blob = r.Bytes(1 + r.Intn(70))
			a.alSize = big.NewInt(int64(len(a.blob)))
		case 3:
			a.blob = nil
			a.alSize = big.NewInt(int64(1 + r.Intn(64))) // zero bytes
		case 4:
			a.blob = []byte{0x80}
			a.alSize = big.NewInt(1)
		default:
			a.blob = validAccessList(r, s.loc, 1)
			a.blob[len(a.blob)/2] ^= 0xff
			a.alSize = big.NewInt(int64(len(a.blob)))
		}
	}
	if r.Chance(30) {
		a.inOff, a.inSize = uint64(r.Intn(100)), uint64(r.Intn(200))
	}
	if r.Chance(2) {
		a.alSize = pickBig(r, two64, max256, new(big.Int).Sub(two64, big.NewInt(1)))
	}
	return a
}

func genKind(r *hlib.Rng) string {
	return []string{"call", "callcode", "delegatecall", "staticcall"}[r.Pick(38, 18, 29, 15)]
}

// init code of a generated constructor: one or two sends (or a frame running C's code), then any ending
func (s *scen) genInit(r *hlib.Rng, bal *big.Int) *prog {
	p := new(prog)
	n := 1 + r.Intn(2)
	for i := 0; i < n; i++ {
		switch r.Pick(60, 20, 20) {
		case 0:
			a := s.genEtx(r, bal)
			a.blob, a.alSize, a.base, a.inOff, a.inSize = nil, big.NewInt(0), 0, 0, 0
			p.etx(a)
		case 1:
			p.convert(addrWord(s.inQi), new(big.Int).Mul(params.MinQuaiConversionAmount, big.NewInt(int64(1+r.Intn(3)))), big.NewInt(int64(21000+r.Intn(1000))))
		default:
			p.callk(genKind(r), addrWord(s.C), big.NewInt(0), big.NewInt(int64(40000+r.Intn(200000))))
		}
		if r.Chance(70) {
			p.op("pop")
		}
	}
	switch r.Pick(33, 30, 10, 7, 20) {
	case 0:
		p.op("stop")
	case 1:
		p.revert()
	case 2:
		p.op("invalid")
	case 3:
	default:
		max := uint64(params.GetMaxCodeSize(harnessBlockNumber))
		p.ret([]uint64{0, 1, 100, 2000, 20000, 30000, max, max + 1, 50000}[r.Intn(9)])
	}
	return p
}

func (s *scen) genCode(r *hlib.Rng, level int, bal *big.Int) *prog {
	p := new(prog)
	contracts := []string{s.A, s.B, s.C}
	n := 1 + r.Intn(4)
	for i := 0; i < n; i++ {
		popAfter := r.Chance(60)
		switch r.Pick(6, 32, 19, 23, 4, 4, 3, 3, 6) {
		case 0:
			p.pushU(uint64(r.Intn(1000)))
			continue
		case 1:
			p.etx(s.genEtx(r, bal))
		case 2:
			to := s.genDest(r)
			if r.Chance(75) {
				to = addrWord(s.inQi)
			}
			v := genValue(r, bal)
			if r.Chance(70) {
				v = new(big.Int).Add(params.MinQuaiConversionAmount, big.NewInt(int64(r.Intn(3)-1)))
				if r.Chance(50) {
					v = new(big.Int).Mul(params.MinQuaiConversionAmount, big.NewInt(int64(1+r.Intn(20))))
				}
			}
			gl := genGasLimit(r)
			if r.Chance(60) {
				gl = big.NewInt(int64(21000 + r.Intn(100000)))
			}
			p.convert(to, v, gl)
		case 3:
			if level >= 2 {
				p.etx(s.genEtx(r, bal))
				break
			}
			v := big.NewInt(0)
			if r.Chance(30) {
				v = genValue(r, bal)
			}
			g := pickBig(r, big.NewInt(0), big.NewInt(30000), big.NewInt(int64(40000+r.Intn(200000))), big.NewInt(int64(40000+r.Intn(200000))), big.NewInt(3000000), big.NewInt(3000000), two64, max256, max256, new(big.Int).Sub(two64, big.NewInt(1)))
			p.callk(genKind(r), addrWord(contracts[level+1+r.Intn(2-level)]), v, g)
		case 4:
			d := s.genDest(r)
			if new(big.Int).And(d, new(big.Int).Sub(pow2(160), big.NewInt(1))).Cmp(addrWord(s.A)) == 0 {
				d = addrWord(s.fQuai[0]) // no recursion in random programs (one corpus case covers it)
			}
			p.callk(genKind(r), d, big.NewInt(int64(r.Intn(3))), big.NewInt(100000))
		case 5:
			v := big.NewInt(int64(r.Intn(500)))
			p.callk([]string{"call", "call", "callcode"}[r.Intn(3)], addrWord([]string{s.funded, s.unfunded}[r.Intn(2)]), v, big.NewInt(int64(r.Intn(40000))))
		case 6:
			p.op("pop")
			continue
		case 7:
			p.pushU(uint64(r.Intn(64))).pushU(uint64(r.Intn(2000))).op("mstore")
			continue
		default:
			// a constructor (CREATE / CREATE2) that sends
			endow := pickBig(r, big.NewInt(0), big.NewInt(1000000), big.NewInt(1000000), new(big.Int).Mul(params.MinQuaiConversionAmount, big.NewInt(5)), new(big.Int).Add(bal, big.NewInt(1)))
			init := s.genInit(r, endow)
			var salt *big.Int
			if r.Chance(45) {
				salt = findSalt(contracts[level], s.loc, init, r.Intn(1000))
				if r.Chance(10) {
					salt = new(big.Int).Add(salt, big.NewInt(1)) // most likely outside the zone
				}
			}
			p.create(init, endow, salt, uint64(32*r.Intn(3)))
		}
		if popAfter {
			p.op("pop")
		}
	}
	switch r.Pick(62, 14, 10, 8, 6) {
	case 0:
		p.op("stop")
	case 1:
		p.revert()
	case 2:
		p.op("invalid")
	case 3:
	default:
		p.ret(uint64([]int{0, 32, 1000}[r.Intn(3)]))
	}
	return p
}

func genCase(r *hlib.Rng) *Case {
	loc := [2]int{0, 0}
	if r.Chance(40) {
		loc = [][2]int{{1, 2}, {0, 1}, {2, 0}}[r.Intn(3)]
	}
	s := newScen(loc, genPtn(r), "random")
	c := s.c
	// eligibility mask
	var h [32]byte
	copy(h[:], r.Bytes(32))
	switch r.Pick(60, 15, 25) {
	case 0:
		for _, a := range s.fQuai {
			b := addrBytes(a)[0]
			h[b/8] |= 1 << (b % 8)
		}
	case 1:
		h = [32]byte{}
	}
	c.Elig = hex.EncodeToString(h[:])
	c.Price = pickBig(r, big.NewInt(0), big.NewInt(1), gwei, new(big.Int).Mul(gwei, big.NewInt(int64(1+r.Intn(500)))), pow2(200), pow2(255)).String()
	if r.Chance(70) {
		c.Price = big.NewInt(int64(1 + r.Intn(100))).String()
	}
	c.Prefill = []int{0, 0, 0, 0, 0, 0, 0, 0, 0, 0, 0, 0, 0, 0, 3, 65534, 65535, 65535, 65536, 65536}[r.Intn(20)]
	bals := []*big.Int{e21, e18, big.NewInt(0), big.NewInt(1000000), new(big.Int).Mul(params.MinQuaiConversionAmount, big.NewInt(3)), pow2(200)}
	for _, a := range []string{s.A, s.B, s.C} {
		b := e21
		if r.Chance(35) {
			b = pickBig(r, bals...)
		}
		s.setBal(a, b)
	}
	s.setCode(s.C, s.genCode(r, 2, bi(c.Accts[3].Bal)))
	s.setCode(s.B, s.genCode(r, 1, bi(c.Accts[2].Bal)))
	s.setCode(s.A, s.genCode(r, 0, bi(c.Accts[1].Bal)))
	c.Gas = 10000000
	if r.Chance(22) {
		c.Gas = uint64([]int{0, 20999, 21000, 21003, 30000, 42000, 42100, 50000, 63000 + r.Intn(5000), 100000 + r.Intn(200000)}[r.Intn(10)])
	}
	switch r.Pick(78, 9, 2, 6, 3, 2) {
	case 0:
		if r.Chance(25) {
			c.Value = big.NewInt(int64(r.Intn(100000))).String()
		}
	case 1:
		c.To = s.fQuai[r.Intn(len(s.fQuai))]
		c.Value = genValue(r, e21).String()
		c.Gas = uint64([]int{50000, 42000, 41999, 20999, 21000, 1000000, 0}[r.Intn(7)])
	case 2:
		c.To, c.Value, c.Gas = s.fQi, "1000", 50000
	case 3:
		c.To, c.Gas = s.inQi, 60000
		c.Value = new(big.Int).Add(params.MinQuaiConversionAmount, big.NewInt(int64(r.Intn(3)-1))).String()
	case 4:
		c.To, c.Value = s.funded, big.NewInt(int64(r.Intn(1000))).String()
	default:
		c.To, c.Value, c.Gas = s.unfunded, big.NewInt(int64(r.Intn(3))).String(), uint64(20000+r.Intn(10000))
	}
	return c
}

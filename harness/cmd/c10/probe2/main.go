package main

import (
	"crypto/ecdsa"
	"fmt"
	"math/big"
	"os"
	"time"

	"github.com/dominant-strategies/go-quai/common"
	"github.com/dominant-strategies/go-quai/core"
	"github.com/dominant-strategies/go-quai/core/rawdb"
	"github.com/dominant-strategies/go-quai/core/types"
	"github.com/dominant-strategies/go-quai/crypto"
	"github.com/dominant-strategies/go-quai/log"
	"github.com/dominant-strategies/go-quai/params"
	"verifharness/hlib"
)

func grindE(r *hlib.Rng, loc common.Location, qi bool) (*ecdsa.PrivateKey, common.Address) {
	for {
		k, err := crypto.ToECDSA(r.Bytes(32))
		if err != nil {
			continue
		}
		a := crypto.PubkeyToAddress(k.PublicKey, loc)
		if !a.Location().Equal(loc) {
			continue
		}
		if a.IsInQiLedgerScope() == qi {
			return k, a
		}
	}
}

func main() {
	logger := hlib.QuietLogs()
	if os.Getenv("VLOG") != "" {
		log.Global.SetOutput(os.Stderr)
	}
	params.TimeToStartTx = 0
	params.ControllerKickInBlock = 0
	params.CoinbaseLockupPrecompileKickInHeight = 0
	params.ConversionLockPeriod = 2
	params.LockupByteToBlockDepth = [4]uint64{2, 4, 6, 8}
	params.CoinbaseEpochBlocks = 4
	db := rawdb.NewMemoryDatabase(logger)
	loc := common.Location{0, 0}
	r := hlib.NewRng(1)
	kq, qa := grindE(r, loc, false)
	_, qi := grindE(r, loc, true)
	_, miner2 := grindE(r, loc, false)
	_, del1 := grindE(r, loc, false)
	_, del2 := grindE(r, loc, false)
	_, farq := grindE(r, common.Location{0, 1}, false)
	z, err := core.VerifNewZone(db, core.VerifZoneOptions{Location: loc, QuaiCoinbase: qa, QiCoinbase: qi, GenesisTime: 1000}, logger)
	if err != nil {
		fmt.Println("newzone:", err)
		return
	}
	signer := types.NewSigner(z.Config.ChainID, loc)
	step := func(inb types.Transactions) *types.WorkObject {
		b, err := z.Assemble(true)
		if err != nil {
			fmt.Println("assemble:", err)
			os.Exit(1)
		}
		if err := z.Append(b); err != nil {
			fmt.Println("append:", err)
			os.Exit(1)
		}
		if len(inb) > 0 {
			rawdb.WriteInboundEtxs(db, b.Hash(), inb)
		}
		z.VerifC10NotifyHead()
		fmt.Println("block", b.NumberU64(2), "txs", len(b.Transactions()), "basefee", b.BaseFee(), "gasused", b.GasUsed())
		for _, rc := range rawdb.ReadReceipts(db, b.Hash(), b.NumberU64(2), z.Config) {
			fmt.Println("   receipt status", rc.Status, "type", rc.Type, "contract", rc.ContractAddress.Hex())
		}
		ck, _ := rawdb.ReadCreatedCoinbaseLockupKeys(db, b.Hash())
		dl, _ := rawdb.ReadDeletedCoinbaseLockups(db, b.Hash())
		fmt.Println("   lk created", len(ck), "deleted", len(dl))
		for _, d := range dl {
			fmt.Printf("     del %x -> %x\n", d.Key, d.Value)
		}
		return b
	}
	step(nil)
	h := common.BytesToHash(r.Bytes(32))
	fund := types.NewTx(&types.ExternalTx{OriginatingTxHash: h, ETXIndex: 0, Gas: 200000, To: &qa, Value: new(big.Int).Mul(big.NewInt(1e18), big.NewInt(1000)), Sender: farq, EtxType: types.DefaultType})
	step(types.Transactions{fund})
	b := step(nil)
	st, _ := z.StateAt(b)
	ia, _ := qa.InternalAddress()
	fmt.Println("balance", st.GetBalance(ia))
	// deploy
	code := []byte{0x60, 0x01, 0x60, 0x00, 0xf3}
	var contract common.Address
	for i := 0; ; i++ {
		c := append(append([]byte{}, code...), byte(i), byte(i>>8))
		contract = crypto.CreateAddress(qa, 0, c, loc)
		if _, err := contract.InternalAndQuaiAddress(); err == nil {
			code = c
			break
		}
	}
	fmt.Println("contract", contract.Hex())
	gp := new(big.Int).Mul(b.BaseFee(), big.NewInt(2))
	tx, err := types.SignNewTx(kq, signer, &types.QuaiTx{ChainID: z.Config.ChainID, Nonce: 0, GasPrice: gp, Gas: 1000000, To: nil, Value: big.NewInt(0), Data: code})
	if err != nil {
		panic(err)
	}
	for i := 0; i < 50; i++ {
		err = z.Pool.AddLocal(tx)
		fmt.Println("addlocal", err)
		if err == nil {
			break
		}
		time.Sleep(20 * time.Millisecond)
	}
	for i := 0; i < 100; i++ {
		p, _ := z.Pool.TxPoolPending()
		if len(p) > 0 {
			fmt.Println("pending after", i)
			break
		}
		time.Sleep(10 * time.Millisecond)
	}
	b = step(nil)
	st, _ = z.StateAt(b)
	ic, _ := contract.InternalAddress()
	fmt.Printf("code at contract: %x\n", st.GetCode(ic))
	// lockup coinbases
	mk := func(to common.Address, lb byte, delegate *common.Address, val int64) *types.Transaction {
		h := common.BytesToHash(r.Bytes(32))
		data := []byte{lb}
		data = append(data, contract.Bytes()...)
		if delegate != nil {
			data = append(data, delegate.Bytes()...)
		}
		data = append(data, h.Bytes()...)
		return types.NewTx(&types.ExternalTx{OriginatingTxHash: h, ETXIndex: 0, Gas: 21000, To: &to, Value: big.NewInt(val), Data: data, Sender: to, EtxType: types.CoinbaseType})
	}
	step(types.Transactions{mk(miner2, 1, &del1, 1e15), mk(qi, 1, nil, 5000)})
	step(types.Transactions{mk(miner2, 1, &del1, 1e15), mk(miner2, 1, &del2, 1e15), mk(qi, 1, &del1, 5000)})
	step(types.Transactions{mk(miner2, 1, nil, 1e15)})
	step(nil)
	step(nil)
	it := db.NewIterator([]byte("cl"), nil)
	for it.Next() {
		if len(it.Key()) == 47 {
			fmt.Printf("cl %x -> %x\n", it.Key(), it.Value())
		}
	}
}

package main

import (
	"fmt"
	"math/big"
	"os"

	"github.com/btcsuite/btcd/btcec/v2"
	"github.com/btcsuite/btcd/btcec/v2/schnorr"
	"github.com/dominant-strategies/go-quai/common"
	"github.com/dominant-strategies/go-quai/core"
	"github.com/dominant-strategies/go-quai/core/rawdb"
	"github.com/dominant-strategies/go-quai/core/types"
	"github.com/dominant-strategies/go-quai/crypto"
	"github.com/dominant-strategies/go-quai/log"
	"github.com/dominant-strategies/go-quai/params"
	"verifharness/hlib"
)

func grind(r *hlib.Rng, loc common.Location, qi bool) (*btcec.PrivateKey, common.Address) {
	for {
		k, _ := btcec.PrivKeyFromBytes(r.Bytes(32))
		pub := k.PubKey().SerializeUncompressed()
		a := crypto.PubkeyBytesToAddress(pub, loc)
		if !a.Location().Equal(loc) {
			continue
		}
		if a.IsInQiLedgerScope() == qi {
			return k, a
		}
	}
}

func main() {
	logger := hlib.QuietLogs()
	if os.Getenv("VLOG") != "" {
		log.Global.SetOutput(os.Stderr)
	}
	params.TimeToStartTx = 0
	params.ControllerKickInBlock = 0
	params.CoinbaseLockupPrecompileKickInHeight = 0
	params.ConversionLockPeriod = 2
	params.LockupByteToBlockDepth = [4]uint64{2, 4, 6, 8}
	params.CoinbaseEpochBlocks = 4
	for i := uint8(0); i <= 5; i++ {
		types.TrimDepths[i] = uint64(3 + i)
	}
	db := rawdb.NewMemoryDatabase(logger)
	loc := common.Location{0, 0}
	r := hlib.NewRng(1)
	_, qa := grind(r, loc, false)
	_, qi := grind(r, loc, true)
	k2, qi2 := grind(r, loc, true)
	_, qi3 := grind(r, loc, true)
	_, far := grind(r, common.Location{0, 1}, true)
	var spendable []types.OutPoint
	_ = k2
	z, err := core.VerifNewZone(db, core.VerifZoneOptions{Location: loc, QuaiCoinbase: qa, QiCoinbase: qi, GenesisTime: 1000}, logger)
	if err != nil {
		fmt.Println("newzone:", err)
		return
	}
	var pending types.Transactions
	for i := 0; i < 20; i++ {
		z.VerifC10SetMiner(qa, qi, i%2 == 1, uint8(i%4), nil)
		b, err := z.Assemble(true)
		if err != nil {
			fmt.Println("assemble:", i, err)
			return
		}
		fmt.Println("assembled", b.NumberU64(common.ZONE_CTX), "out", len(b.OutboundEtxs()), "txs", len(b.Transactions()), "gaslimit", b.GasLimit(), "gasused", b.GasUsed(), "ptn", b.PrimeTerminusNumber())
		if err := z.Append(b); err != nil {
			fmt.Println("append:", i, err)
			return
		}
		for _, e := range b.OutboundEtxs() {
			fmt.Printf("   out etx type %d to %s qi=%v val %v data %x\n", e.EtxType(), e.To().Hex(), e.To().IsInQiLedgerScope(), e.Value(), e.Data())
		}
		pending = append(pending, b.OutboundEtxs()...)
		if i%3 == 2 {
			// a foreign coinbase to a Qi address
			h := common.BytesToHash(r.Bytes(32))
			pending = append(pending, types.NewTx(&types.ExternalTx{OriginatingTxHash: h, ETXIndex: 0, Gas: 21000, To: &qi2, Value: big.NewInt(1234567), Data: append([]byte{0}, h.Bytes()...), Sender: qi2, EtxType: types.CoinbaseType}))
			for j := 0; j < 3; j++ {
				h2 := common.BytesToHash(r.Bytes(32))
				den := int64(8 + j)
				if j == 2 {
					den = 2
				}
				pending = append(pending, types.NewTx(&types.ExternalTx{OriginatingTxHash: h2, ETXIndex: uint16(j), Gas: 21000, To: &qi2, Value: big.NewInt(den), Sender: far, EtxType: types.DefaultType}))
				if j < 2 {
					spendable = append(spendable, types.OutPoint{TxHash: h2, Index: uint16(j)})
				}
			}
			rawdb.WriteInboundEtxs(db, b.Hash(), pending)
			pending = nil
		}
		if len(spendable) > 0 {
			op := spendable[0]
			if u := rawdb.GetUTXO(db, op.TxHash, op.Index); u != nil {
				spendable = spendable[1:]
				outs := types.TxOuts{}
				// pay denomination-1 to qi3, rest is fee
				outs = append(outs, types.TxOut{Denomination: u.Denomination - 1, Address: qi3.Bytes(), Lock: big.NewInt(0)})
				qt := &types.QiTx{ChainID: z.Config.ChainID, TxIn: types.TxIns{{PreviousOutPoint: op, PubKey: k2.PubKey().SerializeUncompressed()}}, TxOut: outs}
				signer := types.NewSigner(z.Config.ChainID, loc)
				d := signer.Hash(types.NewTx(qt))
				sig, err := schnorr.Sign(k2, d[:])
				if err != nil {
					panic(err)
				}
				qt.Signature = sig
				tx := types.NewTx(qt)
				fmt.Println("  addlocal:", z.Pool.AddLocal(tx), "den", u.Denomination)
			}
		}
		sp, _ := rawdb.ReadSpentUTXOs(db, b.Hash())
		tr, _ := rawdb.ReadTrimmedUTXOs(db, b.Hash())
		ck, _ := rawdb.ReadCreatedUTXOKeys(db, b.Hash())
		fmt.Println(" utxo set size", rawdb.ReadUTXOSetSize(db, b.Hash()), "spent", len(sp), "trimmed", len(tr), "created", len(ck))
	}
}

// C10 harness: reorganisation leaves exactly the state of the winning branch.
//
// Every scenario builds, with the REAL worker / StateProcessor / HeaderChain of the zone mini
// node (core.VerifNewZone), a base chain and two or three branches from a common ancestor, each
// branch on its own straight-line "builder" node (a node that never sees another branch: the
// oracle). A third "test" node on the backend under test (memorydb / leveldb / pebble) receives
// all blocks as side blocks and is switched between arbitrary blocks of the tree with the real
// HeaderChain.SetCurrentHeader. After each switch the full image (all 'ut' and 'cl' records,
// canonical number->hash map, head hash, in-memory head) is compared with the oracle, with the
// image taken the last time the node was at that block, and with what the undo records say;
// the same data goes to the Coq model (Model/C10.v) which recomputes the post state.
// A second family of cases drives vm.AddNewLock directly (undo bytes of lockup updates).
package main

import (
	"bytes"
	"crypto/ecdsa"
	"encoding/binary"
	"fmt"
	"math/big"
	"os"
	"path/filepath"
	"sort"
	"strings"
	"time"

	"github.com/btcsuite/btcd/btcec/v2"
	"github.com/btcsuite/btcd/btcec/v2/schnorr"
	"github.com/btcsuite/btcd/btcec/v2/schnorr/musig2"
	"github.com/dominant-strategies/go-quai/common"
	"github.com/dominant-strategies/go-quai/core"
	"github.com/dominant-strategies/go-quai/core/rawdb"
	"github.com/dominant-strategies/go-quai/core/state"
	"github.com/dominant-strategies/go-quai/core/types"
	"github.com/dominant-strategies/go-quai/core/vm"
	"github.com/dominant-strategies/go-quai/crypto"
	"github.com/dominant-strategies/go-quai/ethdb"
	"github.com/dominant-strategies/go-quai/ethdb/leveldb"
	"github.com/dominant-strategies/go-quai/ethdb/memorydb"
	"github.com/dominant-strategies/go-quai/ethdb/pebble"
	"github.com/dominant-strategies/go-quai/log"
	"github.com/dominant-strategies/go-quai/params"
	"google.golang.org/protobuf/proto"

	"verifharness/hlib"
)

var (
	loc    = common.Location{0, 0}
	logger *log.Logger
	tmpDir string
)

// ---------------------------------------------------------------- schedule (test network)

func setSchedule() {
	params.TimeToStartTx = 0
	params.ControllerKickInBlock = 0
	params.CoinbaseLockupPrecompileKickInHeight = 0
	params.ConversionLockPeriod = 2
	params.LockupByteToBlockDepth = [4]uint64{2, 4, 6, 8}
	params.CoinbaseEpochBlocks = 4
	for i := uint8(0); i <= types.MaxTrimDenomination; i++ {
		types.TrimDepths[i] = uint64(2 + i%3)
	}
	core.DefaultTxPoolConfig.ReorgFrequency = 5 * time.Millisecond
}

// ---------------------------------------------------------------- identities (ground once per run)

type identities struct {
	qiK          [6]*btcec.PrivateKey // 0..2 receive the foreign ETXs; 3..5 only outputs of our own spends
	qiA          [6]common.Address
	quaiK        *ecdsa.PrivateKey
	quaiA        common.Address
	quaiCoinbase common.Address
	qiCoinbase   common.Address
	miners       [2]common.Address // Quai beneficiaries of lockups
	qiMiner      common.Address    // Qi beneficiary of lockups
	delegates    [3]common.Address
	farQi        common.Address
	farQuai      common.Address
	convSender   common.Address
	contract     common.Address
	deployCode   []byte
	lockupAddr   common.Address
}

var id identities

func mkAddr(r *hlib.Rng, prefix byte, qi bool) common.Address {
	b := r.Bytes(20)
	b[0] = prefix
	if qi {
		b[1] |= 0x80
	} else {
		b[1] &= 0x7f
	}
	return common.BytesToAddress(b, loc)
}

func grindQi(r *hlib.Rng) (*btcec.PrivateKey, common.Address) {
	for {
		k, _ := btcec.PrivKeyFromBytes(r.Bytes(32))
		a := crypto.PubkeyBytesToAddress(k.PubKey().SerializeUncompressed(), loc)
		if a.Location().Equal(loc) && a.IsInQiLedgerScope() {
			if _, err := a.InternalAndQiAddress(); err == nil {
				return k, a
			}
		}
	}
}

func grindQuai(r *hlib.Rng) (*ecdsa.PrivateKey, common.Address) {
	for {
		k, err := crypto.ToECDSA(r.Bytes(32))
		if err != nil {
			continue
		}
		a := crypto.PubkeyToAddress(k.PublicKey, loc)
		if a.Location().Equal(loc) && a.IsInQuaiLedgerScope() {
			if _, err := a.InternalAndQuaiAddress(); err == nil {
				return k, a
			}
		}
	}
}

func makeIdentities() {
	r := hlib.NewRng(424242) // fixed: identities do not depend on the run seed (keeps replays cheap and stable)
	for i := 0; i < 3; i++ {
		id.qiK[i], id.qiA[i] = grindQi(r)
	}
	id.quaiK, id.quaiA = grindQuai(r)
	id.quaiCoinbase = mkAddr(r, 0, false)
	id.qiCoinbase = mkAddr(r, 0, true)
	id.miners[0], id.miners[1] = mkAddr(r, 0, false), mkAddr(r, 0, false)
	id.qiMiner = mkAddr(r, 0, true)
	for i := range id.delegates {
		id.delegates[i] = mkAddr(r, 0, false)
	}
	id.farQi = mkAddr(r, 1, true)
	id.farQuai = mkAddr(r, 1, false)
	id.convSender = mkAddr(r, 0, false)
	for i := 3; i < len(id.qiK); i++ { // ground last: the identities above stay what they were
		id.qiK[i], id.qiA[i] = grindQi(r)
	}
	vm.InitializePrecompiles(loc)
	id.lockupAddr = vm.LockupContractAddresses[[2]byte{loc[0], loc[1]}]
	// forwarder: CALL(gas, lockupContract, 0, calldata) ; STOP  — msg.sender of the precompile = this contract
	runtime := []byte{0x36, 0x60, 0x00, 0x60, 0x00, 0x37, 0x60, 0x00, 0x60, 0x00, 0x36, 0x60, 0x00, 0x60, 0x00, 0x73}
	runtime = append(runtime, id.lockupAddr.Bytes()...)
	runtime = append(runtime, 0x5a, 0xf1, 0x00)
	code := []byte{0x60, byte(len(runtime)), 0x80, 0x60, 0x0b, 0x60, 0x00, 0x39, 0x60, 0x00, 0xf3}
	code = append(code, runtime...)
	for i := 0; ; i++ {
		c := append(append([]byte{}, code...), byte(i), byte(i>>8))
		a := crypto.CreateAddress(id.quaiA, 0, c, loc)
		if _, err := a.InternalAndQuaiAddress(); err == nil {
			id.contract, id.deployCode = a, c
			break
		}
	}
}

func qiKeyOf(addr []byte) int {
	for i := range id.qiA {
		if bytes.Equal(id.qiA[i].Bytes(), addr) {
			return i
		}
	}
	return -1
}

// ---------------------------------------------------------------- databases

func newBackend(kind string) (ethdb.Database, func()) {
	switch kind {
	case "leveldb":
		dir, _ := os.MkdirTemp(tmpDir, "lv")
		d, err := leveldb.New(dir, 16, 16, "", false, logger, loc)
		if err != nil {
			panic(err)
		}
		db := rawdb.NewDatabase(d)
		return db, func() { db.Close(); os.RemoveAll(dir) }
	case "pebble":
		dir, _ := os.MkdirTemp(tmpDir, "pb")
		d, err := pebble.New(dir, 16, 16, "", false, logger, loc)
		if err != nil {
			panic(err)
		}
		db := rawdb.NewDatabase(d)
		return db, func() { db.Close(); os.RemoveAll(dir) }
	default:
		// memorydb.Database.Location() returns nil, so blocks decoded from it get out-of-zone
		// addresses; the key-value behaviour under test is unchanged by pinning the location.
		db := rawdb.NewDatabase(locKV{memorydb.New(logger)})
		return db, func() { db.Close() }
	}
}

type locKV struct{ *memorydb.Database }

func (locKV) Location() common.Location { return loc }

type kv struct{ k, v []byte }

func snapshot(db ethdb.Database) []kv {
	var out []kv
	it := db.NewIterator(nil, nil)
	for it.Next() {
		out = append(out, kv{common.CopyBytes(it.Key()), common.CopyBytes(it.Value())})
	}
	it.Release()
	return out
}

func restore(db ethdb.Database, snap []kv) {
	b := db.NewBatch()
	for _, e := range snap {
		b.Put(e.k, e.v)
		if b.ValueSize() > 1<<20 {
			b.Write()
			b.Reset()
		}
	}
	b.Write()
}

// ---------------------------------------------------------------- node

type node struct {
	z      *core.VerifZone
	db     ethdb.Database
	myQi   []*common.Hash
	closed bool
	index  bool
	// intra-block chains: outputs of pool transactions that were placed into the database only
	// while the worker assembles (it reads inputs from the database; a foreign miner needs no such
	// help), and the hashes of the transactions that create them
	temp        []types.OutPoint
	chainParent map[common.Hash]bool
}

func openNode(db ethdb.Database, index bool) *node {
	t := time.Now()
	defer func() { tOpen += time.Since(t) }()
	z, err := core.VerifNewZone(db, core.VerifZoneOptions{Location: loc, QuaiCoinbase: id.quaiCoinbase, QiCoinbase: id.qiCoinbase, GenesisTime: 1000, IndexAddressUtxo: index}, logger)
	if err != nil {
		panic("VerifNewZone: " + err.Error())
	}
	return &node{z: z, db: db, index: index}
}

var tClose, tOpen, tGen, tSwitch, tScan time.Duration

func (n *node) close() {
	if !n.closed {
		n.closed = true
		t := time.Now()
		n.z.Close()
		tClose += time.Since(t)
	}
}

func (n *node) headNum() uint64 { return n.z.Hc.CurrentHeader().NumberU64(common.ZONE_CTX) }

// ---------------------------------------------------------------- images

type image struct {
	Ut, Cl  []kv
	Canon   []common.Hash // index = number; zero hash = absent
	Head    common.Hash
	MemHead common.Hash
	Au, Al  []kv // address -> outpoints index (canonical form), address -> locked balance (IndexAddressUtxos only)
}

func scanPrefix(db ethdb.Database, prefix string, klen int) []kv {
	var out []kv
	it := db.NewIterator([]byte(prefix), nil)
	for it.Next() {
		if len(it.Key()) == klen {
			out = append(out, kv{common.CopyBytes(it.Key()), common.CopyBytes(it.Value())})
		}
	}
	it.Release()
	return out
}

func scan(n *node, maxNum uint64) *image {
	im := &image{Ut: scanPrefix(n.db, "ut", rawdb.UtxoKeyLength), Cl: scanPrefix(n.db, "cl", rawdb.CoinbaseLockupKeyLength)}
	for i := uint64(0); i <= maxNum; i++ {
		im.Canon = append(im.Canon, rawdb.ReadCanonicalHash(n.db, i))
	}
	im.Head = rawdb.ReadHeadBlockHash(n.db)
	im.MemHead = n.z.Hc.CurrentHeader().Hash()
	if n.index {
		for _, e := range scanPrefix(n.db, "auwh", 24) {
			im.Au = append(im.Au, kv{e.k, canonOutpoints(e.v)})
		}
		for _, e := range scanPrefix(n.db, "al", 22) {
			if new(big.Int).SetBytes(e.v).Sign() != 0 { // a zero balance and an absent record are the same
				im.Al = append(im.Al, e)
			}
		}
	}
	return im
}

// utxoAddr decodes the owner of a stored TxOut
func utxoAddr(v []byte) string {
	p := new(types.ProtoTxOut)
	if err := proto.Unmarshal(v, p); err != nil {
		return ""
	}
	u := new(types.UtxoEntry)
	if err := u.ProtoDecode(p); err != nil {
		return ""
	}
	return string(u.Address)
}

// mixedAddress: the block both restores (spent/trimmed) and removes (created) outpoints of one
// address when it is rolled back — the shape in which the rollback batch of SetCurrentHeader
// (no pending tracking) overwrites its first index update with the second.
func mixedAddress(e *effect) bool {
	restored := map[string]bool{}
	for _, x := range append(append([]kv{}, e.spent...), e.trimmed...) {
		if a := utxoAddr(x.v); a != "" {
			restored[a] = true
		}
	}
	for _, c := range e.created {
		if restored[utxoAddr(c.v)] {
			return true
		}
	}
	return false
}

// intraOutpoints: "txhash:index:" of every output the block both created and spent
func intraOutpoints(e *effect) []string {
	var out []string
	for _, sp := range e.spent {
		for _, ck := range e.createdKeys {
			if bytes.Equal(stripDen(ck), sp.k) {
				if h, idx, err := rawdb.ReverseUtxoKey(sp.k); err == nil {
					out = append(out, fmt.Sprintf("%x:%d:", h.Bytes(), idx))
				}
				break
			}
		}
	}
	return out
}

// onlyIntraBlockLeftovers: the index image `have` equals `want` except for EXTRA outpoints, all of
// which were created and spent inside one of the rolled-back blocks (known defect of the wallet
// index; any other discrepancy is classified separately).
func onlyIntraBlockLeftovers(have, want []kv, olds []*effect) bool {
	var intra []string
	for _, e := range olds {
		intra = append(intra, intraOutpoints(e)...)
	}
	if len(intra) == 0 {
		return false
	}
	set := func(v []byte) map[string]bool {
		m := map[string]bool{}
		if len(v) > 0 {
			for _, it := range strings.Split(string(v), ",") {
				m[it] = true
			}
		}
		return m
	}
	hm := map[string][]byte{}
	for _, e := range have {
		hm[string(e.k)] = e.v
	}
	for _, e := range want {
		hv, ok := hm[string(e.k)]
		if !ok {
			return false // an address is missing from the index
		}
		hs := set(hv)
		for it := range set(e.v) {
			if !hs[it] {
				return false // a wanted outpoint is missing
			}
		}
	}
	wm := map[string][]byte{}
	for _, e := range want {
		wm[string(e.k)] = e.v
	}
	extras := 0
	for _, e := range have {
		ws := set(wm[string(e.k)])
		for it := range set(e.v) {
			if ws[it] {
				continue
			}
			extras++
			isIntra := false
			for _, p := range intra {
				if strings.HasPrefix(it, p) {
					isIntra = true
				}
			}
			if !isIntra {
				return false
			}
		}
	}
	return extras > 0
}

// canonOutpoints: the address index stores a list per address; its order depends on history,
// the SET of outpoints must not.
func canonOutpoints(v []byte) []byte {
	p := new(types.ProtoAddressOutPoints)
	if err := proto.Unmarshal(v, p); err != nil {
		return append([]byte("undecodable:"), v...)
	}
	var items []string
	for _, o := range p.OutPoints {
		items = append(items, fmt.Sprintf("%x:%d:%d:%x", o.GetHash().GetValue(), o.GetIndex(), o.GetDenomination(), o.GetLock()))
	}
	sort.Strings(items)
	return []byte(strings.Join(items, ","))
}

func kvsEqual(a, b []kv) bool {
	if len(a) != len(b) {
		return false
	}
	for i := range a {
		if !bytes.Equal(a[i].k, b[i].k) || !bytes.Equal(a[i].v, b[i].v) {
			return false
		}
	}
	return true
}

func kvsDiff(a, b []kv) string {
	ma, mb := map[string][]byte{}, map[string][]byte{}
	for _, e := range a {
		ma[string(e.k)] = e.v
	}
	for _, e := range b {
		mb[string(e.k)] = e.v
	}
	extra, missing, changed := 0, 0, 0
	first := ""
	for k, v := range ma {
		w, ok := mb[k]
		if !ok {
			extra++
			if first == "" {
				first = fmt.Sprintf("extra %x", k)
			}
		} else if !bytes.Equal(v, w) {
			changed++
			first = fmt.Sprintf("changed %x: have %x want %x", k, v, w)
		}
	}
	for k := range mb {
		if _, ok := ma[k]; !ok {
			missing++
			if first == "" {
				first = fmt.Sprintf("missing %x", k)
			}
		}
	}
	return fmt.Sprintf("%d extra, %d missing, %d changed (%s)", extra, missing, changed, first)
}

// canonEqual compares the number->hash maps (the shorter one is padded with "absent")
func canonEqual(a, b []common.Hash) bool {
	n := len(a)
	if len(b) > n {
		n = len(b)
	}
	for i := 0; i < n; i++ {
		var x, y common.Hash
		if i < len(a) {
			x = a[i]
		}
		if i < len(b) {
			y = b[i]
		}
		if x != y {
			return false
		}
	}
	return true
}

func imgLookup(l []kv, k []byte) ([]byte, bool) {
	i := sort.Search(len(l), func(i int) bool { return bytes.Compare(l[i].k, k) >= 0 })
	if i < len(l) && bytes.Equal(l[i].k, k) {
		return l[i].v, true
	}
	return nil, false
}

// ---------------------------------------------------------------- undo records and forward writes

type lkWrite struct {
	k, v []byte
	del  bool
}

type effect struct {
	num          uint64
	hash, parent common.Hash
	created      []kv     // forward: key(36) -> value
	createdKeys  [][]byte // undo, 37 bytes
	spent        []kv     // undo (value = what CreateUTXO writes on rollback)
	trimmed      []kv
	lkWrites     []lkWrite
	lkCreated    [][]byte
	lkDeleted    []kv
	incomplete   bool
}

var scratch = rawdb.NewMemoryDatabase(log.Global)

// bytes rawdb.CreateUTXO writes for a spent/trimmed entry when the rollback re-creates it
func encSpent(e *types.SpentUtxoEntry) kv {
	k := rawdb.UtxoKey(e.TxHash, e.Index)
	if err := rawdb.CreateUTXO(scratch, e.TxHash, e.Index, e.UtxoEntry); err != nil {
		panic(err)
	}
	v, _ := scratch.Get(k)
	scratch.Delete(k)
	return kv{k, v}
}

func stripDen(k []byte) []byte {
	if len(k) == rawdb.UtxoKeyWithDenominationLength {
		return k[:rawdb.UtxoKeyLength]
	}
	return k
}

// readUndo reads the five undo records of a block from db.
func readUndo(db ethdb.Database, wo *types.WorkObject) (*effect, error) {
	h := wo.Hash()
	e := &effect{num: wo.NumberU64(common.ZONE_CTX), hash: h, parent: wo.ParentHash(common.ZONE_CTX)}
	sp, err := rawdb.ReadSpentUTXOs(db, h)
	if err != nil {
		return nil, err
	}
	for _, s := range sp {
		e.spent = append(e.spent, encSpent(s))
	}
	tr, err := rawdb.ReadTrimmedUTXOs(db, h)
	if err != nil {
		return nil, err
	}
	for _, s := range tr {
		e.trimmed = append(e.trimmed, encSpent(s))
	}
	sort.Slice(e.trimmed, func(i, j int) bool { return bytes.Compare(e.trimmed[i].k, e.trimmed[j].k) < 0 }) // goroutine order in Finalize
	ck, err := rawdb.ReadCreatedUTXOKeys(db, h)
	if err != nil {
		return nil, err
	}
	for _, k := range ck {
		e.createdKeys = append(e.createdKeys, common.CopyBytes(k))
	}
	lc, err := rawdb.ReadCreatedCoinbaseLockupKeys(db, h)
	if err != nil {
		return nil, err
	}
	for _, k := range lc {
		e.lkCreated = append(e.lkCreated, common.CopyBytes(k))
	}
	ld, err := rawdb.ReadDeletedCoinbaseLockups(db, h)
	if err != nil {
		return nil, err
	}
	for _, d := range ld {
		e.lkDeleted = append(e.lkDeleted, kv{common.CopyBytes(d.Key), common.CopyBytes(d.Value)})
	}
	return e, nil
}

// withForward completes an effect with the forward writes observed on db right after the block
// was processed there (the builder node).
func withForward(db ethdb.Database, e *effect) {
	seen := map[string]bool{}
	for _, ck := range e.createdKeys {
		k := stripDen(ck)
		if seen[string(k)] {
			continue
		}
		seen[string(k)] = true
		v, _ := db.Get(k)
		if len(v) == 0 {
			for _, s := range append(append([]kv{}, e.spent...), e.trimmed...) {
				if bytes.Equal(s.k, k) {
					v = s.v
				}
			}
		}
		if len(v) == 0 {
			e.incomplete = true
			continue
		}
		e.created = append(e.created, kv{common.CopyBytes(k), common.CopyBytes(v)})
	}
	seen = map[string]bool{}
	touch := func(k []byte) {
		if seen[string(k)] {
			return
		}
		seen[string(k)] = true
		v, _ := db.Get(k)
		if len(v) == 0 {
			e.lkWrites = append(e.lkWrites, lkWrite{k: k, del: true})
		} else {
			e.lkWrites = append(e.lkWrites, lkWrite{k: k, v: common.CopyBytes(v)})
		}
	}
	for _, k := range e.lkCreated {
		touch(k)
	}
	for _, d := range e.lkDeleted {
		touch(d.k)
	}
}

// merge: forward part of the builder's effect + undo part read from the test node
func merge(fwd, undo *effect) *effect {
	m := *undo
	m.created = fwd.created
	m.lkWrites = fwd.lkWrites
	m.incomplete = fwd.incomplete
	return &m
}

func keyIn(k []byte, l [][]byte) bool {
	for _, x := range l {
		if bytes.Equal(x, k) {
			return true
		}
	}
	return false
}

// wfEffect: the undo log of e is well formed w.r.t. the image before the block (independent Go
// version of Model/C10.v wf_effectb). badLockup reports the F6 shape (a restore record of a key
// not created in the block differs from the record that was there).
func wfEffect(pre *image, e *effect) (ok bool, badLockup bool, why string) {
	ok = true
	var ck [][]byte
	for _, k := range e.createdKeys {
		ck = append(ck, stripDen(k))
	}
	for _, k := range ck {
		if _, present := imgLookup(pre.Ut, k); present {
			ok, why = false, fmt.Sprintf("created key %x already present", k)
		}
	}
	for _, s := range append(append([]kv{}, e.spent...), e.trimmed...) {
		if keyIn(s.k, ck) {
			continue
		}
		if v, present := imgLookup(pre.Ut, s.k); !present || !bytes.Equal(v, s.v) {
			ok, why = false, fmt.Sprintf("spent/trimmed record %x does not carry the previous value", s.k)
		}
	}
	for _, c := range e.created {
		if !keyIn(c.k, ck) {
			ok, why = false, fmt.Sprintf("created output %x has no created-key record", c.k)
		}
	}
	for _, k := range e.lkCreated {
		if _, present := imgLookup(pre.Cl, k); present {
			ok, why = false, fmt.Sprintf("created lockup %x already present", k)
		}
	}
	first := map[string][]byte{}
	for _, d := range e.lkDeleted {
		if _, s := first[string(d.k)]; !s {
			first[string(d.k)] = d.v
		}
	}
	for _, d := range e.lkDeleted {
		if keyIn(d.k, e.lkCreated) {
			continue
		}
		if v, present := imgLookup(pre.Cl, d.k); !present || !bytes.Equal(v, first[string(d.k)]) {
			ok, badLockup = false, true
			why = fmt.Sprintf("lockup restore record %x = %x but the record was %x", d.k, first[string(d.k)], v)
		}
	}
	var dk [][]byte
	for _, d := range e.lkDeleted {
		dk = append(dk, d.k)
	}
	for _, w := range e.lkWrites {
		if !keyIn(w.k, e.lkCreated) && !keyIn(w.k, dk) {
			ok, why = false, fmt.Sprintf("lockup write %x has no undo record", w.k)
		}
	}
	// chain
	if e.num == 0 || pre.Head != e.parent || int(e.num-1) >= len(pre.Canon) || pre.Canon[e.num-1] != e.parent {
		ok, why = false, "chain: parent is not the head / not canonical"
	}
	if int(e.num) < len(pre.Canon) && pre.Canon[e.num] != (common.Hash{}) {
		ok, why = false, "chain: number already canonical"
	}
	return
}

// ---------------------------------------------------------------- Coq printing

// cb prints a byte string compactly as (B[W 7 0x..;..]) (Model/C10.v: 7-byte chunks as primitive ints)
func cb(b []byte) string {
	if len(b) == 0 {
		return "[]"
	}
	var sb strings.Builder
	sb.WriteString("(B[")
	for i := 0; i < len(b); i += 7 {
		j := i + 7
		if j > len(b) {
			j = len(b)
		}
		if i > 0 {
			sb.WriteByte(';')
		}
		fmt.Fprintf(&sb, "W %d 0x%x", j-i, b[i:j])
	}
	sb.WriteString("])")
	return sb.String()
}

func coqKvs(l []kv) string {
	it := make([]string, len(l))
	for i, e := range l {
		it[i] = "(" + cb(e.k) + "," + cb(e.v) + ")"
	}
	return "[" + strings.Join(it, ";") + "]"
}

func coqKeys(l [][]byte) string {
	it := make([]string, len(l))
	for i, k := range l {
		it[i] = cb(k)
	}
	return "[" + strings.Join(it, ";") + "]"
}

func coqImage(im *image) string {
	var c []string
	for i, h := range im.Canon {
		if h != (common.Hash{}) {
			c = append(c, fmt.Sprintf("([%d],%s)", i, cb(h.Bytes())))
		}
	}
	return "(mkDb " + coqKvs(im.Ut) + " " + coqKvs(im.Cl) + " [" + strings.Join(c, ";") + "] " + cb(im.Head.Bytes()) + ")"
}

func coqEffect(e *effect) string {
	w := make([]string, len(e.lkWrites))
	for i, x := range e.lkWrites {
		if x.del {
			w[i] = "(" + cb(x.k) + ",None)"
		} else {
			w[i] = "(" + cb(x.k) + ",Some " + cb(x.v) + ")"
		}
	}
	return fmt.Sprintf("(mkEff %d %s %s %s %s %s %s [%s] %s %s)", e.num, cb(e.hash.Bytes()), cb(e.parent.Bytes()),
		coqKvs(e.created), coqKeys(e.createdKeys), coqKvs(e.spent), coqKvs(e.trimmed), strings.Join(w, ";"), coqKeys(e.lkCreated), coqKvs(e.lkDeleted))
}

func coqEffects(l []*effect) string {
	it := make([]string, len(l))
	for i, e := range l {
		it[i] = coqEffect(e)
	}
	return "[" + strings.Join(it, ";\n   ") + "]"
}

// ---------------------------------------------------------------- scenario data

type blockInfo struct {
	wo         *types.WorkObject
	hash       common.Hash
	parent     common.Hash
	num        uint64
	inbound    types.Transactions // stored under this block: what its children receive
	inboundSet bool
	pendingOut types.Transactions // outbound ETXs up to this block not yet delivered
	eff        *effect            // builder: undo + forward
	img        *image             // oracle image after this block
	tags       []string
	branch     string
}

type scenario struct {
	ID                  int
	Seed                uint64
	Backend             string
	Kind                string // random | f6 | deep | double | chain
	Index               bool   // IndexAddressUtxos
	blocks              map[common.Hash]*blockInfo
	maxNum              uint64
	allowDelegateChange bool
	noLockups           bool
	noChain             bool // random scenarios: no chains of Qi spends inside one block
}

type caseJSON struct {
	Id       uint64       `json:"id"`
	Kind     string       `json:"kind"` // reorg | addlock
	Scenario int          `json:"scenario"`
	ScnSeed  uint64       `json:"scn_seed"`
	ScnKind  string       `json:"scn_kind"`
	DelegChg bool         `json:"delegate_change"`
	NoLockup bool         `json:"no_lockups"`
	NoChain  bool         `json:"no_chain"`
	Index    bool         `json:"index_address_utxos"`
	Backend  string       `json:"backend"`
	Switch   int          `json:"switch"`
	From     string       `json:"from,omitempty"`
	To       string       `json:"to,omitempty"`
	Rolled   int          `json:"rolled_back"`
	Applied  int          `json:"re_appended"`
	AddLock  *addLockCase `json:"addlock,omitempty"`
}

// ---------------------------------------------------------------- content generators

var den = func(i uint8) *big.Int { return types.Denominations[i] }

func (s *scenario) foreignEtxs(r *hlib.Rng, tags *[]string) types.Transactions {
	var out types.Transactions
	n := r.Pick(2, 4, 3, 2)
	for j := 0; j < n; j++ {
		h := common.BytesToHash(r.Bytes(32))
		switch r.Pick(3, 4, 2, 5, 1) {
		case 0: // Qi coinbase (locked outputs)
			to := id.qiA[r.Intn(3)]
			lb := byte(0)
			if r.Chance(30) {
				lb = byte(r.Intn(4))
			}
			v := new(big.Int).Set(den(uint8(6 + r.Intn(5))))
			if r.Chance(30) {
				v.Add(v, den(uint8(r.Intn(6))))
			}
			out = append(out, types.NewTx(&types.ExternalTx{OriginatingTxHash: h, ETXIndex: uint16(j), Gas: 21000, To: &to, Value: v, Data: append([]byte{lb}, h.Bytes()...), Sender: to, EtxType: types.CoinbaseType}))
			*tags = append(*tags, "etx:qi-coinbase")
		case 1: // regular cross-zone Qi ETX (unlocked output; small denominations are trimmed later)
			to := id.qiA[r.Intn(3)]
			d := int64(r.Intn(6))
			if r.Chance(60) {
				d = int64(6 + r.Intn(5))
			}
			out = append(out, types.NewTx(&types.ExternalTx{OriginatingTxHash: h, ETXIndex: uint16(j), Gas: 21000, To: &to, Value: big.NewInt(d), Sender: id.farQi, EtxType: types.DefaultType}))
			*tags = append(*tags, "etx:qi-transfer")
		case 2: // Quai -> Qi conversion (outputs locked for ConversionLockPeriod)
			to := id.qiA[r.Intn(3)]
			v := new(big.Int).Set(den(uint8(7 + r.Intn(4))))
			out = append(out, types.NewTx(&types.ExternalTx{OriginatingTxHash: h, ETXIndex: uint16(j), Gas: 200000, To: &to, Value: v, Sender: id.convSender, EtxType: types.ConversionType}))
			*tags = append(*tags, "etx:conversion")
		case 3: // coinbase paid into the lockup contract (AddNewLock)
			if s.noLockups {
				continue
			}
			var to common.Address
			var v *big.Int
			who := r.Intn(3)
			if who == 2 {
				to, v = id.qiMiner, new(big.Int).Set(den(uint8(6+r.Intn(5))))
			} else {
				to, v = id.miners[who], new(big.Int).Mul(big.NewInt(1e15), big.NewInt(int64(1+r.Intn(9))))
			}
			lb := byte(r.Intn(2))
			if r.Chance(20) {
				lb = byte(r.Intn(4))
			}
			data := append([]byte{lb}, id.contract.Bytes()...)
			// delegate policy: normally a fixed function of the beneficiary (no change ever);
			// scenarios that allow it pick freely (finding F6)
			di := who
			if s.allowDelegateChange {
				di = r.Intn(4)
			}
			if di < 3 {
				if who != 1 || s.allowDelegateChange { // miner 1 never names a delegate (38-byte records)
					data = append(data, id.delegates[di].Bytes()...)
				}
			}
			data = append(data, h.Bytes()...)
			out = append(out, types.NewTx(&types.ExternalTx{OriginatingTxHash: h, ETXIndex: uint16(j), Gas: 21000, To: &to, Value: v, Data: data, Sender: to, EtxType: types.CoinbaseType}))
			*tags = append(*tags, "etx:lockup-coinbase")
		case 4: // malformed coinbase layouts: reward lost, no state written
			to := id.miners[0]
			data := append([]byte{0}, r.Bytes(7+r.Intn(30))...)
			if r.Bool() {
				bogus := mkAddr(r, 0, false) // no code there
				data = append(append([]byte{1}, bogus.Bytes()...), h.Bytes()...)
			}
			out = append(out, types.NewTx(&types.ExternalTx{OriginatingTxHash: h, ETXIndex: uint16(j), Gas: 21000, To: &to, Value: big.NewInt(1e15), Data: data, Sender: to, EtxType: types.CoinbaseType}))
			*tags = append(*tags, "etx:malformed-coinbase")
		}
	}
	return out
}

func signQi(qt *types.QiTx, keys []*btcec.PrivateKey, signer types.Signer) (*types.Transaction, error) {
	d := signer.Hash(types.NewTx(qt))
	if len(keys) == 1 {
		sig, err := schnorr.Sign(keys[0], d[:])
		if err != nil {
			return nil, err
		}
		qt.Signature = sig
		return types.NewTx(qt), nil
	}
	pubs := make([]*btcec.PublicKey, len(keys))
	for i, k := range keys {
		pubs[i] = k.PubKey()
	}
	sess := make([]*musig2.Session, len(keys))
	for i, k := range keys {
		c, err := musig2.NewContext(k, false, musig2.WithKnownSigners(pubs))
		if err != nil {
			return nil, err
		}
		if sess[i], err = c.NewSession(); err != nil {
			return nil, err
		}
	}
	for i := range sess {
		for j := range sess {
			if i != j {
				if _, err := sess[i].RegisterPubNonce(sess[j].PublicNonce()); err != nil {
					return nil, err
				}
			}
		}
	}
	for i := range sess {
		ps, err := sess[i].Sign(d)
		if err != nil {
			return nil, err
		}
		if i != 0 {
			if _, err := sess[0].CombineSig(ps); err != nil {
				return nil, err
			}
		}
	}
	qt.Signature = sess[0].FinalSig()
	return types.NewTx(qt), nil
}

// qiRate: miner fee and base gas of a Qi transaction (the worker sorts by fee per gas)
func qiRate(sumIn *big.Int, nIn int, outs types.TxOuts) (fee *big.Int, gas uint64) {
	fee = new(big.Int).Set(sumIn)
	for _, o := range outs {
		fee.Sub(fee, den(o.Denomination))
	}
	return fee, uint64(nIn)*params.SloadGas + uint64(len(outs))*params.CallValueTransferGas + params.EcrecoverGas
}

// rateBelow: fee/gas < 0.8 * pfee/pgas
func rateBelow(fee *big.Int, gas uint64, pfee *big.Int, pgas uint64) bool {
	l := new(big.Int).Mul(fee, new(big.Int).SetUint64(pgas*5))
	r := new(big.Int).Mul(pfee, new(big.Int).SetUint64(gas*4))
	return l.Cmp(r) < 0
}

// addQiSpends puts up to count Qi transactions spending our unlocked outputs into the pool.
// chain > 0: outputs of a transaction just put into the pool become inputs of further
// transactions of the SAME block (chains of depth <= chain+1: tx2 spends an output of tx1, tx3 one
// of tx2 ...), with probability chainPct per transaction. The worker takes its inputs from the
// database and orders by fee per gas, so the intermediate outputs are placed into the database
// until the block is assembled (dropTemp) and every child pays a lower rate than its parents.
func (n *node) addQiSpends(r *hlib.Rng, count int, chain int, chainPct int, tags *[]string) {
	head := n.headNum()
	type cand struct {
		op    types.OutPoint
		u     *types.UtxoEntry
		key   int
		depth int
		pfee  *big.Int // chained input: rate of the creating transaction
		pgas  uint64
	}
	var cands []cand
	for _, e := range scanPrefix(n.db, "ut", rawdb.UtxoKeyLength) {
		h, idx, err := rawdb.ReverseUtxoKey(e.k)
		if err != nil {
			continue
		}
		u := rawdb.GetUTXO(n.db, h, idx)
		if u == nil || u.Denomination < 6 {
			continue
		}
		if u.Lock != nil && u.Lock.Sign() != 0 && u.Lock.Uint64() > head {
			continue
		}
		ki := qiKeyOf(u.Address)
		if ki < 0 {
			continue
		}
		cands = append(cands, cand{op: types.OutPoint{TxHash: h, Index: idx}, u: u, key: ki})
	}
	signer := types.NewSigner(n.z.Config.ChainID, loc)
	var chained []cand // outputs of this block's pool transactions, preferred as inputs
	for c := 0; c < count && len(cands)+len(chained) > 0; c++ {
		var in []cand
		if len(chained) > 0 {
			i := r.Intn(len(chained))
			in = append(in, chained[i])
			chained = append(chained[:i], chained[i+1:]...)
			// sometimes a second input: a sibling output of the same block or an old output
			if len(chained) > 0 && r.Chance(30) {
				j := r.Intn(len(chained))
				in = append(in, chained[j])
				chained = append(chained[:j], chained[j+1:]...)
			} else if len(cands) > 0 && r.Chance(25) {
				j := r.Intn(len(cands))
				in = append(in, cands[j])
				cands = append(cands[:j], cands[j+1:]...)
			}
		} else {
			i := r.Intn(len(cands))
			in = append(in, cands[i])
			cands = append(cands[:i], cands[i+1:]...)
			if len(cands) > 0 && r.Chance(25) {
				j := r.Intn(len(cands))
				in = append(in, cands[j])
				cands = append(cands[:j], cands[j+1:]...)
			}
		}
		// outputs: the largest input pays d-1 (and sometimes d-2) to our other addresses, the rest is fee
		sort.SliceStable(in, func(a, b int) bool { return in[a].u.Denomination > in[b].u.Denomination })
		d := in[0].u.Denomination
		sumIn := new(big.Int)
		depth := 0
		for _, x := range in {
			sumIn.Add(sumIn, den(x.u.Denomination))
			if x.depth > depth {
				depth = x.depth
			}
		}
		// output addresses: a Qi transaction may not pay to an address it spends from, nor twice to one address
		var avail []int
		for i := range id.qiA {
			used := false
			for _, x := range in {
				used = used || x.key == i
			}
			if !used {
				avail = append(avail, i)
			}
		}
		for i := len(avail) - 1; i > 0; i-- {
			j := r.Intn(i + 1)
			avail[i], avail[j] = avail[j], avail[i]
		}
		addrOf := func(i int) []byte { return id.qiA[avail[i]].Bytes() }
		outs := types.TxOuts{{Denomination: d - 1, Address: addrOf(0), Lock: big.NewInt(0)}}
		if r.Chance(50) {
			outs = append(outs, types.TxOut{Denomination: d - 2, Address: addrOf(len(outs)), Lock: big.NewInt(0)})
		}
		if len(in) == 2 { // second input (smaller or equal) becomes a small change output: trimmable
			outs = append(outs, types.TxOut{Denomination: uint8(r.Intn(5)), Address: addrOf(len(outs)), Lock: big.NewInt(0)})
		}
		// a child must pay a lower rate than every transaction it depends on (block order = rate order)
		okRate := func() bool {
			fee, gas := qiRate(sumIn, len(in), outs)
			if fee.Sign() <= 0 {
				return false
			}
			for _, x := range in {
				if x.pfee != nil && !rateBelow(fee, gas, x.pfee, x.pgas) {
					return false
				}
			}
			return true
		}
		hasDen := func(x uint8) bool {
			for _, o := range outs {
				if o.Denomination == x {
					return true
				}
			}
			return false
		}
		for _, x := range []uint8{d - 2, d - 3} { // lower the fee with further outputs
			if !okRate() && !hasDen(x) && len(outs) < len(avail) {
				outs = append(outs, types.TxOut{Denomination: x, Address: addrOf(len(outs)), Lock: big.NewInt(0)})
			}
		}
		if !okRate() {
			*tags = append(*tags, "chain-rate-not-satisfiable")
			continue
		}
		qt := &types.QiTx{ChainID: n.z.Config.ChainID, TxOut: outs}
		var keys []*btcec.PrivateKey
		for _, x := range in {
			qt.TxIn = append(qt.TxIn, types.TxIn{PreviousOutPoint: x.op, PubKey: id.qiK[x.key].PubKey().SerializeUncompressed()})
			keys = append(keys, id.qiK[x.key])
		}
		tx, err := signQi(qt, keys, signer)
		if err != nil {
			continue
		}
		if err := n.z.Pool.AddLocal(tx); err != nil {
			*tags = append(*tags, "qi-spend-rejected-by-pool")
			if os.Getenv("C10_DEBUG") != "" {
				fmt.Fprintf(os.Stderr, "pool rejects (depth %d, %d in, %d out): %v\n", depth, len(in), len(outs), err)
			}
			continue
		}
		h := tx.Hash()
		n.myQi = append(n.myQi, &h)
		if depth < chain && r.Chance(chainPct) {
			fee, gas := qiRate(sumIn, len(in), outs)
			for j, o := range outs {
				if o.Denomination < 6 {
					continue
				}
				if r.Chance(25) { // this output of the chain stays unspent in the block
					continue
				}
				oc := o
				u := types.NewUtxoEntry(&oc)
				if err := rawdb.CreateUTXO(n.db, h, uint16(j), u); err != nil {
					continue
				}
				op := types.OutPoint{TxHash: h, Index: uint16(j)}
				n.temp = append(n.temp, op)
				if n.chainParent == nil {
					n.chainParent = map[common.Hash]bool{}
				}
				n.chainParent[h] = true
				chained = append(chained, cand{op: op, u: u, key: qiKeyOf(o.Address), depth: depth + 1, pfee: fee, pgas: gas})
			}
		}
	}
}

// dropTemp removes the intermediate outputs placed into the database for the assembly.
func (n *node) dropTemp() {
	for _, op := range n.temp {
		rawdb.DeleteUTXO(n.db, op.TxHash, op.Index)
	}
	n.temp = nil
}

// chainOrderOK: every transaction of the block that spends an output of another pool
// transaction of this round comes after that transaction (otherwise the block is not valid and
// a miner would not publish it).
func (n *node) chainOrderOK(b *types.WorkObject) bool {
	seen := map[common.Hash]bool{}
	for _, tx := range b.Transactions() {
		if tx.Type() == types.QiTxType {
			for _, in := range tx.TxIn() {
				if n.chainParent[in.PreviousOutPoint.TxHash] && !seen[in.PreviousOutPoint.TxHash] {
					return false
				}
			}
		}
		seen[tx.Hash()] = true
	}
	return true
}

// addClaim puts one claim of an unlocked lockup tranche of a previous epoch into the pool.
func (n *node) addClaim(r *hlib.Rng, tags *[]string) bool {
	head := n.z.Hc.CurrentHeader()
	next := head.NumberU64(common.ZONE_CTX) + 1
	latestEpoch := uint32(next/params.CoinbaseEpochBlocks) + 1
	var cands [][]byte
	for _, e := range scanPrefix(n.db, "cl", rawdb.CoinbaseLockupKeyLength) {
		owner, _, _, epoch, err := rawdb.ReverseCoinbaseLockupKey(e.k, loc)
		if err != nil || !owner.Equal(id.contract) || epoch >= latestEpoch || len(e.v) < 38 {
			continue
		}
		if uint64(binary.BigEndian.Uint32(e.v[32:36])) > next {
			continue
		}
		cands = append(cands, e.k)
	}
	if len(cands) == 0 {
		return false
	}
	k := cands[r.Intn(len(cands))]
	_, miner, lb, epoch, _ := rawdb.ReverseCoinbaseLockupKey(k, loc)
	to := miner
	if miner.IsInQiLedgerScope() {
		to = id.qiA[r.Intn(3)]
	}
	data := append([]byte{}, miner.Bytes()...)
	data = append(data, to.Bytes()...)
	data = append(data, lb)
	data = binary.BigEndian.AppendUint32(data, epoch)
	data = binary.BigEndian.AppendUint64(data, 50000)
	hb := n.z.Hc.GetBlockByHash(head.Hash())
	if hb == nil {
		return false
	}
	st, err := n.z.StateAt(hb)
	if err != nil {
		return false
	}
	ia, _ := id.quaiA.InternalAddress()
	nonce := st.GetNonce(ia)
	gp := new(big.Int).Mul(hb.BaseFee(), big.NewInt(3))
	tx, err := types.SignNewTx(id.quaiK, types.NewSigner(n.z.Config.ChainID, loc), &types.QuaiTx{ChainID: n.z.Config.ChainID, Nonce: nonce, GasPrice: gp, Gas: 400000, To: &id.contract, Value: big.NewInt(0), Data: data, AccessList: types.AccessList{{Address: id.lockupAddr}}})
	if err != nil {
		return false
	}
	return n.submitQuaiTx(tx, tags, "claim")
}

// submitQuaiTx: publish the head to the pool (Slice's job), add the tx, wait until it is pending.
func (n *node) submitQuaiTx(tx *types.Transaction, tags *[]string, what string) bool {
	n.z.ResetPool()
	var err error
	for i := 0; i < 60; i++ {
		if err = n.z.Pool.AddLocal(tx); err == nil || err == core.ErrAlreadyKnown {
			break
		}
		time.Sleep(5 * time.Millisecond)
	}
	if err != nil && err != core.ErrAlreadyKnown {
		*tags = append(*tags, what+"-rejected-by-pool")
		return false
	}
	for i := 0; i < 200; i++ {
		p, _ := n.z.Pool.TxPoolPending()
		for _, txs := range p {
			for _, t := range txs {
				if t.Hash() == tx.Hash() {
					return true
				}
			}
		}
		time.Sleep(5 * time.Millisecond)
	}
	*tags = append(*tags, what+"-never-pending")
	return false
}

type blockOpts struct {
	chain     int // intra-block chains of Qi spends: maximal number of links (0 = none)
	chainPct  int
	noContent bool
	inbound   types.Transactions // forced inbound set for the head (if not yet decided)
	forceInb  bool
	spends    int
	claim     bool
	miner     int // -1 random
}

// decideInbound fixes (once) what the children of the current head receive.
func (s *scenario) decideInbound(n *node, r *hlib.Rng, o *blockOpts) {
	head := n.z.Hc.CurrentHeader()
	hi := s.blocks[head.Hash()]
	if hi == nil || hi.inboundSet {
		return
	}
	hi.inboundSet = true
	if o != nil && o.forceInb {
		hi.inbound = append(append(types.Transactions{}, hi.pendingOut...), o.inbound...)
	} else if (o == nil || !o.noContent) && r.Chance(80) {
		hi.inbound = append(append(types.Transactions{}, hi.pendingOut...), s.foreignEtxs(r, &hi.tags)...)
	}
	if len(hi.inbound) > 0 {
		rawdb.WriteInboundEtxs(n.db, head.Hash(), hi.inbound)
	}
}

// genChild assembles (real worker) and appends (real SetCurrentHeader) one block on top of the
// node's head and records its undo records, forward writes and the image after it.
func (s *scenario) genChild(n *node, r *hlib.Rng, branch string, o *blockOpts) (*blockInfo, error) {
	head := n.z.Hc.CurrentHeader()
	hi := s.blocks[head.Hash()]
	s.decideInbound(n, r, o)
	var tags []string
	// miner identity
	m := o.miner
	if m < 0 {
		m = []int{0, 1, 3, 4, 5}[r.Intn(5)] // 2 is reserved for the first block of branch C
	}
	var lc *common.Address
	if m >= 4 && !s.noLockups {
		lc = &id.contract
	}
	n.z.VerifC10SetMiner(id.quaiCoinbase, id.qiCoinbase, m%2 == 1, uint8(m%4), lc)
	tags = append(tags, fmt.Sprintf("miner:%d", m))
	if !o.noContent {
		if o.spends > 0 {
			n.addQiSpends(r, o.spends, o.chain, o.chainPct, &tags)
		}
		if o.claim {
			if n.addClaim(r, &tags) {
				tags = append(tags, "claim-submitted")
			}
		}
	}
	b, err := n.z.LockedAssemble(true)
	n.dropTemp()
	if len(n.myQi) > 0 {
		n.z.Pool.RemoveQiTxs(n.myQi)
		n.myQi = nil
	}
	if err == nil && len(n.chainParent) > 0 && !n.chainOrderOK(b) {
		// the worker ordered a child before its parent: not a block a miner would publish; build the block without our spends
		tags = append(tags, "chain-order-fallback")
		b, err = n.z.LockedAssemble(true)
	}
	n.chainParent = nil
	if err != nil {
		return nil, fmt.Errorf("assemble: %w", err)
	}
	if err := n.z.LockedAppend(b); err != nil {
		return nil, fmt.Errorf("append: %w", err)
	}
	n.z.ResetPool()
	bi := &blockInfo{wo: b, hash: b.Hash(), parent: head.Hash(), num: b.NumberU64(common.ZONE_CTX), branch: branch}
	if _, dup := s.blocks[bi.hash]; dup {
		return nil, fmt.Errorf("duplicate block")
	}
	if hi != nil && len(hi.inbound) == 0 {
		bi.pendingOut = append(bi.pendingOut, hi.pendingOut...)
	}
	bi.pendingOut = append(bi.pendingOut, b.OutboundEtxs()...)
	e, err := readUndo(n.db, b)
	if err != nil {
		return nil, err
	}
	withForward(n.db, e)
	bi.eff = e
	if bi.num > s.maxNum {
		s.maxNum = bi.num
	}
	bi.img = scan(n, bi.num+1)
	nq, ne := 0, 0
	for _, tx := range b.Transactions() {
		switch tx.Type() {
		case types.QiTxType:
			nq++
		case types.QuaiTxType:
			ne++
		}
	}
	if nq > 0 {
		tags = append(tags, "qi-tx-included")
	}
	if ne > 0 {
		tags = append(tags, "quai-tx-included")
	}
	if len(e.spent) > 0 {
		tags = append(tags, "undo:spent")
	}
	if len(e.trimmed) > 0 {
		tags = append(tags, "undo:trimmed")
	}
	if len(e.createdKeys) > 0 {
		tags = append(tags, "undo:created")
	}
	if len(e.lkCreated) > 0 {
		tags = append(tags, "undo:lockup-created")
	}
	if len(e.lkDeleted) > 0 {
		tags = append(tags, "undo:lockup-deleted")
	}
	for _, w := range e.lkWrites {
		if w.del {
			tags = append(tags, "lockup-claimed")
		}
	}
	for _, sp := range e.spent {
		for _, ck := range e.createdKeys {
			if bytes.Equal(stripDen(ck), sp.k) {
				tags = append(tags, "created-and-spent-in-block")
			}
		}
	}
	if dp := chainDepth(b); dp >= 2 {
		tags = append(tags, fmt.Sprintf("intra-block-chain-depth:%d", dp))
	}
	bi.tags = append(bi.tags, tags...)
	s.blocks[bi.hash] = bi
	return bi, nil
}

// chainDepth: length of the longest chain tx1 -> tx2 -> ... of Qi transactions inside the block
// where each spends an output of the previous one (1 = no chaining)
func chainDepth(b *types.WorkObject) int {
	depth := map[common.Hash]int{}
	max := 0
	for _, tx := range b.Transactions() {
		if tx.Type() != types.QiTxType {
			continue
		}
		d := 1
		for _, in := range tx.TxIn() {
			if p, ok := depth[in.PreviousOutPoint.TxHash]; ok && p+1 > d {
				d = p + 1
			}
		}
		depth[tx.Hash()] = d
		if d > max {
			max = d
		}
	}
	return max
}

// ---------------------------------------------------------------- the scenario

type runner struct {
	rep    *hlib.Report
	cw     *hlib.CaseWriter
	nextID uint64
	tier   string
	hung   bool
	sigN   map[string]int
}

// failCapped keeps the report small: the driver only needs one instance per signature (and the
// report holds at most 200 failures), so repeated instances of one signature are capped.
func (rn *runner) failCapped(sig, what string, c any) {
	if rn.sigN == nil {
		rn.sigN = map[string]int{}
	}
	rn.sigN[sig]++
	if rn.sigN[sig] <= 6 {
		rn.rep.Fail(sig, what, c)
	} else {
		rn.rep.Count("failure-not-listed:" + sig)
	}
}

func (s *scenario) pathFrom(anc, tip common.Hash) []*blockInfo {
	var p []*blockInfo
	for h := tip; h != anc; {
		bi := s.blocks[h]
		if bi == nil {
			return nil
		}
		p = append([]*blockInfo{bi}, p...)
		h = bi.parent
	}
	return p
}

func (s *scenario) commonAncestor(a, b common.Hash) common.Hash {
	seen := map[common.Hash]bool{}
	for h := a; ; {
		seen[h] = true
		bi := s.blocks[h]
		if bi == nil || bi.wo == nil {
			break
		}
		h = bi.parent
	}
	for h := b; ; {
		if seen[h] {
			return h
		}
		bi := s.blocks[h]
		if bi == nil {
			return common.Hash{}
		}
		h = bi.parent
	}
}

func short(h common.Hash) string { return h.Hex()[2:10] }

func clip(s string, n int) string {
	if len(s) > n {
		return s[:n] + "..."
	}
	return s
}

// runScenario runs one scenario under a watchdog: a node that stops answering must not hang the check.
func (rn *runner) runScenario(s *scenario) {
	done := make(chan struct{})
	go func() {
		defer close(done)
		rn.runScenario1(s)
	}()
	select {
	case <-done:
	case <-time.After(180 * time.Second):
		rn.rep.Note(fmt.Sprintf("scenario %d (%s, %s, seed %d): no answer from the node within 180s, abandoned", s.ID, s.Kind, s.Backend, s.Seed))
		rn.rep.Count("scenario-abandoned:timeout")
		rn.hung = true
	}
}

func (rn *runner) runScenario1(s *scenario) {
	defer func() {
		if e := recover(); e != nil {
			rn.rep.Fail("harness-or-node-panic", fmt.Sprintf("scenario %d (%s, %s): panic: %v", s.ID, s.Kind, s.Backend, e),
				caseJSON{Id: rn.nextID, Kind: "reorg", Scenario: s.ID, ScnSeed: s.Seed, ScnKind: s.Kind, Backend: s.Backend, DelegChg: s.allowDelegateChange, NoLockup: s.noLockups, NoChain: s.noChain, Index: s.Index})
			rn.nextID++
		}
	}()
	r := hlib.NewRng(s.Seed)
	s.blocks = map[common.Hash]*blockInfo{}
	fail := func(what string) {
		rn.rep.Note(fmt.Sprintf("scenario %d (%s): %s", s.ID, s.Kind, what))
		rn.rep.Count("scenario-aborted:" + strings.SplitN(what, ":", 2)[0])
	}

	// ---- base chain on its own node
	db0, close0 := newBackend("memorydb")
	n0 := openNode(db0, s.Index)
	gen := n0.z.Genesis
	s.blocks[gen.Hash()] = &blockInfo{hash: gen.Hash(), inboundSet: true, img: scan(n0, 1), branch: "G"}
	step := func(n *node, branch string, o *blockOpts) *blockInfo {
		t := time.Now()
		defer func() { tGen += time.Since(t) }()
		bi, err := s.genChild(n, r, branch, o)
		if err != nil {
			panic(fmt.Sprintf("building %s on scenario %d: %v", branch, s.ID, err))
		}
		return bi
	}
	// 1: empty; its children receive the funding of the deployer
	step(n0, "P", &blockOpts{noContent: true, miner: 0})
	fh := common.BytesToHash(r.Bytes(32))
	fund := types.NewTx(&types.ExternalTx{OriginatingTxHash: fh, Gas: 200000, To: &id.quaiA, Value: new(big.Int).Mul(big.NewInt(1e18), big.NewInt(1e7)), Sender: id.farQuai, EtxType: types.DefaultType})
	step(n0, "P", &blockOpts{noContent: true, miner: 0, forceInb: true, inbound: types.Transactions{fund}})
	// 3: deploy the forwarder contract
	if !s.noLockups {
		hb := n0.z.Hc.GetBlockByHash(n0.z.Hc.CurrentHeader().Hash())
		gp := new(big.Int).Mul(hb.BaseFee(), big.NewInt(3))
		tx, err := types.SignNewTx(id.quaiK, types.NewSigner(n0.z.Config.ChainID, loc), &types.QuaiTx{ChainID: n0.z.Config.ChainID, Nonce: 0, GasPrice: gp, Gas: 600000, To: nil, Value: big.NewInt(0), Data: id.deployCode, AccessList: types.AccessList{{Address: id.contract}}})
		if err != nil {
			panic(err)
		}
		var tg []string
		if !n0.submitQuaiTx(tx, &tg, "deploy") {
			fail("deploy: " + strings.Join(tg, ","))
			n0.close()
			close0()
			return
		}
	}
	step(n0, "P", &blockOpts{noContent: true, miner: 0})
	if !s.noLockups {
		hb := n0.z.Hc.GetBlockByHash(n0.z.Hc.CurrentHeader().Hash())
		st, err := n0.z.StateAt(hb)
		ic, _ := id.contract.InternalAddress()
		if err != nil || len(st.GetCode(ic)) == 0 {
			fail("deploy: no code at contract address")
			n0.close()
			close0()
			return
		}
	}
	nBase := 3 + r.Intn(4)
	if s.Kind == "deep" {
		nBase = 6
	}
	for i := 0; i < nBase; i++ {
		step(n0, "P", s.randomOpts(r))
	}
	if s.Kind == "f6" || s.Kind == "double" {
		s.f6Base(n0, r, step)
	}
	if s.Kind == "chain" {
		s.chainBase(n0, r, step)
	}
	fork := s.blocks[n0.z.Hc.CurrentHeader().Hash()]
	s.decideInbound(n0, r, s.forkInbound(r))
	snapF := snapshot(db0)
	n0.close()
	close0()

	// ---- branches, each on its own node
	type branchPlan struct {
		name  string
		depth int
		from  string // "F" or "A"
		at    int    // fork after A[at-1] (1..len(A)-1)
	}
	plans := []branchPlan{{"A", 1 + r.Intn(5), "F", 0}, {"B", 1 + r.Intn(5), "F", 0}}
	switch s.Kind {
	case "deep":
		plans[0].depth, plans[1].depth = 5, 5
	case "f6", "double", "chain":
		plans[0].depth, plans[1].depth = 2, 2
	}
	if s.Kind == "random" && r.Chance(40) && plans[0].depth >= 2 {
		plans = append(plans, branchPlan{"C", 1 + r.Intn(3), "A", 1 + r.Intn(plans[0].depth-1)})
	}
	branches := map[string][]*blockInfo{}
	var snapAk []kv
	for _, bp := range plans {
		dbb, closeb := newBackend("memorydb")
		if bp.from == "F" {
			restore(dbb, snapF)
		} else {
			restore(dbb, snapAk)
		}
		nb := openNode(dbb, s.Index)
		cAt := 0
		for _, q := range plans {
			if q.from == "A" {
				cAt = q.at
			}
		}
		for i := 0; i < bp.depth; i++ {
			var o *blockOpts
			switch {
			case s.Kind == "f6":
				o = s.f6Opts(bp.name, i, r)
			case s.Kind == "double":
				o = &blockOpts{noContent: true, miner: 0}
			case s.Kind == "chain":
				o = s.chainOpts(bp.name, i, r)
			default:
				o = s.randomOpts(r)
			}
			if i == 0 { // siblings must differ: different miner identity
				o.miner = map[string]int{"A": 0, "B": 1, "C": 2}[bp.name]
				if s.Kind == "random" && !s.noLockups && r.Bool() {
					o.miner += 4 // 4,5 pay into the lockup contract; (6 -> Quai coinbase, lockup byte 2)
					if o.miner == 6 {
						o.miner = 2
					}
				}
			}
			bi := step(nb, bp.name, o)
			branches[bp.name] = append(branches[bp.name], bi)
			if bp.name == "A" && i+1 == cAt {
				s.decideInbound(nb, r, nil)
				snapAk = snapshot(dbb)
			}
		}
		nb.close()
		closeb()
	}

	// ---- the node under test
	dbT, closeT := newBackend(s.Backend)
	defer closeT()
	restore(dbT, snapF)
	nt := openNode(dbT, s.Index)
	defer nt.close()
	for _, name := range []string{"A", "B", "C"} {
		for _, bi := range branches[name] {
			w := bi.wo
			nt.z.Locked(func() { nt.z.Store(w) })
			if len(bi.inbound) > 0 {
				rawdb.WriteInboundEtxs(dbT, bi.hash, bi.inbound)
			}
		}
	}
	if nt.z.Hc.CurrentHeader().Hash() != fork.hash {
		fail("reopen: head of the restored database is not the fork point")
		return
	}
	// targets
	tip := func(n string) *blockInfo { b := branches[n]; return b[len(b)-1] }
	var targets []*blockInfo
	targets = append(targets, tip("A"), tip("B"), tip("A"), fork)
	var all []*blockInfo
	for _, name := range []string{"A", "B", "C"} {
		all = append(all, branches[name]...)
	}
	base := s.pathFrom(gen.Hash(), fork.hash)
	for i := len(base) - 1; i >= 0 && i >= len(base)-3; i-- {
		if base[i].num >= 4 { // never below the contract deployment
			all = append(all, base[i])
		}
	}
	extra := 3 + r.Intn(4)
	if rn.tier == "thorough" {
		extra += 4
	}
	if len(branches["C"]) > 0 {
		targets = append(targets, tip("C"), tip("B"), tip("C"))
	}
	for i := 0; i < extra; i++ {
		targets = append(targets, all[r.Intn(len(all))])
	}
	targets = append(targets, tip("B"))

	cur := fork
	visited := map[common.Hash]*image{}
	f6Seen := false
	mixedSeen := false
	for si, tgt := range targets {
		if tgt.hash == cur.hash {
			continue
		}
		cid := rn.nextID
		rn.nextID++
		cj := caseJSON{Id: cid, Kind: "reorg", Scenario: s.ID, ScnSeed: s.Seed, ScnKind: s.Kind, Backend: s.Backend, DelegChg: s.allowDelegateChange, NoLockup: s.noLockups, NoChain: s.noChain, Index: s.Index, Switch: si,
			From: fmt.Sprintf("%s#%d", cur.branch, cur.num), To: fmt.Sprintf("%s#%d", tgt.branch, tgt.num)}
		anc := s.commonAncestor(cur.hash, tgt.hash)
		olds := s.pathFrom(anc, cur.hash)
		news := s.pathFrom(anc, tgt.hash)
		cj.Rolled, cj.Applied = len(olds), len(news)
		ancImg := s.blocks[anc].img
		maxN := s.maxNum + 1
		// real undo records the rollback is going to read
		var oldEff []*effect
		undoOK := true
		for _, b := range olds {
			u, err := readUndo(dbT, b.wo)
			if err != nil {
				undoOK = false
				break
			}
			oldEff = append(oldEff, merge(b.eff, u))
		}
		if !undoOK {
			rn.rep.Fail("undo-records-unreadable", "undo records of a canonical block cannot be read", cj)
			return
		}
		pre := scan(nt, maxN)
		tsw := time.Now()
		err := nt.z.LockedSetHead(tgt.wo)
		tSwitch += time.Since(tsw)
		post := scan(nt, maxN)
		rn.rep.Evaluations++
		rn.rep.TracesValidated++
		var newEff []*effect
		for _, b := range news {
			newEff = append(newEff, b.eff)
		}
		// well-formedness of the undo logs against the oracle images of the parents
		wfOld, wfNew := true, true
		for i, e := range oldEff {
			ok, bad, _ := wfEffect(s.blocks[olds[i].parent].img, e)
			wfOld = wfOld && ok && !e.incomplete
			f6Seen = f6Seen || bad
			mixedSeen = mixedSeen || mixedAddress(e)
		}
		for i, e := range newEff {
			ok, _, _ := wfEffect(s.blocks[news[i].parent].img, e)
			wfNew = wfNew && ok && !e.incomplete
		}

		// ---------------- monitors
		failed := false
		sig := func(component string) string {
			if f6Seen {
				return "lockup-undo-record-carries-new-delegate"
			}
			if component == "address-index-intra" {
				return "address-index-rollback-keeps-output-created-and-spent-in-block"
			}
			if component == "address-index" && mixedSeen {
				return "address-index-rollback-loses-restored-outpoints"
			}
			return "reorg-not-exact/" + component
		}
		report := func(component, what string) {
			first := !failed
			failed = true
			msg := fmt.Sprintf("%s [scenario %d %s/%s switch %d: %s -> %s, %d rolled back, %d re-appended]", what, s.ID, s.Kind, s.Backend, si, cj.From, cj.To, len(olds), len(news))
			if first { // every failing switch is listed once (the driver matches model mismatches against listed cases)
				rn.rep.Fail(sig(component), msg, cj)
				return
			}
			rn.failCapped(sig(component), fmt.Sprintf("%s [scenario %d %s/%s switch %d: %s -> %s, %d rolled back, %d re-appended]", what, s.ID, s.Kind, s.Backend, si, cj.From, cj.To, len(olds), len(news)), cj)
		}
		if err != nil {
			report("error", "SetCurrentHeader returned an error: "+err.Error())
		}
		want := tgt.img
		// M1: exactly the state of a node that only saw the winning branch
		if !kvsEqual(post.Ut, want.Ut) {
			report("utxo", "Qi outputs differ from the node that only saw the winning branch: "+kvsDiff(post.Ut, want.Ut))
		}
		if !kvsEqual(post.Cl, want.Cl) {
			report("lockups", "lockup records differ from the node that only saw the winning branch: "+kvsDiff(post.Cl, want.Cl))
		}
		if !canonEqual(post.Canon, want.Canon) {
			report("canonical", "canonical number->hash map differs from the winning branch")
		}
		if post.Head != tgt.hash || post.MemHead != tgt.hash {
			report("head", fmt.Sprintf("head pointers: db %s memory %s want %s", short(post.Head), short(post.MemHead), short(tgt.hash)))
		}
		if s.Index {
			if !kvsEqual(post.Au, want.Au) && onlyIntraBlockLeftovers(post.Au, want.Au, oldEff) {
				report("address-index-intra", "address->outpoints index still lists outputs that a rolled-back block created AND spent (the removal loop of the rollback looks the owner up in the database, where such an output never was): "+clip(kvsDiff(post.Au, want.Au), 400))
			} else if !kvsEqual(post.Au, want.Au) {
				report("address-index", "address->outpoints index differs (as sets) from the node that only saw the winning branch: "+kvsDiff(post.Au, want.Au))
			}
			if !kvsEqual(post.Al, want.Al) {
				report("address-lockups", "address->locked balance index differs from the node that only saw the winning branch: "+kvsDiff(post.Al, want.Al))
			}
		}
		// M1b: an output that a rolled-back block created AND spent (tx2 spends an output of tx1 of the
		// same block) exists on no chain; the rollback first re-creates it (spent record) and then
		// deletes it (created-key record) in one batch: it must be absent, i.e. unspendable
		{
			createdByNew := map[string]bool{}
			for _, e := range newEff {
				for _, c := range e.createdKeys {
					createdByNew[string(stripDen(c))] = true
				}
			}
			for _, e := range oldEff {
				for _, sp := range e.spent {
					if !keyIn(sp.k, e.createdKeys) && !func() bool {
						for _, c := range e.createdKeys {
							if bytes.Equal(stripDen(c), sp.k) {
								return true
							}
						}
						return false
					}() {
						continue
					}
					if _, present := imgLookup(post.Ut, sp.k); present && !createdByNew[string(sp.k)] {
						report("intra-block-output-resurrected", fmt.Sprintf("output %x, created and spent inside rolled-back block #%d, is back in the UTXO set after the reorganisation (spendable although no canonical transaction creates it)", sp.k, e.num))
					}
				}
			}
		}
		// M2: canonical map = ancestry of the target, nothing above it
		{
			h := tgt.hash
			okc := true
			for n := int(tgt.num); n >= 0; n-- {
				if n >= len(post.Canon) || post.Canon[n] != h {
					okc = false
				}
				if bi := s.blocks[h]; bi != nil {
					h = bi.parent
				}
			}
			for n := int(tgt.num) + 1; n < len(post.Canon); n++ {
				if post.Canon[n] != (common.Hash{}) {
					okc = false
				}
			}
			if !okc {
				report("canonical", "canonical map is not the ancestry of the new head")
			}
		}
		// M3: switching back restores the image seen before at this block
		if v, ok := visited[tgt.hash]; ok {
			if !kvsEqual(v.Ut, post.Ut) || !kvsEqual(v.Cl, post.Cl) || !canonEqual(v.Canon, post.Canon) || v.Head != post.Head {
				report("switch-back", "state differs from the state the node had the previous time at this block")
			}
		}
		// M4: undo-record view — nothing created only on the abandoned part remains, nothing it spent stays missing
		if !failed {
			createdNew, deletedNew, lkNew := map[string]bool{}, map[string]bool{}, map[string]bool{}
			for _, e := range newEff {
				for _, c := range e.createdKeys {
					createdNew[string(stripDen(c))] = true
				}
				for _, x := range append(append([]kv{}, e.spent...), e.trimmed...) {
					deletedNew[string(x.k)] = true
				}
				for _, w := range e.lkWrites {
					lkNew[string(w.k)] = true
				}
			}
			createdOld := map[string]bool{}
			for _, e := range oldEff {
				for _, c := range e.createdKeys {
					createdOld[string(stripDen(c))] = true
				}
			}
			for _, e := range oldEff {
				for _, c := range e.createdKeys {
					k := stripDen(c)
					if _, present := imgLookup(post.Ut, k); present && !createdNew[string(k)] {
						report("abandoned-output", fmt.Sprintf("output %x created only on the abandoned branch is still present", k))
					}
				}
				for _, x := range append(append([]kv{}, e.spent...), e.trimmed...) {
					if createdOld[string(x.k)] || deletedNew[string(x.k)] || createdNew[string(x.k)] {
						continue
					}
					if v, present := imgLookup(post.Ut, x.k); !present || !bytes.Equal(v, x.v) {
						report("spent-missing", fmt.Sprintf("output %x spent on the abandoned branch is not restored", x.k))
					}
				}
				for _, k := range e.lkCreated {
					if _, present := imgLookup(post.Cl, k); present && !lkNew[string(k)] {
						report("abandoned-lockup", fmt.Sprintf("lockup %x created only on the abandoned branch is still present", k))
					}
				}
			}
		}
		// M5: re-execution wrote the same undo records as the node that only saw this branch
		if !failed {
			for _, b := range news {
				u, err := readUndo(dbT, b.wo)
				if err != nil || !sameUndo(u, b.eff) {
					report("undo-records", fmt.Sprintf("undo records of re-appended block %s#%d differ from the ones written by the node that only saw this branch", b.branch, b.num))
					break
				}
			}
		}

		// ---------------- model case
		term := fmt.Sprintf("C10.CReorg %d\n  %s\n  %s\n  %s\n  %s\n  %s %s %s", cid, coqImage(ancImg), coqEffects(oldEff), coqEffects(newEff),
			coqImage(pre), coqImage(post), hlib.CoqBool(wfOld), hlib.CoqBool(wfNew))
		rn.cw.Add(term, cj)
		rn.rep.Sample(cj)

		// distribution / non-triviality
		rn.rep.Count(fmt.Sprintf("rolled-back:%d", len(olds)))
		rn.rep.Count(fmt.Sprintf("re-appended:%d", len(news)))
		rn.rep.Count("backend:" + s.Backend)
		feat := map[string]bool{}
		for _, b := range olds {
			for _, t := range b.tags {
				if strings.HasPrefix(t, "undo:") || t == "lockup-claimed" || t == "created-and-spent-in-block" {
					feat["old-"+t] = true
				}
				if strings.HasPrefix(t, "intra-block-chain-depth:") {
					rn.rep.Count("rolled-back-block:" + t)
				}
			}
		}
		for _, b := range news {
			for _, t := range b.tags {
				if strings.HasPrefix(t, "undo:") || t == "lockup-claimed" || t == "created-and-spent-in-block" {
					feat["new-"+t] = true
				}
			}
		}
		// an output created on the old branch and spent later on the same branch
		for i, e := range oldEff {
			for _, x := range e.spent {
				for j := 0; j < i; j++ {
					for _, c := range oldEff[j].createdKeys {
						if bytes.Equal(stripDen(c), x.k) {
							feat["old-created-then-spent-on-branch"] = true
						}
					}
				}
				if _, pre := imgLookup(ancImg.Ut, x.k); pre {
					feat["old-spends-pre-fork-output"] = true
				}
			}
		}
		if _, ok := visited[tgt.hash]; ok {
			feat["switch-back"] = true
		}
		if !wfOld {
			feat["undo-log-not-wf"] = true
		}
		fs := hlib.SortedKeys(feat)
		for _, f := range fs {
			rn.rep.Count("feature:" + f)
		}
		if len(olds) > 0 && len(fs) > 0 {
			rn.rep.Nontrivial(fmt.Sprintf("%d/%d/%s", len(olds), len(news), strings.Join(fs, ",")))
		}
		visited[tgt.hash] = post
		cur = tgt
		if failed {
			rn.rep.Count("scenario-stopped-after-failure")
			break
		}
	}
	// content distribution of the blocks of this scenario
	for _, bi := range s.blocks {
		for _, t := range bi.tags {
			rn.rep.Count("block:" + t)
		}
	}
}

func sortedKvs(l []kv) []kv {
	c := append([]kv{}, l...)
	sort.Slice(c, func(i, j int) bool {
		if x := bytes.Compare(c[i].k, c[j].k); x != 0 {
			return x < 0
		}
		return bytes.Compare(c[i].v, c[j].v) < 0
	})
	return c
}

func sameUndo(a, b *effect) bool {
	ks := func(l [][]byte) []kv {
		var o []kv
		for _, k := range l {
			o = append(o, kv{k, nil})
		}
		return sortedKvs(o)
	}
	return kvsEqual(sortedKvs(a.spent), sortedKvs(b.spent)) && kvsEqual(sortedKvs(a.trimmed), sortedKvs(b.trimmed)) &&
		kvsEqual(ks(a.createdKeys), ks(b.createdKeys)) && kvsEqual(ks(a.lkCreated), ks(b.lkCreated)) &&
		kvsEqual(sortedKvs(a.lkDeleted), sortedKvs(b.lkDeleted))
}

func (s *scenario) randomOpts(r *hlib.Rng) *blockOpts {
	o := &blockOpts{miner: -1, spends: r.Pick(3, 4, 2), claim: !s.noLockups && r.Chance(35)}
	// blocks a foreign miner can build: chains of Qi spends inside one block (tx2 spends an output of tx1 ...)
	if !s.noChain && r.Chance(45) {
		o.chain = 1 + r.Intn(3)
		o.chainPct = 60 + 20*r.Intn(3)
		o.spends = 2 + o.chain + r.Intn(2)
	}
	return o
}

// chain corpus scenario: the fork point holds fresh unlocked outputs of large denominations; the
// first block of A carries chains of depth up to 4 (every link taken), the first block of B chains
// of depth up to 3, the second blocks random content with chains; rolled back and re-appended in
// both directions.
func (s *scenario) chainBase(n *node, r *hlib.Rng, step func(*node, string, *blockOpts) *blockInfo) {
	var inb types.Transactions
	for j := 0; j < 8; j++ {
		h := common.BytesToHash(r.Bytes(32))
		to := id.qiA[j%3]
		inb = append(inb, types.NewTx(&types.ExternalTx{OriginatingTxHash: h, ETXIndex: uint16(j), Gas: 21000, To: &to, Value: big.NewInt(int64(8 + j%3)), Sender: id.farQi, EtxType: types.DefaultType}))
	}
	step(n, "P", &blockOpts{noContent: true, miner: 0, forceInb: true, inbound: inb})
	step(n, "P", &blockOpts{noContent: true, miner: 0})
}

func (s *scenario) chainOpts(branch string, i int, r *hlib.Rng) *blockOpts {
	switch {
	case i == 0 && branch == "A":
		return &blockOpts{miner: 0, spends: 7, chain: 3, chainPct: 100}
	case i == 0:
		return &blockOpts{miner: 0, spends: 5, chain: 2, chainPct: 100}
	}
	o := s.randomOpts(r)
	if o.chain == 0 {
		o.chain, o.chainPct, o.spends = 2, 100, 4
	}
	return o
}

func (s *scenario) forkInbound(r *hlib.Rng) *blockOpts {
	if s.Kind == "f6" {
		return &blockOpts{forceInb: true, inbound: types.Transactions{lockupCoinbase(r, id.qiMiner, 1, &id.delegates[1], den(8))}}
	}
	if s.Kind == "double" {
		// two top-ups of the same tranche in one block (no delegate anywhere): the restore order of
		// the two undo records of that block decides which value survives a rollback
		return &blockOpts{forceInb: true, inbound: types.Transactions{lockupCoinbase(r, id.qiMiner, 1, nil, den(8)), lockupCoinbase(r, id.qiMiner, 1, nil, den(7))}}
	}
	return nil
}

func lockupCoinbase(r *hlib.Rng, to common.Address, lb byte, delegate *common.Address, v *big.Int) *types.Transaction {
	h := common.BytesToHash(r.Bytes(32))
	data := append([]byte{lb}, id.contract.Bytes()...)
	if delegate != nil {
		data = append(data, delegate.Bytes()...)
	}
	data = append(data, h.Bytes()...)
	return types.NewTx(&types.ExternalTx{OriginatingTxHash: h, Gas: 21000, To: &to, Value: new(big.Int).Set(v), Data: data, Sender: to, EtxType: types.CoinbaseType})
}

// f6 corpus scenario (finding F6): the base creates a tranche WITHOUT delegate in the current
// epoch; the fork point delivers to both branches a coinbase into the same tranche naming a
// delegate (first update of the key in the block changes the delegate). Rolling that block
// back restores a record carrying the delegate.
func (s *scenario) f6Base(n *node, r *hlib.Rng, step func(*node, string, *blockOpts) *blockInfo) {
	// make the next three blocks fall into one epoch: pad to an epoch boundary
	for (n.headNum()+1)%params.CoinbaseEpochBlocks != 0 {
		step(n, "P", &blockOpts{noContent: true, miner: 0})
	}
	// child of the current head creates the tranche (no delegate)
	step(n, "P", &blockOpts{noContent: true, miner: 0, forceInb: true, inbound: types.Transactions{lockupCoinbase(r, id.qiMiner, 1, nil, den(8))}})
	step(n, "P", &blockOpts{noContent: true, miner: 0})
}

func (s *scenario) f6Opts(branch string, i int, r *hlib.Rng) *blockOpts {
	o := &blockOpts{noContent: true, miner: 0}
	if i == 1 {
		// the children of A1/B1 top the same tranche up again (same delegate as A1/B1 named)
		o.forceInb = true
		o.inbound = types.Transactions{lockupCoinbase(r, id.qiMiner, 1, &id.delegates[1], den(8))}
	}
	return o
}

// ---------------------------------------------------------------- AddNewLock unit cases

type addLockCase struct {
	Old      string `json:"old"` // hex, "" = none
	Value    string `json:"value"`
	Unlock   uint64 `json:"unlock_height"`
	Delegate string `json:"delegate"` // hex 20 bytes or ""
	Seed     uint64 `json:"seed"`
}

func (rn *runner) addLockCases(r0 *hlib.Rng, n int) {
	for i := 0; i < n; i++ {
		cid := rn.nextID
		rn.nextID++
		rn.addLockOne(r0.Next(), cid)
	}
}

func (rn *runner) addLockOne(seed uint64, cid uint64) {
	owner := id.contract
	r := hlib.NewRng(seed)
	{
		db := rawdb.NewMemoryDatabase(logger)
		sdb, err := state.New(types.EmptyRootHash, types.EmptyRootHash, big.NewInt(0), state.NewDatabase(db), state.NewDatabase(db), nil, loc, logger)
		if err != nil {
			panic(err)
		}
		miner := id.miners[r.Intn(2)]
		lb := byte(r.Intn(4))
		epoch := uint32(1 + r.Intn(5))
		key := rawdb.CoinbaseLockupKey(owner, miner, lb, epoch)
		var old []byte
		switch r.Pick(3, 5, 5, 1) {
		case 0: // no record
		case 1: // record without delegate
			old, _ = rawdb.WriteCoinbaseLockupToSlice(big.NewInt(int64(1+r.Intn(1e9))), uint32(4*(1+r.Intn(5))), uint16(1+r.Intn(5)), common.Zero)
		case 2: // record with delegate
			old, _ = rawdb.WriteCoinbaseLockupToSlice(big.NewInt(int64(1+r.Intn(1e9))), uint32(4*(1+r.Intn(5))), uint16(1+r.Intn(5)), id.delegates[r.Intn(3)])
		case 3: // record with height 0 (treated as absent) / elements at the uint16 limit
			if r.Bool() {
				old, _ = rawdb.WriteCoinbaseLockupToSlice(big.NewInt(77), 0, 3, id.delegates[0])
			} else {
				old, _ = rawdb.WriteCoinbaseLockupToSlice(big.NewInt(77), 8, 65535, common.Zero)
			}
		}
		if old != nil {
			db.Put(key, old)
		}
		var delegate common.Address
		var dbytes []byte
		switch r.Pick(3, 5, 1) {
		case 0:
			delegate = common.Zero
		case 1:
			delegate = id.delegates[r.Intn(3)]
			dbytes = delegate.Bytes()
		case 2:
			delegate = common.BytesToAddress(make([]byte, 20), loc) // 20 zero bytes given explicitly
			dbytes = make([]byte, 20)
		}
		value := big.NewInt(int64(1 + r.Intn(1e9)))
		unlock := uint64(4 + r.Intn(40))
		batch := db.NewBatch()
		batch.SetPending(true)
		var obs string
		func() {
			defer func() {
				if e := recover(); e != nil {
					obs = "BErr"
					rn.rep.Count("addlock:panic")
				}
			}()
			deleted, oldData, k2, _, newHash, err := vm.AddNewLock(sdb, batch, owner, miner, delegate, common.OneInternal(loc), lb, unlock, epoch, value, loc, logger, common.Hash{}, true)
			if err != nil || newHash == (common.Hash{}) {
				obs = "BErr"
				rn.rep.Count("addlock:error")
				return
			}
			batch.Write()
			nv, _ := db.Get(k2)
			if !bytes.Equal(k2, key) {
				obs = "BErr"
				return
			}
			if deleted {
				obs = fmt.Sprintf("(BUpdated %s %s)", cb(oldData), cb(nv))
				rn.rep.Count("addlock:updated")
				if old != nil && !bytes.Equal(oldData, old) {
					// independent monitor: the undo bytes must be the bytes that were stored
					rn.failCapped("lockup-undo-record-carries-new-delegate", fmt.Sprintf("AddNewLock returned oldLockupData %x for a record that was %x", oldData, old),
						caseJSON{Id: cid, Kind: "addlock", AddLock: &addLockCase{Old: hlib.Hex(old), Seed: seed}})
				}
			} else {
				obs = fmt.Sprintf("(BCreated %s)", cb(nv))
				rn.rep.Count("addlock:created")
			}
		}()
		oldTerm := "None"
		if old != nil {
			oldTerm = "(Some " + cb(old) + ")"
		}
		term := fmt.Sprintf("C10.CAddLock %d %s %s %d %d %s %s", cid, oldTerm, value.String(), unlock, params.CoinbaseEpochBlocks, cb(dbytes), obs)
		rn.cw.Add(term, caseJSON{Id: cid, Kind: "addlock", AddLock: &addLockCase{Old: hlib.Hex(old), Value: value.String(), Unlock: unlock, Delegate: hlib.Hex(dbytes), Seed: seed}})
		rn.rep.Evaluations++
		rn.rep.TracesValidated++
		rn.rep.Nontrivial("addlock/" + strings.SplitN(obs, " ", 2)[0] + fmt.Sprint(len(old), len(dbytes)))
	}
}

// ---------------------------------------------------------------- main

func main() {
	f := hlib.ParseFlags()
	logger = hlib.QuietLogs()
	if os.Getenv("VLOG") != "" {
		log.Global.SetOutput(os.Stderr)
	}
	setSchedule()
	makeIdentities()
	var err error
	tmpDir, err = os.MkdirTemp("", "verif-c10-")
	if err != nil {
		panic(err)
	}
	defer os.RemoveAll(tmpDir)
	rep := hlib.NewReport("C10", "a case = one real HeaderChain.SetCurrentHeader between two blocks of a tree of real blocks (base chain + 2..3 branches of depth 1..5 built by the real worker: "+
		"Qi coinbases, cross-zone Qi transfers, conversions, signed Qi spends, trimming, lockup-contract coinbases with/without delegate, claims) on memorydb/leveldb/pebble (every 4th random scenario with IndexAddressUtxos: address index compared by monitors only), or one real vm.AddNewLock call; "+
		"non-trivial = at least one block rolled back whose undo records are non-empty; distinct by (blocks rolled back, blocks re-appended, set of undo-record kinds involved)")
	cw := hlib.NewCaseWriter(f.Out, "From Coq Require Import List NArith Bool Uint63.\nFrom GQ Require Import Lib.Key Lib.SMap Model.C10.\nImport ListNotations.\nLocal Open Scope N_scope.\n", "C10.case", 25)
	rn := &runner{rep: rep, cw: cw, tier: f.Tier, nextID: 1}
	rng := hlib.NewRng(f.Seed)

	backends := []string{"memorydb", "leveldb", "pebble"}
	mk := func(i int, kind, backend string, seed uint64) *scenario {
		s := &scenario{ID: i, Seed: seed, Backend: backend, Kind: kind}
		if kind == "f6" {
			s.allowDelegateChange = true
		}
		return s
	}
	if f.Replay != "" {
		var c caseJSON
		hlib.ReadReplayCase(f.Replay, &c)
		if c.Kind == "addlock" && c.AddLock != nil {
			rn.addLockOne(c.AddLock.Seed, c.Id)
		} else {
			s := mk(c.Scenario, c.ScnKind, c.Backend, c.ScnSeed)
			s.allowDelegateChange, s.noLockups, s.noChain, s.Index = c.DelegChg, c.NoLockup, c.NoChain, c.Index
			rn.nextID = 1
			rn.runScenario(s)
		}
		cw.Close()
		rep.Write(f.Out)
		os.RemoveAll(tmpDir)
		os.Exit(0)
	}

	// corpus first: one scenario per known finding / boundary shape, on every backend
	sid := 0
	for _, bk := range backends {
		for _, kind := range []string{"f6", "deep", "double"} {
			rn.runScenario(mk(sid, kind, bk, 1000+uint64(sid)))
			sid++
		}
	}
	// chains of Qi spends inside one block on both branches (every backend, and once with the wallet index)
	for i, bk := range []string{"memorydb", "leveldb", "pebble", "memorydb"} {
		s := mk(sid, "chain", bk, 2000+uint64(sid))
		s.Index = i == 3
		rn.runScenario(s)
		sid++
	}
	rn.addLockCases(rng.Fork(), 120)
	// random scenarios
	for i := 0; i < f.N; i++ {
		s := mk(sid, "random", backends[i%len(backends)], rng.Next())
		if i%7 == 3 {
			s.allowDelegateChange = true
		}
		if i%11 == 5 {
			s.noLockups = true
		}
		if i%4 == 1 || os.Getenv("C10_INDEX") != "" {
			s.Index = true // wallet index (IndexAddressUtxos): monitors only, not in the model
			// the index has a known defect on blocks with intra-block chains (the scenario stops at the
			// first failing switch): every second index scenario runs without chains
			s.noChain = i%8 == 5
		}
		rn.runScenario(s)
		sid++
	}
	cw.Close()
	rep.Write(f.Out)
	if os.Getenv("C10_TIMING") != "" {
		fmt.Fprintln(os.Stderr, "open", tOpen, "close", tClose, "gen", tGen, "switch", tSwitch)
	}
	_ = filepath.Join
	os.RemoveAll(tmpDir)
	os.Exit(0)
}

module verifharness

go 1.23.4

require (
	github.com/btcsuite/btcd/btcec/v2 v2.3.2
	github.com/dominant-strategies/go-quai v0.0.0
	github.com/holiman/uint256 v1.2.4
	github.com/libp2p/go-libp2p-pubsub v0.10.0
	github.com/sirupsen/logrus v1.9.3
	google.golang.org/protobuf v1.36.6
	lukechampine.com/blake3 v1.2.1
)

require (
	github.com/DataDog/zstd v1.4.5 // indirect
	github.com/VictoriaMetrics/fastcache v1.12.2 // indirect
	github.com/adrg/xdg v0.4.0 // indirect
	github.com/bahlo/generic-list-go v0.2.0 // indirect
	github.com/benbjohnson/clock v1.3.5 // indirect
	github.com/beorn7/perks v1.0.1 // indirect
	github.com/btcsuite/btcd v0.24.2 // indirect
	github.com/btcsuite/btcd/btcutil v1.1.6 // indirect
	github.com/btcsuite/btcd/chaincfg/chainhash v1.1.0 // indirect
	github.com/btcsuite/btclog v0.0.0-20170628155309-84c8d2346e9f // indirect
	github.com/btcsuite/go-socks v0.0.0-20170105172521-4720035b7bfd // indirect
	github.com/buger/jsonparser v1.1.1 // indirect
	github.com/cespare/xxhash/v2 v2.3.0 // indirect
	github.com/cockroachdb/errors v1.8.1 // indirect
	github.com/cockroachdb/logtags v0.0.0-20190617123548-eb05cc24525f // indirect
	github.com/cockroachdb/pebble v1.0.0 // indirect
	github.com/cockroachdb/redact v1.0.8 // indirect
	github.com/cockroachdb/sentry-go v0.6.1-cockroachdb.2 // indirect
	github.com/davecgh/go-spew v1.1.2-0.20180830191138-d8f796af33cc // indirect
	github.com/dchest/siphash v1.2.3 // indirect
	github.com/deckarep/golang-set v1.8.0 // indirect
	github.com/decred/dcrd/crypto/blake256 v1.0.1 // indirect
	github.com/decred/dcrd/dcrec/secp256k1/v4 v4.2.0 // indirect
	github.com/dgrijalva/jwt-go v3.2.0+incompatible // indirect
	github.com/dominant-strategies/bn256 v0.0.0-20250117181620-a3c0ff77c445 // indirect
	github.com/dominant-strategies/ltcd v0.0.0-20251016174055-4ac338381b32 // indirect
	github.com/dominant-strategies/ltcd/btcec/v2 v2.0.0-20251016174055-4ac338381b32 // indirect
	github.com/dominant-strategies/ltcd/chaincfg/chainhash v0.0.0-20251016174055-4ac338381b32 // indirect
	github.com/dominant-strategies/ltcd/ltcutil v0.0.0-20251016174055-4ac338381b32 // indirect
	github.com/dominant-strategies/ltcd/secp256k1_ltc v0.0.0-20251016174055-4ac338381b32 // indirect
	github.com/edsrzf/mmap-go v1.1.0 // indirect
	github.com/fsnotify/fsnotify v1.6.0 // indirect
	github.com/gcash/bchd v0.21.1 // indirect
	github.com/gcash/bchlog v0.0.0-20180913005452-b4f036f92fa6 // indirect
	github.com/gcash/bchutil v0.0.0-20250513235300-39ac514d072b // indirect
	github.com/gogo/protobuf v1.3.2 // indirect
	github.com/golang/snappy v0.0.4 // indirect
	github.com/gorilla/websocket v1.5.0 // indirect
	github.com/hashicorp/golang-lru v0.5.4 // indirect
	github.com/hashicorp/golang-lru/v2 v2.0.5 // indirect
	github.com/hashicorp/hcl v1.0.0 // indirect
	github.com/holiman/bloomfilter/v2 v2.0.3 // indirect
	github.com/ipfs/go-cid v0.4.1 // indirect
	github.com/ipfs/go-log/v2 v2.5.1 // indirect
	github.com/kaspanet/go-muhash v0.0.4 // indirect
	github.com/klauspost/cpuid/v2 v2.2.5 // indirect
	github.com/kr/pretty v0.3.1 // indirect
	github.com/kr/text v0.2.0 // indirect
	github.com/ledgerwatch/secp256k1 v1.0.0 // indirect
	github.com/libp2p/go-buffer-pool v0.1.0 // indirect
	github.com/libp2p/go-flow-metrics v0.1.0 // indirect
	github.com/libp2p/go-libp2p v0.32.1 // indirect
	github.com/libp2p/go-msgio v0.3.0 // indirect
	github.com/magiconair/properties v1.8.7 // indirect
	github.com/mailru/easyjson v0.7.7 // indirect
	github.com/mattn/go-isatty v0.0.20 // indirect
	github.com/mattn/go-runewidth v0.0.12 // indirect
	github.com/mitchellh/mapstructure v1.5.0 // indirect
	github.com/mr-tron/base58 v1.2.0 // indirect
	github.com/multiformats/go-base32 v0.1.0 // indirect
	github.com/multiformats/go-base36 v0.2.0 // indirect
	github.com/multiformats/go-multiaddr v0.12.0 // indirect
	github.com/multiformats/go-multibase v0.2.0 // indirect
	github.com/multiformats/go-multicodec v0.9.0 // indirect
	github.com/multiformats/go-multihash v0.2.3 // indirect
	github.com/multiformats/go-multistream v0.5.0 // indirect
	github.com/multiformats/go-varint v0.0.7 // indirect
	github.com/munnerz/goautoneg v0.0.0-20191010083416-a7dc8b61c822 // indirect
	github.com/natefinch/lumberjack v2.0.0+incompatible // indirect
	github.com/olekukonko/tablewriter v0.0.5 // indirect
	github.com/pkg/errors v0.9.1 // indirect
	github.com/prometheus/client_golang v1.22.0 // indirect
	github.com/prometheus/client_model v0.6.2 // indirect
	github.com/prometheus/common v0.63.0 // indirect
	github.com/prometheus/procfs v0.16.1 // indirect
	github.com/prometheus/tsdb v0.10.0 // indirect
	github.com/remyoudompheng/bigfft v0.0.0-20230129092748-24d4a6f8daec // indirect
	github.com/rivo/uniseg v0.2.0 // indirect
	github.com/rogpeppe/go-internal v1.13.1 // indirect
	github.com/rs/cors v1.11.1 // indirect
	github.com/sagikazarmark/slog-shim v0.1.0 // indirect
	github.com/shirou/gopsutil v3.21.11+incompatible // indirect
	github.com/shirou/gopsutil/v3 v3.23.12 // indirect
	github.com/spaolacci/murmur3 v1.1.0 // indirect
	github.com/spf13/afero v1.10.0 // indirect
	github.com/spf13/cast v1.5.1 // indirect
	github.com/spf13/cobra v1.7.0 // indirect
	github.com/spf13/pflag v1.0.5 // indirect
	github.com/spf13/viper v1.17.0 // indirect
	github.com/subosito/gotenv v1.6.0 // indirect
	github.com/syndtr/goleveldb v1.0.1-0.20210819022825-2ae1ddf74ef7 // indirect
	github.com/tklauser/go-sysconf v0.3.13 // indirect
	github.com/tklauser/numcpus v0.7.0 // indirect
	github.com/wk8/go-ordered-map/v2 v2.1.8
	github.com/zquestz/grab v0.0.0-20190224022517-abcee96e61b1 // indirect
	go.uber.org/multierr v1.11.0 // indirect
	go.uber.org/zap v1.26.0 // indirect
	golang.org/x/crypto v0.38.0 // indirect
	golang.org/x/exp v0.0.0-20231006140011-7918f672742d // indirect
	golang.org/x/sys v0.33.0 // indirect
	golang.org/x/text v0.25.0 // indirect
	gopkg.in/ini.v1 v1.67.0 // indirect
	gopkg.in/yaml.v3 v3.0.1 // indirect
	lukechampine.com/uint128 v1.3.0 // indirect
	modernc.org/mathutil v1.6.0 // indirect
)

replace github.com/dominant-strategies/go-quai => /repo

require github.com/pelletier/go-toml/v2 v2.1.0 // indirect

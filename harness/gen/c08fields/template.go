package main

// Second part of the generator (third strengthening round): the merge-mining proof object.
//   * wire schema of ProtoAuxPow / ProtoAuxTemplate (protoreflect),
//   * AuxPow.ProtoEncode: which receiver field feeds which wire field (this message is what the post-fork identity
//     WorkObjectHeader.Hash() hashes),
//   * AuxPow.ConvertToTemplate: EVERY control-flow path through the function with (a) the conditions taken on it
//     (receiver fields mentioned, whether the condition is a plain `ap.<field> == nil` test) and (b) for every
//     auxTemplate.SetX(...) call on the path the receiver fields its argument is computed from (taint through the
//     local variables),
//   * AuxTemplate.ProtoEncode / Hash: wire fields written, fields cleared before hashing.
// The Coq side states: every field that is hashed into the identity reaches the signed template on every path
// (or the path is the field's own nil-normalisation).

import (
	"fmt"
	"go/ast"
	"go/parser"
	"go/token"
	"os"
	"path/filepath"
	"sort"
	"strings"

	"github.com/dominant-strategies/go-quai/core/types"
	"google.golang.org/protobuf/reflect/protoreflect"
)

func lowerFirst(s string) string {
	if s == "" {
		return s
	}
	return strings.ToLower(s[:1]) + s[1:]
}

type fset map[string]bool

func (a fset) add(b fset) {
	for k := range b {
		a[k] = true
	}
}
func (a fset) list() []string {
	var out []string
	for k := range a {
		out = append(out, k)
	}
	sort.Strings(out)
	return out
}
func (a fset) copy() fset { b := fset{}; b.add(a); return b }

type tguard struct {
	fields  []string
	nilTest string
	taken   bool
}

type tpath struct {
	taint   map[string]fset
	setters map[string]fset
	order   []string
	guards  []tguard
	lits    map[string]fset // composite literal keys -> sources (for ProtoEncode)
	done    bool
}

func (p *tpath) clone() *tpath {
	q := &tpath{taint: map[string]fset{}, setters: map[string]fset{}, lits: map[string]fset{}, done: p.done}
	for k, v := range p.taint {
		q.taint[k] = v.copy()
	}
	for k, v := range p.setters {
		q.setters[k] = v.copy()
	}
	for k, v := range p.lits {
		q.lits[k] = v.copy()
	}
	q.order = append([]string{}, p.order...)
	q.guards = append([]tguard{}, p.guards...)
	return q
}

type walker struct {
	recv    string // receiver identifier
	target  string // identifier whose Set* calls are recorded
	litType string
}

// sources of an expression: receiver fields it reads (directly, through a getter, or through a tainted local)
func (w *walker) src(p *tpath, e ast.Expr) fset {
	out := fset{}
	if e == nil {
		return out
	}
	ast.Inspect(e, func(n ast.Node) bool {
		switch x := n.(type) {
		case *ast.SelectorExpr:
			if id, ok := x.X.(*ast.Ident); ok && id.Name == w.recv {
				out[lowerFirst(x.Sel.Name)] = true
				return false
			}
		case *ast.Ident:
			if t, ok := p.taint[x.Name]; ok {
				out.add(t)
			}
		}
		return true
	})
	return out
}

func (w *walker) nilTest(e ast.Expr) string {
	b, ok := e.(*ast.BinaryExpr)
	if !ok || b.Op != token.EQL {
		return ""
	}
	sel, ok1 := b.X.(*ast.SelectorExpr)
	id, ok2 := b.Y.(*ast.Ident)
	if !ok1 || !ok2 || id.Name != "nil" {
		return ""
	}
	if r, ok := sel.X.(*ast.Ident); ok && r.Name == w.recv {
		return lowerFirst(sel.Sel.Name)
	}
	return ""
}

func (w *walker) lit(p *tpath, e ast.Expr) {
	ast.Inspect(e, func(n ast.Node) bool {
		cl, ok := n.(*ast.CompositeLit)
		if !ok {
			return true
		}
		if id, ok := cl.Type.(*ast.Ident); ok && id.Name == w.litType {
			for _, el := range cl.Elts {
				if kv, ok := el.(*ast.KeyValueExpr); ok {
					if k, ok := kv.Key.(*ast.Ident); ok {
						if p.lits[k.Name] == nil {
							p.lits[k.Name] = fset{}
						}
						p.lits[k.Name].add(w.src(p, kv.Value))
					}
				}
			}
		}
		return true
	})
}

func (w *walker) assign(p *tpath, lhs []ast.Expr, rhs []ast.Expr) {
	all := fset{}
	for _, r := range rhs {
		all.add(w.src(p, r))
		w.lit(p, r)
	}
	for i, l := range lhs {
		id, ok := l.(*ast.Ident)
		if !ok || id.Name == "_" {
			continue
		}
		if len(lhs) == len(rhs) {
			p.taint[id.Name] = w.src(p, rhs[i])
		} else {
			p.taint[id.Name] = all.copy()
		}
	}
}

func (w *walker) run(stmts []ast.Stmt, in []*tpath) []*tpath {
	cur := in
	for _, st := range stmts {
		var next []*tpath
		for _, p := range cur {
			if p.done {
				next = append(next, p)
				continue
			}
			next = append(next, w.stmt(st, p)...)
		}
		cur = next
		if len(cur) > 4096 {
			fmt.Fprintln(os.Stderr, "c08fields: too many paths")
			os.Exit(1)
		}
	}
	return cur
}

func (w *walker) stmt(st ast.Stmt, p *tpath) []*tpath {
	switch s := st.(type) {
	case *ast.AssignStmt:
		w.assign(p, s.Lhs, s.Rhs)
	case *ast.DeclStmt:
		if gd, ok := s.Decl.(*ast.GenDecl); ok {
			for _, sp := range gd.Specs {
				if vs, ok := sp.(*ast.ValueSpec); ok {
					var lhs []ast.Expr
					for _, n := range vs.Names {
						lhs = append(lhs, n)
					}
					w.assign(p, lhs, vs.Values)
				}
			}
		}
	case *ast.ExprStmt:
		if c, ok := s.X.(*ast.CallExpr); ok {
			if sel, ok := c.Fun.(*ast.SelectorExpr); ok {
				if id, ok := sel.X.(*ast.Ident); ok && id.Name == w.target && strings.HasPrefix(sel.Sel.Name, "Set") {
					if p.setters[sel.Sel.Name] == nil {
						p.setters[sel.Sel.Name] = fset{}
						p.order = append(p.order, sel.Sel.Name)
					}
					for _, a := range c.Args {
						p.setters[sel.Sel.Name].add(w.src(p, a))
					}
				}
			}
			// copy(dst, src...): dst is tainted by the sources
			if id, ok := c.Fun.(*ast.Ident); ok && id.Name == "copy" && len(c.Args) == 2 {
				if d, ok := c.Args[0].(*ast.Ident); ok {
					if p.taint[d.Name] == nil {
						p.taint[d.Name] = fset{}
					}
					p.taint[d.Name].add(w.src(p, c.Args[1]))
				}
			}
		}
	case *ast.ReturnStmt:
		for _, r := range s.Results {
			w.lit(p, r)
		}
		p.done = true
	case *ast.BlockStmt:
		return w.run(s.List, []*tpath{p})
	case *ast.IfStmt:
		if s.Init != nil {
			ps := w.stmt(s.Init, p)
			var out []*tpath
			for _, q := range ps {
				out = append(out, w.ifBranches(s, q)...)
			}
			return out
		}
		return w.ifBranches(s, p)
	case *ast.SwitchStmt:
		tag := w.src(p, s.Tag)
		var out []*tpath
		hasDefault := false
		for _, cc := range s.Body.List {
			c := cc.(*ast.CaseClause)
			q := p.clone()
			f := tag.copy()
			for _, e := range c.List {
				f.add(w.src(p, e))
			}
			if c.List == nil {
				hasDefault = true
			}
			q.guards = append(q.guards, tguard{fields: f.list(), taken: true})
			out = append(out, w.run(c.Body, []*tpath{q})...)
		}
		if !hasDefault {
			q := p.clone()
			q.guards = append(q.guards, tguard{fields: tag.list(), taken: false})
			out = append(out, q)
		}
		return out
	case *ast.ForStmt:
		return w.run(s.Body.List, []*tpath{p})
	case *ast.RangeStmt:
		// the loop variables carry what the ranged expression carries
		t := w.src(p, s.X)
		for _, v := range []ast.Expr{s.Key, s.Value} {
			if id, ok := v.(*ast.Ident); ok && id.Name != "_" {
				p.taint[id.Name] = t.copy()
			}
		}
		return w.run(s.Body.List, []*tpath{p})
	}
	return []*tpath{p}
}

func (w *walker) ifBranches(s *ast.IfStmt, p *tpath) []*tpath {
	f := w.src(p, s.Cond).list()
	nt := w.nilTest(s.Cond)
	a := p.clone()
	a.guards = append(a.guards, tguard{fields: f, nilTest: nt, taken: true})
	out := w.run(s.Body.List, []*tpath{a})
	b := p.clone()
	b.guards = append(b.guards, tguard{fields: f, nilTest: nt, taken: false})
	if s.Else != nil {
		out = append(out, w.stmt(s.Else, b)...)
	} else {
		out = append(out, b)
	}
	return out
}

func recvName(fn *ast.FuncDecl) string {
	if fn.Recv != nil && len(fn.Recv.List) == 1 && len(fn.Recv.List[0].Names) == 1 {
		return fn.Recv.List[0].Names[0].Name
	}
	return ""
}

func protoRows(fds protoreflect.FieldDescriptors) string {
	var rows []string
	for i := 0; i < fds.Len(); i++ {
		fd := fds.Get(i)
		rows = append(rows, fmt.Sprintf("(%d, %q)", fd.Number(), goName(string(fd.Name()))))
	}
	return "[" + strings.Join(rows, "; ") + "]"
}

func coqMap(m map[string]fset, order []string) string {
	keys := order
	if keys == nil {
		for k := range m {
			keys = append(keys, k)
		}
		sort.Strings(keys)
	}
	var rows []string
	for _, k := range keys {
		rows = append(rows, fmt.Sprintf("(%q, %s)", k, coqStrs(m[k].list())))
	}
	return "[" + strings.Join(rows, "; ") + "]"
}

func genTemplate(repo string, sb *strings.Builder) {
	fs := token.NewFileSet()
	f, err := parser.ParseFile(fs, filepath.Join(repo, "core/types/auxpow.go"), nil, 0)
	if err != nil {
		fmt.Fprintln(os.Stderr, err)
		os.Exit(1)
	}
	method := func(recv, name string) *ast.FuncDecl {
		for _, d := range f.Decls {
			if x, ok := d.(*ast.FuncDecl); ok && x.Name.Name == name && x.Recv != nil && len(x.Recv.List) == 1 {
				if st, ok := x.Recv.List[0].Type.(*ast.StarExpr); ok {
					if id, ok := st.X.(*ast.Ident); ok && id.Name == recv {
						return x
					}
				}
			}
		}
		fmt.Fprintf(os.Stderr, "method %s.%s not found in core/types/auxpow.go\n", recv, name)
		os.Exit(1)
		return nil
	}
	structFields := func(typeName string) []string {
		var out []string
		for _, d := range f.Decls {
			if x, ok := d.(*ast.GenDecl); ok {
				for _, sp := range x.Specs {
					if ts, ok := sp.(*ast.TypeSpec); ok && ts.Name.Name == typeName {
						if st, ok := ts.Type.(*ast.StructType); ok {
							for _, fl := range st.Fields.List {
								for _, n := range fl.Names {
									out = append(out, n.Name)
								}
							}
						}
					}
				}
			}
		}
		return out
	}
	merge := func(ps []*tpath) map[string]fset {
		m := map[string]fset{}
		for _, p := range ps {
			for k, v := range p.lits {
				if m[k] == nil {
					m[k] = fset{}
				}
				m[k].add(v)
			}
		}
		return m
	}
	newPath := func() []*tpath {
		return []*tpath{{taint: map[string]fset{}, setters: map[string]fset{}, lits: map[string]fset{}}}
	}

	sb.WriteString("(* ---- the merge-mining proof object (core/types/auxpow.go, proto_block.proto) ---- *)\n")
	fmt.Fprintf(sb, "(* message ProtoAuxPow / ProtoAuxTemplate: (field number, Go field name) *)\nDefinition auxpow_proto_fields : list (Z * string) := %s.\nDefinition template_proto_fields : list (Z * string) := %s.\n",
		protoRows((&types.ProtoAuxPow{}).ProtoReflect().Descriptor().Fields()), protoRows((&types.ProtoAuxTemplate{}).ProtoReflect().Descriptor().Fields()))
	fmt.Fprintf(sb, "(* type AuxPow / AuxTemplate: struct fields *)\nDefinition auxpow_struct_fields : list string := %s.\nDefinition template_struct_fields : list string := %s.\n",
		coqStrs(structFields("AuxPow")), coqStrs(structFields("AuxTemplate")))

	// AuxPow.ProtoEncode: wire field <- receiver fields (this message is hashed by WoCustomPowHash = the post-fork identity)
	pe := method("AuxPow", "ProtoEncode")
	w := &walker{recv: recvName(pe), litType: "ProtoAuxPow"}
	fmt.Fprintf(sb, "(* AuxPow.ProtoEncode: wire field written <- receiver fields (getters resolved by name) its value is computed from *)\nDefinition auxpow_encode_map : list (string * list string) := %s.\n",
		coqMap(merge(w.run(pe.Body.List, newPath())), nil))

	// AuxTemplate.ProtoEncode and Hash
	te := method("AuxTemplate", "ProtoEncode")
	w = &walker{recv: recvName(te), litType: "ProtoAuxTemplate"}
	fmt.Fprintf(sb, "(* AuxTemplate.ProtoEncode, same *)\nDefinition template_encode_map : list (string * list string) := %s.\n", coqMap(merge(w.run(te.Body.List, newPath())), nil))
	th := method("AuxTemplate", "Hash")
	var nils []string
	usesEncode := false
	ast.Inspect(th.Body, func(n ast.Node) bool {
		switch x := n.(type) {
		case *ast.AssignStmt:
			for i, l := range x.Lhs {
				if sel, ok := l.(*ast.SelectorExpr); ok && i < len(x.Rhs) {
					if id, ok := x.Rhs[i].(*ast.Ident); ok && id.Name == "nil" {
						nils = append(nils, sel.Sel.Name)
					}
				}
			}
		case *ast.CallExpr:
			if s, ok := x.Fun.(*ast.SelectorExpr); ok && s.Sel.Name == "ProtoEncode" {
				usesEncode = true
			}
		}
		return true
	})
	sort.Strings(nils)
	fmt.Fprintf(sb, "(* AuxTemplate.Hash (the signed message): wire fields set to nil before hashing; whether it hashes ProtoEncode() *)\nDefinition template_hash_nils : list string := %s.\nDefinition template_hash_uses_encode : bool := %v.\n", coqStrs(nils), usesEncode)

	// AuxPow.ConvertToTemplate: all paths
	ct := method("AuxPow", "ConvertToTemplate")
	target := "auxTemplate"
	// the local that is returned
	ast.Inspect(ct.Body, func(n ast.Node) bool {
		if r, ok := n.(*ast.ReturnStmt); ok && len(r.Results) == 1 {
			if id, ok := r.Results[0].(*ast.Ident); ok {
				target = id.Name
			}
		}
		return true
	})
	w = &walker{recv: recvName(ct), target: target, litType: "-"}
	paths := w.run(ct.Body.List, newPath())
	var rows []string
	for _, p := range paths {
		var gs []string
		for _, g := range p.guards {
			gs = append(gs, fmt.Sprintf("(%s, %q, %v)", coqStrs(g.fields), g.nilTest, g.taken))
		}
		rows = append(rows, fmt.Sprintf("  ([%s],\n   %s)", strings.Join(gs, "; "), coqMap(p.setters, p.order)))
	}
	sb.WriteString("(* AuxPow.ConvertToTemplate (the template the MuSig2 signature is verified over), every control-flow path:\n" +
		"   ( conditions on the path: (receiver fields the condition reads, F if the condition is literally `recv.F == nil`, branch taken),\n" +
		"     template setter called on the path <- receiver fields its argument is computed from ) *)\n")
	fmt.Fprintf(sb, "Definition convert_paths : list (list (list string * string * bool) * list (string * list string)) := [\n%s].\n\n", strings.Join(rows, ";\n"))
}

// gen c16sites: emits coq/Generated/C16Sites.v from the repository under check:
//   - the constants the C16 model depends on (compiled values of the linked packages:
//     the module's `replace` points at the repository under check),
//   - the ledger predicates' (byte index, operator, literal) read from the AST of every
//     IsInQiLedgerScope / IsInQuaiLedgerScope copy in common/,
//   - an inventory of every call of common.BytesToAddress outside tests, keyed by
//     file:function (no line numbers), with a crude classification of the shape of
//     the byte argument (provably 20 bytes by syntax vs anything else).
// Proofs/C16.v carries the obligations: constants as modelled, all predicate copies
// identical, and "the set of not-provably-20-byte call sites equals the reviewed list".
package main

import (
	"flag"
	"fmt"
	"go/ast"
	"go/parser"
	"go/token"
	"os"
	"path/filepath"
	"sort"
	"strconv"
	"strings"

	"github.com/dominant-strategies/go-quai/common"
	"github.com/dominant-strategies/go-quai/params"
)

// constant integer expressions made of literals, AddressLength and + -
func constInt(e ast.Expr) (int, bool) {
	switch x := e.(type) {
	case *ast.BasicLit:
		if x.Kind == token.INT {
			v, err := strconv.ParseInt(x.Value, 0, 64)
			return int(v), err == nil
		}
	case *ast.Ident:
		if x.Name == "AddressLength" {
			return common.AddressLength, true
		}
		if x.Name == "HashLength" {
			return common.HashLength, true
		}
	case *ast.SelectorExpr:
		if id, ok := x.X.(*ast.Ident); ok && id.Name == "common" {
			if x.Sel.Name == "AddressLength" {
				return common.AddressLength, true
			}
			if x.Sel.Name == "HashLength" {
				return common.HashLength, true
			}
		}
	case *ast.ParenExpr:
		return constInt(x.X)
	case *ast.BinaryExpr:
		a, ok1 := constInt(x.X)
		b, ok2 := constInt(x.Y)
		if ok1 && ok2 {
			switch x.Op {
			case token.ADD:
				return a + b, true
			case token.SUB:
				return a - b, true
			}
		}
	}
	return 0, false
}

func calleeName(e ast.Expr) string {
	switch x := e.(type) {
	case *ast.Ident:
		return x.Name
	case *ast.SelectorExpr:
		return x.Sel.Name
	}
	return ""
}

// shape of the []byte argument
func shape(e ast.Expr) string {
	switch x := e.(type) {
	case *ast.ParenExpr:
		return shape(x.X)
	case *ast.SliceExpr:
		if x.Slice3 {
			return "other"
		}
		lo, hi := 0, 0
		okLo, okHi := true, false
		if x.Low != nil {
			lo, okLo = constInt(x.Low)
		}
		if x.High != nil {
			hi, okHi = constInt(x.High)
		}
		if okLo && okHi && hi-lo == common.AddressLength {
			return "fixed20" // x[c : c+20]
		}
		if okLo && x.High == nil && lo == common.HashLength-common.AddressLength {
			if c, ok := x.X.(*ast.CallExpr); ok && strings.HasPrefix(calleeName(c.Fun), "Keccak256") {
				return "fixed20" // Keccak256(...)[12:]
			}
		}
		if x.Low == nil && x.High == nil {
			return "fullslice" // x[:]  (array or slice: not decidable without types)
		}
		return "other"
	case *ast.CallExpr:
		if calleeName(x.Fun) == "Bytes" && len(x.Args) == 0 {
			return "bytesmethod" // y.Bytes(): Address (20 or 0 bytes) or big.Int (any)
		}
		return "other"
	}
	return "other"
}

func recvName(fd *ast.FuncDecl) string {
	if fd.Recv == nil || len(fd.Recv.List) == 0 {
		return fd.Name.Name
	}
	t := fd.Recv.List[0].Type
	if s, ok := t.(*ast.StarExpr); ok {
		t = s.X
	}
	if id, ok := t.(*ast.Ident); ok {
		return id.Name + "." + fd.Name.Name
	}
	return fd.Name.Name
}

type site struct {
	where, shape string
	n            int
}

func main() {
	repo := flag.String("repo", "/repo", "repository to scan")
	out := flag.String("out", "", "output .v file")
	flag.Parse()
	if *out == "" {
		fmt.Fprintln(os.Stderr, "-out required")
		os.Exit(2)
	}
	counts := map[[2]string]int{}
	type pred struct{ where, name, desc string }
	var preds []pred
	fset := token.NewFileSet()
	err := filepath.Walk(*repo, func(path string, info os.FileInfo, err error) error {
		if err != nil {
			return err
		}
		base := filepath.Base(path)
		if info.IsDir() {
			if strings.HasPrefix(base, ".") && path != *repo || base == "vendor" || base == "build" || base == "node_modules" {
				return filepath.SkipDir
			}
			return nil
		}
		if !strings.HasSuffix(base, ".go") || strings.HasSuffix(base, "_test.go") || strings.HasSuffix(base, ".pb.go") || strings.HasPrefix(base, "verif_") {
			return nil
		}
		rel, _ := filepath.Rel(*repo, path)
		rel = filepath.ToSlash(rel)
		f, err := parser.ParseFile(fset, path, nil, parser.SkipObjectResolution)
		if err != nil {
			return fmt.Errorf("%s: %v", rel, err)
		}
		inCommon := f.Name.Name == "common" && strings.HasPrefix(rel, "common/")
		for _, d := range f.Decls {
			fd, ok := d.(*ast.FuncDecl)
			if !ok || fd.Body == nil {
				continue
			}
			fn := recvName(fd)
			ast.Inspect(fd.Body, func(n ast.Node) bool {
				c, ok := n.(*ast.CallExpr)
				if !ok || len(c.Args) != 2 {
					return true
				}
				isSite := false
				switch x := c.Fun.(type) {
				case *ast.Ident:
					isSite = inCommon && x.Name == "BytesToAddress"
				case *ast.SelectorExpr:
					if id, ok := x.X.(*ast.Ident); ok && id.Name == "common" && x.Sel.Name == "BytesToAddress" {
						isSite = true
					}
				}
				if isSite {
					counts[[2]string{rel + ":" + fn, shape(c.Args[0])}]++
				}
				return true
			})
			// ledger predicates: func (...) IsIn{Qi,Quai}LedgerScope() bool { return X[1] OP LIT }
			if inCommon && (fd.Name.Name == "IsInQiLedgerScope" || fd.Name.Name == "IsInQuaiLedgerScope") {
				desc := "unrecognised"
				if len(fd.Body.List) == 1 {
					if r, ok := fd.Body.List[0].(*ast.ReturnStmt); ok && len(r.Results) == 1 {
						if be, ok := r.Results[0].(*ast.BinaryExpr); ok {
							if ix, ok := be.X.(*ast.IndexExpr); ok {
								i, ok1 := constInt(ix.Index)
								v, ok2 := constInt(be.Y)
								if ok1 && ok2 {
									desc = fmt.Sprintf("%d%s%d", i, be.Op.String(), v)
								}
							}
						}
					}
				}
				preds = append(preds, pred{rel + ":" + fn, fd.Name.Name, desc})
			}
		}
		return nil
	})
	if err != nil {
		fmt.Fprintln(os.Stderr, "scan failed:", err)
		os.Exit(1)
	}
	var sites []site
	for k, n := range counts {
		sites = append(sites, site{k[0], k[1], n})
	}
	sort.Slice(sites, func(i, j int) bool {
		if sites[i].where != sites[j].where {
			return sites[i].where < sites[j].where
		}
		return sites[i].shape < sites[j].shape
	})
	sort.Slice(preds, func(i, j int) bool { return preds[i].where < preds[j].where })

	var sb strings.Builder
	w := func(f string, a ...any) { fmt.Fprintf(&sb, f, a...) }
	w("(* GENERATED by harness/gen/c16sites from the go-quai source tree — do not edit. *)\n")
	w("From Coq Require Import List NArith String.\nImport ListNotations.\nLocal Open Scope N_scope.\nLocal Open Scope string_scope.\n\n")
	w("Module C16Sites.\n")
	w("(* compiled constants *)\n")
	w("Definition address_length : N := %d.\n", common.AddressLength)
	w("Definition hash_length : N := %d.\n", common.HashLength)
	w("Definition zone_ctx : N := %d.\n", common.ZONE_CTX)
	w("Definition hierarchy_depth : N := %d.\n", common.HierarchyDepth)
	w("Definition max_regions : N := %d.\n", common.MaxRegions)
	w("Definition max_zones : N := %d.\n", common.MaxZones)
	w("Definition max_width : N := %d.\n", common.MaxWidth)
	w("Definition max_address_grind_attempts : N := %d.\n", params.MaxAddressGrindAttempts)
	w("Definition previous_max_address_grind_attempts : N := %d.\n", params.PreviousMaxAddressGrindAttempts)
	w("Definition max_grind_increase_fork_block : N := %s.\n", params.MaxGrindIncreaseForkBlock.String())
	w("Definition max_qi_tx_data_length : N := %d.\n", params.MaxQiTxDataLength)
	// fork regime of ProcessQiTx (wrapping falls through to the local UTXO before this prime terminus number; kQuai hold intervals)
	w("Definition qi_wrapping_change_block : N := %d.\n", params.QiWrappingChangeBlock)
	w("Definition kawpow_fork_block : N := %d.\n", params.KawPowForkBlock)
	w("Definition sha_equivalent_difficulty_fork_block : N := %d.\n", params.ShaEquivalentDifficultyForkBlock)
	w("Definition kquai_change_hold_interval : N := %d.\n", params.KQuaiChangeHoldInterval)
	// zero-address conventions, evaluated on the linked code
	ze := common.ZeroExternal.Bytes()
	allZero := len(ze) == common.AddressLength
	for _, b := range ze {
		allZero = allZero && b == 0
	}
	_, zeroIsInternal := common.Zero.InternalAddress()
	w("(* common.Zero / ZeroExternal: 20 zero bytes held as an EXTERNAL address *)\n")
	w("Definition zero_external_is_20_zero_bytes : bool := %v.\n", allZero)
	w("Definition zero_is_internal : bool := %v.\n", zeroIsInternal == nil)
	// ZeroAddress(loc) for every zone location: internal, prefix byte then 19 zeros
	zaOK := true
	for r := 0; r < common.MaxRegions; r++ {
		for z := 0; z < common.MaxZones; z++ {
			loc := common.Location{byte(r), byte(z)}
			za := common.ZeroAddress(loc)
			if _, err := za.InternalAddress(); err != nil {
				zaOK = false
			}
			b := za.Bytes()
			if len(b) != 20 || b[0] != byte(r<<4|z) {
				zaOK = false
			}
			for _, x := range b[1:] {
				zaOK = zaOK && x == 0
			}
		}
	}
	w("Definition zero_address_is_internal_prefix_then_zeros : bool := %v.\n", zaOK)
	w("\n(* every copy of the ledger predicates in common/: (site, name, \"index op literal\") *)\n")
	w("Definition ledger_predicates : list (string * string * string) := [\n")
	for i, p := range preds {
		sep := ";"
		if i == len(preds)-1 {
			sep = ""
		}
		w("  (%q, %q, %q)%s\n", p.where, p.name, p.desc, sep)
	}
	w("].\n")
	w("\n(* every call of common.BytesToAddress outside tests: (file:function, argument shape, count) *)\n")
	w("Definition sites : list (string * string * N) := [\n")
	for i, s := range sites {
		sep := ";"
		if i == len(sites)-1 {
			sep = ""
		}
		w("  (%q, %q, %d)%s\n", s.where, s.shape, s.n, sep)
	}
	w("].\n")
	w("End C16Sites.\n")
	if err := os.WriteFile(*out, []byte(sb.String()), 0o644); err != nil {
		fmt.Fprintln(os.Stderr, err)
		os.Exit(1)
	}
	nf := 0
	for _, s := range sites {
		if s.shape != "fixed20" {
			nf++
		}
	}
	fmt.Printf("c16sites: %d site entries (%d not provably 20 bytes), %d ledger predicate copies\n", len(sites), nf, len(preds))
}

// Generator for coq/Generated/C07Checks.v: an inventory, taken from the CURRENT source text
// of the repository (go/ast), of
//   - the comparison sites of the validator: every `if <a != b | a.Cmp(b) != 0> { return … fmt.Errorf("…") }`
//     of ValidateBody (zone branch), StateProcessor.Process and ValidateState whose message
//     starts with "invalid " or contains "mismatch", in source order, with the compared
//     expressions;
//   - the call skeletons of StateProcessor.Apply, BodyDb.Append and of the "normal
//     extension" branch of HeaderChain.SetCurrentHeader (which writes happen before / after
//     the validation result is known);
//   - the database writes that do not go through the block batch inside Process,
//     ValidateState, HeaderChain.Finalize, TrimBlock and RedeemLockedQuai.
//
// Props/C07.v states the side conditions over these lists (vm_compute): removing or
// reordering a comparison, writing the batch before Apply returned, not deleting the
// canonical hash on error, or adding a direct database write to Process breaks them.
package main

import (
	"flag"
	"fmt"
	"go/ast"
	"go/parser"
	"go/printer"
	"go/token"
	"os"
	"path/filepath"
	"strconv"
	"strings"
)

var fset = token.NewFileSet()

func src(n ast.Node) string {
	var sb strings.Builder
	printer.Fprint(&sb, fset, n)
	return strings.Join(strings.Fields(sb.String()), " ")
}

func findFunc(file, recv, name string) *ast.FuncDecl {
	f, err := parser.ParseFile(fset, file, nil, 0)
	if err != nil {
		fmt.Fprintln(os.Stderr, err)
		os.Exit(1)
	}
	for _, d := range f.Decls {
		fd, ok := d.(*ast.FuncDecl)
		if !ok || fd.Name.Name != name {
			continue
		}
		r := ""
		if fd.Recv != nil && len(fd.Recv.List) > 0 {
			r = src(fd.Recv.List[0].Type)
		}
		if r == recv {
			return fd
		}
	}
	fmt.Fprintf(os.Stderr, "function %s %s not found in %s\n", recv, name, file)
	os.Exit(1)
	return nil
}

// errorfMessage returns the format string of a `return …, fmt.Errorf("…", …)` / errors.New("…") in the block.
func errorfMessage(b *ast.BlockStmt) (string, bool) {
	for _, st := range b.List {
		rs, ok := st.(*ast.ReturnStmt)
		if !ok {
			continue
		}
		for _, e := range rs.Results {
			ce, ok := e.(*ast.CallExpr)
			if !ok {
				continue
			}
			fn := src(ce.Fun)
			if (fn == "fmt.Errorf" || fn == "errors.New") && len(ce.Args) > 0 {
				if bl, ok := ce.Args[0].(*ast.BasicLit); ok && bl.Kind == token.STRING {
					s, err := strconv.Unquote(bl.Value)
					if err == nil {
						return s, true
					}
				}
			}
		}
	}
	return "", false
}

// neq finds an inequality in the condition: a != b, or a.Cmp(b) != 0.
func neq(e ast.Expr) (string, string, bool) {
	var l, r string
	found := false
	ast.Inspect(e, func(n ast.Node) bool {
		if found {
			return false
		}
		be, ok := n.(*ast.BinaryExpr)
		if !ok || be.Op != token.NEQ {
			return true
		}
		if ce, ok := be.X.(*ast.CallExpr); ok {
			if se, ok := ce.Fun.(*ast.SelectorExpr); ok && se.Sel.Name == "Cmp" && len(ce.Args) == 1 && src(be.Y) == "0" {
				l, r, found = src(se.X), src(ce.Args[0]), true
				return false
			}
		}
		l, r, found = src(be.X), src(be.Y), true
		return false
	})
	return l, r, found
}

type site struct{ fn, msg, lhs, rhs string }

func msgPrefix(m string) string {
	// cut at the first format verb / parenthesis: the stable prefix of the message
	for i, c := range m {
		if c == '%' || c == '(' || c == ':' {
			return strings.TrimSpace(m[:i])
		}
	}
	return strings.TrimSpace(m)
}

func compareSites(fn string, body ast.Node) []site {
	var out []site
	ast.Inspect(body, func(n ast.Node) bool {
		is, ok := n.(*ast.IfStmt)
		if !ok {
			return true
		}
		msg, ok := errorfMessage(is.Body)
		if !ok {
			return true
		}
		if !(strings.HasPrefix(msg, "invalid ") || strings.Contains(msg, "mismatch") || strings.HasPrefix(msg, "Qi TXO emitted")) {
			return true
		}
		l, r, ok := neq(is.Cond)
		if !ok {
			l, r = src(is.Cond), ""
		}
		out = append(out, site{fn, msgPrefix(msg), l, r})
		return true
	})
	return out
}

// zoneBranch returns the else-branch of `if nodeCtx != common.ZONE_CTX {…} else {…}` in ValidateBody.
func zoneBranch(fd *ast.FuncDecl) ast.Node {
	var res ast.Node
	ast.Inspect(fd.Body, func(n ast.Node) bool {
		is, ok := n.(*ast.IfStmt)
		if ok && res == nil && strings.Contains(src(is.Cond), "ZONE_CTX") && is.Else != nil {
			res = is.Else
			return false
		}
		return true
	})
	if res == nil {
		return fd.Body
	}
	return res
}

// skeleton: calls of interest and error returns, in source order.
func skeleton(body ast.Node, interest func(call string, ce *ast.CallExpr) string) []string {
	var out []string
	var walk func(n ast.Node)
	walkStmts := func(l []ast.Stmt) {
		for _, s := range l {
			walk(s)
		}
	}
	calls := func(n ast.Node) {
		ast.Inspect(n, func(m ast.Node) bool {
			if _, ok := m.(*ast.FuncLit); ok {
				return false
			}
			if ce, ok := m.(*ast.CallExpr); ok {
				if t := interest(src(ce.Fun), ce); t != "" {
					out = append(out, t)
				}
			}
			return true
		})
	}
	walk = func(n ast.Node) {
		switch s := n.(type) {
		case *ast.BlockStmt:
			walkStmts(s.List)
		case *ast.IfStmt:
			if s.Init != nil {
				calls(s.Init)
			}
			calls(s.Cond)
			c := src(s.Cond)
			if strings.Contains(c, "err != nil") {
				out = append(out, "if-err{")
			} else {
				out = append(out, "if{")
			}
			walkStmts(s.Body.List)
			out = append(out, "}")
			if s.Else != nil {
				out = append(out, "else{")
				walk(s.Else)
				out = append(out, "}")
			}
		case *ast.ReturnStmt:
			calls(s)
			isErr := false
			for _, r := range s.Results {
				t := src(r)
				if t == "err" || strings.Contains(t, "Errorf") || strings.Contains(t, "errors.New") {
					isErr = true
				}
			}
			if isErr {
				out = append(out, "return-err")
			} else {
				out = append(out, "return")
			}
		case *ast.ForStmt:
			walk(s.Body)
		case *ast.RangeStmt:
			walk(s.Body)
		default:
			if n != nil {
				calls(n)
			}
		}
	}
	walk(body)
	// drop empty if{ } pairs that contain nothing of interest
	for changed := true; changed; {
		changed = false
		for i := 0; i+1 < len(out); i++ {
			if (out[i] == "if{" || out[i] == "else{" || out[i] == "if-err{") && out[i+1] == "}" {
				out = append(out[:i], out[i+2:]...)
				changed = true
				break
			}
		}
	}
	return out
}

func firstArg(ce *ast.CallExpr) string {
	if len(ce.Args) == 0 {
		return ""
	}
	return src(ce.Args[0])
}

func isDbWriteName(name string) bool {
	if strings.HasPrefix(name, "types.") || strings.HasPrefix(name, "common.") || strings.HasPrefix(name, "big.") {
		return false
	}
	i := strings.LastIndex(name, ".")
	sel := name
	if i >= 0 {
		sel = name[i+1:]
	}
	return strings.HasPrefix(sel, "Write") || strings.HasPrefix(sel, "Delete") || strings.HasPrefix(sel, "Create") || sel == "Put"
}

func coqStr(s string) string { return "\"" + strings.ReplaceAll(s, "\"", "\"\"") + "\"" }

func coqList(items []string) string {
	q := make([]string, len(items))
	for i, s := range items {
		q[i] = coqStr(s)
	}
	return "[" + strings.Join(q, "; ") + "]"
}

// reservationOps lists, for every function of core/worker.go, the statements that mention the field
// deletedUtxos (the per-block set the worker uses to arbitrate between pool transactions spending
// the same outpoint), in source order, classified:
//
//	make           deletedUtxos: make(...) in a composite literal
//	lookup-reject  `if _, ok := x.deletedUtxos[h]; ok { return <error> }` (or the assignment form followed by nothing else)
//	lookup         any other read of an element
//	insert         x.deletedUtxos[h] = ...
//	delete         delete(x.deletedUtxos, ...)
//	reset          x.deletedUtxos = ...
//	other          anything else (passed on, ranged over, copied, len, ...)
func reservationOps(file string) [][2]string {
	f, err := parser.ParseFile(fset, file, nil, 0)
	if err != nil {
		fmt.Fprintln(os.Stderr, err)
		os.Exit(1)
	}
	const field = "deletedUtxos"
	isField := func(e ast.Expr) bool {
		se, ok := e.(*ast.SelectorExpr)
		return ok && se.Sel.Name == field
	}
	type op struct {
		pos  token.Pos
		fn   string
		kind string
	}
	var ops []op
	for _, d := range f.Decls {
		fd, ok := d.(*ast.FuncDecl)
		if !ok || fd.Body == nil {
			continue
		}
		used := map[ast.Node]bool{}
		add := func(n ast.Node, sel ast.Expr, kind string) {
			used[sel] = true
			ops = append(ops, op{n.Pos(), fd.Name.Name, kind})
		}
		hasErrReturn := func(b *ast.BlockStmt) bool {
			for _, st := range b.List {
				if rs, ok := st.(*ast.ReturnStmt); ok {
					for _, r := range rs.Results {
						t := src(r)
						if t == "err" || strings.Contains(t, "Errorf") || strings.Contains(t, "errors.New") {
							return true
						}
					}
				}
			}
			return false
		}
		lookupIn := func(st ast.Stmt) (ast.Expr, bool) { // `_, ok := x.deletedUtxos[h]`
			as, ok := st.(*ast.AssignStmt)
			if !ok || len(as.Rhs) != 1 {
				return nil, false
			}
			ie, ok := as.Rhs[0].(*ast.IndexExpr)
			if !ok || !isField(ie.X) {
				return nil, false
			}
			return ie.X, true
		}
		ast.Inspect(fd.Body, func(n ast.Node) bool {
			switch s := n.(type) {
			case *ast.IfStmt:
				if s.Init != nil {
					if sel, ok := lookupIn(s.Init); ok && !used[sel] {
						if hasErrReturn(s.Body) && s.Else == nil {
							add(s, sel, "lookup-reject")
						} else {
							add(s, sel, "lookup")
						}
					}
				}
			case *ast.AssignStmt:
				for _, l := range s.Lhs {
					if ie, ok := l.(*ast.IndexExpr); ok && isField(ie.X) && !used[ie.X] {
						add(s, ie.X, "insert")
					}
					if isField(l) && !used[l] {
						add(s, l, "reset")
					}
				}
				if sel, ok := lookupIn(s); ok && !used[sel] {
					add(s, sel, "lookup")
				}
			case *ast.KeyValueExpr:
				if id, ok := s.Key.(*ast.Ident); ok && id.Name == field {
					kind := "other"
					if ce, ok := s.Value.(*ast.CallExpr); ok && src(ce.Fun) == "make" {
						kind = "make"
					}
					ops = append(ops, op{s.Pos(), fd.Name.Name, kind})
				}
			case *ast.CallExpr:
				if src(s.Fun) == "delete" && len(s.Args) > 0 && isField(s.Args[0]) && !used[s.Args[0]] {
					add(s, s.Args[0], "delete")
				}
			case *ast.SelectorExpr:
				if s.Sel.Name == field && !used[s] {
					add(s, s, "other")
				}
			}
			return true
		})
	}
	// source order
	for i := 1; i < len(ops); i++ {
		for j := i; j > 0 && ops[j].pos < ops[j-1].pos; j-- {
			ops[j], ops[j-1] = ops[j-1], ops[j]
		}
	}
	var out [][2]string
	for _, o := range ops {
		out = append(out, [2]string{o.fn, o.kind})
	}
	return out
}

// applyGuard (third strengthening round): the generic path of worker.commitTransaction, i.e. the top-level
// statements around the call of ApplyTransaction: "snapshot:<v>" for `<v> := <x>.Snapshot()` before the call,
// "apply", then the skeleton of the statement that follows the call (expected: `if err != nil { ...
// <x>.RevertToSnapshot(<v>) ... return ..., err }`): "if-err{", "revert:<v>", "return-err", "}".
func applyGuard(fd *ast.FuncDecl) []string {
	var out []string
	list := fd.Body.List
	ia := -1
	for i, st := range list {
		if as, ok := st.(*ast.AssignStmt); ok && len(as.Rhs) == 1 {
			if ce, ok := as.Rhs[0].(*ast.CallExpr); ok && src(ce.Fun) == "ApplyTransaction" {
				ia = i
			}
		}
	}
	if ia < 0 {
		return []string{"no-apply-call"}
	}
	for _, st := range list[:ia] {
		if as, ok := st.(*ast.AssignStmt); ok && len(as.Lhs) == 1 && len(as.Rhs) == 1 {
			if ce, ok := as.Rhs[0].(*ast.CallExpr); ok && strings.HasSuffix(src(ce.Fun), ".Snapshot") {
				out = append(out, "snapshot:"+src(as.Lhs[0]))
			}
		}
	}
	out = append(out, "apply")
	if ia+1 < len(list) {
		if is, ok := list[ia+1].(*ast.IfStmt); ok {
			out = append(out, skeleton(&ast.BlockStmt{List: []ast.Stmt{is}}, func(fn string, ce *ast.CallExpr) string {
				if strings.HasSuffix(fn, ".RevertToSnapshot") {
					return "revert:" + firstArg(ce)
				}
				return ""
			})...)
		}
	}
	return out
}

// inclusionRule (third strengthening round): where StateProcessor.Process decides whether the inbound ETX
// queue is still non-empty, relative to the loop that pops the block's ETXs from it. Top-level statements of
// Process in source order: "etx-loop" (the loop that calls PopETX), "GetOldestIndex", "ReadETX", and for every
// `if` whose condition mentions etxAvailable: "rule:" ++ condition.
func inclusionRule(fd *ast.FuncDecl) []string {
	var out []string
	for _, st := range fd.Body.List {
		t := src(st)
		switch s := st.(type) {
		case *ast.RangeStmt, *ast.ForStmt:
			if strings.Contains(t, ".PopETX(") {
				out = append(out, "etx-loop")
			}
			if strings.Contains(t, ".GetOldestIndex(") {
				out = append(out, "GetOldestIndex-in-loop")
			}
		case *ast.IfStmt:
			if strings.Contains(src(s.Cond), "etxAvailable") {
				out = append(out, "rule:"+strings.Join(strings.Fields(src(s.Cond)), " "))
			} else if strings.Contains(t, ".GetOldestIndex(") {
				out = append(out, "GetOldestIndex-nested")
			}
		case *ast.AssignStmt:
			if strings.Contains(t, ".GetOldestIndex(") {
				out = append(out, "GetOldestIndex")
			}
			if strings.Contains(t, ".ReadETX(") {
				out = append(out, "ReadETX")
			}
		}
	}
	return out
}

func main() {
	repo := flag.String("repo", "/repo", "repository root")
	out := flag.String("out", "", "output .v file")
	flag.Parse()
	core := filepath.Join(*repo, "core")

	vb := findFunc(filepath.Join(core, "block_validator.go"), "*BlockValidator", "ValidateBody")
	vs := findFunc(filepath.Join(core, "block_validator.go"), "*BlockValidator", "ValidateState")
	pr := findFunc(filepath.Join(core, "state_processor.go"), "*StateProcessor", "Process")
	ap := findFunc(filepath.Join(core, "state_processor.go"), "*StateProcessor", "Apply")
	ba := findFunc(filepath.Join(core, "bodydb.go"), "*BodyDb", "Append")
	sch := findFunc(filepath.Join(core, "headerchain.go"), "*HeaderChain", "SetCurrentHeader")
	fin := findFunc(filepath.Join(core, "headerchain_validation.go"), "*HeaderChain", "Finalize")
	trim := findFunc(filepath.Join(core, "headerchain_validation.go"), "*HeaderChain", "TrimBlock")
	red := findFunc(filepath.Join(core, "state_processor.go"), "", "RedeemLockedQuai")

	var sites []site
	sites = append(sites, compareSites("ValidateBody", zoneBranch(vb))...)
	sites = append(sites, compareSites("Process", pr.Body)...)
	sites = append(sites, compareSites("ValidateState", vs.Body)...)

	// Apply: Process / ValidateState / writes / commits
	applySk := skeleton(ap.Body, func(fn string, ce *ast.CallExpr) string {
		switch {
		case strings.HasSuffix(fn, ".Process"):
			return "Process"
		case strings.HasSuffix(fn, ".ValidateState"):
			return "ValidateState"
		case strings.HasSuffix(fn, ".Commit") || strings.HasSuffix(fn, ".CommitEtxs"):
			return fn
		case strings.HasSuffix(fn, ".AddBloom"):
			return "AddBloom"
		case isDbWriteName(fn):
			return fn + "(" + firstArg(ce) + ")"
		}
		return ""
	})
	appendSk := skeleton(ba.Body, func(fn string, ce *ast.CallExpr) string {
		switch {
		case strings.HasSuffix(fn, ".NewBatch"):
			return "NewBatch"
		case strings.HasSuffix(fn, ".Apply"):
			return "Apply(" + firstArg(ce) + ")"
		case fn == "batch.Write":
			return "batch.Write"
		case isDbWriteName(fn):
			return fn + "(" + firstArg(ce) + ")"
		}
		return ""
	})
	// SetCurrentHeader: the branch `if prevHeader.Hash() == head.ParentHash(…)`
	var branch *ast.BlockStmt
	ast.Inspect(sch.Body, func(n ast.Node) bool {
		is, ok := n.(*ast.IfStmt)
		if ok && branch == nil && strings.Contains(src(is.Cond), "ParentHash") && strings.Contains(src(is.Cond), "==") {
			branch = is.Body
			return false
		}
		return true
	})
	var schSk []string
	if branch != nil {
		schSk = skeleton(branch, func(fn string, ce *ast.CallExpr) string {
			switch {
			case strings.HasSuffix(fn, ".AppendBlock"):
				return "AppendBlock"
			case strings.HasSuffix(fn, "currentHeader.Store"):
				return "currentHeader.Store"
			case isDbWriteName(fn):
				return fn
			}
			return ""
		})
	}
	// direct writes (not through the batch) on the validation path
	var direct [][2]string
	scan := func(name string, fd *ast.FuncDecl) {
		ast.Inspect(fd.Body, func(n ast.Node) bool {
			ce, ok := n.(*ast.CallExpr)
			if !ok {
				return true
			}
			fn := src(ce.Fun)
			if !isDbWriteName(fn) {
				return true
			}
			a := firstArg(ce)
			if strings.HasPrefix(fn, "rawdb.") {
				if a != "batch" {
					direct = append(direct, [2]string{name, fn + "(" + a + ")"})
				}
				return true
			}
			recv := fn[:strings.LastIndex(fn, ".")+0]
			if i := strings.LastIndex(fn, "."); i >= 0 {
				recv = fn[:i]
			}
			if recv == "batch" {
				return true
			}
			// method writes on chain objects (hc.WriteX, p.hc.WriteX, db.Put …)
			direct = append(direct, [2]string{name, fn})
			return true
		})
	}
	scan("Process", pr)
	scan("ValidateState", vs)
	scan("Finalize", fin)
	scan("TrimBlock", trim)
	scan("RedeemLockedQuai", red)

	var sb strings.Builder
	sb.WriteString("(* GENERATED by harness/gen/c07checks from the source text of core/block_validator.go,\n   core/state_processor.go, core/bodydb.go, core/headerchain.go, core/headerchain_validation.go. Do not edit. *)\n")
	sb.WriteString("From Coq Require Import List String.\nImport ListNotations.\nLocal Open Scope string_scope.\n\n")
	sb.WriteString("(* comparison sites: (function, message prefix, left operand, right operand), in source order *)\n")
	sb.WriteString("Definition compare_sites : list (string * string * string * string) := [\n")
	for i, s := range sites {
		sep := ";"
		if i == len(sites)-1 {
			sep = ""
		}
		fmt.Fprintf(&sb, "  (%s, %s, %s, %s)%s\n", coqStr(s.fn), coqStr(s.msg), coqStr(s.lhs), coqStr(s.rhs), sep)
	}
	sb.WriteString("].\n\n")
	fmt.Fprintf(&sb, "(* StateProcessor.Apply *)\nDefinition skeleton_apply : list string := %s.\n\n", coqList(applySk))
	fmt.Fprintf(&sb, "(* BodyDb.Append *)\nDefinition skeleton_bodydb_append : list string := %s.\n\n", coqList(appendSk))
	fmt.Fprintf(&sb, "(* HeaderChain.SetCurrentHeader, branch prevHeader.Hash() == head.ParentHash() *)\nDefinition skeleton_set_current_header : list string := %s.\n\n", coqList(schSk))
	sb.WriteString("(* database writes on the validation path that do not go through the block batch: (function, call) *)\n")
	sb.WriteString("Definition direct_writes : list (string * string) := [")
	for i, d := range direct {
		if i > 0 {
			sb.WriteString("; ")
		}
		fmt.Fprintf(&sb, "(%s, %s)", coqStr(d[0]), coqStr(d[1]))
	}
	sb.WriteString("].\n\n")
	sb.WriteString("(* core/worker.go: every statement that mentions the per-block set deletedUtxos (the worker's arbitration\n   between pool transactions spending the same outpoint): (function, operation), in source order *)\n")
	sb.WriteString("Definition worker_reservation_ops : list (string * string) := [")
	for i, d := range reservationOps(filepath.Join(core, "worker.go")) {
		if i > 0 {
			sb.WriteString("; ")
		}
		fmt.Fprintf(&sb, "(%s, %s)", coqStr(d[0]), coqStr(d[1]))
	}
	sb.WriteString("].\n\n")
	ct := findFunc(filepath.Join(core, "worker.go"), "*worker", "commitTransaction")
	fmt.Fprintf(&sb, "(* worker.commitTransaction, generic path: snapshot / ApplyTransaction / error branch *)\nDefinition worker_apply_guard : list string := %s.\n\n", coqList(applyGuard(ct)))
	fmt.Fprintf(&sb, "(* StateProcessor.Process: the loop popping the block's inbound ETXs, the probe of the queue head and the\n   minimum-inclusion rules, top-level statements in source order *)\nDefinition process_inclusion_rule : list string := %s.\n", coqList(inclusionRule(pr)))
	if *out == "" {
		fmt.Print(sb.String())
		return
	}
	if err := os.WriteFile(*out, []byte(sb.String()), 0o644); err != nil {
		fmt.Fprintln(os.Stderr, err)
		os.Exit(1)
	}
}

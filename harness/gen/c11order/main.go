// gen c11order: emits coq/Generated/C11Gen.v from the repository under check: the ORDER of
// the database-write call sites (and whether they go to the block batch or directly to the
// database) in
//   core/headerchain.go  SetCurrentHeader  (normal-extension branch, rollback loop, roll-forward loop)
//   core/headerchain.go  loadLastState
//   core/bodydb.go       BodyDb.Append
//   core/state_processor.go  StateProcessor.Apply
// read from the AST in source order, as lists of numeric event codes, plus the flag
// head_in_batch (is the head block hash written into the block batch?) and the number of
// read sites of the ProcessedState marker. Proofs/C11.v carries the obligations that tie
// these lists to the write sequences of Model/C11.v.
package main

import (
	"flag"
	"fmt"
	"go/ast"
	"go/parser"
	"go/token"
	"os"
	"path/filepath"
	"strings"
)

const (
	evCanonDirect   = 1
	evAppendBlock   = 2
	evHeadDirect    = 3
	evDelCanonDir   = 4
	evCanonBatch    = 11
	evHeadBatch     = 13
	evDelCanonBatch = 14
	evNewBatch      = 20
	evBatchWrite    = 21
	evCreateUTXO    = 22
	evBatchDelete   = 23
	evBatchPut      = 24
	evProcess       = 30
	evAddBloom      = 31
	evTrieCommit    = 32
	evMultiSet      = 33
	evSetSize       = 34
	evProcessed     = 35
	evApply         = 36
	evTxLookup      = 37
	evValidateState = 38
	evReadHead      = 40
	evRecover       = 41
	evStoreCurrent  = 42
)

func isIdent(e ast.Expr, name string) bool {
	id, ok := e.(*ast.Ident)
	return ok && id.Name == name
}

// event classifies one call expression; 0 = not of interest.
func event(c *ast.CallExpr) int {
	sel, ok := c.Fun.(*ast.SelectorExpr)
	if !ok {
		return 0
	}
	name := sel.Sel.Name
	toBatch := len(c.Args) > 0 && isIdent(c.Args[0], "batch")
	recvBatch := isIdent(sel.X, "batch")
	switch name {
	case "WriteCanonicalHash":
		if toBatch {
			return evCanonBatch
		}
		return evCanonDirect
	case "WriteHeadBlockHash":
		if toBatch {
			return evHeadBatch
		}
		return evHeadDirect
	case "DeleteCanonicalHash":
		if toBatch {
			return evDelCanonBatch
		}
		return evDelCanonDir
	case "AppendBlock":
		return evAppendBlock
	case "NewBatch":
		return evNewBatch
	case "Write":
		if recvBatch {
			return evBatchWrite
		}
	case "Delete":
		if recvBatch {
			return evBatchDelete
		}
	case "Put":
		if recvBatch {
			return evBatchPut
		}
	case "CreateUTXO":
		if toBatch {
			return evCreateUTXO
		}
	case "Process":
		return evProcess
	case "AddBloom":
		return evAddBloom
	case "Commit":
		// p.stateCache.TrieDB().Commit / p.etxCache.TrieDB().Commit
		if inner, ok := sel.X.(*ast.CallExpr); ok {
			if s2, ok := inner.Fun.(*ast.SelectorExpr); ok && s2.Sel.Name == "TrieDB" {
				return evTrieCommit
			}
		}
	case "WriteMultiSet":
		if toBatch {
			return evMultiSet
		}
	case "WriteUTXOSetSize":
		if toBatch {
			return evSetSize
		}
	case "WriteProcessedState":
		if toBatch {
			return evProcessed
		}
	case "Apply":
		return evApply
	case "WriteTxLookupEntriesByBlock":
		if toBatch {
			return evTxLookup
		}
	case "ValidateState":
		return evValidateState
	case "ReadHeadBlockHash":
		return evReadHead
	case "RecoverCurrentHeader":
		return evRecover
	case "Store":
		if s2, ok := sel.X.(*ast.SelectorExpr); ok && s2.Sel.Name == "currentHeader" {
			return evStoreCurrent
		}
	}
	return 0
}

func events(n ast.Node) []int {
	var out []int
	if n == nil {
		return out
	}
	ast.Inspect(n, func(x ast.Node) bool {
		if c, ok := x.(*ast.CallExpr); ok {
			// arguments / receiver chains are visited after the call node itself; that is the
			// source order of the call sites, which is all that is used
			if e := event(c); e != 0 {
				out = append(out, e)
			}
		}
		return true
	})
	return out
}

func contains(evs []int, e int) bool {
	for _, x := range evs {
		if x == e {
			return true
		}
	}
	return false
}

func findFunc(f *ast.File, recv, name string) *ast.FuncDecl {
	for _, d := range f.Decls {
		fd, ok := d.(*ast.FuncDecl)
		if !ok || fd.Name.Name != name {
			continue
		}
		if recv == "" {
			return fd
		}
		if fd.Recv != nil && len(fd.Recv.List) == 1 {
			t := fd.Recv.List[0].Type
			if st, ok := t.(*ast.StarExpr); ok {
				t = st.X
			}
			if isIdent(t, recv) {
				return fd
			}
		}
	}
	return nil
}

// ---- the borrowed block batch ----------------------------------------------------------------
//
// BodyDb.Append creates the block batch and hands it to StateProcessor.Apply -> Process ->
// ProcessQiTx / ApplyTransaction (-> vm.NewEVM: EVM.Batch -> AddNewLock / redeem) / Finalize /
// TrimBlock. The batch is atomic with the head pointer only if NONE of these borrowers commits,
// resets or replays it, and if none of them writes a block-owned record past it directly to a
// database. borrowedBatch scans every function of core/*.go with a parameter of type ethdb.Batch and
// every function of core/vm/*.go (tests and verif_ hook files excluded) and counts
//   funcs   functions with an ethdb.Batch parameter (non-vacuity)
//   flush   calls <param>.Write() / .Reset() / .Replay(..), and <x>.Batch.Write() / .Reset() / .Replay(..)
//   writes  calls rawdb.<Writer>(dst, ..) whose destination is the parameter / an <x>.Batch field
//   bypass  calls rawdb.<Writer>(dst, ..) with any other destination
// where <Writer> ranges over the functions of core/rawdb whose first parameter is an
// ethdb.KeyValueWriter / Batch / Database / KeyValueStore and whose name starts with Write, Delete,
// Create or Undo (read from core/rawdb's AST).
type borrowStats struct{ funcs, flush, writes, bypass int }

func isEthdbType(e ast.Expr, names ...string) bool {
	sel, ok := e.(*ast.SelectorExpr)
	if !ok || !isIdent(sel.X, "ethdb") {
		return false
	}
	for _, n := range names {
		if sel.Sel.Name == n {
			return true
		}
	}
	return false
}

func goFiles(dir string) []string {
	ents, err := os.ReadDir(dir)
	if err != nil {
		die("read %s: %v", dir, err)
	}
	var out []string
	for _, e := range ents {
		n := e.Name()
		if e.IsDir() || !strings.HasSuffix(n, ".go") || strings.HasSuffix(n, "_test.go") || strings.HasPrefix(n, "verif_") {
			continue
		}
		out = append(out, filepath.Join(dir, n))
	}
	return out
}

func rawdbWriters(fset *token.FileSet, repo string) map[string]bool {
	w := map[string]bool{}
	for _, p := range goFiles(filepath.Join(repo, "core", "rawdb")) {
		f, err := parser.ParseFile(fset, p, nil, 0)
		if err != nil {
			die("parse %s: %v", p, err)
		}
		for _, d := range f.Decls {
			fd, ok := d.(*ast.FuncDecl)
			if !ok || fd.Recv != nil || fd.Type.Params == nil || len(fd.Type.Params.List) == 0 {
				continue
			}
			n := fd.Name.Name
			if !(strings.HasPrefix(n, "Write") || strings.HasPrefix(n, "Delete") || strings.HasPrefix(n, "Create") || strings.HasPrefix(n, "Undo")) {
				continue
			}
			if isEthdbType(fd.Type.Params.List[0].Type, "KeyValueWriter", "Batch", "Database", "KeyValueStore") {
				w[n] = true
			}
		}
	}
	return w
}

func borrowedBatch(fset *token.FileSet, repo string) borrowStats {
	writers := rawdbWriters(fset, repo)
	if len(writers) < 20 {
		die("core/rawdb: only %d writer functions found, schema of the scan outdated", len(writers))
	}
	var st borrowStats
	isBatchField := func(e ast.Expr) bool {
		sel, ok := e.(*ast.SelectorExpr)
		return ok && sel.Sel.Name == "Batch"
	}
	scan := func(path string, allFuncs bool) {
		f, err := parser.ParseFile(fset, path, nil, 0)
		if err != nil {
			die("parse %s: %v", path, err)
		}
		for _, d := range f.Decls {
			fd, ok := d.(*ast.FuncDecl)
			if !ok || fd.Body == nil {
				continue
			}
			params := map[string]bool{}
			for _, fld := range fd.Type.Params.List {
				if isEthdbType(fld.Type, "Batch") {
					for _, n := range fld.Names {
						params[n.Name] = true
					}
				}
			}
			if len(params) > 0 {
				st.funcs++
			} else if !allFuncs {
				continue
			}
			borrowed := func(e ast.Expr) bool {
				if id, ok := e.(*ast.Ident); ok && params[id.Name] {
					return true
				}
				return isBatchField(e)
			}
			ast.Inspect(fd.Body, func(x ast.Node) bool {
				c, ok := x.(*ast.CallExpr)
				if !ok {
					return true
				}
				sel, ok := c.Fun.(*ast.SelectorExpr)
				if !ok {
					return true
				}
				switch sel.Sel.Name {
				case "Write", "Reset", "Replay":
					if borrowed(sel.X) {
						st.flush++
						fmt.Printf("c11order: FLUSH of a borrowed batch: %s %s\n", fset.Position(c.Pos()), fd.Name.Name)
					}
				}
				if isIdent(sel.X, "rawdb") && writers[sel.Sel.Name] && len(c.Args) > 0 {
					if borrowed(c.Args[0]) {
						st.writes++
					} else {
						st.bypass++
						fmt.Printf("c11order: rawdb write past the borrowed batch: %s %s %s\n", fset.Position(c.Pos()), fd.Name.Name, sel.Sel.Name)
					}
				}
				return true
			})
		}
	}
	for _, p := range goFiles(filepath.Join(repo, "core")) {
		scan(p, false)
	}
	for _, p := range goFiles(filepath.Join(repo, "core", "vm")) {
		scan(p, true)
	}
	return st
}

func coqList(evs []int) string {
	s := make([]string, len(evs))
	for i, e := range evs {
		s[i] = fmt.Sprintf("%d", e)
	}
	return "[" + strings.Join(s, "; ") + "]"
}

func die(format string, a ...any) {
	fmt.Fprintf(os.Stderr, format+"\n", a...)
	os.Exit(1)
}

func main() {
	repo := flag.String("repo", "/repo", "repository root")
	out := flag.String("out", "", "output .v file")
	flag.Parse()
	if *out == "" {
		die("-out required")
	}
	fset := token.NewFileSet()
	parse := func(rel string) *ast.File {
		f, err := parser.ParseFile(fset, filepath.Join(*repo, rel), nil, 0)
		if err != nil {
			die("parse %s: %v", rel, err)
		}
		return f
	}
	hcFile := parse("core/headerchain.go")
	bdFile := parse("core/bodydb.go")
	spFile := parse("core/state_processor.go")

	sch := findFunc(hcFile, "HeaderChain", "SetCurrentHeader")
	if sch == nil {
		die("HeaderChain.SetCurrentHeader not found")
	}
	// normal-extension branch: the first top-level if whose body calls AppendBlock
	var ext, rollback, forward []int
	foundExt, foundRb, foundFw := false, false, false
	for _, st := range sch.Body.List {
		switch s := st.(type) {
		case *ast.IfStmt:
			if !foundExt && contains(events(s.Body), evAppendBlock) {
				ext = events(s.Body)
				foundExt = true
			}
		case *ast.ForStmt:
			evs := events(s.Body)
			if !foundRb && contains(evs, evNewBatch) {
				rollback = evs
				foundRb = true
			} else if !foundFw && contains(evs, evAppendBlock) {
				forward = evs
				foundFw = true
			}
		}
	}
	if !foundExt || !foundRb || !foundFw {
		die("SetCurrentHeader: expected structure (extension branch, rollback loop, roll-forward loop) not found: %v %v %v", foundExt, foundRb, foundFw)
	}
	lls := findFunc(hcFile, "HeaderChain", "loadLastState")
	if lls == nil {
		die("HeaderChain.loadLastState not found")
	}
	app := findFunc(bdFile, "BodyDb", "Append")
	if app == nil {
		die("BodyDb.Append not found")
	}
	apl := findFunc(spFile, "StateProcessor", "Apply")
	if apl == nil {
		die("StateProcessor.Apply not found")
	}
	appendEv := events(app.Body)
	applyEv := events(apl.Body)
	headInBatch := contains(appendEv, evHeadBatch) || contains(applyEv, evHeadBatch)

	// read sites of the ProcessedState marker outside core/rawdb and tests
	reads := 0
	filepath.Walk(*repo, func(p string, info os.FileInfo, err error) error {
		if err != nil {
			return nil
		}
		if info.IsDir() {
			n := info.Name()
			if n == ".git" || n == "build" || n == "node_modules" {
				return filepath.SkipDir
			}
			return nil
		}
		if !strings.HasSuffix(p, ".go") || strings.HasSuffix(p, "_test.go") {
			return nil
		}
		rel, _ := filepath.Rel(*repo, p)
		if strings.HasPrefix(rel, filepath.Join("core", "rawdb")) || strings.Contains(filepath.Base(p), "verif_") {
			return nil
		}
		b, err := os.ReadFile(p)
		if err == nil {
			reads += strings.Count(string(b), "ReadProcessedState(")
		}
		return nil
	})

	bs := borrowedBatch(fset, *repo)

	var sb strings.Builder
	sb.WriteString("(* GENERATED by harness/gen/c11order from the go-quai source tree — do not edit.\n")
	sb.WriteString("   Event codes: 1 WriteCanonicalHash(db) 2 AppendBlock 3 WriteHeadBlockHash(db) 4 DeleteCanonicalHash(db)\n")
	sb.WriteString("   11 WriteCanonicalHash(batch) 13 WriteHeadBlockHash(batch) 14 DeleteCanonicalHash(batch)\n")
	sb.WriteString("   20 NewBatch 21 batch.Write 22 CreateUTXO(batch) 23 batch.Delete 24 batch.Put\n")
	sb.WriteString("   30 Process 31 AddBloom 32 TrieDB().Commit 33 WriteMultiSet(batch) 34 WriteUTXOSetSize(batch)\n")
	sb.WriteString("   35 WriteProcessedState(batch) 36 Apply 37 WriteTxLookupEntriesByBlock(batch) 38 ValidateState\n")
	sb.WriteString("   40 ReadHeadBlockHash 41 RecoverCurrentHeader 42 currentHeader.Store *)\n")
	sb.WriteString("From Coq Require Import List NArith.\nImport ListNotations.\nLocal Open Scope N_scope.\n\n")
	fmt.Fprintf(&sb, "(* core/bodydb.go:Append / core/state_processor.go:Apply write the head block hash into the block batch *)\nDefinition head_in_batch : bool := %v.\n\n", headInBatch)
	fmt.Fprintf(&sb, "(* core/headerchain.go:SetCurrentHeader, branch \"head is the child of the current head\" *)\nDefinition ext_calls : list N := %s.\n", coqList(ext))
	fmt.Fprintf(&sb, "(* core/headerchain.go:SetCurrentHeader, rollback loop body *)\nDefinition rollback_calls : list N := %s.\n", coqList(rollback))
	fmt.Fprintf(&sb, "(* core/headerchain.go:SetCurrentHeader, roll-forward loop body *)\nDefinition forward_calls : list N := %s.\n", coqList(forward))
	fmt.Fprintf(&sb, "(* core/bodydb.go:BodyDb.Append *)\nDefinition append_calls : list N := %s.\n", coqList(appendEv))
	fmt.Fprintf(&sb, "(* core/state_processor.go:StateProcessor.Apply *)\nDefinition apply_calls : list N := %s.\n", coqList(applyEv))
	fmt.Fprintf(&sb, "(* core/headerchain.go:loadLastState *)\nDefinition load_calls : list N := %s.\n", coqList(events(lls.Body)))
	fmt.Fprintf(&sb, "(* call sites of rawdb.ReadProcessedState outside core/rawdb and tests *)\nDefinition processed_state_read_sites : N := %d.\n", reads)
	sb.WriteString("\n(* The borrowed block batch: functions of core/*.go with an ethdb.Batch parameter and all functions of\n   core/vm/*.go (BodyDb.Append's batch is handed to Apply, Process, ProcessQiTx, ApplyTransaction, EVM.Batch,\n   AddNewLock, Finalize, TrimBlock). *)\n")
	fmt.Fprintf(&sb, "(* functions with an ethdb.Batch parameter *)\nDefinition borrowed_batch_functions : N := %d.\n", bs.funcs)
	fmt.Fprintf(&sb, "(* calls of Write / Reset / Replay on such a parameter or on an <x>.Batch field *)\nDefinition borrowed_batch_flush_sites : N := %d.\n", bs.flush)
	fmt.Fprintf(&sb, "(* rawdb writer calls in these functions whose destination is the borrowed batch *)\nDefinition borrowed_batch_write_sites : N := %d.\n", bs.writes)
	fmt.Fprintf(&sb, "(* rawdb writer calls in these functions with any other destination (a database) *)\nDefinition borrowed_batch_bypass_sites : N := %d.\n", bs.bypass)
	if err := os.WriteFile(*out, []byte(sb.String()), 0o644); err != nil {
		die("write: %v", err)
	}
	fmt.Printf("c11order: borrowed batch: %d functions, %d flush sites, %d writes into it, %d writes past it\n", bs.funcs, bs.flush, bs.writes, bs.bypass)
	fmt.Printf("c11order: head_in_batch=%v ext=%v rollback=%d events forward=%v append=%v apply=%v\n", headInBatch, ext, len(rollback), forward, appendEv, applyEv)
}

// gen c14sites: emits coq/Generated/C14Sites.v from the source tree under check - the inventory
// of the places where an encoder or decoder can hand out memory it does not own. A value-level
// model (Model/C14.v, Lib/C14_*.v) cannot express aliasing; these inventories are the static
// side of the ownership monitors of harness/cmd/c14 (alias.go, retain.go):
//
//   - pool_sites: every function (outside tests and generated code) of core/types, core/rawdb,
//     common, p2p/pb, rlp that takes a *bytes.Buffer (or any value) out of a sync.Pool, with the
//     flag "the function returns v.Bytes() of the pooled value" (the bytes escape while the
//     deferred Put recycles the buffer).
//   - shared_stores: every assignment `x.Field = G` / composite literal field `Field: G` where G
//     is a package-level *big.Int of the repository (common.Big0 ...): a struct field that holds
//     a shared mutable integer; keyed by file:function, with the struct type when it can be read
//     off the local declaration.
//   - inplace_writers: every method that writes a *big.Int field of its receiver in place
//     (recv.Field.Set/Add/Sub/...(...)) instead of replacing the pointer.
//
// Proofs/C14_Sites.v carries the obligations: no pooled bytes escape; the shared stores and the
// in-place writers are exactly the reviewed lists; no (type, field) occurs in both.
package main

import (
	"flag"
	"fmt"
	"go/ast"
	"go/parser"
	"go/token"
	"os"
	"path/filepath"
	"sort"
	"strings"
)

var dirs = []string{"core/types", "core/rawdb", "common", "p2p/pb", "rlp"}

type poolSite struct {
	site, pool string
	escapes    bool
}
type storeSite struct{ site, typ, field, global string }
type writerSite struct{ site, typ, field string }

func exprString(e ast.Expr) string {
	switch x := e.(type) {
	case *ast.Ident:
		return x.Name
	case *ast.SelectorExpr:
		return exprString(x.X) + "." + x.Sel.Name
	case *ast.StarExpr:
		return "*" + exprString(x.X)
	case *ast.IndexExpr:
		return exprString(x.X) + "[]"
	case *ast.ParenExpr:
		return exprString(x.X)
	case *ast.UnaryExpr:
		return x.Op.String() + exprString(x.X)
	case *ast.CompositeLit:
		return exprString(x.Type)
	case *ast.CallExpr:
		return exprString(x.Fun) + "()"
	case *ast.TypeAssertExpr:
		return exprString(x.X)
	}
	return "?"
}

func funcName(fd *ast.FuncDecl) string {
	if fd.Recv != nil && len(fd.Recv.List) > 0 {
		return strings.TrimPrefix(exprString(fd.Recv.List[0].Type), "*") + "." + fd.Name.Name
	}
	return fd.Name.Name
}

func recvIdent(fd *ast.FuncDecl) (name, typ string) {
	if fd.Recv != nil && len(fd.Recv.List) > 0 {
		typ = strings.TrimPrefix(exprString(fd.Recv.List[0].Type), "*")
		if len(fd.Recv.List[0].Names) > 0 {
			name = fd.Recv.List[0].Names[0].Name
		}
	}
	return
}

// isGlobalBig: common.BigN selector, or a bare BigN identifier inside package common
func isGlobalBig(e ast.Expr, globals map[string]bool, pkg string) (string, bool) {
	switch x := e.(type) {
	case *ast.SelectorExpr:
		if id, ok := x.X.(*ast.Ident); ok {
			n := id.Name + "." + x.Sel.Name
			if globals[n] {
				return n, true
			}
		}
	case *ast.Ident:
		if globals[pkg+"."+x.Name] {
			return pkg + "." + x.Name, true
		}
	}
	return "", false
}

// package-level `X = big.NewInt(..)` / `new(big.Int)...` / math.BigPow(..) variables: name -> true, as pkg.Name
func collectGlobals(fset *token.FileSet, repo string, into map[string]bool) {
	for _, d := range []string{"common", "common/math", "params", "core/types", "core/rawdb"} {
		files, _ := filepath.Glob(filepath.Join(repo, d, "*.go"))
		for _, f := range files {
			if strings.HasSuffix(f, "_test.go") {
				continue
			}
			af, err := parser.ParseFile(fset, f, nil, 0)
			if err != nil {
				continue
			}
			for _, decl := range af.Decls {
				gd, ok := decl.(*ast.GenDecl)
				if !ok || gd.Tok != token.VAR {
					continue
				}
				for _, sp := range gd.Specs {
					vs := sp.(*ast.ValueSpec)
					for i, n := range vs.Names {
						isBig := false
						if vs.Type != nil && exprString(vs.Type) == "*big.Int" {
							isBig = true
						}
						if i < len(vs.Values) {
							s := exprString(vs.Values[i])
							if strings.HasPrefix(s, "BigPow") || strings.HasPrefix(s, "math.BigPow") {
								isBig = true
							}
							// new(big.Int).Op(...) chains
							if ce, ok := vs.Values[i].(*ast.CallExpr); ok && rootsInNewBigInt(ce) {
								isBig = true
							}
						}
						if isBig {
							into[af.Name.Name+"."+n.Name] = true
						}
					}
				}
			}
		}
	}
}

func rootsInNewBigInt(ce *ast.CallExpr) bool {
	for {
		switch f := ce.Fun.(type) {
		case *ast.SelectorExpr:
			if id, ok := f.X.(*ast.Ident); ok && id.Name == "big" && f.Sel.Name == "NewInt" {
				return true
			}
			inner, ok := f.X.(*ast.CallExpr)
			if !ok {
				return false
			}
			ce = inner
		case *ast.Ident:
			if f.Name == "new" && len(ce.Args) == 1 && exprString(ce.Args[0]) == "big.Int" {
				return true
			}
			return false
		default:
			return false
		}
	}
}

// local declarations `var x T`, `x := T{..}`, `x := &T{..}`, `x := new(T)` -> type name
func localTypes(fd *ast.FuncDecl) map[string]string {
	m := map[string]string{}
	if n, t := recvIdent(fd); n != "" {
		m[n] = t
	}
	if fd.Type.Params != nil {
		for _, p := range fd.Type.Params.List {
			for _, n := range p.Names {
				m[n.Name] = strings.TrimPrefix(exprString(p.Type), "*")
			}
		}
	}
	ast.Inspect(fd.Body, func(n ast.Node) bool {
		switch x := n.(type) {
		case *ast.DeclStmt:
			if gd, ok := x.Decl.(*ast.GenDecl); ok {
				for _, sp := range gd.Specs {
					if vs, ok := sp.(*ast.ValueSpec); ok && vs.Type != nil {
						for _, nm := range vs.Names {
							m[nm.Name] = strings.TrimPrefix(exprString(vs.Type), "*")
						}
					}
				}
			}
		case *ast.AssignStmt:
			if x.Tok == token.DEFINE && len(x.Lhs) == len(x.Rhs) {
				for i, l := range x.Lhs {
					id, ok := l.(*ast.Ident)
					if !ok {
						continue
					}
					switch r := x.Rhs[i].(type) {
					case *ast.CompositeLit:
						m[id.Name] = exprString(r.Type)
					case *ast.UnaryExpr:
						if cl, ok := r.X.(*ast.CompositeLit); ok {
							m[id.Name] = exprString(cl.Type)
						}
					case *ast.CallExpr:
						if f, ok := r.Fun.(*ast.Ident); ok && f.Name == "new" && len(r.Args) == 1 {
							m[id.Name] = exprString(r.Args[0])
						}
					}
				}
			}
		}
		return true
	})
	return m
}

var inplaceOps = map[string]bool{"Set": true, "SetInt64": true, "SetUint64": true, "SetBytes": true, "SetString": true, "SetBit": true, "SetBits": true,
	"Add": true, "Sub": true, "Mul": true, "Div": true, "Mod": true, "Quo": true, "Rem": true, "Exp": true, "Neg": true, "Abs": true,
	"Lsh": true, "Rsh": true, "And": true, "Or": true, "Xor": true, "Not": true, "Sqrt": true, "DivMod": true, "QuoRem": true}

func main() {
	repo := flag.String("repo", "/repo", "repository under check")
	out := flag.String("out", "", "output .v file")
	flag.Parse()
	fset := token.NewFileSet()
	globals := map[string]bool{}
	collectGlobals(fset, *repo, globals)

	var pools []poolSite
	var stores []storeSite
	var writers []writerSite
	nfiles := 0
	for _, d := range dirs {
		files, _ := filepath.Glob(filepath.Join(*repo, d, "*.go"))
		sort.Strings(files)
		for _, f := range files {
			base := filepath.Base(f)
			if strings.HasSuffix(base, "_test.go") || strings.HasSuffix(base, ".pb.go") || strings.HasPrefix(base, "verif_") {
				continue
			}
			af, err := parser.ParseFile(fset, f, nil, 0)
			if err != nil {
				fmt.Fprintln(os.Stderr, "parse", f, err)
				os.Exit(1)
			}
			nfiles++
			rel := d + "/" + base
			// package-level sync.Pool variables of this file are found by name use below; collect all pool names of the package lazily
			for _, decl := range af.Decls {
				fd, ok := decl.(*ast.FuncDecl)
				if !ok || fd.Body == nil {
					continue
				}
				site := rel + ":" + funcName(fd)
				lt := localTypes(fd)
				// ---- pools
				pooled := map[string]string{} // local var -> pool
				ast.Inspect(fd.Body, func(n ast.Node) bool {
					as, ok := n.(*ast.AssignStmt)
					if !ok || len(as.Lhs) != 1 || len(as.Rhs) != 1 {
						return true
					}
					id, ok := as.Lhs[0].(*ast.Ident)
					if !ok {
						return true
					}
					var call *ast.CallExpr
					switch r := as.Rhs[0].(type) {
					case *ast.TypeAssertExpr:
						call, _ = r.X.(*ast.CallExpr)
					case *ast.CallExpr:
						call = r
					}
					if call == nil {
						return true
					}
					if se, ok := call.Fun.(*ast.SelectorExpr); ok && se.Sel.Name == "Get" && len(call.Args) == 0 {
						p := exprString(se.X)
						if strings.Contains(strings.ToLower(p), "pool") {
							pooled[id.Name] = p
						}
					}
					return true
				})
				if len(pooled) > 0 {
					esc := map[string]bool{}
					ast.Inspect(fd.Body, func(n ast.Node) bool {
						rs, ok := n.(*ast.ReturnStmt)
						if !ok {
							return true
						}
						for _, res := range rs.Results {
							// the result IS v.Bytes() / v.buf / v (not a copy made by a call around it)
							e := res
							for {
								if p, ok := e.(*ast.ParenExpr); ok {
									e = p.X
									continue
								}
								if s, ok := e.(*ast.SliceExpr); ok {
									e = s.X
									continue
								}
								break
							}
							switch x := e.(type) {
							case *ast.CallExpr:
								if se, ok := x.Fun.(*ast.SelectorExpr); ok && (se.Sel.Name == "Bytes" || se.Sel.Name == "Next") {
									if id, ok := se.X.(*ast.Ident); ok && pooled[id.Name] != "" {
										esc[id.Name] = true
									}
								}
							case *ast.Ident:
								if pooled[x.Name] != "" {
									esc[x.Name] = true
								}
							case *ast.SelectorExpr:
								if id, ok := x.X.(*ast.Ident); ok && pooled[id.Name] != "" {
									esc[id.Name] = true
								}
							}
						}
						return true
					})
					var vs []string
					for v := range pooled {
						vs = append(vs, v)
					}
					sort.Strings(vs)
					for _, v := range vs {
						pools = append(pools, poolSite{site, pooled[v], esc[v]})
					}
				}
				// ---- stores of package-level big integers into fields
				ast.Inspect(fd.Body, func(n ast.Node) bool {
					switch x := n.(type) {
					case *ast.AssignStmt:
						if len(x.Lhs) != len(x.Rhs) {
							return true
						}
						for i, l := range x.Lhs {
							g, ok := isGlobalBig(x.Rhs[i], globals, af.Name.Name)
							if !ok {
								continue
							}
							switch lhs := l.(type) {
							case *ast.SelectorExpr:
								typ := "?"
								if id, ok := lhs.X.(*ast.Ident); ok && lt[id.Name] != "" {
									typ = lt[id.Name]
								}
								stores = append(stores, storeSite{site, typ, lhs.Sel.Name, g})
							case *ast.IndexExpr:
								if se, ok := lhs.X.(*ast.SelectorExpr); ok {
									typ := "?"
									if id, ok := se.X.(*ast.Ident); ok && lt[id.Name] != "" {
										typ = lt[id.Name]
									}
									stores = append(stores, storeSite{site, typ, se.Sel.Name, g})
								}
							}
						}
					case *ast.CompositeLit:
						for _, el := range x.Elts {
							kv, ok := el.(*ast.KeyValueExpr)
							if !ok {
								continue
							}
							if g, ok := isGlobalBig(kv.Value, globals, af.Name.Name); ok {
								stores = append(stores, storeSite{site, strings.TrimPrefix(exprString(x.Type), "&"), exprString(kv.Key), g})
							}
						}
					}
					return true
				})
				// ---- in-place writes of a receiver's big integer field
				if rn, rt := recvIdent(fd); rn != "" {
					seen := map[string]bool{}
					ast.Inspect(fd.Body, func(n ast.Node) bool {
						call, ok := n.(*ast.CallExpr)
						if !ok {
							return true
						}
						se, ok := call.Fun.(*ast.SelectorExpr)
						if !ok || !inplaceOps[se.Sel.Name] {
							return true
						}
						target := se.X
						if ix, ok := target.(*ast.IndexExpr); ok {
							target = ix.X
						}
						fs, ok := target.(*ast.SelectorExpr)
						if !ok {
							return true
						}
						if id, ok := fs.X.(*ast.Ident); ok && id.Name == rn && !seen[fs.Sel.Name] {
							seen[fs.Sel.Name] = true
							writers = append(writers, writerSite{site, rt, fs.Sel.Name})
						}
						return true
					})
				}
			}
		}
	}
	sort.Slice(pools, func(i, j int) bool { return pools[i].site+pools[i].pool < pools[j].site+pools[j].pool })
	sort.Slice(stores, func(i, j int) bool {
		return stores[i].site+stores[i].field+stores[i].global < stores[j].site+stores[j].field+stores[j].global
	})
	sort.Slice(writers, func(i, j int) bool { return writers[i].site+writers[i].field < writers[j].site+writers[j].field })

	var sb strings.Builder
	sb.WriteString("(* GENERATED by harness/gen/c14sites from the go-quai source tree - do not edit. *)\n")
	sb.WriteString("From Coq Require Import List NArith String.\nImport ListNotations.\nLocal Open Scope string_scope.\n\nModule C14Sites.\n")
	fmt.Fprintf(&sb, "Definition n_files : N := %d%%N.\nDefinition n_global_bigints : N := %d%%N.\n\n", nfiles, len(globals))
	sb.WriteString("(* functions that take a scratch value out of a sync.Pool: (file:function, pool, the pooled bytes are returned) *)\nDefinition pool_sites : list (string * string * bool) := [\n")
	for i, p := range pools {
		sep := ";"
		if i == len(pools)-1 {
			sep = ""
		}
		fmt.Fprintf(&sb, "  (%q, %q, %v)%s\n", p.site, p.pool, p.escapes, sep)
	}
	sb.WriteString("].\n\n(* struct fields assigned a package-level *big.Int: (file:function, struct type, field, global) *)\nDefinition shared_stores : list (string * string * string * string) := [\n")
	for i, s := range stores {
		sep := ";"
		if i == len(stores)-1 {
			sep = ""
		}
		fmt.Fprintf(&sb, "  (%q, %q, %q, %q)%s\n", s.site, s.typ, s.field, s.global, sep)
	}
	sb.WriteString("].\n\n(* methods that write a *big.Int field of their receiver in place: (file:function, receiver type, field) *)\nDefinition inplace_writers : list (string * string * string) := [\n")
	for i, w := range writers {
		sep := ";"
		if i == len(writers)-1 {
			sep = ""
		}
		fmt.Fprintf(&sb, "  (%q, %q, %q)%s\n", w.site, w.typ, w.field, sep)
	}
	sb.WriteString("].\nEnd C14Sites.\n")
	if *out == "" {
		fmt.Print(sb.String())
		return
	}
	if err := os.WriteFile(*out, []byte(sb.String()), 0o644); err != nil {
		fmt.Fprintln(os.Stderr, err)
		os.Exit(1)
	}
}

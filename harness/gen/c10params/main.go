// gen c10params: emits coq/Generated/C10Params.v from the repository under check:
//   - compiled key lengths of the linked rawdb package (the module's `replace` points at the
//     repository under check),
//   - the sequence of database calls inside the rollback loop of HeaderChain.SetCurrentHeader
//     (core/headerchain.go) in source order, and whether the deleted coinbase lockups are
//     re-applied by a descending loop,
//   - which delegate vm.AddNewLock (core/vm/contracts.go) puts into oldLockupData,
//   - which undo records StateProcessor.Process and HeaderChain.Finalize write.
//
// Model/C10.v carries the obligations (rollback_order_ok, key_lengths_ok, undo_records_written)
// and selects the AddNewLock variant the source has.
package main

import (
	"flag"
	"fmt"
	"go/ast"
	"go/parser"
	"go/token"
	"os"
	"path/filepath"
	"strings"

	"github.com/dominant-strategies/go-quai/core/rawdb"
)

func parse(path string) (*token.FileSet, *ast.File) {
	fs := token.NewFileSet()
	f, err := parser.ParseFile(fs, path, nil, 0)
	if err != nil {
		fmt.Fprintln(os.Stderr, "parse:", err)
		os.Exit(1)
	}
	return fs, f
}

func findFunc(f *ast.File, recv, name string) *ast.FuncDecl {
	for _, d := range f.Decls {
		fd, ok := d.(*ast.FuncDecl)
		if !ok || fd.Name.Name != name {
			continue
		}
		if recv == "" && fd.Recv == nil {
			return fd
		}
		if recv != "" && fd.Recv != nil && len(fd.Recv.List) == 1 {
			t := fd.Recv.List[0].Type
			if s, ok := t.(*ast.StarExpr); ok {
				t = s.X
			}
			if id, ok := t.(*ast.Ident); ok && id.Name == recv {
				return fd
			}
		}
	}
	return nil
}

// name of a call as "pkgOrRecv.Func" for batch.* and "Func" for rawdb.* / others
func callName(c *ast.CallExpr) string {
	switch x := c.Fun.(type) {
	case *ast.Ident:
		return x.Name
	case *ast.SelectorExpr:
		if id, ok := x.X.(*ast.Ident); ok {
			if id.Name == "batch" {
				return "batch." + x.Sel.Name
			}
			if id.Name == "rawdb" {
				return x.Sel.Name
			}
		}
		return ""
	}
	return ""
}

func coqStrings(l []string) string {
	q := make([]string, len(l))
	for i, s := range l {
		q[i] = "\"" + s + "\""
	}
	return "[" + strings.Join(q, "; ") + "]%string"
}

func coqBool(b bool) string {
	if b {
		return "true"
	}
	return "false"
}

func main() {
	repo := flag.String("repo", "/repo", "repository under check")
	out := flag.String("out", "", "output .v file")
	flag.Parse()

	// ---- SetCurrentHeader: the rollback loop is the `for` statement that contains DeleteCanonicalHash(batch, ..)
	_, hf := parse(filepath.Join(*repo, "core", "headerchain.go"))
	sch := findFunc(hf, "HeaderChain", "SetCurrentHeader")
	if sch == nil {
		fmt.Fprintln(os.Stderr, "SetCurrentHeader not found")
		os.Exit(1)
	}
	var loop *ast.ForStmt
	ast.Inspect(sch.Body, func(n ast.Node) bool {
		fs, ok := n.(*ast.ForStmt)
		if !ok || loop != nil {
			return true
		}
		has := false
		ast.Inspect(fs.Body, func(m ast.Node) bool {
			if c, ok := m.(*ast.CallExpr); ok && callName(c) == "DeleteCanonicalHash" {
				if len(c.Args) > 0 {
					if id, ok := c.Args[0].(*ast.Ident); ok && id.Name == "batch" {
						has = true
					}
				}
			}
			return true
		})
		if has && fs.Cond == nil {
			loop = fs
			return false
		}
		return true
	})
	if loop == nil {
		fmt.Fprintln(os.Stderr, "rollback loop not found in SetCurrentHeader")
		os.Exit(1)
	}
	interesting := map[string]bool{"DeleteCanonicalHash": true, "ReadSpentUTXOs": true, "ReadTrimmedUTXOs": true, "CreateUTXO": true,
		"ReadCreatedUTXOKeys": true, "batch.Delete": true, "ReadDeletedCoinbaseLockups": true, "batch.Put": true,
		"ReadCreatedCoinbaseLockupKeys": true, "WriteHeadBlockHash": true, "WriteCanonicalHash": true, "batch.Write": true,
		"WriteAddressUTXOs": true, "DeleteAddressUTXOsWithBatch": true, "UndoNewLockupsForBlock": true}
	var calls []string
	reverse := false
	ast.Inspect(loop.Body, func(n ast.Node) bool {
		switch x := n.(type) {
		case *ast.CallExpr:
			if nm := callName(x); interesting[nm] {
				calls = append(calls, nm)
			}
		case *ast.ForStmt:
			// for i := len(deletedCoinbases) - 1; i >= 0; i-- { ... batch.Put(..) }
			dec := false
			if p, ok := x.Post.(*ast.IncDecStmt); ok && p.Tok == token.DEC {
				dec = true
			}
			startsAtEnd := false
			if as, ok := x.Init.(*ast.AssignStmt); ok && len(as.Rhs) == 1 {
				if be, ok := as.Rhs[0].(*ast.BinaryExpr); ok && be.Op == token.SUB {
					if c, ok := be.X.(*ast.CallExpr); ok {
						if id, ok := c.Fun.(*ast.Ident); ok && id.Name == "len" && len(c.Args) == 1 {
							if a, ok := c.Args[0].(*ast.Ident); ok && a.Name == "deletedCoinbases" {
								startsAtEnd = true
							}
						}
					}
				}
			}
			hasPut := false
			ast.Inspect(x.Body, func(m ast.Node) bool {
				if c, ok := m.(*ast.CallExpr); ok && callName(c) == "batch.Put" {
					hasPut = true
				}
				return true
			})
			if dec && startsAtEnd && hasPut {
				reverse = true
			}
		}
		return true
	})

	// ---- the four write loops of the rollback (re-create spent/trimmed, delete created keys, restore
	// deleted lockups, delete created lockups): is the write reached on EVERY iteration? It is when the
	// write is a statement of the loop body itself (not nested in an if/switch/closure) and the body
	// contains no continue/break/goto. (`return err` aborts the whole reorganisation, it does not skip.)
	type wloop struct {
		call          string
		unconditional bool
	}
	var wloops []wloop
	isWrite := func(c *ast.CallExpr) string {
		switch nm := callName(c); nm {
		case "batch.Delete", "batch.Put":
			return nm
		case "CreateUTXO":
			if len(c.Args) > 0 {
				if id, ok := c.Args[0].(*ast.Ident); ok && id.Name == "batch" {
					return nm
				}
			}
		}
		return ""
	}
	var visitLoops func(n ast.Node)
	visitLoops = func(root ast.Node) {
		ast.Inspect(root, func(n ast.Node) bool {
			var body *ast.BlockStmt
			switch x := n.(type) {
			case *ast.ForStmt:
				body = x.Body
			case *ast.RangeStmt:
				body = x.Body
			}
			if body == nil || n == ast.Node(loop) {
				return true
			}
			which := ""
			ast.Inspect(body, func(m ast.Node) bool {
				if c, ok := m.(*ast.CallExpr); ok && which == "" {
					which = isWrite(c)
				}
				return true
			})
			if which == "" {
				return true
			}
			direct := false
			for _, st := range body.List {
				var c *ast.CallExpr
				switch y := st.(type) {
				case *ast.ExprStmt:
					c, _ = y.X.(*ast.CallExpr)
				case *ast.AssignStmt:
					if len(y.Rhs) == 1 {
						c, _ = y.Rhs[0].(*ast.CallExpr)
					}
				}
				if c != nil && isWrite(c) == which {
					direct = true
				}
			}
			branches := false
			ast.Inspect(body, func(m ast.Node) bool {
				if _, ok := m.(*ast.BranchStmt); ok {
					branches = true
				}
				return true
			})
			wloops = append(wloops, wloop{which, direct && !branches})
			return false
		})
	}
	visitLoops(loop.Body)

	// ---- AddNewLock: oldLockupData, err = rawdb.WriteCoinbaseLockupToSlice(balance, trancheUnlockHeight, elements, X)
	_, cf := parse(filepath.Join(*repo, "core", "vm", "contracts.go"))
	anl := findFunc(cf, "", "AddNewLock")
	if anl == nil {
		fmt.Fprintln(os.Stderr, "AddNewLock not found")
		os.Exit(1)
	}
	undoArg := ""
	ast.Inspect(anl.Body, func(n ast.Node) bool {
		if c, ok := n.(*ast.CallExpr); ok && callName(c) == "WriteCoinbaseLockupToSlice" && len(c.Args) == 4 {
			if id, ok := c.Args[3].(*ast.Ident); ok {
				undoArg = id.Name
			}
		}
		return true
	})
	if undoArg != "delegate" && undoArg != "oldDelegate" {
		fmt.Fprintln(os.Stderr, "AddNewLock: unrecognised delegate argument of WriteCoinbaseLockupToSlice:", undoArg)
		os.Exit(1)
	}

	// ---- Process / Finalize undo writes
	_, pf := parse(filepath.Join(*repo, "core", "state_processor.go"))
	proc := findFunc(pf, "StateProcessor", "Process")
	var pw []string
	if proc != nil {
		ast.Inspect(proc.Body, func(n ast.Node) bool {
			if c, ok := n.(*ast.CallExpr); ok {
				switch nm := callName(c); nm {
				case "WriteSpentUTXOs", "WriteCreatedUTXOKeys", "WriteCreatedCoinbaseLockupKeys", "WriteDeletedCoinbaseLockups":
					if len(c.Args) > 0 {
						if id, ok := c.Args[0].(*ast.Ident); ok && id.Name == "batch" {
							pw = append(pw, nm)
						}
					}
				}
			}
			return true
		})
	}
	_, vf := parse(filepath.Join(*repo, "core", "headerchain_validation.go"))
	fin := findFunc(vf, "HeaderChain", "Finalize")
	finTrim := false
	if fin != nil {
		ast.Inspect(fin.Body, func(n ast.Node) bool {
			if c, ok := n.(*ast.CallExpr); ok && callName(c) == "WriteTrimmedUTXOs" {
				finTrim = true
			}
			return true
		})
	}

	var sb strings.Builder
	sb.WriteString("(* GENERATED by harness/gen/c10params from the repository under check. Do not edit. *)\n")
	sb.WriteString("From Coq Require Import List NArith String.\nImport ListNotations.\nLocal Open Scope N_scope.\n\n")
	fmt.Fprintf(&sb, "Definition utxo_key_length : N := %d.\n", rawdb.UtxoKeyLength)
	fmt.Fprintf(&sb, "Definition utxo_key_with_denomination_length : N := %d.\n", rawdb.UtxoKeyWithDenominationLength)
	fmt.Fprintf(&sb, "Definition coinbase_lockup_key_length : N := %d.\n", rawdb.CoinbaseLockupKeyLength)
	fmt.Fprintf(&sb, "(* core/headerchain.go:SetCurrentHeader, rollback loop, database calls in source order *)\n")
	fmt.Fprintf(&sb, "Definition rollback_calls : list string := %s.\n", coqStrings(calls))
	{
		it := make([]string, len(wloops))
		for i, w := range wloops {
			it[i] = fmt.Sprintf("(\"%s\"%%string, %s)", w.call, coqBool(w.unconditional))
		}
		fmt.Fprintf(&sb, "(* the loops of the rollback that write outputs / lockup records, in source order; true = the write is reached on every iteration (statement of the loop body, no continue/break in the body) *)\n")
		fmt.Fprintf(&sb, "Definition rollback_write_loops : list (string * bool) := [%s].\n", strings.Join(it, "; "))
	}
	fmt.Fprintf(&sb, "Definition deleted_lockups_restored_in_reverse : bool := %s.\n", coqBool(reverse))
	fmt.Fprintf(&sb, "(* core/vm/contracts.go:AddNewLock: oldLockupData is built with `%s` *)\n", undoArg)
	fmt.Fprintf(&sb, "Definition undo_uses_old_delegate : bool := %s.\n", coqBool(undoArg == "oldDelegate"))
	fmt.Fprintf(&sb, "(* core/state_processor.go:Process, undo records written into the block batch *)\n")
	fmt.Fprintf(&sb, "Definition process_undo_writes : list string := %s.\n", coqStrings(pw))
	fmt.Fprintf(&sb, "Definition finalize_writes_trimmed : bool := %s.\n", coqBool(finTrim))
	if *out == "" {
		fmt.Print(sb.String())
		return
	}
	if err := os.WriteFile(*out, []byte(sb.String()), 0o644); err != nil {
		fmt.Fprintln(os.Stderr, err)
		os.Exit(1)
	}
}

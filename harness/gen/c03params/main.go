// gen c03params: emits coq/Generated/C03Params.v from /repo:
//   - the secp256k1 group order and its half as crypto.ValidateSignatureValues uses them
//     (compiled values through the verif hook crypto.VerifC03CurveOrder);
//   - the wire schema (field number, wire type, presence) of ProtoTransaction and of the
//     nested messages a signing payload contains (protoreflect on the compiled descriptors);
//   - which ProtoTransaction fields ProtoEncodeTxSigningData sets per transaction type and
//     which fields ProtoEncode sets per type (AST walk of core/types/transaction.go), as
//     proto field numbers, together with the fields assigned under an else-less `if`.
package main

import (
	"flag"
	"fmt"
	"go/ast"
	"go/parser"
	"go/token"
	"os"
	"path/filepath"
	"reflect"
	"sort"
	"strconv"
	"strings"

	"github.com/dominant-strategies/go-quai/common"
	"github.com/dominant-strategies/go-quai/core/types"
	"github.com/dominant-strategies/go-quai/crypto"
	"google.golang.org/protobuf/proto"
	"google.golang.org/protobuf/reflect/protoreflect"
)

func die(f string, a ...any) {
	fmt.Fprintf(os.Stderr, "c03params: "+f+"\n", a...)
	os.Exit(1)
}

// Go struct field name -> proto field number, from the generated struct tags.
func goFieldNumbers(msg any) map[string]int {
	out := map[string]int{}
	t := reflect.TypeOf(msg).Elem()
	for i := 0; i < t.NumField(); i++ {
		tag := t.Field(i).Tag.Get("protobuf")
		if tag == "" {
			continue
		}
		parts := strings.Split(tag, ",")
		if len(parts) < 2 {
			continue
		}
		n, err := strconv.Atoi(parts[1])
		if err != nil {
			continue
		}
		out[t.Field(i).Name] = n
	}
	return out
}

type sets struct {
	always map[string]bool // assigned on every path of the clause
	cond   map[string]bool // assigned only under an `if` without else
}

// collect assignments  <recv>.<Field> = ...  in stmts.
func collect(stmts []ast.Stmt, recv string, s *sets, conditional bool) {
	note := func(name string, c bool) {
		if c {
			if !s.always[name] {
				s.cond[name] = true
			}
		} else {
			s.always[name] = true
			delete(s.cond, name)
		}
	}
	for _, st := range stmts {
		switch x := st.(type) {
		case *ast.AssignStmt:
			for _, l := range x.Lhs {
				if se, ok := l.(*ast.SelectorExpr); ok {
					if id, ok := se.X.(*ast.Ident); ok && id.Name == recv {
						note(se.Sel.Name, conditional)
					}
				}
			}
		case *ast.IfStmt:
			if x.Else == nil {
				collect(x.Body.List, recv, s, true)
			} else {
				// both branches: a field assigned in both is unconditional
				a := &sets{map[string]bool{}, map[string]bool{}}
				b := &sets{map[string]bool{}, map[string]bool{}}
				collect(x.Body.List, recv, a, false)
				switch e := x.Else.(type) {
				case *ast.BlockStmt:
					collect(e.List, recv, b, false)
				case *ast.IfStmt:
					collect([]ast.Stmt{e}, recv, b, false)
				}
				for k := range a.always {
					note(k, conditional || !b.always[k])
				}
				for k := range b.always {
					if !a.always[k] {
						note(k, true)
					}
				}
				for k := range a.cond {
					note(k, true)
				}
				for k := range b.cond {
					note(k, true)
				}
			}
		case *ast.BlockStmt:
			collect(x.List, recv, s, conditional)
		}
	}
}

// perType walks function fn (method of *Transaction) and returns, for each `case X:` of the
// switch on tx.Type(), the fields assigned on recv; assignments before the switch are added
// to every clause (common).
func perType(file *ast.File, fn, recv string) map[string]*sets {
	var fd *ast.FuncDecl
	for _, d := range file.Decls {
		if f, ok := d.(*ast.FuncDecl); ok && f.Name.Name == fn && f.Recv != nil && len(f.Recv.List) == 1 {
			if st, ok := f.Recv.List[0].Type.(*ast.StarExpr); ok {
				if id, ok := st.X.(*ast.Ident); ok && id.Name == "Transaction" {
					fd = f
				}
			}
		}
	}
	if fd == nil {
		die("function %s not found", fn)
	}
	res := map[string]*sets{}
	common := &sets{map[string]bool{}, map[string]bool{}}
	found := false
	for _, st := range fd.Body.List {
		sw, ok := st.(*ast.SwitchStmt)
		if !ok {
			if !found {
				// statements before the switch (skip the `if tx == nil { return }` guard)
				if _, isIf := st.(*ast.IfStmt); !isIf {
					collect([]ast.Stmt{st}, recv, common, false)
				}
			}
			continue
		}
		found = true
		for _, c := range sw.Body.List {
			cc := c.(*ast.CaseClause)
			if len(cc.List) != 1 {
				die("%s: unexpected case shape", fn)
			}
			id, ok := cc.List[0].(*ast.Ident)
			if !ok {
				die("%s: case label is not an identifier", fn)
			}
			s := &sets{map[string]bool{}, map[string]bool{}}
			for k := range common.always {
				s.always[k] = true
			}
			collect(cc.Body, recv, s, false)
			res[id.Name] = s
		}
	}
	if !found {
		die("%s: no switch on the transaction type", fn)
	}
	return res
}

func nums(m map[string]bool, num map[string]int) string {
	var xs []int
	for k := range m {
		n, ok := num[k]
		if !ok {
			die("field %s has no proto number", k)
		}
		xs = append(xs, n)
	}
	sort.Ints(xs)
	ss := make([]string, len(xs))
	for i, x := range xs {
		ss[i] = strconv.Itoa(x)
	}
	return "[" + strings.Join(ss, "; ") + "]"
}

func main() {
	repo := flag.String("repo", "/repo", "repository root (AST part); compiled values come from the linked packages")
	out := flag.String("out", "", "output .v file")
	flag.Parse()
	if *out == "" {
		die("-out required")
	}
	var sb strings.Builder
	w := func(f string, a ...any) { fmt.Fprintf(&sb, f, a...) }
	w("(* GENERATED by harness/gen/c03params from go-quai — do not edit. *)\n")
	w("From Coq Require Import List NArith.\nImport ListNotations.\nLocal Open Scope N_scope.\n\n")
	w("Module C03Params.\n")

	n, half := crypto.VerifC03CurveOrder()
	w("(* crypto/crypto.go secp256k1N, secp256k1halfN (compiled values) *)\n")
	w("Definition secp_n : N := %s.\n", n.String())
	w("Definition secp_half_n : N := %s.\n", half.String())
	w("Definition signature_length : N := %d.\n", crypto.SignatureLength)
	w("Definition address_length : N := %d.\n", common.AddressLength)
	w("Definition hash_length : N := %d.\n", common.HashLength)
	w("Definition quai_tx_type : N := %d.\nDefinition external_tx_type : N := %d.\nDefinition qi_tx_type : N := %d.\n",
		types.QuaiTxType, types.ExternalTxType, types.QiTxType)

	// wire schema
	msgs := []proto.Message{
		&types.ProtoTransaction{}, &types.ProtoAccessList{}, &types.ProtoAccessTuple{}, &common.ProtoHash{},
		&types.ProtoTxIns{}, &types.ProtoTxIn{}, &types.ProtoOutPoint{}, &types.ProtoTxOuts{}, &types.ProtoTxOut{},
	}
	w("\n(* wire schema: (message id, field number, wire type 0=varint 2=length-delimited, presence 0=implicit 1=explicit 2=repeated)\n")
	for i, m := range msgs {
		w("   %d = %s\n", i, m.ProtoReflect().Descriptor().FullName())
	}
	w("*)\nDefinition schema : list (N * N * N * N) := [\n")
	first := true
	for i, m := range msgs {
		fds := m.ProtoReflect().Descriptor().Fields()
		for j := 0; j < fds.Len(); j++ {
			fd := fds.Get(j)
			wt := -1
			switch fd.Kind() {
			case protoreflect.Uint64Kind, protoreflect.Uint32Kind, protoreflect.Int64Kind, protoreflect.Int32Kind, protoreflect.BoolKind, protoreflect.EnumKind:
				wt = 0
			case protoreflect.BytesKind, protoreflect.StringKind, protoreflect.MessageKind:
				wt = 2
			default:
				wt = 9
			}
			if fd.IsPacked() {
				wt = 8
			}
			pres := 0
			if fd.Cardinality() == protoreflect.Repeated {
				pres = 2
			} else if fd.HasPresence() {
				pres = 1
			}
			if !first {
				w(";\n")
			}
			first = false
			w("  (%d, %d, %d, %d) (* %s *)", i, fd.Number(), wt, pres, fd.Name())
		}
	}
	w("\n].\n")

	// AST: which fields are set
	fset := token.NewFileSet()
	file, err := parser.ParseFile(fset, filepath.Join(*repo, "core/types/transaction.go"), nil, 0)
	if err != nil {
		die("parse: %v", err)
	}
	num := goFieldNumbers(&types.ProtoTransaction{})
	signing := perType(file, "ProtoEncodeTxSigningData", "protoTxSigningData")
	full := perType(file, "ProtoEncode", "protoTx")
	for _, k := range []string{"QuaiTxType", "ExternalTxType", "QiTxType"} {
		if signing[k] == nil || full[k] == nil {
			die("no clause for %s", k)
		}
	}
	w("\n(* fields of ProtoTransaction set by ProtoEncodeTxSigningData, per transaction type (proto field numbers, sorted) *)\n")
	w("Definition signed_quai : list N := %s.\n", nums(signing["QuaiTxType"].always, num))
	w("Definition signed_quai_conditional : list N := %s.\n", nums(signing["QuaiTxType"].cond, num))
	w("Definition signed_external : list N := %s.\n", nums(signing["ExternalTxType"].always, num))
	w("Definition signed_external_conditional : list N := %s.\n", nums(signing["ExternalTxType"].cond, num))
	w("Definition signed_qi : list N := %s.\n", nums(signing["QiTxType"].always, num))
	w("Definition signed_qi_conditional : list N := %s.\n", nums(signing["QiTxType"].cond, num))
	w("\n(* fields set by ProtoEncode (the bytes tx.Hash() is computed from), per transaction type *)\n")
	w("Definition encoded_quai : list N := %s.\n", nums(full["QuaiTxType"].always, num))
	w("Definition encoded_quai_conditional : list N := %s.\n", nums(full["QuaiTxType"].cond, num))
	w("Definition encoded_qi : list N := %s.\n", nums(full["QiTxType"].always, num))
	w("Definition encoded_qi_conditional : list N := %s.\n", nums(full["QiTxType"].cond, num))
	w("End C03Params.\n")
	if err := os.WriteFile(*out, []byte(sb.String()), 0o644); err != nil {
		die("%v", err)
	}
	fmt.Printf("c03params: N=%s signed_quai=%s signed_qi=%s\n", n.Text(16), nums(signing["QuaiTxType"].always, num), nums(signing["QiTxType"].always, num))
}

// Generator for property C05: emits coq/Generated/C05Params.v from the go-quai
// tree the harness module is linked against (constants: compiled-in values of
// package params / types / vm; jump-table rows: through the verif hook
// core/vm/verif_c05_export.go; source-order fingerprints of opETX / opConvert /
// CreateETX: go/ast over the files under -repo).
package main

import (
	"flag"
	"fmt"
	"go/ast"
	"go/parser"
	"go/token"
	"math/big"
	"os"
	"path/filepath"
	"strings"

	"github.com/dominant-strategies/go-quai/core/types"
	"github.com/dominant-strategies/go-quai/core/vm"
	"github.com/dominant-strategies/go-quai/params"
)

func coqStr(s string) string { return "\"" + strings.ReplaceAll(s, "\"", "\"\"") + "\"" }
// closure names carry compiler-assigned numbers ("init.makeCallVariantGasCall.func7"): keep only the stable part
func stable(n string) string {
	var keep []string
	for _, seg := range strings.Split(n, ".") {
		if seg == "init" || seg == "newInstructionSet" || (strings.HasPrefix(seg, "func") && len(seg) > 4 && seg[4] >= '0' && seg[4] <= '9') {
			continue
		}
		keep = append(keep, seg)
	}
	return strings.Join(keep, ".")
}
func coqBool(b bool) string {
	if b {
		return "true"
	}
	return "false"
}

// calls of interest, in source order, inside one function body
var interesting = map[string]bool{
	"IsInChainScope": true, "InternalAndQuaiAddress": true, "IsInQiLedgerScope": true, "IsInQuaiLedgerScope": true,
	"AddOverflow": true, "MulOverflow": true, "CanTransfer": true, "SubBalance": true, "AddBalance": true,
	"DecodeBytes": true, "CheckIfEtxEligible": true, "append": true, "push": true, "pop": true,
	"SetOne": true, "Clear": true, "CmpUint64": true, "FromBig": true, "NewTx": true, "len": true,
	"revertToSnapshot": true, "snapshot": true, "CreateETX": true, "Transfer": true, "Run": true,
	"RunLockupContract": true, "Exist": true, "CreateAccount": true,
	"InternalAndQiAddress": true, "GetState": true, "SetState": true,
}

// additional names recorded only for the frame functions added with the call-kind extension (the
// fingerprints of the functions listed before stay what they were)
var frameExtra = map[string]bool{
	"Snapshot": true, "RevertToSnapshot": true, "create": true, "GrindContract": true, "attemptGrindContractCreation": true,
	"CreateAddress": true, "CreateAddress2": true, "CallCode": true, "DelegateCall": true, "StaticCall": true,
	"Create": true, "Create2": true, "SetCode": true, "UseGas": true, "precompile": true, "RunPrecompiledContract": true,
	"copyCoinbasesDeleted": true,
}

// names recorded only for the lockup precompile's dispatcher and ClaimCoinbaseLockup (added with the claim extension)
var lockupExtra = map[string]bool{
	"UnwrapQi": true, "ClaimQiDeposit": true, "ClaimCoinbaseLockup": true, "GetLockupData": true, "GetLatestLockupData": true,
	"InternalAddress": true, "ReadCoinbaseLockup": true, "DeleteCoinbaseLockup": true, "CoinbaseLockupHash": true,
	"WriteCoinbaseLockupToMap": true, "Uint32": true, "Uint64": true,
}

func fingerprint(repo, file, fn string, extra map[string]bool) ([]string, error) {
	fset := token.NewFileSet()
	f, err := parser.ParseFile(fset, filepath.Join(repo, file), nil, 0)
	if err != nil {
		return nil, err
	}
	var out []string
	found := false
	for _, d := range f.Decls {
		fd, ok := d.(*ast.FuncDecl)
		if !ok || fd.Name.Name != fn || fd.Body == nil {
			continue
		}
		found = true
		ast.Inspect(fd.Body, func(n ast.Node) bool {
			if extra != nil {
				// evm.ETXCache = evm.ETXCache[:n]  (the truncation done by revertToSnapshot)
				if sl, ok := n.(*ast.SliceExpr); ok {
					if se, ok := sl.X.(*ast.SelectorExpr); ok && se.Sel.Name == "ETXCache" {
						out = append(out, "sliceETXCache")
					}
				}
			}
			ce, ok := n.(*ast.CallExpr)
			if !ok {
				return true
			}
			name := ""
			switch x := ce.Fun.(type) {
			case *ast.SelectorExpr:
				name = x.Sel.Name
			case *ast.Ident:
				name = x.Name
			}
			if name == "len" {
				// only len(...ETXCache)
				if len(ce.Args) == 1 {
					if se, ok := ce.Args[0].(*ast.SelectorExpr); ok && se.Sel.Name == "ETXCache" {
						out = append(out, "lenETXCache")
					}
				}
				return true
			}
			if name == "append" {
				if len(ce.Args) >= 1 {
					if se, ok := ce.Args[0].(*ast.SelectorExpr); ok && se.Sel.Name == "ETXCache" {
						out = append(out, "appendETXCache")
					}
				}
				return true
			}
			if interesting[name] || extra[name] {
				out = append(out, name)
			}
			return true
		})
	}
	if !found {
		return nil, fmt.Errorf("function %s not found in %s", fn, file)
	}
	return out, nil
}


// handover records, in source order, how a function treats EVM.ETXCache and the per-transaction outbound record
// (TransitionDb: the dump of the cache into ExecutionResult.Etxs; applyTransaction: receipt.OutboundEtxs;
// EVM.Reset): allocations (make), copy, every assignment to / from ...ETXCache and to OutboundEtxs / Etxs.
func handover(repo, file, fn string) ([]string, error) {
	fset := token.NewFileSet()
	f, err := parser.ParseFile(fset, filepath.Join(repo, file), nil, 0)
	if err != nil {
		return nil, err
	}
	isCache := func(e ast.Expr) bool {
		se, ok := e.(*ast.SelectorExpr)
		return ok && se.Sel.Name == "ETXCache"
	}
	expr := func(e ast.Expr) string {
		switch x := e.(type) {
		case *ast.SelectorExpr:
			if isCache(x) {
				return "ETXCache"
			}
			if id, ok := x.X.(*ast.Ident); ok {
				return id.Name + "." + x.Sel.Name
			}
			return "." + x.Sel.Name
		case *ast.Ident:
			return x.Name
		case *ast.SliceExpr:
			if isCache(x.X) {
				return "ETXCache[:]"
			}
			return "slice"
		case *ast.CallExpr:
			if id, ok := x.Fun.(*ast.Ident); ok {
				if id.Name == "make" && len(x.Args) >= 2 {
					if ce, ok := x.Args[1].(*ast.CallExpr); ok {
						if lid, ok := ce.Fun.(*ast.Ident); ok && lid.Name == "len" && len(ce.Args) == 1 && isCache(ce.Args[0]) {
							return "make(len(ETXCache))"
						}
					}
					if bl, ok := x.Args[1].(*ast.BasicLit); ok {
						return "make(" + bl.Value + ")"
					}
					return "make(?)"
				}
				return id.Name + "()"
			}
			if se, ok := x.Fun.(*ast.SelectorExpr); ok {
				return se.Sel.Name + "()"
			}
		}
		return "?"
	}
	var out []string
	found := false
	for _, d := range f.Decls {
		fd, ok := d.(*ast.FuncDecl)
		if !ok || fd.Name.Name != fn || fd.Body == nil {
			continue
		}
		found = true
		// every recorded statement carries the chain of if / else branches it sits in ("@else(Failed)"): a hand-over that
		// becomes conditional (or moves into another branch) changes the fingerprint
		condNames := func(e ast.Expr) string {
			var names []string
			ast.Inspect(e, func(n ast.Node) bool {
				if se, ok := n.(*ast.SelectorExpr); ok {
					names = append(names, se.Sel.Name)
				}
				return true
			})
			return strings.Join(names, ",")
		}
		var visit func(root ast.Node, guards string)
		var handleIf func(is *ast.IfStmt, guards string)
		emit := func(tok, guards string) {
			// (the early returns of TransitionDb that hand out no ETXs at all are recorded without their guards)
			if guards != "" && tok != "Etxs:nil" {
				tok += "@" + strings.TrimSuffix(guards, "/")
			}
			out = append(out, tok)
		}
		handleIf = func(is *ast.IfStmt, guards string) {
			if is.Init != nil {
				visit(is.Init, guards)
			}
			visit(is.Cond, guards)
			c := condNames(is.Cond)
			visit(is.Body, guards+"if("+c+")/")
			switch e := is.Else.(type) {
			case *ast.IfStmt:
				handleIf(e, guards+"else("+c+")/")
			case nil:
			default:
				visit(e, guards+"else("+c+")/")
			}
		}
		visit = func(root ast.Node, guards string) {
			ast.Inspect(root, func(n ast.Node) bool {
				switch x := n.(type) {
				case *ast.IfStmt:
					handleIf(x, guards)
					return false
				case *ast.AssignStmt:
					for i := range x.Lhs {
						if i >= len(x.Rhs) {
							break
						}
						l, r := expr(x.Lhs[i]), expr(x.Rhs[i])
						if l == "ETXCache" || strings.HasSuffix(l, "OutboundEtxs") || strings.HasSuffix(l, ".Etxs") ||
							r == "ETXCache" || r == "ETXCache[:]" || strings.HasPrefix(r, "make(len(ETXCache") || strings.HasSuffix(r, ".Etxs") {
							emit(l+"="+r, guards)
						}
					}
				case *ast.CallExpr:
					if id, ok := x.Fun.(*ast.Ident); ok && id.Name == "copy" && len(x.Args) == 2 {
						emit("copy("+expr(x.Args[0])+","+expr(x.Args[1])+")", guards)
					}
					if se, ok := x.Fun.(*ast.SelectorExpr); ok && (se.Sel.Name == "Reset" || se.Sel.Name == "Failed") {
						emit(se.Sel.Name, guards)
					}
					if id, ok := x.Fun.(*ast.Ident); ok && id.Name == "ApplyMessage" {
						emit("ApplyMessage", guards)
					}
				case *ast.KeyValueExpr:
					if k, ok := x.Key.(*ast.Ident); ok && k.Name == "Etxs" {
						emit("Etxs:"+expr(x.Value), guards)
					}
				}
				return true
			})
		}
		visit(fd.Body, "")
	}
	if !found {
		return nil, fmt.Errorf("function %s not found in %s", fn, file)
	}
	return out, nil
}

func main() {
	repo := flag.String("repo", "/repo", "go-quai tree")
	out := flag.String("out", "", "output .v")
	flag.Parse()
	if *out == "" {
		fmt.Fprintln(os.Stderr, "-out required")
		os.Exit(2)
	}
	var sb strings.Builder
	w := func(format string, a ...any) { fmt.Fprintf(&sb, format, a...) }
	w("(* GENERATED by harness/gen/c05params from the go-quai tree -- do not edit. *)\n")
	w("From Coq Require Import List NArith Bool String.\nImport ListNotations.\nLocal Open Scope N_scope.\nLocal Open Scope string_scope.\n\n")
	def := func(name string, v any) { w("Definition %s : N := %v.\n", name, v) }
	w("(* package params *)\n")
	def("SelfDestructRefundForkBlock", params.SelfDestructRefundForkBlock)
	def("ControllerKickInBlock", params.ControllerKickInBlock)
	def("KawPowForkBlock", params.KawPowForkBlock)
	def("KQuaiChangeHoldInterval", params.KQuaiChangeHoldInterval)
	def("ShaEquivalentDifficultyForkBlock", params.ShaEquivalentDifficultyForkBlock)
	def("TxGas", params.TxGas)
	def("ETXGas", params.ETXGas)
	def("MinQuaiConversionAmount", params.MinQuaiConversionAmount.String())
	def("CallValueTransferGas", params.CallValueTransferGas)
	def("CallStipend", params.CallStipend)
	def("CallCreateDepth", params.CallCreateDepth)
	def("StackLimit", params.StackLimit)
	def("MemoryGas", params.MemoryGas)
	def("QuadCoeffDiv", params.QuadCoeffDiv)
	def("Sha3WordGas", params.Sha3WordGas)
	def("CreateDataGas", params.CreateDataGas)
	w("(* params.GetMaxCodeSize at the block number the harness configures (MaxCodeSizeForkHeight + 10) *)\n")
	def("MaxCodeSize", params.GetMaxCodeSize(params.MaxCodeSizeForkHeight+10))
	w("(* state-size dependent costs evaluated at QuaiStateSize = 2^20, contract size 0 (what the harness configures) *)\n")
	ss := new(big.Int).Lsh(big.NewInt(1), 20)
	def("HarnessQuaiStateSize", ss.String())
	def("WarmStorageReadCost", params.WarmStorageReadCost(ss, big.NewInt(0)))
	def("CallNewAccountGas", params.CallNewAccountGas(ss))
	w("(* package types *)\n")
	def("EtxDefaultType", uint64(types.DefaultType))
	def("EtxConversionType", uint64(types.ConversionType))
	def("EtxUnwrapQiType", uint64(types.UnwrapQiType))
	def("EtxCoinbaseLockupType", uint64(types.CoinbaseLockupType))
	w("(* package params: epoch length of the coinbase lockups *)\n")
	def("CoinbaseEpochBlocks", params.CoinbaseEpochBlocks)
	w("\n(* jump table rows (core/vm/jump_table.go through the verif hook) *)\n")
	w("Record oprow := mkRow { r_min : N; r_max : N; r_exec : string; r_cgas : string; r_cgasv : option N; r_dgas : string; r_mem : string;\n  r_halts : bool; r_jumps : bool; r_writes : bool; r_reverts : bool; r_returns : bool }.\n")
	ops := []struct {
		name string
		op   vm.OpCode
	}{{"ETX", vm.ETX}, {"CONVERT", vm.CONVERT}, {"CALL", vm.CALL}, {"PUSH32", vm.PUSH32}, {"POP", vm.POP}, {"MSTORE", vm.MSTORE},
		{"STOP", vm.STOP}, {"REVERT", vm.REVERT},
		{"CALLCODE", vm.CALLCODE}, {"DELEGATECALL", vm.DELEGATECALL}, {"STATICCALL", vm.STATICCALL}, {"CREATE", vm.CREATE}, {"CREATE2", vm.CREATE2}, {"RETURN", vm.RETURN}}
	for _, o := range ops {
		r := vm.VerifC05JumpTableRow(o.op)
		if !r.Defined {
			fmt.Fprintf(os.Stderr, "opcode %s not in the jump table\n", o.name)
			os.Exit(1)
		}
		cg := "None"
		if r.ConstGasVal >= 0 {
			cg = fmt.Sprintf("(Some %d)", r.ConstGasVal)
		}
		w("Definition row_%s : oprow := mkRow %d %d %s %s %s %s %s %s %s %s %s %s.\n", o.name, r.MinStack, r.MaxStack,
			coqStr(stable(r.Execute)), coqStr(stable(r.ConstantGas)), cg, coqStr(stable(r.DynamicGas)), coqStr(stable(r.MemorySize)),
			coqBool(r.Halts), coqBool(r.Jumps), coqBool(r.Writes), coqBool(r.Reverts), coqBool(r.Returns))
		w("Definition opcode_%s : N := %d.\n", o.name, byte(o.op))
	}
	inv := vm.VerifC05JumpTableRow(vm.OpCode(0xfe))
	w("Definition opcode_0xfe_defined : bool := %s.\n", coqBool(inv.Defined))
	w("\n(* order of the relevant calls in the source text of the functions the model mirrors *)\n")
	for _, f := range []struct {
		name, file, fn string
		extra          map[string]bool
	}{
		{"src_opETX", "core/vm/instructions.go", "opETX", nil},
		{"src_opConvert", "core/vm/instructions.go", "opConvert", nil},
		{"src_CreateETX", "core/vm/evm.go", "CreateETX", nil},
		{"src_Call", "core/vm/evm.go", "Call", nil},
		{"src_opCall", "core/vm/instructions.go", "opCall", nil},
		{"src_gasCall", "core/vm/gas_table.go", "gasCall", nil},
		{"src_UnwrapQi", "core/vm/contracts.go", "UnwrapQi", nil},
		// every frame kind takes the full EVM snapshot (state revision + ETX cache length) and restores it on error
		{"src_snapshot", "core/vm/evm.go", "snapshot", frameExtra},
		{"src_revertToSnapshot", "core/vm/evm.go", "revertToSnapshot", frameExtra},
		{"src_CallCode", "core/vm/evm.go", "CallCode", frameExtra},
		{"src_DelegateCall", "core/vm/evm.go", "DelegateCall", frameExtra},
		{"src_StaticCall", "core/vm/evm.go", "StaticCall", frameExtra},
		{"src_Create", "core/vm/evm.go", "Create", frameExtra},
		{"src_Create2", "core/vm/evm.go", "Create2", frameExtra},
		{"src_create", "core/vm/evm.go", "create", frameExtra},
		{"src_opCallCode", "core/vm/instructions.go", "opCallCode", frameExtra},
		{"src_opDelegateCall", "core/vm/instructions.go", "opDelegateCall", frameExtra},
		{"src_opStaticCall", "core/vm/instructions.go", "opStaticCall", frameExtra},
		{"src_opCreate", "core/vm/instructions.go", "opCreate", frameExtra},
		{"src_opCreate2", "core/vm/instructions.go", "opCreate2", frameExtra},
		{"src_gasCallCode", "core/vm/gas_table.go", "gasCallCode", frameExtra},
		{"src_gasDelegateCall", "core/vm/gas_table.go", "gasDelegateCall", frameExtra},
		{"src_gasStaticCall", "core/vm/gas_table.go", "gasStaticCall", frameExtra},
		// the lockup precompile: dispatch by input length, and the claim of a locked coinbase
		{"src_RunLockupContract", "core/vm/contracts.go", "RunLockupContract", lockupExtra},
		{"src_ClaimCoinbaseLockup", "core/vm/contracts.go", "ClaimCoinbaseLockup", lockupExtra},
	} {
		fp, err := fingerprint(*repo, f.file, f.fn, f.extra)
		if err != nil {
			fmt.Fprintln(os.Stderr, err)
			os.Exit(1)
		}
		items := make([]string, len(fp))
		for i, s := range fp {
			items[i] = coqStr(s)
		}
		w("Definition %s : list string := [%s].\n", f.name, strings.Join(items, "; "))
	}
	w("\n(* how the per-transaction ETX cache is handed to the transaction's result / receipt *)\n")
	for _, f := range []struct{ name, file, fn string }{
		{"src_handover_TransitionDb", "core/state_transition.go", "TransitionDb"},
		{"src_handover_applyTransaction", "core/state_processor.go", "applyTransaction"},
		{"src_handover_Reset", "core/vm/evm.go", "Reset"},
	} {
		fp, err := handover(*repo, f.file, f.fn)
		if err != nil {
			fmt.Fprintln(os.Stderr, err)
			os.Exit(1)
		}
		items := make([]string, len(fp))
		for i, s := range fp {
			items[i] = coqStr(s)
		}
		w("Definition %s : list string := [%s].\n", f.name, strings.Join(items, "; "))
	}
	if err := os.WriteFile(*out, []byte(sb.String()), 0o644); err != nil {
		fmt.Fprintln(os.Stderr, err)
		os.Exit(1)
	}
}

// Generator for coq/Generated/C12Journal.v: the inventory of the StateDB change journal as the
// source of /repo states it NOW (go/parser walk over core/state/*.go and core/vm/interface.go):
//   - every journal entry type (a type with a `revert(*StateDB)` method), whether its dirtied()
//     returns an address, and whether its revert() reaches a function that appends to the journal;
//   - every exported method of *StateDB / *stateObject with the journal entry kinds it can append
//     (transitively, through calls to other functions of package state);
//   - the method set of the vm.StateDB interface (what the EVM can call);
//   - core/vm: which functions of *EVM run code in a frame and whether each of them takes and reverts
//     to the FULL EVM snapshot (state revision + ETX cache + lockup lists), who uses the bare StateDB
//     revision, and which fields of struct EVM are assigned where (side state a frame could leave behind).
// Model/C12.v + Props/C12.v prove boolean side conditions over this data, so a new journal kind, a
// mutator that starts/stops journalling, or a new EVM-visible method breaks an obligation.
package main

import (
	"flag"
	"fmt"
	"go/ast"
	"go/parser"
	"go/token"
	"os"
	"path/filepath"
	"sort"
	"strings"
)

type fn struct {
	recv    string // "", "StateDB", "stateObject", "journal", <entry type> ...
	name    string
	appends map[string]bool // journal entry kinds appended directly
	calls   map[string]bool // names of called functions / methods (by bare name)
	retNil  bool            // every return statement returns the identifier nil
	body    *ast.BlockStmt
}

func recvName(fd *ast.FuncDecl) string {
	if fd.Recv == nil || len(fd.Recv.List) == 0 {
		return ""
	}
	t := fd.Recv.List[0].Type
	if s, ok := t.(*ast.StarExpr); ok {
		t = s.X
	}
	if id, ok := t.(*ast.Ident); ok {
		return id.Name
	}
	return ""
}

func main() {
	repo := flag.String("repo", "/repo", "repository root")
	out := flag.String("out", "", "output .v file")
	flag.Parse()
	fset := token.NewFileSet()
	dir := filepath.Join(*repo, "core", "state")
	ents, err := os.ReadDir(dir)
	if err != nil {
		fmt.Fprintln(os.Stderr, err)
		os.Exit(1)
	}
	var fns []*fn
	for _, e := range ents {
		n := e.Name()
		if !strings.HasSuffix(n, ".go") || strings.HasSuffix(n, "_test.go") || strings.HasPrefix(n, "verif_") {
			continue
		}
		f, err := parser.ParseFile(fset, filepath.Join(dir, n), nil, 0)
		if err != nil {
			fmt.Fprintln(os.Stderr, err)
			os.Exit(1)
		}
		for _, d := range f.Decls {
			fd, ok := d.(*ast.FuncDecl)
			if !ok || fd.Body == nil {
				continue
			}
			x := &fn{recv: recvName(fd), name: fd.Name.Name, appends: map[string]bool{}, calls: map[string]bool{}, retNil: true, body: fd.Body}
			nret := 0
			ast.Inspect(fd.Body, func(nd ast.Node) bool {
				switch v := nd.(type) {
				case *ast.CallExpr:
					switch f := v.Fun.(type) {
					case *ast.SelectorExpr:
						x.calls[f.Sel.Name] = true
						if f.Sel.Name == "append" && len(v.Args) == 1 {
							// <...>.journal.append(kind{...})
							if in, ok := f.X.(*ast.SelectorExpr); ok && in.Sel.Name == "journal" {
								if cl, ok := v.Args[0].(*ast.CompositeLit); ok {
									if id, ok := cl.Type.(*ast.Ident); ok {
										x.appends[id.Name] = true
									}
								} else {
									x.appends["?"] = true
								}
							}
						}
					case *ast.Ident:
						x.calls[f.Name] = true
					}
				case *ast.ReturnStmt:
					nret++
					if len(v.Results) != 1 {
						x.retNil = false
					} else if id, ok := v.Results[0].(*ast.Ident); !ok || id.Name != "nil" {
						x.retNil = false
					}
				}
				return true
			})
			if nret == 0 {
				x.retNil = false
			}
			fns = append(fns, x)
		}
	}
	// transitive closure of appended kinds over bare-name calls (over-approximation by name)
	byName := map[string][]*fn{}
	for _, f := range fns {
		byName[f.name] = append(byName[f.name], f)
	}
	closure := func(start *fn, skipSelf bool) []string {
		seen := map[*fn]bool{}
		kinds := map[string]bool{}
		var visit func(f *fn, root bool)
		visit = func(f *fn, root bool) {
			if seen[f] {
				return
			}
			seen[f] = true
			if !(root && skipSelf) {
				for k := range f.appends {
					kinds[k] = true
				}
			}
			for c := range f.calls {
				if c == "append" || c == "revert" || c == "Copy" || c == "deepCopy" {
					continue
				}
				for _, g := range byName[c] {
					if g.recv == "StateDB" || g.recv == "stateObject" || g.recv == "accessList" || g.recv == "transientStorage" || g.recv == "" {
						visit(g, false)
					}
				}
			}
		}
		visit(start, true)
		var l []string
		for k := range kinds {
			l = append(l, k)
		}
		sort.Strings(l)
		return l
	}
	// journal entry kinds = receiver types having a revert method
	type kindInfo struct {
		name      string
		dirties   bool
		rejournal bool
	}
	var kinds []kindInfo
	for _, f := range fns {
		if f.name == "revert" && f.recv != "journal" && f.recv != "" {
			ki := kindInfo{name: f.recv}
			for _, g := range fns {
				if g.recv == f.recv && g.name == "dirtied" {
					ki.dirties = !g.retNil
				}
			}
			ki.rejournal = len(closure(f, false)) > 0
			kinds = append(kinds, ki)
		}
	}
	sort.Slice(kinds, func(i, j int) bool { return kinds[i].name < kinds[j].name })
	isExported := func(s string) bool { return s != "" && s[0] >= 'A' && s[0] <= 'Z' }
	type mut struct {
		name  string
		kinds []string
	}
	var sdbM, objM []mut
	for _, f := range fns {
		if !isExported(f.name) {
			continue
		}
		ks := closure(f, false)
		if f.recv == "StateDB" {
			sdbM = append(sdbM, mut{f.name, ks})
		}
		if f.recv == "stateObject" {
			objM = append(objM, mut{f.name, ks})
		}
	}
	sort.Slice(sdbM, func(i, j int) bool { return sdbM[i].name < sdbM[j].name })
	sort.Slice(objM, func(i, j int) bool { return objM[i].name < objM[j].name })
	// vm.StateDB interface
	var iface []string
	vf, err := parser.ParseFile(fset, filepath.Join(*repo, "core", "vm", "interface.go"), nil, 0)
	if err != nil {
		fmt.Fprintln(os.Stderr, err)
		os.Exit(1)
	}
	ast.Inspect(vf, func(nd ast.Node) bool {
		ts, ok := nd.(*ast.TypeSpec)
		if !ok || ts.Name.Name != "StateDB" {
			return true
		}
		if it, ok := ts.Type.(*ast.InterfaceType); ok {
			for _, m := range it.Methods.List {
				for _, n := range m.Names {
					iface = append(iface, n.Name)
				}
			}
		}
		return false
	})
	sort.Strings(iface)
	// variant flags: which of the known repairs the source contains
	suicideRestoresSize, sizeRejournals, evmRestoresBatch := false, false, false
	for _, f := range fns {
		if f.recv == "suicideChange" && f.name == "revert" && (f.calls["setSize"] || f.calls["SetSize"]) {
			suicideRestoresSize = true
		}
	}
	for _, k := range kinds {
		if k.name == "sizeChange" {
			sizeRejournals = k.rejournal
		}
	}
	// storageChange.revert is the single statement  <obj>.setState(ch.key, ch.prevalue)  and
	// stateObject.setState is the single statement  s.dirtyStorage[key] = value : reverting a storage write
	// puts the previous value back into the layer the write went to, whatever the other caches hold
	storageRevertPlain, setStatePlain := false, false
	selName := func(e ast.Expr) string {
		if se, ok := e.(*ast.SelectorExpr); ok {
			return se.Sel.Name
		}
		if id, ok := e.(*ast.Ident); ok {
			return id.Name
		}
		return ""
	}
	for _, f := range fns {
		if f.recv == "storageChange" && f.name == "revert" && len(f.body.List) == 1 {
			if es, ok := f.body.List[0].(*ast.ExprStmt); ok {
				if ce, ok := es.X.(*ast.CallExpr); ok && selName(ce.Fun) == "setState" && len(ce.Args) == 2 &&
					selName(ce.Args[0]) == "key" && selName(ce.Args[1]) == "prevalue" {
					storageRevertPlain = true
				}
			}
		}
		if f.recv == "stateObject" && f.name == "setState" && len(f.body.List) == 1 {
			if as, ok := f.body.List[0].(*ast.AssignStmt); ok && as.Tok == token.ASSIGN && len(as.Lhs) == 1 && len(as.Rhs) == 1 {
				if ix, ok := as.Lhs[0].(*ast.IndexExpr); ok && selName(ix.X) == "dirtyStorage" && selName(ix.Index) == "key" && selName(as.Rhs[0]) == "value" {
					setStatePlain = true
				}
			}
		}
	}
	ef, err := parser.ParseFile(fset, filepath.Join(*repo, "core", "vm", "evm.go"), nil, 0)
	if err != nil {
		fmt.Fprintln(os.Stderr, err)
		os.Exit(1)
	}
	foundRevert := false
	// EVM.create: is the revert guarded by `err != ErrCodeStoreOutOfGas` ?
	createFound, createExemptsCodeStoreOOG := false, false
	for _, d := range ef.Decls {
		fd, ok := d.(*ast.FuncDecl)
		if !ok || fd.Body == nil || fd.Name.Name != "create" {
			continue
		}
		createFound = true
		ast.Inspect(fd.Body, func(nd ast.Node) bool {
			is, ok := nd.(*ast.IfStmt)
			if !ok {
				return true
			}
			reverts := false
			ast.Inspect(is.Body, func(n2 ast.Node) bool {
				if ce, ok := n2.(*ast.CallExpr); ok {
					if se, ok := ce.Fun.(*ast.SelectorExpr); ok && se.Sel.Name == "revertToSnapshot" {
						reverts = true
					}
				}
				return true
			})
			if !reverts {
				return true
			}
			// the guard is exactly  err != nil && err != ErrCodeStoreOutOfGas  (no further disjunct)
			if be, ok := is.Cond.(*ast.BinaryExpr); ok && be.Op == token.LAND {
				if r, ok := be.Y.(*ast.BinaryExpr); ok && r.Op == token.NEQ {
					if id, ok := r.Y.(*ast.Ident); ok && id.Name == "ErrCodeStoreOutOfGas" {
						createExemptsCodeStoreOOG = true
					}
				}
			}
			return true
		})
	}
	if !createFound {
		fmt.Fprintln(os.Stderr, "c12journal: EVM.create not found")
		os.Exit(1)
	}
	for _, d := range ef.Decls {
		fd, ok := d.(*ast.FuncDecl)
		if !ok || fd.Body == nil || fd.Name.Name != "revertToSnapshot" {
			continue
		}
		foundRevert = true
		ast.Inspect(fd.Body, func(nd ast.Node) bool {
			if ce, ok := nd.(*ast.CallExpr); ok {
				if se, ok := ce.Fun.(*ast.SelectorExpr); ok && se.Sel.Name == "Put" {
					evmRestoresBatch = true
				}
			}
			return true
		})
	}
	if !foundRevert {
		fmt.Fprintln(os.Stderr, "c12journal: EVM.revertToSnapshot not found")
		os.Exit(1)
	}
	// ---- EVM frame layer: core/vm/*.go ----
	// (a) functions of *EVM that run code in a frame (they call <...>.interpreter.Run): how often they take the
	//     FULL snapshot (evm.snapshot()), revert to it (evm.revertToSnapshot(..)), and how often they go to
	//     the StateDB revision directly (<...>.StateDB.Snapshot() / .RevertToSnapshot(..));
	// (b) every function of package vm that uses the StateDB revision directly;
	// (c) fields of struct EVM assigned anywhere in the package (evm.F = .., <..>.evm.F = ..) with the
	//     functions doing it, the fields assigned by revertToSnapshot, and the fields of evmSnapshot.
	type frameFn struct {
		name                       string
		full, fullRevert, raw, run int
	}
	var frameFns []frameFn
	rawUsers := map[string]bool{}
	evmFields := map[string]bool{}
	assigned := map[string]map[string]bool{}
	var snapFields []string
	vmDir := filepath.Join(*repo, "core", "vm")
	vents, err := os.ReadDir(vmDir)
	if err != nil {
		fmt.Fprintln(os.Stderr, err)
		os.Exit(1)
	}
	var vmFiles []*ast.File
	for _, e := range vents {
		n := e.Name()
		if !strings.HasSuffix(n, ".go") || strings.HasSuffix(n, "_test.go") || strings.HasPrefix(n, "verif_") {
			continue
		}
		f, err := parser.ParseFile(fset, filepath.Join(vmDir, n), nil, 0)
		if err != nil {
			fmt.Fprintln(os.Stderr, err)
			os.Exit(1)
		}
		vmFiles = append(vmFiles, f)
		for _, d := range f.Decls {
			gd, ok := d.(*ast.GenDecl)
			if !ok {
				continue
			}
			for _, sp := range gd.Specs {
				ts, ok := sp.(*ast.TypeSpec)
				if !ok {
					continue
				}
				st, ok := ts.Type.(*ast.StructType)
				if !ok {
					continue
				}
				for _, fl := range st.Fields.List {
					for _, nm := range fl.Names {
						if ts.Name.Name == "EVM" {
							evmFields[nm.Name] = true
						}
						if ts.Name.Name == "evmSnapshot" {
							snapFields = append(snapFields, nm.Name)
						}
					}
				}
			}
		}
	}
	isEvmExpr := func(e ast.Expr) bool { // evm | <x>.evm
		switch v := e.(type) {
		case *ast.Ident:
			return v.Name == "evm"
		case *ast.SelectorExpr:
			return v.Sel.Name == "evm"
		}
		return false
	}
	for _, f := range vmFiles {
		for _, d := range f.Decls {
			fd, ok := d.(*ast.FuncDecl)
			if !ok || fd.Body == nil {
				continue
			}
			ff := frameFn{name: fd.Name.Name}
			ast.Inspect(fd.Body, func(nd ast.Node) bool {
				switch v := nd.(type) {
				case *ast.CallExpr:
					se, ok := v.Fun.(*ast.SelectorExpr)
					if !ok {
						return true
					}
					switch se.Sel.Name {
					case "snapshot":
						if isEvmExpr(se.X) {
							ff.full++
						}
					case "revertToSnapshot":
						if isEvmExpr(se.X) {
							ff.fullRevert++
						}
					case "Snapshot", "RevertToSnapshot":
						if in, ok := se.X.(*ast.SelectorExpr); ok && in.Sel.Name == "StateDB" {
							ff.raw++
							rawUsers[fd.Name.Name] = true
						}
					case "Run":
						if in, ok := se.X.(*ast.SelectorExpr); ok && in.Sel.Name == "interpreter" {
							ff.run++
						}
					}
				case *ast.AssignStmt:
					for _, l := range v.Lhs {
						if se, ok := l.(*ast.SelectorExpr); ok && isEvmExpr(se.X) && evmFields[se.Sel.Name] {
							if assigned[se.Sel.Name] == nil {
								assigned[se.Sel.Name] = map[string]bool{}
							}
							assigned[se.Sel.Name][fd.Name.Name] = true
						}
					}
				case *ast.IncDecStmt:
					if se, ok := v.X.(*ast.SelectorExpr); ok && isEvmExpr(se.X) && evmFields[se.Sel.Name] {
						if assigned[se.Sel.Name] == nil {
							assigned[se.Sel.Name] = map[string]bool{}
						}
						assigned[se.Sel.Name][fd.Name.Name] = true
					}
				}
				return true
			})
			if ff.run > 0 && recvName(fd) == "EVM" {
				frameFns = append(frameFns, ff)
			}
		}
	}
	sort.Slice(frameFns, func(i, j int) bool { return frameFns[i].name < frameFns[j].name })
	if len(frameFns) == 0 || len(evmFields) == 0 || len(snapFields) == 0 {
		fmt.Fprintln(os.Stderr, "c12journal: EVM frame functions / struct EVM / evmSnapshot not found")
		os.Exit(1)
	}

	if len(kinds) == 0 || len(sdbM) == 0 || len(iface) == 0 {
		fmt.Fprintln(os.Stderr, "c12journal: nothing found (source layout changed?)")
		os.Exit(1)
	}

	q := func(s string) string { return "\"" + s + "\"" }
	ql := func(l []string) string {
		x := make([]string, len(l))
		for i := range l {
			x[i] = q(l[i])
		}
		return "[" + strings.Join(x, "; ") + "]"
	}
	b := func(v bool) string {
		if v {
			return "true"
		}
		return "false"
	}
	var sb strings.Builder
	sb.WriteString("(* GENERATED by harness/gen/c12journal from core/state/*.go and core/vm/interface.go - do not edit *)\n")
	sb.WriteString("From Coq Require Import List String.\nImport ListNotations.\nLocal Open Scope string_scope.\n\n")
	sb.WriteString("(* journal entry type, dirtied() returns an address, revert() reaches a journalling function *)\n")
	sb.WriteString("Definition journal_kinds : list (string * bool * bool) := [\n")
	for i, k := range kinds {
		sep := ";"
		if i == len(kinds)-1 {
			sep = ""
		}
		fmt.Fprintf(&sb, "  (%s, %s, %s)%s\n", q(k.name), b(k.dirties), b(k.rejournal), sep)
	}
	sb.WriteString("].\n\n")
	emit := func(name string, l []mut, onlyJournalling bool) {
		fmt.Fprintf(&sb, "Definition %s : list (string * list string) := [\n", name)
		var rows []string
		for _, m := range l {
			if onlyJournalling && len(m.kinds) == 0 {
				continue
			}
			rows = append(rows, fmt.Sprintf("  (%s, %s)", q(m.name), ql(m.kinds)))
		}
		sb.WriteString(strings.Join(rows, ";\n"))
		sb.WriteString("\n].\n\n")
	}
	sb.WriteString("(* exported methods of *StateDB that can append to the journal, with the entry kinds (transitive) *)\n")
	emit("statedb_journalling", sdbM, true)
	sb.WriteString("(* exported methods of *stateObject that can append to the journal *)\n")
	emit("object_journalling", objM, true)
	sb.WriteString("(* all exported methods of *StateDB *)\n")
	var all []string
	for _, m := range sdbM {
		all = append(all, m.name)
	}
	fmt.Fprintf(&sb, "Definition statedb_exported : list string := %s.\n\n", ql(all))
	sb.WriteString("(* method set of the vm.StateDB interface *)\n")
	fmt.Fprintf(&sb, "Definition evm_statedb_interface : list string := %s.\n\n", ql(iface))
	sb.WriteString("(* which variant of the code this is (the model follows these flags) *)\n")
	fmt.Fprintf(&sb, "Definition gen_suicide_restores_size : bool := %s.   (* suicideChange.revert restores the size counter *)\n", b(suicideRestoresSize))
	fmt.Fprintf(&sb, "Definition gen_size_revert_rejournals : bool := %s.  (* sizeChange.revert goes through a journalling setter *)\n", b(sizeRejournals))
	fmt.Fprintf(&sb, "Definition gen_evm_revert_restores_batch : bool := %s. (* EVM.revertToSnapshot writes to the batch *)\n", b(evmRestoresBatch))
	fmt.Fprintf(&sb, "Definition gen_create_reverts_on_codestore_oog : bool := %s. (* EVM.create reverts when the code deposit runs out of gas *)\n", b(!createExemptsCodeStoreOOG))
	fmt.Fprintf(&sb, "Definition gen_storage_revert_plain : bool := %s. (* storageChange.revert is exactly obj.setState(ch.key, ch.prevalue) *)\n", b(storageRevertPlain))
	fmt.Fprintf(&sb, "Definition gen_setstate_plain : bool := %s. (* stateObject.setState is exactly s.dirtyStorage[key] = value *)\n", b(setStatePlain))
	sb.WriteString("\n(* functions of *EVM that run code in a frame: name, calls of evm.snapshot(), of evm.revertToSnapshot(), direct uses of the StateDB revision *)\n")
	sb.WriteString("Definition evm_frame_functions : list (string * nat * nat * nat) := [\n")
	for i, ff := range frameFns {
		sep := ";"
		if i == len(frameFns)-1 {
			sep = ""
		}
		fmt.Fprintf(&sb, "  (%s, %d, %d, %d)%s\n", q(ff.name), ff.full, ff.fullRevert, ff.raw, sep)
	}
	sb.WriteString("].\n\n")
	var ru []string
	for k := range rawUsers {
		ru = append(ru, k)
	}
	sort.Strings(ru)
	sb.WriteString("(* every function of package vm that calls <..>.StateDB.Snapshot / RevertToSnapshot directly *)\n")
	fmt.Fprintf(&sb, "Definition vm_raw_revision_users : list string := %s.\n\n", ql(ru))
	sb.WriteString("(* fields of struct evmSnapshot *)\n")
	fmt.Fprintf(&sb, "Definition evm_snapshot_fields : list string := %s.\n\n", ql(snapFields))
	sb.WriteString("(* fields of struct EVM that are assigned somewhere in package vm, with the functions assigning them *)\n")
	sb.WriteString("Definition evm_assigned_fields : list (string * list string) := [\n")
	var af []string
	for k := range assigned {
		af = append(af, k)
	}
	sort.Strings(af)
	for i, k := range af {
		var fl []string
		for f := range assigned[k] {
			fl = append(fl, f)
		}
		sort.Strings(fl)
		sep := ";"
		if i == len(af)-1 {
			sep = ""
		}
		fmt.Fprintf(&sb, "  (%s, %s)%s\n", q(k), ql(fl), sep)
	}
	sb.WriteString("].\n")
	if *out == "" {
		fmt.Print(sb.String())
		return
	}
	if err := os.WriteFile(*out, []byte(sb.String()), 0o644); err != nil {
		fmt.Fprintln(os.Stderr, err)
		os.Exit(1)
	}
	fmt.Printf("c12journal: %d journal kinds, %d exported StateDB methods, %d interface methods\n", len(kinds), len(sdbM), len(iface))
}

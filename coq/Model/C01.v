(* C01 -- executable model of the Qi (UTXO) ledger transition of go-quai.

   Mirrors, branch by branch:
     core/state_processor.go : ProcessQiTx, CheckDenominations          (process_qi, check_denominations)
     core/worker.go          : (*worker).processQiTx + the firstQiTx /
                               error-class handling of commitTransactions (worker_qi, worker_txs)
     core/state_processor.go : ValidateQiTxInputs (ownership part)       (mempool_inputs_ok)
     core/rawdb/accessors_chain.go : GetUTXOWithBatch / GetUTXO / CreateUTXO / DeleteUTXO
     ethdb batches           : SetPending / GetPending                   (view, v_get, v_del, v_put, commit)
   Definitions only; lemmas are in Proofs/C01*.v, theorems in Props/C01.v.

   Abstractions (all are *inputs* of the model, produced by the real functions in the harness):
     - crypto.PubkeyBytesToAddress(txIn.PubKey)           -> field i_pkaddr of an input
     - btcec.ParsePubKey succeeds                         -> i_pkparse
     - Schnorr / MuSig2 verification of the signature
       over signer.Hash(tx) under the carried keys        -> t_sigok
     - tx.Hash()                                          -> t_hash
     - types.CalculateIntrinsicQiTxGas (uses a float)     -> t_intrinsic
     - misc.CalculateQuaiReward / CalculateQiReward of the
       header (QiToQuai x = R*x/Q, exact big.Int arithmetic) -> c_quai_reward, c_qi_reward
     - proto encoding of a UTXO entry in the DB            -> the record [utxo] itself
   Addresses are 20-byte strings (list N); an outpoint is the 34-byte string
   txhash ++ bigendian16(index) = rawdb.UtxoKey without its "ut" prefix. *)
From Coq Require Import List NArith Bool.
From GQ Require Import Lib.Key Lib.SMap Generated.C01Params.
Import ListNotations.
Local Open Scope N_scope.

(* ------------------------------------------------------------------ data *)

Record utxo := mkU { u_den : N; u_owner : list N; u_lock : N }.   (* types.UtxoEntry *)
Definition ledger := smap utxo.                                    (* committed 'ut' records *)

Definition two64 : N := 18446744073709551616.

Inductive result (A : Type) :=
| Ok (a : A)
| Err (e : N) (gp : N).   (* error class, and the gas pool at the point of failure (only the worker keeps using it) *)
Arguments Ok {A} a.
Arguments Err {A} e gp.

(* store interface: what ProcessQiTx needs from (db, batch) *)
Record store (S : Type) := mkStore {
  st_get : S -> key -> option utxo;
  st_del : S -> key -> S;
  st_put : S -> key -> utxo -> S
}.
Arguments st_get {S} _ _ _.
Arguments st_del {S} _ _ _.
Arguments st_put {S} _ _ _ _.

(* -- the committed ledger alone (rawdb.GetUTXO / a flat map): reference store *)
Definition ledger_store : store ledger :=
  mkStore ledger (fun l k => get k l) (fun l k => del k l) (fun l k u => put k u l).

(* -- (db, batch): ethdb batch with optional pending tracking *)
Inductive wop := WPut (k : key) (u : utxo) | WDel (k : key).
Record view := mkView {
  v_base : ledger;                 (* the database *)
  v_ops : list wop;                (* batch contents in issue order *)
  v_tracks : bool;                 (* batch.SetPending(true) called and honoured by this batch type *)
  v_pend : smap (option utxo)      (* the batch's pending map (None = deleted); maintained only when tracking *)
}.
Definition view_of (tracks : bool) (l : ledger) : view := mkView l [] tracks [].

(* rawdb.GetUTXOWithBatch: batch.GetPending first, then db.Get *)
Definition v_get (v : view) (k : key) : option utxo :=
  match (if v_tracks v then get k (v_pend v) else None) with
  | Some None => None
  | Some (Some u) => Some u
  | None => get k (v_base v)
  end.
(* rawdb.DeleteUTXO(batch) / rawdb.CreateUTXO(batch) *)
Definition v_del (v : view) (k : key) : view :=
  mkView (v_base v) (v_ops v ++ [WDel k]) (v_tracks v)
         (if v_tracks v then put k None (v_pend v) else v_pend v).
Definition v_put (v : view) (k : key) (u : utxo) : view :=
  mkView (v_base v) (v_ops v ++ [WPut k u]) (v_tracks v)
         (if v_tracks v then put k (Some u) (v_pend v) else v_pend v).
Definition view_store : store view := mkStore view v_get v_del v_put.

Definition apply_wop (l : ledger) (w : wop) : ledger :=
  match w with WPut k u => put k u l | WDel k => del k l end.
(* batch.Write() *)
Definition commit (v : view) : ledger := fold_left apply_wop (v_ops v) (v_base v).

(* ------------------------------------------------------------------ transactions *)

Record txin := mkIn { i_op : key; i_pkaddr : list N; i_pkparse : bool }.
Record txout := mkOut { o_den : N; o_addr : list N; o_lock : N }.
Record tx := mkTx {
  t_hash : list N;
  t_chain_ok : bool;          (* tx.ChainId() == chainId *)
  t_ins : list txin;
  t_outs : list txout;
  t_data : list N;
  t_intrinsic : N;
  t_checksig : bool;          (* argument checkSig of ProcessQiTx (false when the pool has seen the tx) *)
  t_sigok : bool
}.

Record etx := mkEtx { e_type : N; e_to : list N; e_value : N; e_index : N; e_gas : N }.

(* block context: the header fields ProcessQiTx reads, plus the block-level limits *)
Record ctx := mkCtx {
  c_region : N; c_zone : N;    (* node location *)
  c_height : N;                (* currentHeader.Number(zone) *)
  c_ptn : N;                   (* currentHeader.PrimeTerminusNumber() *)
  c_gaslimit : N;
  c_basefee : N;
  c_quai_reward : N;           (* R *)
  c_qi_reward : N;             (* Q *)
  c_elig : list N;             (* primeTerminus.EtxEligibleSlices(), 32 bytes *)
  c_rlim : N; c_plim : N       (* etxRLimit / etxPLimit at the start of the block *)
}.

Definition den_value (d : N) : N := nth (N.to_nat d) denominations 0.   (* types.Denominations[d] *)
Definition be16 (i : N) : list N := [i / 256; i mod 256].
Definition outkey (h : list N) (i : N) : key := h ++ be16 i.            (* rawdb.UtxoKey(hash, index) *)

(* common/address.go *)
Definition byte_at (i : nat) (a : list N) : N := nth i a 0.
Definition a_region (a : list N) : N := byte_at 0 a / 16.
Definition a_zone (a : list N) : N := byte_at 0 a mod 16.
Definition is_qi (a : list N) : bool := 127 <? byte_at 1 a.             (* IsInQiLedgerScope *)
Definition is_quai (a : list N) : bool := negb (is_qi a).
Definition is_local (c : ctx) (a : list N) : bool :=
  (a_region a =? c_region c) && (a_zone a =? c_zone c).                 (* toAddr.Location().Equal(location) *)
Definition is_internal (c : ctx) (a : list N) : bool :=
  byte_at 0 a =? c_region c * 16 + c_zone c.                            (* IsInChainScope, 20-byte input *)
(* HeaderChain.CheckIfEtxIsEligible *)
Definition eligible (c : ctx) (a : list N) : bool :=
  let pos := a_region a * 16 + a_zone a in
  N.testbit (nth (N.to_nat (pos / 8)) (c_elig c) 0) (pos mod 8).

Definition amem (a : list N) (l : list (list N)) : bool := existsb (keqb a) l.
Definition aremove (a : list N) (l : list (list N)) : list (list N) := filter (fun x => negb (keqb a x)) l.
Definition len {A} (l : list A) : N := N.of_nat (length l).
Definition sum_den (ds : list N) : N := fold_right (fun d acc => den_value d + acc) 0 ds.

(* ------------------------------------------------------------------ CheckDenominations *)

Definition count (d : N) (l : list N) : N := len (filter (N.eqb d) l).

(* loop for i := MaxDenomination; i >= 1; i--  (uint64 arithmetic written out) *)
Fixpoint check_den_loop (i : nat) (carry : N) (ins outs : list N) : bool :=
  match i with
  | O => true
  | S j =>
      let d := N.of_nat i in
      let total := (count d ins + carry) mod two64 in
      if count d outs <=? total then
        let diff := total - count d outs in
        let ratio := den_value d / den_value (d - 1) in
        check_den_loop j ((diff * ratio) mod two64) ins outs
      else false
  end.
Definition check_denominations (ins outs : list N) : bool :=
  check_den_loop (N.to_nat max_denomination) 0 ins outs.

(* ------------------------------------------------------------------ the pure part: outputs, fee, ETXs *)

Record oacc := mkOA {
  oa_idx : N;
  oa_addrs : list (list N);
  oa_total : N;               (* totalQitOut *)
  oa_conv : N;                (* totalConvertQitOut *)
  oa_isconv : bool; oa_iswrap : bool;
  oa_caddr : list N;          (* convertAddress *)
  oa_dens : list N;           (* the outputs map, as the list of counted denominations *)
  oa_etxs : list etx;
  oa_creates : list (key * utxo);
  oa_gp : N; oa_used : N;
  oa_rgas : N; oa_pgas : N
}.

(* error classes (N):
   1 no inputs  2 chain id  3 data length  4 wrap target not Quai  5 refund not Qi
   6 gas pool (intrinsic)  7 block gas limit
   10 unknown/spent outpoint  11 locked  12 key address not Qi  13 wrong key  14 unparsable key  15 input denomination
   16 worker: entry owned by Quai address   17 worker: double spend (deletedUtxos)
   20 too many outputs  21 output denomination  22 output lock  23 address reuse  24 two convert targets
   25 wrap owner not internal Quai  26 Quai address in other zone  27 region limit  28 prime limit
   29 ineligible slice  39 gas pool (etx)
   30 out > in  31 required gas overflow  32 fee below floor  33 kawpow hold  34 sha hold  35 convert+wrap
   36 fee below conversion floor  37 prime limit (conversion)  38 gas pool (conversion etx)
   40 denominations merge up  41 signature  42 worker: block gas limit *)

Definition set_loop (a : oacc) (idx : N) (addrs : list (list N)) (total : N) (dens : list N) : oacc :=
  mkOA idx addrs total (oa_conv a) (oa_isconv a) (oa_iswrap a) (oa_caddr a) dens (oa_etxs a)
       (oa_creates a) (oa_gp a) (oa_used a) (oa_rgas a) (oa_pgas a).

(* the tail of one iteration of the output loop: emit an ETX or create a local UTXO.
   [worker] only changes which of two failing checks is reached first (SubGas before the
   eligibility test in worker.go) -- visible only through the gas pool left after a failure. *)
Definition out_emit (worker : bool) (c : ctx) (t : tx) (a : oacc) (o : txout) : result oacc :=
  let to := o_addr o in
  if negb (is_local c to) then
    let sameregion := a_region to =? c_region c in
    let rgas := if sameregion then oa_rgas a + tx_gas else oa_rgas a in
    let pgas := if sameregion then oa_pgas a else oa_pgas a + tx_gas in
    if c_rlim_cur a <? rgas then Err 27 (oa_gp a)
    else Err 0 0
  else Err 0 0.

(* C01 -- executable model of the Qi (UTXO) ledger transition of go-quai.

   Mirrors, branch by branch:
     core/state_processor.go : ProcessQiTx, CheckDenominations          (process_qi, check_denominations)
     core/worker.go          : worker.processQiTx + the firstQiTx /
                               error-class handling of commitTransactions (worker_qi, worker_txs)
     core/state_processor.go : ValidateQiTxInputs                        (validate_inputs)
     core/rawdb/accessors_chain.go : GetUTXOWithBatch / GetUTXO / CreateUTXO / DeleteUTXO
     ethdb batches           : SetPending / GetPending                   (view, v_get, v_del, v_put, commit)
   Definitions only; lemmas are in Proofs/C01*.v, theorems in Props/C01.v.

   Abstractions (all are *inputs* of the model, produced by the real functions in the harness):
     - crypto.PubkeyBytesToAddress(txIn.PubKey)           -> field i_pkaddr of an input
     - btcec.ParsePubKey succeeds                         -> i_pkparse
     - Schnorr / MuSig2 verification of the signature
       over signer.Hash(tx) under the carried keys        -> t_sigok
     - tx.Hash()                                          -> t_hash
     - types.CalculateIntrinsicQiTxGas (uses a float)     -> t_intrinsic
     - misc.CalculateQuaiReward / CalculateQiReward of the
       header (QiToQuai x = R*x/Q, exact big.Int arithmetic) -> c_quai_reward, c_qi_reward
     - proto encoding of a UTXO entry in the DB            -> the record [utxo] itself
   Addresses are 20-byte strings (list N); an outpoint is the 34-byte string
   txhash ++ bigendian16(index) = rawdb.UtxoKey without its "ut" prefix.
   A failing ProcessQiTx leaves a half-written batch behind; StateProcessor.Process
   then rejects the block and the batch is dropped, so an error carries no store. *)
From Coq Require Import List NArith Bool.
From GQ Require Import Lib.Key Lib.SMap Generated.C01Params.
Import ListNotations.
Local Open Scope N_scope.

(* ------------------------------------------------------------------ case-file syntax
   Byte strings in the generated case files are written  hx "a0ff"  (= [160; 255]): a string literal is
   read about ten times faster by coqc than the same list of numerals, and reading the case terms is what
   the case shards spend their time on.  (String is required, not imported: no name of it is visible here.) *)
From Coq Require String Ascii.
Definition hexv (a : Ascii.ascii) : N := let n := Ascii.N_of_ascii a in if n <? 58 then n - 48 else n - 87.
Fixpoint hx (s : String.string) : list N :=
  match s with
  | String.String a (String.String b r) => (16 * hexv a + hexv b) :: hx r
  | _ => []
  end.

(* ------------------------------------------------------------------ data *)

Record utxo := mkU { u_den : N; u_owner : list N; u_lock : N }.   (* types.UtxoEntry *)
Definition ledger := smap utxo.                                    (* committed 'ut' records *)

Definition two64 : N := 18446744073709551616.

Inductive result (A : Type) :=
| Ok (a : A)
| Err (e : N) (gp : N).   (* error class; gas pool at the point of failure (only the worker goes on using it) *)
Arguments Ok {A} a.
Arguments Err {A} e gp.

(* store interface: what ProcessQiTx needs from (db, batch) *)
Record store (S : Type) := mkStore {
  st_get : S -> key -> option utxo;
  st_del : S -> key -> S;
  st_put : S -> key -> utxo -> S
}.
Arguments st_get {S} _ _ _.
Arguments st_del {S} _ _ _.
Arguments st_put {S} _ _ _ _.

(* -- the committed ledger alone (a flat map): reference store *)
Definition ledger_store : store ledger :=
  mkStore ledger (fun l k => get k l) (fun l k => del k l) (fun l k u => put k u l).

(* -- (db, batch): ethdb batch with optional pending tracking *)
Inductive wop := WPut (k : key) (u : utxo) | WDel (k : key).
Record view := mkView {
  v_base : ledger;                 (* the database *)
  v_ops : list wop;                (* batch contents in issue order *)
  v_tracks : bool;                 (* batch.SetPending(true) called and honoured by this batch type *)
  v_pend : smap (option utxo)      (* the batch's pending map (None = deleted); maintained only when tracking *)
}.
Definition view_of (tracks : bool) (l : ledger) : view := mkView l [] tracks [].

(* rawdb.GetUTXOWithBatch: batch.GetPending first, then db.Get *)
Definition v_get (v : view) (k : key) : option utxo :=
  match (if v_tracks v then get k (v_pend v) else None) with
  | Some None => None
  | Some (Some u) => Some u
  | None => get k (v_base v)
  end.
(* rawdb.DeleteUTXO(batch) / rawdb.CreateUTXO(batch) *)
Definition v_del (v : view) (k : key) : view :=
  mkView (v_base v) (v_ops v ++ [WDel k]) (v_tracks v)
         (if v_tracks v then put k None (v_pend v) else v_pend v).
Definition v_put (v : view) (k : key) (u : utxo) : view :=
  mkView (v_base v) (v_ops v ++ [WPut k u]) (v_tracks v)
         (if v_tracks v then put k (Some u) (v_pend v) else v_pend v).
Definition view_store : store view := mkStore view v_get v_del v_put.

Definition apply_wop (l : ledger) (w : wop) : ledger :=
  match w with WPut k u => put k u l | WDel k => del k l end.
(* batch.Write() *)
Definition commit (v : view) : ledger := fold_left apply_wop (v_ops v) (v_base v).

(* ------------------------------------------------------------------ transactions *)

Record txin := mkIn { i_op : key; i_pkaddr : list N; i_pkparse : bool }.
Record txout := mkOut { o_den : N; o_addr : list N; o_lock : N }.
Record tx := mkTx {
  t_hash : list N;
  t_chain_ok : bool;          (* tx.ChainId() == chainId *)
  t_ins : list txin;
  t_outs : list txout;
  t_data : list N;
  t_intrinsic : N;
  t_checksig : bool;          (* argument checkSig of ProcessQiTx (false when the pool has seen the tx) *)
  t_sigok : bool
}.

Record etx := mkEtx { e_type : N; e_to : list N; e_value : N; e_index : N; e_gas : N }.

(* block context: the header fields ProcessQiTx reads, plus the block-level limits *)
Record ctx := mkCtx {
  c_region : N; c_zone : N;    (* node location *)
  c_height : N;                (* currentHeader.Number(zone) *)
  c_ptn : N;                   (* currentHeader.PrimeTerminusNumber() *)
  c_gaslimit : N;
  c_basefee : N;
  c_quai_reward : N;           (* R *)
  c_qi_reward : N;             (* Q *)
  c_elig : list N;             (* primeTerminus.EtxEligibleSlices(), 32 bytes *)
  c_rlim : N; c_plim : N       (* etxRLimit / etxPLimit at the start of the block *)
}.

Definition den_value (d : N) : N := nth (N.to_nat d) denominations 0.   (* types.Denominations[d] *)
Definition be16 (i : N) : list N := [i / 256; i mod 256].
Definition outkey (h : list N) (i : N) : key := h ++ be16 i.            (* rawdb.UtxoKey(hash, index) *)

(* common/address.go *)
Definition byte_at (i : nat) (a : list N) : N := nth i a 0.
Definition a_region (a : list N) : N := byte_at 0 a / 16.
Definition a_zone (a : list N) : N := byte_at 0 a mod 16.
Definition is_qi (a : list N) : bool := 127 <? byte_at 1 a.             (* IsInQiLedgerScope *)
Definition is_quai (a : list N) : bool := negb (is_qi a).
Definition is_local (c : ctx) (a : list N) : bool :=
  (a_region a =? c_region c) && (a_zone a =? c_zone c).                 (* toAddr.Location().Equal(location) *)
Definition is_internal (c : ctx) (a : list N) : bool :=
  byte_at 0 a =? c_region c * 16 + c_zone c.                            (* IsInChainScope, 20-byte input *)
(* HeaderChain.CheckIfEtxIsEligible *)
Definition eligible (c : ctx) (a : list N) : bool :=
  let pos := a_region a * 16 + a_zone a in
  N.testbit (nth (N.to_nat (pos / 8)) (c_elig c) 0) (pos mod 8).

Definition amem (a : list N) (l : list (list N)) : bool := existsb (keqb a) l.
Definition aremove (a : list N) (l : list (list N)) : list (list N) := filter (fun x => negb (keqb a x)) l.
Definition len {A} (l : list A) : N := N.of_nat (length l).
Definition sum_den (ds : list N) : N := fold_right (fun d acc => den_value d + acc) 0 ds.

(* ------------------------------------------------------------------ CheckDenominations *)

Definition count (d : N) (l : list N) : N := len (filter (N.eqb d) l).

(* for i := MaxDenomination; i >= 1; i--   (uint64 arithmetic written out) *)
Fixpoint check_den_loop (i : nat) (carry : N) (ins outs : list N) : bool :=
  match i with
  | O => true
  | S j =>
      let d := N.of_nat i in
      let total := (count d ins + carry) mod two64 in
      if count d outs <=? total then
        let diff := total - count d outs in
        let ratio := den_value d / den_value (d - 1) in
        check_den_loop j ((diff * ratio) mod two64) ins outs
      else false
  end.
Definition check_denominations (ins outs : list N) : bool :=
  check_den_loop (N.to_nat max_denomination) 0 ins outs.

(* ------------------------------------------------------------------ error classes
   1 no inputs  2 chain id  3 data length  4 wrap target not Quai  5 refund not Qi
   6 gas pool (intrinsic)  7 block gas limit
   10 unknown/spent outpoint  11 locked  12 key address not Qi  13 wrong key  14 unparsable key  15 input denomination
   16 worker: entry owned by Quai address   17 worker: double spend (deletedUtxos)
   20 too many outputs  21 output denomination  22 output lock  23 address reuse  24 two convert targets
   25 wrap owner not internal Quai  26 Quai address in other zone  27 region limit  28 prime limit
   29 ineligible slice  39 gas pool (etx)
   30 out > in  31 required gas overflow  32 fee below floor  33 kawpow hold  34 sha hold  35 convert+wrap
   36 fee below conversion floor  37 prime limit (conversion)  38 gas pool (conversion etx)
   40 denominations merge up  41 signature  42 worker: block gas limit *)

(* ------------------------------------------------------------------ the pure part: outputs, fee, ETXs *)

Record oacc := mkOA {
  oa_idx : N;
  oa_addrs : list (list N);
  oa_total : N;               (* totalQitOut *)
  oa_conv : N;                (* totalConvertQitOut *)
  oa_isconv : bool; oa_iswrap : bool;
  oa_caddr : list N;          (* convertAddress *)
  oa_dens : list N;           (* the outputs map, as the list of counted denominations *)
  oa_etxs : list etx;
  oa_creates : list (key * utxo);
  oa_gp : N; oa_used : N;
  oa_rgas : N; oa_pgas : N
}.

(* tail of one iteration of the output loop: emit an ETX or create a local UTXO.
   [worker] only swaps two failing checks (worker.go: SubGas before the eligibility test),
   visible only through the gas pool left behind by a failure. [a] already has the
   address set / totals of this iteration; its index is still the current one. *)
Definition out_emit (worker : bool) (c : ctx) (rl pl : N) (t : tx) (a : oacc) (o : txout) : result oacc :=
  let to := o_addr o in
  let gp := oa_gp a in
  if negb (is_local c to) then
    (* toAddr.Location().CommonDom(location).Context(): REGION when the regions agree, PRIME otherwise *)
    let sameregion := a_region to =? c_region c in
    let rgas := if sameregion then oa_rgas a + tx_gas else oa_rgas a in
    let pgas := if sameregion then oa_pgas a else oa_pgas a + tx_gas in
    if rl <? rgas then Err 27 gp
    else if pl <? pgas then Err 28 gp
    else if negb (is_qi to) then Err 26 gp
    else
      let e := mkEtx etx_default_type to (o_den o) (oa_idx a) tx_gas in   (* Value carries the denomination index *)
      let ok := mkOA (oa_idx a + 1) (oa_addrs a) (oa_total a) (oa_conv a) (oa_isconv a) (oa_iswrap a) (oa_caddr a)
                     (oa_dens a) (oa_etxs a ++ [e]) (oa_creates a) (gp - etx_gas) (oa_used a + etx_gas) rgas pgas in
      if worker then
        if gp <? etx_gas then Err 39 gp
        else if negb (eligible c to) then Err 29 (gp - etx_gas)
        else Ok ok
      else
        if negb (eligible c to) then Err 29 gp
        else if gp <? etx_gas then Err 39 gp
        else Ok ok
  else
    (* types.NewUtxoEntry(&txOut); rawdb.CreateUTXO(batch, tx.Hash(), idx, utxo) *)
    Ok (mkOA (oa_idx a + 1) (oa_addrs a) (oa_total a) (oa_conv a) (oa_isconv a) (oa_iswrap a) (oa_caddr a)
             (oa_dens a) (oa_etxs a) (oa_creates a ++ [(outkey (t_hash t) (oa_idx a), mkU (o_den o) to 0)])
             gp (oa_used a) (oa_rgas a) (oa_pgas a)).

Definition out_step (worker : bool) (c : ctx) (rl pl : N) (t : tx) (a : oacc) (o : txout) : result oacc :=
  let gp := oa_gp a in
  if max_output_index <? oa_idx a then Err 20 gp
  else if max_denomination <? o_den o then Err 21 gp
  else if negb (o_lock o =? 0) then Err 22 gp
  else
    let total := oa_total a + den_value (o_den o) in
    let to := o_addr o in
    if amem to (oa_addrs a) then Err 23 gp
    else
      let dlen := len (t_data t) in
      (* after: addresses[to] = {}, outputs[den]++ *)
      let a1 := mkOA (oa_idx a) (to :: oa_addrs a) total (oa_conv a) (oa_isconv a) (oa_iswrap a) (oa_caddr a)
                     (o_den o :: oa_dens a) (oa_etxs a) (oa_creates a) gp (oa_used a) (oa_rgas a) (oa_pgas a) in
      (* aggregated: totalConvertQitOut += v, outputs[den] -= 1, delete(addresses, to) *)
      let agg (isconv iswrap : bool) :=
          mkOA (oa_idx a) (aremove to (to :: oa_addrs a)) total (oa_conv a + den_value (o_den o)) isconv iswrap to
               (oa_dens a) (oa_etxs a) (oa_creates a) gp (oa_used a) (oa_rgas a) (oa_pgas a) in
      let next (x : oacc) :=
          mkOA (oa_idx x + 1) (oa_addrs x) (oa_total x) (oa_conv x) (oa_isconv x) (oa_iswrap x) (oa_caddr x)
               (oa_dens x) (oa_etxs x) (oa_creates x) (oa_gp x) (oa_used x) (oa_rgas x) (oa_pgas x) in
      if is_local c to && is_quai to && (dlen =? max_qi_tx_data_length) then          (* Qi->Quai conversion *)
        if oa_isconv a && negb (keqb to (oa_caddr a)) then Err 24 gp
        else Ok (next (agg true (oa_iswrap a)))
      else if is_local c to && is_quai to && (dlen =? address_length) then            (* wrapped Qi *)
        if is_qi (t_data t) || negb (is_internal c (t_data t)) then Err 25 gp         (* ownerContract.InternalAndQuaiAddress() *)
        else if qi_wrapping_change_block <=? c_ptn c                                  (* qiWrappingSkipsLocalUTXO *)
             then Ok (next (agg (oa_isconv a) true))
             else out_emit worker c rl pl t (agg (oa_isconv a) true) o                (* before the fork: also a local UTXO *)
      else if is_quai to then Err 26 gp
      else out_emit worker c rl pl t a1 o.

Fixpoint out_loop (worker : bool) (c : ctx) (rl pl : N) (t : tx) (a : oacc) (outs : list txout) : result oacc :=
  match outs with
  | [] => Ok a
  | o :: r =>
      match out_step worker c rl pl t a o with
      | Err e g => Err e g
      | Ok a' => out_loop worker c rl pl t a' r
      end
  end.

Definition in_hold (c : ctx) (fork : N) : bool :=
  (fork <=? c_ptn c) && (c_ptn c <? fork + kquai_change_hold_interval).

(* result of everything after the input loop up to (excluding) CheckDenominations / signature *)
Record pres := mkPR {
  p_fee : N; p_etxs : list etx; p_creates : list (key * utxo);
  p_gp : N; p_used : N; p_rgas : N; p_pgas : N; p_outdens : list N;
  p_total_out : N; p_conv : N; p_isconv : bool; p_iswrap : bool
}.

Definition post_inputs (worker : bool) (c : ctx) (rl pl : N) (t : tx) (gp used : N)
           (addrs : list (list N)) (tot_in : N) : result pres :=
  match out_loop worker c rl pl t (mkOA 0 addrs 0 0 false false [] [] [] [] gp used 0 0) (t_outs t) with
  | Err e g => Err e g
  | Ok a =>
      let gp := oa_gp a in
      if tot_in <? oa_total a then Err 30 gp else
      let fee := tot_in - oa_total a in
      let required := (t_intrinsic t + len (oa_etxs a) * (tx_gas + etx_gas)) mod two64 in
      if required <? t_intrinsic t then Err 31 gp else
      let minfee := required * c_basefee c in
      let feequai := c_quai_reward c * fee / c_qi_reward c in                        (* misc.QiToQuai *)
      if feequai <? minfee then Err 32 gp else
      if oa_isconv a && in_hold c kawpow_fork_block then Err 33 gp else
      if oa_isconv a && in_hold c sha_equivalent_difficulty_fork_block then Err 34 gp else
      if oa_isconv a || oa_iswrap a then
        if oa_isconv a && oa_iswrap a then Err 35 gp else
        let required2 := required + qi_to_quai_conversion_gas in
        let minfee2 := required2 * c_basefee c in
        if feequai <? minfee2 then Err 36 gp else
        let pgas := oa_pgas a + qi_to_quai_conversion_gas in
        if pl <? pgas then Err 37 gp else
        let gasleft := ((feequai - minfee2) / c_basefee c) mod two64 in
        let e := mkEtx (if oa_iswrap a then etx_wrapping_qi_type else etx_conversion_type)
                       (oa_caddr a) (oa_conv a) 0 gasleft in
        if gp <? etx_gas then Err 38 gp else
        Ok (mkPR fee (oa_etxs a ++ [e]) (oa_creates a) (gp - etx_gas) (oa_used a + etx_gas) (oa_rgas a) pgas
                 (oa_dens a) (oa_total a) (oa_conv a) (oa_isconv a) (oa_iswrap a))
      else
        Ok (mkPR fee (oa_etxs a) (oa_creates a) gp (oa_used a) (oa_rgas a) (oa_pgas a)
                 (oa_dens a) (oa_total a) (oa_conv a) (oa_isconv a) (oa_iswrap a))
  end.

(* the checks on tx.Data() shared by ProcessQiTx, processQiTx and ValidateQiTxInputs *)
Definition sanity (t : tx) : option N :=
  let dlen := len (t_data t) in
  if len (t_ins t) =? 0 then Some 1
  else if negb (t_chain_ok t) then Some 2
  else if negb (dlen =? 0) && negb (dlen =? max_qi_tx_data_length) && negb (dlen =? address_length) then Some 3
  else if (dlen =? address_length) && is_qi (t_data t) then Some 4
  else if (dlen =? max_qi_tx_data_length) && negb (is_qi (skipn 2 (t_data t))) then Some 5
  else None.

(* ------------------------------------------------------------------ ProcessQiTx *)

Record txres := mkRes {
  r_fee : N; r_etxs : list etx; r_gas : N;
  r_spent : list (key * utxo);        (* utxosCreatedDeleted.UtxosDeleted of this tx *)
  r_created : list (key * utxo)       (* created local outputs of this tx *)
}.

Section Generic.
Context {S : Type} (st : store S).

Record iacc := mkIA {
  ia_store : S; ia_addrs : list (list N); ia_total : N; ia_dens : list N; ia_spent : list (key * utxo)
}.

(* one iteration of the input loop of ProcessQiTx *)
Definition in_step (c : ctx) (checksig : bool) (gp : N) (a : iacc) (i : txin) : result iacc :=
  match st_get st (ia_store a) (i_op i) with
  | None => Err 10 gp
  | Some u =>
      if c_height c <? u_lock u then Err 11 gp
      else if negb (is_qi (i_pkaddr i)) then Err 12 gp
      else if negb (keqb (i_pkaddr i) (u_owner u)) then Err 13 gp
      else if checksig && negb (i_pkparse i) then Err 14 gp
      else if max_denomination <? u_den u then Err 15 gp
      else Ok (mkIA (st_del st (ia_store a) (i_op i)) (u_owner u :: ia_addrs a)
                    (ia_total a + den_value (u_den u)) (u_den u :: ia_dens a)
                    (ia_spent a ++ [(i_op i, u)]))
  end.

Fixpoint in_loop (c : ctx) (checksig : bool) (gp : N) (a : iacc) (ins : list txin) : result iacc :=
  match ins with
  | [] => Ok a
  | i :: r =>
      match in_step c checksig gp a i with
      | Err e g => Err e g
      | Ok a' => in_loop c checksig gp a' r
      end
  end.

(* state threaded through the transactions of one block *)
Record bst := mkB { b_store : S; b_gp : N; b_used : N; b_rlim : N; b_plim : N; b_first : bool }.

Definition put_all (s : S) (cs : list (key * utxo)) : S :=
  fold_left (fun s kv => st_put st s (fst kv) (snd kv)) cs s.

Definition process_qi (c : ctx) (b : bst) (t : tx) : result (bst * txres) :=
  match sanity t with
  | Some e => Err e (b_gp b)
  | None =>
      let used1 := b_used b + t_intrinsic t in
      if b_gp b <? t_intrinsic t then Err 6 (b_gp b) else
      let gp1 := b_gp b - t_intrinsic t in
      if c_gaslimit c <? used1 then Err 7 gp1 else
      match in_loop c (t_checksig t) gp1 (mkIA (b_store b) [] 0 [] []) (t_ins t) with
      | Err e g => Err e g
      | Ok ia =>
          match post_inputs false c (b_rlim b) (b_plim b) t gp1 used1 (ia_addrs ia) (ia_total ia) with
          | Err e g => Err e g
          | Ok p =>
              if negb (b_first b) && negb (check_denominations (ia_dens ia) (p_outdens p)) then Err 40 (p_gp p)
              else if t_checksig t && negb (t_sigok t) then Err 41 (p_gp p)
              else Ok (mkB (put_all (ia_store ia) (p_creates p)) (p_gp p) (p_used p)
                           (b_rlim b - p_rgas p) (b_plim b - p_pgas p) false,
                       mkRes (p_fee p) (p_etxs p) (p_used p - b_used b) (ia_spent ia) (p_creates p))
          end
      end
  end.

(* the Qi part of StateProcessor.Process: the first failing transaction rejects the block *)
Fixpoint run_txs (c : ctx) (b : bst) (txs : list tx) : list txres * option bst :=
  match txs with
  | [] => ([], Some b)
  | t :: r =>
      match process_qi c b t with
      | Err _ _ => ([], None)
      | Ok (b', res) => let '(l, o) := run_txs c b' r in (res :: l, o)
      end
  end.

Definition init_bst (c : ctx) (s : S) : bst := mkB s (c_gaslimit c) 0 (c_rlim c) (c_plim c) true.

End Generic.
Arguments mkIA {S} _ _ _ _ _.
Arguments ia_store {S} _.
Arguments ia_addrs {S} _.
Arguments ia_total {S} _.
Arguments ia_dens {S} _.
Arguments ia_spent {S} _.
Arguments mkB {S} _ _ _ _ _ _.
Arguments b_store {S} _.
Arguments b_gp {S} _.
Arguments b_used {S} _.
Arguments b_rlim {S} _.
Arguments b_plim {S} _.
Arguments b_first {S} _.

(* a block on (db, fresh batch): accepted prefix of results, verdict, ledger after (batch written iff accepted) *)
Definition run_block (tracks : bool) (l : ledger) (c : ctx) (txs : list tx) : list txres * bool * ledger :=
  match run_txs view_store c (init_bst c (view_of tracks l)) txs with
  | (rs, Some b) => (rs, true, commit (b_store b))
  | (rs, None) => (rs, false, l)
  end.

Fixpoint run_chain (tracks : bool) (l : ledger) (blocks : list (ctx * list tx)) : list (list txres * bool * ledger) :=
  match blocks with
  | [] => []
  | (c, txs) :: r =>
      let '(rs, ok, l') := run_block tracks l c txs in
      (rs, ok, l') :: run_chain tracks l' r
  end.

(* the same block on the flat reference ledger *)
Definition run_block_ref (l : ledger) (c : ctx) (txs : list tx) : list txres * bool * ledger :=
  match run_txs ledger_store c (init_bst c l) txs with
  | (rs, Some b) => (rs, true, b_store b)
  | (rs, None) => (rs, false, l)
  end.

(* ------------------------------------------------------------------ mempool: ValidateQiTxInputs *)

Definition validate_in_step (c : ctx) (l : ledger) (i : txin) : bool :=
  match get (i_op i) l with
  | None => false
  | Some u =>
      negb (c_height c <? u_lock u) && is_qi (i_pkaddr i) && keqb (i_pkaddr i) (u_owner u)
      && negb (max_denomination <? u_den u)
  end.
Definition validate_inputs (c : ctx) (l : ledger) (t : tx) : bool :=
  match sanity t with
  | Some _ => false
  | None =>
      forallb (validate_in_step c l) (t_ins t)
      && forallb (fun o => negb (max_denomination <? o_den o) && (o_lock o =? 0)) (t_outs t)
  end.

(* ------------------------------------------------------------------ worker: processQiTx *)

Record wenv := mkW { w_deleted : list key; w_gp : N; w_used : N; w_rlim : N; w_plim : N }.

Record wiacc := mkWI { wi_addrs : list (list N); wi_total : N; wi_dens : list N; wi_spent : list (key * utxo) }.

(* input loop of processQiTx: reads the committed database only, explicit deletedUtxos set
   (keyed by types.UTXOHash(outpoint, entry); modelled by the outpoint) which keeps the
   entries of a transaction that fails later *)
Fixpoint w_in_loop (c : ctx) (l : ledger) (gp : N) (deleted : list key) (a : wiacc) (ins : list txin)
  : list key * result wiacc :=
  match ins with
  | [] => (deleted, Ok a)
  | i :: r =>
      match get (i_op i) l with
      | None => (deleted, Err 10 gp)
      | Some u =>
          if c_height c <? u_lock u then (deleted, Err 11 gp)
          else if max_denomination <? u_den u then (deleted, Err 15 gp)
          else if negb (is_qi (u_owner u)) then (deleted, Err 16 gp)
          else if amem (i_op i) deleted then (deleted, Err 17 gp)
          else w_in_loop c l gp (i_op i :: deleted)
                         (mkWI (u_owner u :: wi_addrs a) (wi_total a + den_value (u_den u))
                               (u_den u :: wi_dens a) (wi_spent a ++ [(i_op i, u)])) r
      end
  end.

Definition worker_qi (c : ctx) (l : ledger) (first : bool) (e : wenv) (t : tx) : wenv * result txres :=
  match sanity t with
  | Some err => (e, Err err (w_gp e))
  | None =>
      if w_gp e <? t_intrinsic t then (e, Err 6 (w_gp e)) else
      let gp1 := w_gp e - t_intrinsic t in
      let used1 := w_used e + t_intrinsic t in
      let fail (deleted : list key) (err gp : N) :=
          (mkW deleted gp (w_used e) (w_rlim e) (w_plim e), @Err txres err gp) in
      match w_in_loop c l gp1 (w_deleted e) (mkWI [] 0 [] []) (t_ins t) with
      | (deleted, Err err g) => fail deleted err g
      | (deleted, Ok ia) =>
          match post_inputs true c (w_rlim e) (w_plim e) t gp1 used1 (wi_addrs ia) (wi_total ia) with
          | Err err g => fail deleted err g
          | Ok p =>
              if c_gaslimit c <? p_used p then fail deleted 42 (p_gp p)
              else if negb first && negb (check_denominations (wi_dens ia) (p_outdens p)) then fail deleted 40 (p_gp p)
              else (mkW deleted (p_gp p) (p_used p) (w_rlim e - p_rgas p) (w_plim e - p_pgas p),
                    (* receipt.GasUsed = gasUsed - env.wo.GasUsed() is evaluated after
                       env.wo.Header().SetGasUsed(gasUsed): always 0 in the worker's receipt *)
                    Ok (mkRes (p_fee p) (p_etxs p) (p_used p - p_used p) (wi_spent ia) (p_creates p)))
          end
      end
  end.

(* commitTransactions: "emits too many" / "double spends" / "combine smaller denominations" /
   "uses too much gas" / ErrGasLimitReached leave firstQiTx untouched (continue before the assignment) *)
Definition w_retry (e : N) : bool :=
  existsb (N.eqb e) [27; 28; 37; 17; 40; 42; 6; 39; 38].

Fixpoint worker_txs (c : ctx) (l : ledger) (first : bool) (e : wenv) (txs : list tx) : list (option txres) * wenv :=
  match txs with
  | [] => ([], e)
  | t :: r =>
      match worker_qi c l first e t with
      | (e', Ok res) => let '(vs, ef) := worker_txs c l false e' r in (Some res :: vs, ef)
      | (e', Err err _) =>
          let '(vs, ef) := worker_txs c l (if w_retry err then first else false) e' r in (None :: vs, ef)
      end
  end.

Definition init_wenv (c : ctx) : wenv := mkW [] (c_gaslimit c) 0 (c_rlim c) (c_plim c).

Fixpoint accepted_txs (txs : list tx) (vs : list (option txres)) : list tx :=
  match txs, vs with
  | t :: r, Some _ :: vr => t :: accepted_txs r vr
  | _ :: r, None :: vr => accepted_txs r vr
  | _, _ => []
  end.

(* ------------------------------------------------------------------ pool: the senders cache in the authorisation path *)

(* TxPool.addQiTxs admits a Qi transaction only after ValidateQiTxInputs AND
   ValidateQiTxOutputsAndSignature (output / fee rules: abstract predicate outs_ok; signature: the same
   Schnorr / MuSig2 check over the carried keys as ProcessQiTx, bit t_sigok); only admitted transactions are
   put into qiPool and their hash sent to sendersCh -> senders cache (also addQiTxsWithoutValidationLocked:
   fee already cached by an earlier admission, or the same two checks). *)
Definition pool_admit (outs_ok : tx -> bool) (c : ctx) (l : ledger) (t : tx) : bool :=
  validate_inputs c l t && outs_ok t && t_sigok t.
Definition pool_gossip (outs_ok : tx -> bool) (c : ctx) (l : ledger) (cache : list (list N)) (txs : list tx)
  : list (list N) :=
  cache ++ map t_hash (filter (pool_admit outs_ok c l) txs).

(* StateProcessor.Process: checkSig := tx.Hash() not in the pool's senders cache (PeekSenderNoLock) *)
Definition set_checksig (b : bool) (t : tx) : tx :=
  mkTx (t_hash t) (t_chain_ok t) (t_ins t) (t_outs t) (t_data t) (t_intrinsic t) b (t_sigok t).
Definition via_cache (cache : list (list N)) (t : tx) : tx := set_checksig (negb (amem (t_hash t) cache)) t.
Definition run_block_via_pool (cache : list (list N)) (l : ledger) (c : ctx) (txs : list tx) :=
  run_block true l c (map (via_cache cache) txs).

(* ------------------------------------------------------------------ correspondence check *)

Record txobs := mkObs {
  ob_fee : N; ob_gas : N; ob_removed : N; ob_added : N;
  ob_etxs : list etx; ob_spent : list key; ob_created : list key
}.

Definition list_eqb {A B} (f : A -> B -> bool) : list A -> list B -> bool :=
  fix go a b := match a, b with
                | [], [] => true
                | x :: a', y :: b' => f x y && go a' b'
                | _, _ => false
                end.
Definition utxo_eqb (a b : utxo) : bool :=
  (u_den a =? u_den b) && keqb (u_owner a) (u_owner b) && (u_lock a =? u_lock b).
Definition etx_eqb (a b : etx) : bool :=
  (e_type a =? e_type b) && keqb (e_to a) (e_to b) && (e_value a =? e_value b)
  && (e_index a =? e_index b) && (e_gas a =? e_gas b).
Definition ledger_eqb : ledger -> ledger -> bool :=
  list_eqb (fun a b => keqb (fst a) (fst b) && utxo_eqb (snd a) (snd b)).

Definition res_matches (r : txres) (o : txobs) : bool :=
  (r_fee r =? ob_fee o) && (r_gas r =? ob_gas o)
  && (sum_den (map (fun kv => u_den (snd kv)) (r_spent r)) =? ob_removed o)
  && (sum_den (map (fun kv => u_den (snd kv)) (r_created r)) =? ob_added o)
  && list_eqb etx_eqb (r_etxs r) (ob_etxs o)
  && list_eqb keqb (map fst (r_spent r)) (ob_spent o)
  && list_eqb keqb (map fst (r_created r)) (ob_created o).

(* observation of one block on one backend: accepted prefix, verdict, 'ut' records afterwards *)
Definition blockobs := (list txobs * bool * ledger)%type.
Definition block_matches (m : list txres * bool * ledger) (o : blockobs) : bool :=
  let '(rs, ok, l) := m in
  let '(os, ok', l') := o in
  list_eqb res_matches rs os && Bool.eqb ok ok' && ledger_eqb l l'.

Inductive pstep :=
| PGossip (c : ctx) (txs : list tx) (admitted cached : list bool)
| PBlock (c : ctx) (txs : list tx) (checksigs : list bool) (obs : list blockobs).

Inductive case_body :=
(* a chain of blocks through ProcessQiTx with batch.SetPending(tracks); one observation list per backend *)
| CProc (tracks : bool) (base : ledger) (blocks : list (ctx * list tx)) (obs : list (list blockobs))
(* one pending block through the worker: verdict per tx (with observation when accepted), final env,
   and ValidateQiTxInputs' verdict for each tx against the same database *)
| CWorker (base : ledger) (c : ctx) (txs : list tx) (verdicts : list (option txobs))
          (gp used rlim plim : N) (mempool : list bool)
(* gossip phases and processed blocks with a real pool in front (see pool_run_ok) *)
| CPool (base : ledger) (steps : list pstep).

Definition case := (N * case_body)%type.

Fixpoint select {A} (xs : list A) (bs : list bool) : list A :=
  match xs, bs with
  | x :: xr, true :: br => x :: select xr br
  | _ :: xr, false :: br => select xr br
  | _, _ => []
  end.

(* a pool scenario: gossip phases against the current ledger (observed: admitted / cached bits per delivery)
   and processed blocks whose checkSig comes from the cache.  The output/fee rules of the pool are not
   modelled: the observed admission is checked to IMPLY ValidateQiTxInputs and the signature bit (pool_admit
   for some outs_ok), the observed cache to be exactly the hashes admitted so far. *)
Fixpoint pool_run_ok (l : ledger) (cache : list (list N)) (steps : list pstep) : bool :=
  match steps with
  | [] => true
  | PGossip c txs adm cached :: r =>
      let cache' := cache ++ map t_hash (select txs adm) in
      list_eqb (fun t a => implb a (amem (t_hash t) cache || (validate_inputs c l t && t_sigok t))) txs adm
      && list_eqb (fun t cd => Bool.eqb cd (amem (t_hash t) cache')) txs cached
      && pool_run_ok l cache' r
  | PBlock c txs cs obs :: r =>
      let txs' := map (via_cache cache) txs in
      let m := run_block true l c txs' in
      list_eqb Bool.eqb (map t_checksig txs') cs
      && forallb (block_matches m) obs
      && pool_run_ok (snd m) cache r
  end.

Definition wverdict_matches (m : option txres) (o : option txobs) : bool :=
  match m, o with
  | None, None => true
  | Some r, Some ob => res_matches r ob
  | _, _ => false
  end.

Definition case_ok (cs : case) : bool :=
  match snd cs with
  | CProc tracks base blocks obs =>
      sortedb base &&
      let m := run_chain tracks base blocks in
      forallb (fun o => list_eqb block_matches m o) obs
  | CWorker base c txs verdicts gp used rlim plim mempool =>
      sortedb base &&
      let '(vs, e) := worker_txs c base true (init_wenv c) txs in
      list_eqb wverdict_matches vs verdicts
      && (w_gp e =? gp) && (w_used e =? used) && (w_rlim e =? rlim) && (w_plim e =? plim)
      && list_eqb Bool.eqb (map (validate_inputs c base) txs) mempool
  | CPool base steps => sortedb base && pool_run_ok base [] steps
  end.

Definition mismatches (cs : list case) : list N :=
  map fst (filter (fun c => negb (case_ok c)) cs).

(* C20 -- executable model of the Quai<->Qi conversion arithmetic.
   Definitions only; proofs are in Proofs/C20.v, property theorems in Props/C20.v.

   Mirrors, statement by statement:
     consensus/misc/rewards.go   CalculateQuaiReward / CalculateQiReward (after the difficulty
                                 normalisation and common.LogBig, which are inputs), QiToQuai,
                                 QuaiToQi, ComputeConversionAmountInQuai, FindMinDenominations,
                                 ApplyCubicDiscount (ideal rational version [disc_ideal]; the
                                 big.Float result actually used by the loop is an oracle [disc])
     core/slice.go               Slice.Append, PRIME branch: the inline conversion block from
                                 `sort.SliceStable(newInboundEtxs, ...` to the "Conversion Stats"
                                 log (three passes)  = [reprice]
     core/state_processor.go     Process, Quai->Qi conversion branch: the mint loop = [mint]
   Exact unbounded Z arithmetic; the only wrap-around that exists in the code
   (count.Uint64() in FindMinDenominations) is written mod 2^64 explicitly. *)
From Coq Require Import List ZArith NArith Bool.
From GQ Require Import Generated.C20Params.
Import ListNotations.
Local Open Scope Z_scope.

Definition two64 : Z := 18446744073709551616.

(* ---------- rewards.go: unit conversion ---------- *)

(* CalculateQuaiReward: reward := exchangeRate*logDiff Quo 2^64; if reward == 0 then 1 *)
Definition quai_reward (k logdiff : Z) : Z :=
  let r := Z.quot (k * logdiff) two64 in if r =? 0 then 1 else r.
(* CalculateQiReward: difficulty Quo OneOverKqi(number); if 0 then 1 *)
Definition qi_reward (diff kqi : Z) : Z :=
  let r := Z.quot diff kqi in if r =? 0 then 1 else r.
(* QiToQuai: quaiReward*qiAmt Quo qiReward ; QuaiToQi: qiReward*quaiAmt Quo quaiReward *)
Definition qi_to_quai (a b x : Z) : Z := Z.quot (a * x) b.
Definition quai_to_qi (a b x : Z) : Z := Z.quot (b * x) a.

(* ---------- rewards.go: FindMinDenominations ---------- *)

(* (index, value) from MaxDenomination down to 0 *)
Definition dens_desc : list (Z * Z) :=
  rev (combine (map Z.of_nat (seq 0 (length denominations))) denominations).

(* result: (denomination index, count as stored = count.Uint64()) in descending index order *)
Fixpoint fmd_loop (dens : list (Z * Z)) (amount : Z) : list (Z * Z) :=
  match dens with
  | [] => []
  | (i, d) :: rest =>
      let count := amount / d in
      if count =? 0 then fmd_loop rest amount
      else
        let newAmount := amount - count * d in
        if 0 <? newAmount then (i, count mod two64) :: fmd_loop rest newAmount
        else if newAmount =? 0 then [(i, count mod two64)]
        else []
  end.
Definition find_min_denominations (v : Z) : list (Z * Z) := fmd_loop dens_desc v.

Definition den_value (i : Z) : Z := nth (Z.to_nat i) denominations 0.
Definition denoms_sum (l : list (Z * Z)) : Z :=
  fold_right (fun p acc => snd p * den_value (fst p) + acc) 0 l.
Definition denoms_count (l : list (Z * Z)) : Z := fold_right (fun p acc => snd p + acc) 0 l.

(* ---------- state_processor.go Process, Quai->Qi conversion: mint loop ----------
   for each denomination (descending) with a non-zero count, for j < count:
     if txGas < CallValueTransferGas || outputIndex >= MaxOutputIndex { success=false; break }
   (the break leaves only the inner loop; the next denomination fails the same test
   immediately because gas never grows and the index never shrinks).  The inner loop is
   written in closed form: it succeeds min(count, gas/G, MaxOutputIndex-idx) times.
   Returns (total minted, outputs created, gas left, success). *)
Definition mint_one (count d : Z) (st : Z * Z * Z * bool) : Z * Z * Z * bool :=
  let '(total, idx, gas, ok) := st in
  (* number of iterations of the inner loop that pass the guard *)
  let k := Z.min count (Z.min (gas / call_value_transfer_gas) (Z.max 0 (max_output_index - idx))) in
  (total + k * d, idx + k, gas - k * call_value_transfer_gas, ok && (k =? count)).
Definition mint_denoms (l : list (Z * Z)) (gas : Z) : Z * Z * Z * bool :=
  fold_left (fun st p => if snd p =? 0 then st else mint_one (snd p) (den_value (fst p)) st)
            l (0, 0, gas, true).
(* value -> (minted total, outputs, gas left, success), gas = etx gas after the TxGas deduction *)
Definition mint (v gas : Z) : Z * Z * Z * bool := mint_denoms (find_min_denominations v) gas.

(* state_processor.go Process, ConversionRevert branch refunding Qi: same loop, but only the
   denominations above MaxTrimDenomination are minted, the gas is the whole ETX gas and there is no
   success flag.  [dust v] is what the trim rule drops. *)
Definition above_trim (p : Z * Z) : bool := max_trim_denomination <? fst p.
Definition refund_qi (v gas : Z) : Z * Z * Z * bool :=
  mint_denoms (filter above_trim (find_min_denominations v)) gas.
Definition dust (v : Z) : Z :=
  denoms_sum (filter (fun p => negb (above_trim p)) (find_min_denominations v)).

(* ---------- rewards.go: ApplyCubicDiscount, ideal (rational, floored) ---------- *)
Definition disc_ideal (v m : Z) : Z :=
  if v <=? m then v * (min_cubic_div - min_cubic_bp) / min_cubic_div
  else if 10 * m <? v then 0
  else Z.max 0 (v * (999 * (m * m * m) - v * v * v) / (1000 * (m * m * m))).
(* admitted distance between the floor of the big.Float result and the ideal value *)
Definition disc_tolerance (v : Z) : Z := v / 281474976710656 + 2.

(* ---------- slice.go: the conversion block ---------- *)

Record hdr := mkHdr {
  h_number : Z;      (* header.NumberU64(PRIME_CTX) *)
  h_k : Z;           (* header.ExchangeRate() *)
  h_logdiff : Z;     (* LogBig of the (fork-normalised) miner difficulty, minus the post-fork divisor log *)
  h_diff : Z;        (* (fork-normalised) miner difficulty *)
  h_kqi : Z;         (* params.OneOverKqi(zone number) *)
  h_kqd : Z;         (* header.KQuaiDiscount() *)
  h_flow : Z;        (* block.ConversionFlowAmount() *)
  h_inc : bool       (* exchangeRateIncreasing *)
}.

Record etx := mkEtx {
  e_id : N;
  e_conv : bool;          (* EtxType() == ConversionType *)
  e_toqi : bool;          (* To().IsInQiLedgerScope(); otherwise Quai ledger *)
  e_value : Z;
  e_slip : option Z       (* Some (big-endian Data()[:2]) when len(Data()) > 1 *)
}.

Definition slip_of (e : etx) : Z :=
  match e_slip e with
  | None => max_slip
  | Some s =>
      let s1 := if max_slip <? s then max_slip else s in
      if s1 <? min_slip then min_slip else s1
  end.
(* sort key of the SliceStable comparator: conversions by slip, everything else 0; descending *)
Definition sort_key (e : etx) : Z := if e_conv e then slip_of e else 0.
Fixpoint insert_desc (x : etx) (l : list etx) : list etx :=
  match l with
  | [] => [x]
  | y :: l' => if sort_key x <? sort_key y then y :: insert_desc x l' else x :: l
  end.
Definition sort_desc (l : list etx) : list etx := fold_right insert_desc [] l.

Definition ra (h : hdr) : Z := quai_reward (h_k h) (h_logdiff h).
Definition rb (h : hdr) : Z := qi_reward (h_diff h) (h_kqi h).
Definition ra_new (h : hdr) (knew : Z) : Z := quai_reward knew (h_logdiff h).

Definition postfork (h : hdr) : bool := conversion_slip_change_block <? h_number h.
Definition kq_of (h : hdr) (dint : Z) : Z := dint * (kquai_mult - h_kqd h) / kquai_mult.
Definition kq_applies (h : hdr) (toqi : bool) : bool := if toqi then h_inc h else negb (h_inc h).
Definition apply_kq (h : hdr) (toqi : bool) (dint kq value : Z) : Z :=
  if kq_applies h toqi && negb (dint =? 0) then value * kq / dint else value.
Definition floor10 (orig value : Z) : Z :=
  let ten := orig * 10 / 100 in if value <? ten then ten else value.
Definition after_slip (e : etx) : Z := e_value e * (slip_range - slip_of e) / slip_range.

Inductive kind := KOther | KConverted | KReverted.

Record st1 := mkSt1 { s_e : etx; s_orig : option Z; s_val : Z; s_p1 : Z }.
Record st2 := mkSt2 { t_s : st1; t_val : Z; t_before : option Z; t_real : Z }.
Record out := mkOut {
  o_e : etx;         (* the inbound ETX this entry came from *)
  o_kind : kind;     (* final EtxType: Conversion / ConversionRevert / untouched *)
  o_value : Z;       (* final Value() *)
  o_p1 : Z;          (* ghost: value computed by pass one (origin units) *)
  o_before : Z       (* ghost: etxValuesBeforeConversion[i] (origin units, after all discounts) *)
}.
Record result := mkRes { r_out : list out; r_actual : Z; r_realized : Z }.

Fixpoint mapM {A B : Type} (f : A -> option B) (l : list A) : option (list B) :=
  match l with
  | [] => Some []
  | x :: l' =>
      match f x with
      | None => None
      | Some y => match mapM f l' with None => None | Some r => Some (y :: r) end
      end
  end.

Section Reprice.
  (* floor of misc.ApplyCubicDiscount(valueInt, meanInt) *)
  Variable disc : Z -> Z -> Z.

  (* before ConversionSlipChangeBlock the arguments are (flow, amount), after it (amount, flow) *)
  Definition disc_at (h : hdr) (amt : Z) : Z :=
    if postfork h then disc amt (h_flow h) else disc (h_flow h) amt.

  (* first pass, one ETX; None = big.Int.Div by zero (Go panics) *)
  Definition p1_step (h : hdr) (acc : Z) (e : etx) : option (Z * st1) :=
    if e_conv e && (0 <? e_value e) then
      let v := e_value e in
      let temp := if e_toqi e then acc + v else acc + qi_to_quai (ra h) (rb h) v in
      if temp =? 0 then None
      else
        let dint := disc_at h temp in
        let kq := kq_of h dint in
        let value := floor10 v (apply_kq h (e_toqi e) dint kq (v * dint / temp)) in
        if value <? after_slip e then Some (acc, mkSt1 e (Some v) 0 value)
        else Some (temp, mkSt1 e (Some v) v value)
    else Some (acc, mkSt1 e None (e_value e) 0).

  Fixpoint pass1 (h : hdr) (acc : Z) (l : list etx) : option (list st1) :=
    match l with
    | [] => Some []
    | e :: l' =>
        match p1_step h acc e with
        | None => None
        | Some (acc', s) =>
            match pass1 h acc' l' with None => None | Some r => Some (s :: r) end
        end
    end.

  (* misc.ComputeConversionAmountInQuai on the ETXs as they are after pass one *)
  Definition amount_of (h : hdr) (s : st1) : Z :=
    if e_conv (s_e s) && negb (s_val s =? 0) then
      (if e_toqi (s_e s) then s_val s else qi_to_quai (ra h) (rb h) (s_val s))
    else 0.
  Definition actual_amount (h : hdr) (l : list st1) : Z :=
    fold_right (fun s acc => amount_of h s + acc) 0 l.

  (* second pass, one ETX *)
  Definition p2_entry (h : hdr) (actual d2 : Z) (s : st1) : option st2 :=
    let e := s_e s in
    if e_conv e && (0 <? s_val s) then
      match s_orig s with
      | None => None
      | Some orig =>
          if actual =? 0 then None
          else
            let kq := kq_of h d2 in
            let before := floor10 orig (apply_kq h (e_toqi e) d2 kq (orig * d2 / actual)) in
            if e_toqi e then Some (mkSt2 s (quai_to_qi (ra h) (rb h) before) (Some before) before)
            else let q := qi_to_quai (ra h) (rb h) before in Some (mkSt2 s q (Some before) q)
      end
    else Some (mkSt2 s (s_val s) None 0).

  (* third pass, one ETX; None = SetValue(nil) / Set(nil) (Go panics) *)
  Definition p3_entry (h : hdr) (knew : Z) (t : st2) : option out :=
    let s := t_s t in
    let e := s_e s in
    if e_conv e then
      if t_val t <? 0 then Some (mkOut e KConverted 0 (s_p1 s) 0)
      else if t_val t =? 0 then
        match s_orig s with
        | None => None
        | Some o => Some (mkOut e KReverted o (s_p1 s) 0)
        end
      else
        match t_before t with
        | None => None
        | Some bf =>
            Some (mkOut e KConverted
                        (if e_toqi e then quai_to_qi (ra_new h knew) (rb h) bf
                         else qi_to_quai (ra_new h knew) (rb h) bf)
                        (s_p1 s) bf)
        end
    else Some (mkOut e KOther (t_val t) 0 0).

  Definition reprice (h : hdr) (knew : Z) (etxs : list etx) : option result :=
    match pass1 h 0 (sort_desc etxs) with
    | None => None
    | Some l1 =>
        let actual := actual_amount h l1 in
        let d2 := disc_at h actual in
        match mapM (p2_entry h actual d2) l1 with
        | None => None
        | Some l2 =>
            match mapM (p3_entry h knew) l2 with
            | None => None
            | Some l3 => Some (mkRes l3 actual (fold_right (fun t acc => t_real t + acc) 0 l2))
            end
        end
    end.
End Reprice.

(* ---------- origin side: core/vm/evm.go frames, ETX cache and the Quai debit ----------
   A contract execution is a well-bracketed sequence of events.  The EVM keeps, next to the account
   state, the list evm.ETXCache of external transactions emitted so far; every call kind
   (Call, CallCode, DelegateCall, StaticCall, create) opens its frame with evm.snapshot() =
   (StateDB revision, len(ETXCache), ...) and, when the frame fails, evm.revertToSnapshot restores
   BOTH.  The model keeps that pair explicit: [f_bal]/[f_deb] is the StateDB revision, [f_len] the
   cache length.
     EEnter k from to v  a nested frame is opened by CALL/CALLCODE/DELEGATECALL/STATICCALL/CREATE
                         (opCall.. -> evm.Call..): write protection of the caller, CanTransfer,
                         snapshot, Transfer
     EEmit id sender conv direct v fee gas
                         CONVERT / ETX (instructions.go opConvert, opETX) or the top level
                         CreateETX: guards, SubBalance(value+fee), append to the cache
     ELeave ok           the frame ends; ok = STOP/RETURN, otherwise REVERT / invalid op / out of gas *)
Inductive ckind := KCall | KCallCode | KDelegate | KStatic | KCreate.
Record erec := mkErec { x_id : N; x_sender : N; x_value : Z; x_fee : Z }.
Inductive event :=
| EEnter (k : ckind) (from to : N) (v : Z)
| EEmit (id sender : N) (conv direct : bool) (v fee gas : Z)
| ELeave (ok : bool).

Definition bals := list (N * Z).
Fixpoint bal_get (b : bals) (a : N) : Z :=
  match b with [] => 0 | (a', x) :: b' => if N.eqb a a' then x else bal_get b' a end.
Fixpoint bal_add (b : bals) (a : N) (d : Z) : bals :=
  match b with
  | [] => [(a, d)]
  | (a', x) :: b' => if N.eqb a a' then (a', x + d) :: b' else (a', x) :: bal_add b' a d
  end.
Definition bal_total (b : bals) : Z := fold_right (fun p acc => snd p + acc) 0 b.

Record oframe := mkOframe {
  f_bal : bals; f_deb : Z; f_len : nat;   (* the snapshot: state revision + len(ETXCache) *)
  f_static : bool;                        (* interpreter.readOnly before the frame *)
  f_failed : bool                         (* an instruction of this frame already returned an error *)
}.
Record ostate := mkOstate {
  o_bal : bals;
  o_deb : Z;               (* ghost: everything SubBalance'd by an emission that is still in force *)
  o_cache : list erec;     (* evm.ETXCache, oldest first *)
  o_stack : list oframe;
  o_static : bool;
  o_skip : nat             (* depth inside a frame that was never entered / code after an error *)
}.

Definition cache_cost (c : list erec) : Z := fold_right (fun e acc => x_value e + x_fee e + acc) 0 c.

Definition top_failed (s : ostate) : bool :=
  match o_stack s with [] => false | f :: _ => f_failed f end.
Definition fail_top (s : ostate) : ostate :=
  match o_stack s with
  | [] => s
  | f :: r => mkOstate (o_bal s) (o_deb s) (o_cache s)
                       (mkOframe (f_bal f) (f_deb f) (f_len f) (f_static f) true :: r)
                       (o_static s) (o_skip s)
  end.
Definition skip_more (s : ostate) : ostate :=
  mkOstate (o_bal s) (o_deb s) (o_cache s) (o_stack s) (o_static s) (S (o_skip s)).

(* the prime-terminus windows in which a Quai->Qi conversion may be emitted (opConvert / CreateETX) *)
Definition conv_allowed (ptn : Z) : bool :=
  (controller_kick_in_block <=? ptn)
  && negb ((kawpow_fork_block <=? ptn) && (ptn <? kawpow_fork_block + kquai_change_hold_interval))
  && negb ((sha_equivalent_fork_block <=? ptn) && (ptn <? sha_equivalent_fork_block + kquai_change_hold_interval)).

(* [snap_cache] selects what revertToSnapshot does with the cache: true = the code as reviewed
   (truncate to the saved length), false = only the account state is rolled back (used by the
   refutation that shows why the cache length must be part of the snapshot) *)
Definition ostep (snap_cache : bool) (ptn : Z) (s : ostate) (e : event) : ostate :=
  match e with
  | EEnter k from to v =>
      if negb (Nat.eqb (o_skip s) 0) || top_failed s then skip_more s
      else if o_static s && (match k with KCall => 0 <? v | KCreate => true | _ => false end)
      then skip_more (fail_top s)                         (* ErrWriteProtection in the caller *)
      else
        let moves := match k with KCall | KCreate => true | _ => false end in
        let checks := match k with KCall | KCreate | KCallCode => true | _ => false end in
        if checks && (bal_get (o_bal s) from <? v) then skip_more s   (* ErrInsufficientBalance *)
        else
          let fr := mkOframe (o_bal s) (o_deb s) (length (o_cache s)) (o_static s) false in
          let b := if moves && (0 <? v) then bal_add (bal_add (o_bal s) from (- v)) to v else o_bal s in
          mkOstate b (o_deb s) (o_cache s) (fr :: o_stack s)
                   (o_static s || match k with KStatic => true | _ => false end) 0
  | EEmit id sender conv direct v fee gas =>
      (* direct = evm.Call on a non-internal address -> CreateETX: [gas] is the call gas, ETXGas is
         taken from it first and a zero total is not refused; otherwise opConvert / opETX: [gas] is
         the ETX gas limit popped from the stack *)
      if negb (Nat.eqb (o_skip s) 0) || top_failed s then s
      else if o_static s then fail_top s                  (* writes: true *)
      else if conv && ((v <? min_quai_conversion_amount) || negb (conv_allowed ptn)) then s
      else if (if direct then (gas <? etx_gas) || (gas - etx_gas <? tx_gas) else gas <? tx_gas) then s
      else if (negb direct && (v + fee =? 0)) || (bal_get (o_bal s) sender <? v + fee) then s
      else mkOstate (bal_add (o_bal s) sender (- (v + fee))) (o_deb s + (v + fee))
                    (o_cache s ++ [mkErec id sender v fee]) (o_stack s) (o_static s) 0
  | ELeave ok =>
      match o_skip s with
      | S n => mkOstate (o_bal s) (o_deb s) (o_cache s) (o_stack s) (o_static s) n
      | O =>
          match o_stack s with
          | [] => s
          | f :: r =>
              if ok && negb (f_failed f)
              then mkOstate (o_bal s) (o_deb s) (o_cache s) r (f_static f) 0
              else mkOstate (f_bal f) (f_deb f)
                            (if snap_cache then firstn (f_len f) (o_cache s) else o_cache s)
                            r (f_static f) 0
          end
      end
  end.
Definition ostart (b : bals) : ostate := mkOstate b 0 [] [] false 0.
Definition orun (snap_cache : bool) (ptn : Z) (b : bals) (tr : list event) : ostate :=
  fold_left (ostep snap_cache ptn) tr (ostart b).

(* ---------- destination side, Qi->Quai: core/state_processor.go RedeemLockedQuai ----------
   Every zone block h looks back at the blocks h - d for the four depths d of
   params.LockupByteToBlockDepth and pays, among others, every conversion ETX to the Quai ledger
   found there -- guarded by blockDepth == params.ConversionLockPeriod.  Coinbase ETXs (property
   C13) are not modelled: [q_conv] is false for them.  A recipient that does not exist yet pays the
   account creation fee out of the credit, or gets nothing when the credit is smaller. *)
Record qetx := mkQetx { q_id : N; q_conv : bool; q_to : N; q_value : Z }.
Definition qchain := list (Z * list qetx).
Fixpoint block_at (c : qchain) (n : Z) : list qetx :=
  match c with [] => [] | (m, l) :: c' => if n =? m then l else block_at c' n end.

Definition eligible_at (c : qchain) (h d : Z) : list qetx :=
  if h <=? d then []
  else filter (fun e => q_conv e && (d =? conversion_lock_period)) (block_at c (h - d)).
Definition eligible (depths : list Z) (c : qchain) (h : Z) : list qetx :=
  flat_map (eligible_at c h) depths.

Fixpoint n_mem (a : N) (l : list N) : bool :=
  match l with [] => false | b :: l' => N.eqb a b || n_mem a l' end.
(* one credit: (existing accounts, credits so far as (etx id, recipient, amount)) *)
Definition pay_one (fee : Z) (st : list N * list (N * N * Z)) (e : qetx) : list N * list (N * N * Z) :=
  let '(ex, out) := st in
  if n_mem (q_to e) ex then (ex, out ++ [(q_id e, q_to e, q_value e)])
  else if q_value e <? fee then (ex, out)
  else (q_to e :: ex, out ++ [(q_id e, q_to e, q_value e - fee)]).
Definition redeem_at (depths : list Z) (fee : Z) (c : qchain) (ex : list N) (h : Z)
  : list N * list (N * N * Z) :=
  fold_left (pay_one fee) (eligible depths c h) (ex, []).
(* RedeemLockedQuai run at the given heights, in that order, on one state *)
Fixpoint redeem_scan (depths : list Z) (fee : Z) (c : qchain) (ex : list N) (hs : list Z)
  : list (list (N * N * Z)) :=
  match hs with
  | [] => []
  | h :: hs' => let '(ex', out) := redeem_at depths fee c ex h in out :: redeem_scan depths fee c ex' hs'
  end.

(* ---------- the exchange-rate controller (extension round) ----------
   consensus/misc/rewards.go CalculateKQuai and core/exchange_controller.go
   CalculateBetaFromMiningChoiceAndConversions, exact integer arithmetic, branch by branch.
   common.LogBig (mathutil.BinaryLog) is NOT modelled: LogBig(minerDifficulty) [d2] and
   LogBig(bestDiff) [logbest] are inputs computed by the harness with the real function.
   None = big.Int division by zero (Go panics). *)

(* CalculateKQuai(parentExchangeRate k, minerDifficulty d, blockNumber bn, xbStar xb) *)
Definition calc_kquai (k d d2 bn xb : Z) : option Z :=
  let d1 := two64 * d in
  let denum := d1 * one_over_alpha in
  let adder := k * denum in
  let num0 := xb * d2 - d1 in
  let inc := 0 <? num0 in                                   (* kQuaiIncrease *)
  let num1 := if (kquai_change_block <? bn) && inc
              then (if bn <? kawpow_fork_block then num0 / 3 else num0)
              else num0 in
  if denum =? 0 then None else Some (Z.quot (num1 * k + adder) denum).

(* the range loop over params.KQuaiChangeTable: first entry that returns wins *)
Fixpoint change_table_scan (tab : list (Z * Z)) (bn parent : Z) : option Z :=
  match tab with
  | [] => None
  | (b, pct) :: rest =>
      if bn =? b then
        (if bn =? kquai_change_block then Some exchange_rate0 else Some (parent * pct / 100))
      else if (b <? bn) && (bn <? b + kquai_change_hold_interval) then Some parent
      else change_table_scan rest bn parent
  end.

(* the three fork regimes in front of the controller proper: Some r = the function returns r *)
Definition fork_override (bn parent : Z) : option Z :=
  if bn <? kawpow_fork_block then change_table_scan kquai_change_table bn parent
  else if (kawpow_fork_block <=? bn) && (bn <? sha_equivalent_fork_block) then
    if bn =? kquai_reset_after_kawpow_fork_block then Some exchange_rate_reset_after_kawpow
    else if (kquai_reset_after_kawpow_fork_block <? bn)
            && (bn <? kquai_reset_after_kawpow_fork_block + exchange_rate_hold_interval)
         then Some parent else None
  else
    if bn =? sha_equivalent_fork_block then Some exchange_rate_after_sha_fork
    else if (sha_equivalent_fork_block <? bn)
            && (bn <? sha_equivalent_fork_block + exchange_rate_hold_interval_after_sha)
         then Some parent else None.

(* the token choice window as runs (Diff, how many consecutive entries carry it); the code sums
   the TokenChoiceSetSize entries one by one *)
Definition total_diff (runs : list (Z * Z)) : Z :=
  fold_right (fun p acc => fst p * snd p + acc) 0 runs.

Record ctl_in := mkCtl {
  c_bn : Z;                  (* NumberU64(PRIME_CTX) of the block handed to the controller (Append: the parent) *)
  c_runs : list (Z * Z);     (* Diff column of the updated token choice set *)
  c_logbest : Z;             (* common.LogBig(bestDiff) *)
  c_md : Z;                  (* MinerDifficulty() of that block *)
  c_logmd : Z                (* common.LogBig(MinerDifficulty()) *)
}.

(* CalculateBetaFromMiningChoiceAndConversions(_, block, parentExchangeRate, newTokenChoiceSet) *)
Definition beta_rate (parent : Z) (c : ctl_in) : option Z :=
  if c_bn c <? controller_kick_in_block + token_choice_set_size then Some exchange_rate0
  else
    match fork_override (c_bn c) parent with
    | Some r => Some r
    | None =>
        let best := total_diff (c_runs c) / token_choice_set_size in
        if c_logbest c =? 0 then None
        else calc_kquai parent (c_md c) (c_logmd c) (c_bn c) (best * two64 / c_logbest c)
    end.

(* a rate trajectory: the controller applied block after block, each time to the rate it produced *)
Definition ctl_step (k : option Z) (c : ctl_in) : option Z :=
  match k with None => None | Some k => beta_rate k c end.
Definition rate_trajectory (k0 : Z) (cs : list ctl_in) : option Z := fold_left ctl_step cs (Some k0).

(* Slice.Append, PRIME: the new rate is the stored one while the update is paused, otherwise the
   controller's (on the parent block, from the rate in this block's header); then the conversion
   block reprices with it *)
Definition prime_block (disc : Z -> Z -> Z) (h : hdr) (stored : option Z) (c : ctl_in) (etxs : list etx)
  : option (Z * result) :=
  match (match stored with Some k => Some k | None => beta_rate (h_k h) c end) with
  | None => None
  | Some knew => match reprice disc h knew etxs with None => None | Some r => Some (knew, r) end
  end.

(* ---------- the whole pipeline after Prime: what one repriced ETX becomes in its zone ----------
   core/state_processor.go Process: Quai->Qi conversion branch (kick-in guard, TxGas guard, mint),
   ConversionRevert branches (Quai refund = AddBalance of the value; Qi refund = trimmed split
   metered by the ETX gas), Qi->Quai conversion (recorded, paid by RedeemLockedQuai = [pay_one]). *)
Inductive outcome :=
| ONone                      (* not a conversion: ordinary ETX processing *)
| OCreditQi (a : Z)          (* locked Qi outputs minted for the recipient (sum of denominations) *)
| OCreditQuai (a : Z)        (* Quai credited to the recipient at inclusion + ConversionLockPeriod *)
| ORefundQuai (a : Z)        (* Quai returned to the sender *)
| ORefundQi (a : Z).         (* Qi outputs returned to the refund address *)

Definition minted_total (x : Z * Z * Z * bool) : Z := fst (fst (fst x)).

(* destination of a converted Quai->Qi ETX: (ptn, ETX gas, value) -> Qi minted *)
Definition settle_qi (ptn gas v : Z) : Z :=
  if ptn <? controller_kick_in_block then 0
  else if gas <? tx_gas then 0
  else minted_total (mint v (gas - tx_gas)).

Definition settle_quai (fee : Z) (rcpt_exists : bool) (v : Z) : Z :=
  if rcpt_exists then v else if v <? fee then 0 else v - fee.

Definition settle (ptn gas fee : Z) (rcpt_exists : bool) (o : out) : outcome :=
  match o_kind o with
  | KOther => ONone
  | KConverted =>
      if e_toqi (o_e o) then OCreditQi (settle_qi ptn gas (o_value o))
      else OCreditQuai (settle_quai fee rcpt_exists (o_value o))
  | KReverted =>
      if e_toqi (o_e o) then ORefundQuai (o_value o)
      else ORefundQi (minted_total (refund_qi (o_value o) gas))
  end.

(* ---------- correspondence cases ---------- *)

Definition kind_code (k : kind) : N :=
  match k with KOther => 0%N | KConverted => 1%N | KReverted => 2%N end.

Fixpoint lookup3 (t : list (Z * Z * Z)) (v m : Z) : Z :=
  match t with
  | [] => -1
  | (v', m', r) :: t' => if (v =? v') && (m =? m') then r else lookup3 t' v m
  end.

Inductive case_body :=
| CRate (k logdiff diff kqi x : Z) (o_quai_reward o_qi_reward o_qi_to_quai o_quai_to_qi : Z)
| CDisc (v m obs : Z)
| CDenoms (v : Z) (obs : list (Z * Z))
| CMint (v gas : Z) (o_total o_outputs o_gas : Z) (o_ok : bool)
| CRefund (v gas : Z) (o_total o_outputs o_gas : Z)
| CReprice (h : hdr) (knew : Z) (table : list (Z * Z * Z)) (etxs : list etx)
           (obs : option (list (N * N * Z) * Z * Z))
| COrigin (ptn : Z) (b : bals) (tr : list event) (obs_cache : list (N * N * Z)) (obs_bals : list (N * Z))
| CRedeem (fee : Z) (ex : list N) (c : qchain) (hs : list Z) (obs : list (list (N * Z)))
| CKQuai (k d d2 bn xb : Z) (obs : option Z)
| CBeta (parent : Z) (c : ctl_in) (obs : option Z)
| CSettleQi (ptn gas v : Z) (o_total : Z).
Definition case := (N * case_body)%type.

Fixpoint zz_eqb (a b : list (Z * Z)) : bool :=
  match a, b with
  | [], [] => true
  | (x, y) :: a', (x', y') :: b' => (x =? x') && (y =? y') && zz_eqb a' b'
  | _, _ => false
  end.
Fixpoint nnz_eqb (a b : list (N * N * Z)) : bool :=
  match a, b with
  | [], [] => true
  | (x, y, z) :: a', (x', y', z') :: b' => N.eqb x x' && N.eqb y y' && (z =? z') && nnz_eqb a' b'
  | _, _ => false
  end.

Fixpoint nz_eqb (a b : list (N * Z)) : bool :=
  match a, b with
  | [], [] => true
  | (x, y) :: a', (x', y') :: b' => N.eqb x x' && (y =? y') && nz_eqb a' b'
  | _, _ => false
  end.
Fixpoint lnz_eqb (a b : list (list (N * Z))) : bool :=
  match a, b with
  | [], [] => true
  | x :: a', y :: b' => nz_eqb x y && lnz_eqb a' b'
  | _, _ => false
  end.

Definition oz_eqb (a b : option Z) : bool :=
  match a, b with None, None => true | Some x, Some y => x =? y | _, _ => false end.

Definition project (r : result) : list (N * N * Z) * Z * Z :=
  (map (fun o => (e_id (o_e o), kind_code (o_kind o), o_value o)) (r_out r), r_actual r, r_realized r).

Definition case_ok (c : case) : bool :=
  match snd c with
  | CRate k logdiff diff kqi x oa ob o1 o2 =>
      let a := quai_reward k logdiff in
      let b := qi_reward diff kqi in
      (a =? oa) && (b =? ob) && (qi_to_quai a b x =? o1) && (quai_to_qi a b x =? o2)
  | CDisc v m obs =>
      (0 <=? obs) && (obs <=? v) && (Z.abs (obs - disc_ideal v m) <=? disc_tolerance v)
  | CDenoms v obs => zz_eqb (find_min_denominations v) obs
  | CMint v gas ot oo og ok =>
      let '(t, i, g, s) := mint v gas in (t =? ot) && (i =? oo) && (g =? og) && Bool.eqb s ok
  | CRefund v gas ot oo og =>
      let '(t, i, g, _) := refund_qi v gas in (t =? ot) && (i =? oo) && (g =? og)
  | CReprice h knew table etxs obs =>
      match reprice (lookup3 table) h knew etxs, obs with
      | None, None => true
      | Some r, Some (l, a, rl) =>
          let '(l', a', rl') := project r in nnz_eqb l' l && (a' =? a) && (rl' =? rl)
      | _, _ => false
      end
  | COrigin ptn b tr oc ob =>
      let s := orun true ptn b tr in
      nnz_eqb (map (fun e => (x_id e, x_sender e, x_value e)) (o_cache s)) oc
      && nz_eqb (map (fun p => (fst p, bal_get (o_bal s) (fst p))) ob) ob
      && Nat.eqb (length (o_stack s)) 0 && Nat.eqb (o_skip s) 0
  | CRedeem fee ex c hs obs =>
      lnz_eqb (map (map (fun t => (snd (fst t), snd t))) (redeem_scan lockup_depths fee c ex hs)) obs
  | CKQuai k d d2 bn xb obs => oz_eqb (calc_kquai k d d2 bn xb) obs
  | CBeta parent c obs => oz_eqb (beta_rate parent c) obs
  | CSettleQi ptn gas v ot => settle_qi ptn gas v =? ot
  end.
Definition mismatches (cs : list case) : list N :=
  map fst (filter (fun c => negb (case_ok c)) cs).

(* C20 -- executable model of the Quai<->Qi conversion arithmetic.
   Definitions only; proofs are in Proofs/C20.v, property theorems in Props/C20.v.

   Mirrors, statement by statement:
     consensus/misc/rewards.go   CalculateQuaiReward / CalculateQiReward (after the difficulty
                                 normalisation and common.LogBig, which are inputs), QiToQuai,
                                 QuaiToQi, ComputeConversionAmountInQuai, FindMinDenominations,
                                 ApplyCubicDiscount (ideal rational version [disc_ideal]; the
                                 big.Float result actually used by the loop is an oracle [disc])
     core/slice.go               Slice.Append, PRIME branch: the inline conversion block from
                                 `sort.SliceStable(newInboundEtxs, ...` to the "Conversion Stats"
                                 log (three passes)  = [reprice]
     core/state_processor.go     Process, Quai->Qi conversion branch: the mint loop = [mint]
   Exact unbounded Z arithmetic; the only wrap-around that exists in the code
   (count.Uint64() in FindMinDenominations) is written mod 2^64 explicitly. *)
From Coq Require Import List ZArith NArith Bool.
From GQ Require Import Generated.C20Params.
Import ListNotations.
Local Open Scope Z_scope.

Definition two64 : Z := 18446744073709551616.

(* ---------- rewards.go: unit conversion ---------- *)

(* CalculateQuaiReward: reward := exchangeRate*logDiff Quo 2^64; if reward == 0 then 1 *)
Definition quai_reward (k logdiff : Z) : Z :=
  let r := Z.quot (k * logdiff) two64 in if r =? 0 then 1 else r.
(* CalculateQiReward: difficulty Quo OneOverKqi(number); if 0 then 1 *)
Definition qi_reward (diff kqi : Z) : Z :=
  let r := Z.quot diff kqi in if r =? 0 then 1 else r.
(* QiToQuai: quaiReward*qiAmt Quo qiReward ; QuaiToQi: qiReward*quaiAmt Quo quaiReward *)
Definition qi_to_quai (a b x : Z) : Z := Z.quot (a * x) b.
Definition quai_to_qi (a b x : Z) : Z := Z.quot (b * x) a.

(* ---------- rewards.go: FindMinDenominations ---------- *)

(* (index, value) from MaxDenomination down to 0 *)
Definition dens_desc : list (Z * Z) :=
  rev (combine (map Z.of_nat (seq 0 (length denominations))) denominations).

(* result: (denomination index, count as stored = count.Uint64()) in descending index order *)
Fixpoint fmd_loop (dens : list (Z * Z)) (amount : Z) : list (Z * Z) :=
  match dens with
  | [] => []
  | (i, d) :: rest =>
      let count := amount / d in
      if count =? 0 then fmd_loop rest amount
      else
        let newAmount := amount - count * d in
        if 0 <? newAmount then (i, count mod two64) :: fmd_loop rest newAmount
        else if newAmount =? 0 then [(i, count mod two64)]
        else []
  end.
Definition find_min_denominations (v : Z) : list (Z * Z) := fmd_loop dens_desc v.

Definition den_value (i : Z) : Z := nth (Z.to_nat i) denominations 0.
Definition denoms_sum (l : list (Z * Z)) : Z :=
  fold_right (fun p acc => snd p * den_value (fst p) + acc) 0 l.
Definition denoms_count (l : list (Z * Z)) : Z := fold_right (fun p acc => snd p + acc) 0 l.

(* ---------- state_processor.go Process, Quai->Qi conversion: mint loop ----------
   for each denomination (descending) with a non-zero count, for j < count:
     if txGas < CallValueTransferGas || outputIndex >= MaxOutputIndex { success=false; break }
   (the break leaves only the inner loop; the next denomination fails the same test
   immediately because gas never grows and the index never shrinks).  The inner loop is
   written in closed form: it succeeds min(count, gas/G, MaxOutputIndex-idx) times.
   Returns (total minted, outputs created, gas left, success). *)
Definition mint_one (count d : Z) (st : Z * Z * Z * bool) : Z * Z * Z * bool :=
  let '(total, idx, gas, ok) := st in
  (* number of iterations of the inner loop that pass the guard *)
  let k := Z.min count (Z.min (gas / call_value_transfer_gas) (Z.max 0 (max_output_index - idx))) in
  (total + k * d, idx + k, gas - k * call_value_transfer_gas, ok && (k =? count)).
Definition mint_denoms (l : list (Z * Z)) (gas : Z) : Z * Z * Z * bool :=
  fold_left (fun st p => if snd p =? 0 then st else mint_one (snd p) (den_value (fst p)) st)
            l (0, 0, gas, true).
(* value -> (minted total, outputs, gas left, success), gas = etx gas after the TxGas deduction *)
Definition mint (v gas : Z) : Z * Z * Z * bool := mint_denoms (find_min_denominations v) gas.

(* state_processor.go Process, ConversionRevert branch refunding Qi: same loop, but only the
   denominations above MaxTrimDenomination are minted, the gas is the whole ETX gas and there is no
   success flag.  [dust v] is what the trim rule drops. *)
Definition above_trim (p : Z * Z) : bool := max_trim_denomination <? fst p.
Definition refund_qi (v gas : Z) : Z * Z * Z * bool :=
  mint_denoms (filter above_trim (find_min_denominations v)) gas.
Definition dust (v : Z) : Z :=
  denoms_sum (filter (fun p => negb (above_trim p)) (find_min_denominations v)).

(* ---------- rewards.go: ApplyCubicDiscount, ideal (rational, floored) ---------- *)
Definition disc_ideal (v m : Z) : Z :=
  if v <=? m then v * (min_cubic_div - min_cubic_bp) / min_cubic_div
  else if 10 * m <? v then 0
  else Z.max 0 (v * (999 * (m * m * m) - v * v * v) / (1000 * (m * m * m))).
(* admitted distance between the floor of the big.Float result and the ideal value *)
Definition disc_tolerance (v : Z) : Z := v / 281474976710656 + 2.

(* ---------- slice.go: the conversion block ---------- *)

Record hdr := mkHdr {
  h_number : Z;      (* header.NumberU64(PRIME_CTX) *)
  h_k : Z;           (* header.ExchangeRate() *)
  h_logdiff : Z;     (* LogBig of the (fork-normalised) miner difficulty, minus the post-fork divisor log *)
  h_diff : Z;        (* (fork-normalised) miner difficulty *)
  h_kqi : Z;         (* params.OneOverKqi(zone number) *)
  h_kqd : Z;         (* header.KQuaiDiscount() *)
  h_flow : Z;        (* block.ConversionFlowAmount() *)
  h_inc : bool       (* exchangeRateIncreasing *)
}.

Record etx := mkEtx {
  e_id : N;
  e_conv : bool;          (* EtxType() == ConversionType *)
  e_toqi : bool;          (* To().IsInQiLedgerScope(); otherwise Quai ledger *)
  e_value : Z;
  e_slip : option Z       (* Some (big-endian Data()[:2]) when len(Data()) > 1 *)
}.

Definition slip_of (e : etx) : Z :=
  match e_slip e with
  | None => max_slip
  | Some s =>
      let s1 := if max_slip <? s then max_slip else s in
      if s1 <? min_slip then min_slip else s1
  end.
(* sort key of the SliceStable comparator: conversions by slip, everything else 0; descending *)
Definition sort_key (e : etx) : Z := if e_conv e then slip_of e else 0.
Fixpoint insert_desc (x : etx) (l : list etx) : list etx :=
  match l with
  | [] => [x]
  | y :: l' => if sort_key x <? sort_key y then y :: insert_desc x l' else x :: l
  end.
Definition sort_desc (l : list etx) : list etx := fold_right insert_desc [] l.

Definition ra (h : hdr) : Z := quai_reward (h_k h) (h_logdiff h).
Definition rb (h : hdr) : Z := qi_reward (h_diff h) (h_kqi h).
Definition ra_new (h : hdr) (knew : Z) : Z := quai_reward knew (h_logdiff h).

Definition postfork (h : hdr) : bool := conversion_slip_change_block <? h_number h.
Definition kq_of (h : hdr) (dint : Z) : Z := dint * (kquai_mult - h_kqd h) / kquai_mult.
Definition kq_applies (h : hdr) (toqi : bool) : bool := if toqi then h_inc h else negb (h_inc h).
Definition apply_kq (h : hdr) (toqi : bool) (dint kq value : Z) : Z :=
  if kq_applies h toqi && negb (dint =? 0) then value * kq / dint else value.
Definition floor10 (orig value : Z) : Z :=
  let ten := orig * 10 / 100 in if value <? ten then ten else value.
Definition after_slip (e : etx) : Z := e_value e * (slip_range - slip_of e) / slip_range.

Inductive kind := KOther | KConverted | KReverted.

Record st1 := mkSt1 { s_e : etx; s_orig : option Z; s_val : Z; s_p1 : Z }.
Record st2 := mkSt2 { t_s : st1; t_val : Z; t_before : option Z; t_real : Z }.
Record out := mkOut {
  o_e : etx;         (* the inbound ETX this entry came from *)
  o_kind : kind;     (* final EtxType: Conversion / ConversionRevert / untouched *)
  o_value : Z;       (* final Value() *)
  o_p1 : Z;          (* ghost: value computed by pass one (origin units) *)
  o_before : Z       (* ghost: etxValuesBeforeConversion[i] (origin units, after all discounts) *)
}.
Record result := mkRes { r_out : list out; r_actual : Z; r_realized : Z }.

Fixpoint mapM {A B : Type} (f : A -> option B) (l : list A) : option (list B) :=
  match l with
  | [] => Some []
  | x :: l' =>
      match f x with
      | None => None
      | Some y => match mapM f l' with None => None | Some r => Some (y :: r) end
      end
  end.

Section Reprice.
  (* floor of misc.ApplyCubicDiscount(valueInt, meanInt) *)
  Variable disc : Z -> Z -> Z.

  (* before ConversionSlipChangeBlock the arguments are (flow, amount), after it (amount, flow) *)
  Definition disc_at (h : hdr) (amt : Z) : Z :=
    if postfork h then disc amt (h_flow h) else disc (h_flow h) amt.

  (* first pass, one ETX; None = big.Int.Div by zero (Go panics) *)
  Definition p1_step (h : hdr) (acc : Z) (e : etx) : option (Z * st1) :=
    if e_conv e && (0 <? e_value e) then
      let v := e_value e in
      let temp := if e_toqi e then acc + v else acc + qi_to_quai (ra h) (rb h) v in
      if temp =? 0 then None
      else
        let dint := disc_at h temp in
        let kq := kq_of h dint in
        let value := floor10 v (apply_kq h (e_toqi e) dint kq (v * dint / temp)) in
        if value <? after_slip e then Some (acc, mkSt1 e (Some v) 0 value)
        else Some (temp, mkSt1 e (Some v) v value)
    else Some (acc, mkSt1 e None (e_value e) 0).

  Fixpoint pass1 (h : hdr) (acc : Z) (l : list etx) : option (list st1) :=
    match l with
    | [] => Some []
    | e :: l' =>
        match p1_step h acc e with
        | None => None
        | Some (acc', s) =>
            match pass1 h acc' l' with None => None | Some r => Some (s :: r) end
        end
    end.

  (* misc.ComputeConversionAmountInQuai on the ETXs as they are after pass one *)
  Definition amount_of (h : hdr) (s : st1) : Z :=
    if e_conv (s_e s) && negb (s_val s =? 0) then
      (if e_toqi (s_e s) then s_val s else qi_to_quai (ra h) (rb h) (s_val s))
    else 0.
  Definition actual_amount (h : hdr) (l : list st1) : Z :=
    fold_right (fun s acc => amount_of h s + acc) 0 l.

  (* second pass, one ETX *)
  Definition p2_entry (h : hdr) (actual d2 : Z) (s : st1) : option st2 :=
    let e := s_e s in
    if e_conv e && (0 <? s_val s) then
      match s_orig s with
      | None => None
      | Some orig =>
          if actual =? 0 then None
          else
            let kq := kq_of h d2 in
            let before := floor10 orig (apply_kq h (e_toqi e) d2 kq (orig * d2 / actual)) in
            if e_toqi e then Some (mkSt2 s (quai_to_qi (ra h) (rb h) before) (Some before) before)
            else let q := qi_to_quai (ra h) (rb h) before in Some (mkSt2 s q (Some before) q)
      end
    else Some (mkSt2 s (s_val s) None 0).

  (* third pass, one ETX; None = SetValue(nil) / Set(nil) (Go panics) *)
  Definition p3_entry (h : hdr) (knew : Z) (t : st2) : option out :=
    let s := t_s t in
    let e := s_e s in
    if e_conv e then
      if t_val t <? 0 then Some (mkOut e KConverted 0 (s_p1 s) 0)
      else if t_val t =? 0 then
        match s_orig s with
        | None => None
        | Some o => Some (mkOut e KReverted o (s_p1 s) 0)
        end
      else
        match t_before t with
        | None => None
        | Some bf =>
            Some (mkOut e KConverted
                        (if e_toqi e then quai_to_qi (ra_new h knew) (rb h) bf
                         else qi_to_quai (ra_new h knew) (rb h) bf)
                        (s_p1 s) bf)
        end
    else Some (mkOut e KOther (t_val t) 0 0).

  Definition reprice (h : hdr) (knew : Z) (etxs : list etx) : option result :=
    match pass1 h 0 (sort_desc etxs) with
    | None => None
    | Some l1 =>
        let actual := actual_amount h l1 in
        let d2 := disc_at h actual in
        match mapM (p2_entry h actual d2) l1 with
        | None => None
        | Some l2 =>
            match mapM (p3_entry h knew) l2 with
            | None => None
            | Some l3 => Some (mkRes l3 actual (fold_right (fun t acc => t_real t + acc) 0 l2))
            end
        end
    end.
End Reprice.

(* ---------- correspondence cases ---------- *)

Definition kind_code (k : kind) : N :=
  match k with KOther => 0%N | KConverted => 1%N | KReverted => 2%N end.

Fixpoint lookup3 (t : list (Z * Z * Z)) (v m : Z) : Z :=
  match t with
  | [] => -1
  | (v', m', r) :: t' => if (v =? v') && (m =? m') then r else lookup3 t' v m
  end.

Inductive case_body :=
| CRate (k logdiff diff kqi x : Z) (o_quai_reward o_qi_reward o_qi_to_quai o_quai_to_qi : Z)
| CDisc (v m obs : Z)
| CDenoms (v : Z) (obs : list (Z * Z))
| CMint (v gas : Z) (o_total o_outputs o_gas : Z) (o_ok : bool)
| CRefund (v gas : Z) (o_total o_outputs o_gas : Z)
| CReprice (h : hdr) (knew : Z) (table : list (Z * Z * Z)) (etxs : list etx)
           (obs : option (list (N * N * Z) * Z * Z)).
Definition case := (N * case_body)%type.

Fixpoint zz_eqb (a b : list (Z * Z)) : bool :=
  match a, b with
  | [], [] => true
  | (x, y) :: a', (x', y') :: b' => (x =? x') && (y =? y') && zz_eqb a' b'
  | _, _ => false
  end.
Fixpoint nnz_eqb (a b : list (N * N * Z)) : bool :=
  match a, b with
  | [], [] => true
  | (x, y, z) :: a', (x', y', z') :: b' => N.eqb x x' && N.eqb y y' && (z =? z') && nnz_eqb a' b'
  | _, _ => false
  end.

Definition project (r : result) : list (N * N * Z) * Z * Z :=
  (map (fun o => (e_id (o_e o), kind_code (o_kind o), o_value o)) (r_out r), r_actual r, r_realized r).

Definition case_ok (c : case) : bool :=
  match snd c with
  | CRate k logdiff diff kqi x oa ob o1 o2 =>
      let a := quai_reward k logdiff in
      let b := qi_reward diff kqi in
      (a =? oa) && (b =? ob) && (qi_to_quai a b x =? o1) && (quai_to_qi a b x =? o2)
  | CDisc v m obs =>
      (0 <=? obs) && (obs <=? v) && (Z.abs (obs - disc_ideal v m) <=? disc_tolerance v)
  | CDenoms v obs => zz_eqb (find_min_denominations v) obs
  | CMint v gas ot oo og ok =>
      let '(t, i, g, s) := mint v gas in (t =? ot) && (i =? oo) && (g =? og) && Bool.eqb s ok
  | CRefund v gas ot oo og =>
      let '(t, i, g, _) := refund_qi v gas in (t =? ot) && (i =? oo) && (g =? og)
  | CReprice h knew table etxs obs =>
      match reprice (lookup3 table) h knew etxs, obs with
      | None, None => true
      | Some r, Some (l, a, rl) =>
          let '(l', a', rl') := project r in nnz_eqb l' l && (a' =? a) && (rl' =? rl)
      | _, _ => false
      end
  end.
Definition mismatches (cs : list case) : list N :=
  map fst (filter (fun c => negb (case_ok c)) cs).

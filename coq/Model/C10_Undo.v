(* C10 — the per-block undo RECORDS as stored objects (extension round).
   core/rawdb/accessors_chain.go:WriteDeletedCoinbaseLockups stores the list handed over by
   StateProcessor.Process AS IS (one entry per modification, in modification order), and
   core/types/utxo.go:SpentUtxoEntry.ProtoEncode stores the COMPLETE previous output
   (denomination, address, lock).  This file models the record writers as list/value transformers
   so that "what may a writer do to the record without changing the rollback" becomes a theorem:
   - [dedup_first]  keeps, per key, the entry of the FIRST modification (harmless, Proofs/C10_Undo.v);
   - [dedup_last]   keeps the position of the first entry and the value of the LAST one
                    (the 'one entry per key is enough' shape: NOT harmless);
   - [map_spent f]  stores a transformed image of every spent/trimmed output (a lossy encoder).
   Definitions only; proofs are in Proofs/C10_Undo.v. *)
From Coq Require Import List NArith Bool.
From GQ Require Import Lib.Key Lib.SMap Model.C10.
Import ListNotations.
Local Open Scope N_scope.

Section Undo.
Context {L : Type}.

(* the block effect with another 'deleted coinbase lockups' record *)
Definition with_lk_deleted (e : effect L) (l : list (key * L)) : effect L :=
  mkEff (e_num e) (e_hash e) (e_parent e) (e_created e) (e_created_keys e) (e_spent e) (e_trimmed e)
        (e_lk_writes e) (e_lk_created e) l.

(* the block effect with other 'spent UTXOs' / 'trimmed UTXOs' records *)
Definition with_spent (e : effect L) (sp tr : list (key * val)) : effect L :=
  mkEff (e_num e) (e_hash e) (e_parent e) (e_created e) (e_created_keys e) sp tr
        (e_lk_writes e) (e_lk_created e) (e_lk_deleted e).

(* a writer walking the list with a 'position of the key' map, as a fold over the records *)
Definition dedup_first_step (acc : list (key * L)) (kv : key * L) : list (key * L) :=
  if kmem (fst kv) (map fst acc) then acc else acc ++ [kv].
Definition dedup_first (l : list (key * L)) : list (key * L) := fold_left dedup_first_step l [].

Fixpoint set_val (k : key) (v : L) (l : list (key * L)) : list (key * L) :=
  match l with
  | [] => []
  | (k', v') :: l' => if keqb k k' then (k', v) :: l' else (k', v') :: set_val k v l'
  end.
Definition dedup_last_step (acc : list (key * L)) (kv : key * L) : list (key * L) :=
  if kmem (fst kv) (map fst acc) then set_val (fst kv) (snd kv) acc else acc ++ [kv].
Definition dedup_last (l : list (key * L)) : list (key * L) := fold_left dedup_last_step l [].

(* a (possibly lossy) encoder of the previous image of spent / trimmed outputs *)
Definition map_vals (f : val -> val) (l : list (key * val)) : list (key * val) :=
  map (fun kv => (fst kv, f (snd kv))) l.
Definition map_spent (f : val -> val) (e : effect L) : effect L :=
  with_spent e (map_vals f (e_spent e)) (map_vals f (e_trimmed e)).

End Undo.

(* C05 -- executable model of the origin side of "sending value off-chain":
     core/vm/instructions.go  opETX, opConvert, opCall, opCallCode, opDelegateCall, opStaticCall, opCreate, opCreate2
     core/vm/evm.go           EVM.Call / CallCode / DelegateCall / StaticCall / Create / Create2 / create
                              (snapshot / revert of every frame kind), EVM.CreateETX
     core/vm/interpreter.go   Run (stack validation, write protection, constant / dynamic gas, memory size)
   for the restricted instruction set the C05 harness programs are made of
   (PUSH32, POP, MSTORE, ETX, CONVERT, CALL, CALLCODE, DELEGATECALL, STATICCALL, CREATE, CREATE2,
    STOP, RETURN, REVERT, 0xfe).
   The model mirrors the branch order of the Go code INCLUDING its defects
   (debit before the post-debit checks, missing status word).  Definitions only;
   proofs are in Proofs/C05.v.  Constants and jump-table rows come from
   Generated/C05Params.v (regenerated from /repo at every check). *)
From Coq Require Import List NArith Bool String.
From GQ Require Import Generated.C05Params Lib.C05_Slice.
Import ListNotations.
Local Open Scope N_scope.

Definition W64 : N := 2 ^ 64.
Definition W160 : N := 2 ^ 160.
Definition W256 : N := 2 ^ 256.
Definition MaxUint16 : N := 65535.

(* ---------- addresses (common/address.go, common/types.go) ----------
   an address is a 160-bit number, byte 0 = most significant byte.
   IsInChainScope(b, loc) = (b[0] == loc.BytePrefix()) for 20-byte b;
   IsInQiLedgerScope = b[1] > 127; InternalAndQuaiAddress succeeds iff in scope and not Qi. *)
Definition byte0 (a : N) : N := a / 2 ^ 152.
Definition byte1 (a : N) : N := (a / 2 ^ 144) mod 256.
Definition in_scope (pfx a : N) : bool := byte0 a =? pfx.
Definition is_qi (a : N) : bool := 127 <? byte1 a.
Definition internal_quai (pfx a : N) : bool := in_scope pfx a && negb (is_qi a).
(* precompiles 1..9 and the lockup contract 0x0A (after translation of byte 0): not modelled *)
Definition reserved (a : N) : bool := (a mod 2 ^ 152) <=? 10.

Record etx := mkEtx { e_to : N; e_sender : N; e_value : N; e_index : N; e_type : N; e_gas : N }.

(* the four message-call opcodes *)
Inductive ckind := CkCall | CkCallCode | CkDelegate | CkStatic.

Inductive instr :=
| IPush (w : N)          (* PUSH32 w *)
| IPop
| IMstore                (* MSTORE: pops offset, value *)
| IEtx (alok : bool)     (* ETX; alok = "rlp.DecodeBytes(access-list blob) succeeded" (oracle, see design/C05.md) *)
| IConvert
| ICallK (k : ckind)     (* CALL / CALLCODE / DELEGATECALL / STATICCALL *)
| ICreate (two : bool) (init : list instr) (naddr grind : N)
                         (* CREATE (two = false) / CREATE2.  Oracles (memory contents and Keccak are not modelled):
                            init  = the init code read from memory [offset, offset+size), decompiled;
                            naddr = the address crypto.CreateAddress / GrindContract / CreateAddress2 yields;
                            grind = gas GrindContract charges before it finds naddr (0 if no grinding). *)
| IStop
| IReturn                (* RETURN: pops offset, size; in a constructor the returned bytes are the code to deposit *)
| IRevert
| IInvalid.              (* 0xfe, undefined opcode *)

(* kind of a frame: a message call, or a constructor *)
Inductive fkind := FK (k : ckind) | FCreate (init : list instr) (naddr grind : N).

Record ctx := mkCtx {
  x_pfx : N;                       (* chainConfig.Location.BytePrefix() *)
  x_ptn : N;                       (* Context.PrimeTerminusNumber *)
  x_elig : N;                      (* Context.EtxEligibleSlices as little-endian number: bit (region*16+zone) *)
  x_price : N;                     (* TxContext.GasPrice *)
  x_codes : list (N * list instr)  (* contract accounts *)
}.

(* HeaderChain.CheckIfEtxIsEligible: bit (to.Region()*16 + to.Zone()) = bit (byte 0 of the address) *)
Definition eligible (c : ctx) (to : N) : bool := N.testbit (x_elig c) (byte0 to).

(* ---------- effect of one send operation ---------- *)
Record opres := mkRes {
  r_debit : N;               (* amount passed to StateDB.SubBalance (0: not called) *)
  r_push : option N;         (* status word pushed on the stack (None: nothing pushed) *)
  r_emit : option etx        (* ETX appended to EVM.ETXCache *)
}.
Definition fail0 : opres := mkRes 0 (Some 0) None.      (* temp.Clear(); push; return *)
Definition nopush : opres := mkRes 0 None None.         (* return nil, nil without a push *)

Definition post_fork (c : ctx) : bool := SelfDestructRefundForkBlock <=? x_ptn c.

(* opETX: the amount debited if control reaches StateDB.SubBalance (None: an earlier
   branch pushed 0).  Assumes the scope / sender checks passed. *)
Definition etx_total (c : ctx) (value gl tip cap : N) : option N :=
  if post_fork c then
    if W64 <=? gl then None                               (* etxGasLimit.CmpUint64(MaxUint64) == 1 *)
    else if gl <? TxGas then None
    else if W256 <=? tip + cap then None                  (* fee.AddOverflow *)
    else if W256 <=? (tip + cap) * gl then None           (* fee.MulOverflow *)
    else if W256 <=? value + (tip + cap) * gl then None   (* total.AddOverflow *)
    else Some (value + (tip + cap) * gl)
  else                                                    (* fee.Add; fee.Mul; total.Add  (mod 2^256) *)
    Some ((value + (((tip + cap) mod W256) * gl) mod W256) mod W256).

Definition etx_debit (c : ctx) (bal : N) (value gl tip cap : N) : option N :=
  match etx_total c value gl tip cap with
  | None => None
  | Some total =>
      if (total =? 0) || (bal <? total) then None         (* total.Sign()==0 || !CanTransfer *)
      else if negb (post_fork c) && ((W64 <=? gl) || (gl mod W64 <? TxGas)) then None
      else Some total
  end.

(* core/vm/instructions.go:opETX.  self = scope.Contract.self.Address(), bal = its balance,
   idx = len(evm.ETXCache), stack words in pop order (temp is overwritten). *)
Definition op_etx (c : ctx) (self bal idx : N) (alok : bool) (addr value gl tip cap asz : N) : opres :=
  let to := addr mod W160 in
  if in_scope (x_pfx c) to then fail0
  else if negb (internal_quai (x_pfx c) self) then nopush
  else match etx_debit c bal value gl tip cap with
  | None => fail0
  | Some total =>
      (* StateDB.SubBalance(internalSender, total) has happened *)
      if negb alok && negb (asz =? 0) then mkRes total (Some 0) None
      else if MaxUint16 <? idx then mkRes total (Some 0) None
      else if negb (eligible c to) then mkRes total None None
      else mkRes total (Some 1) (Some (mkEtx to self value idx EtxDefaultType (gl mod W64)))
  end.

Definition convert_total (c : ctx) (value gl : N) : option N :=
  if post_fork c then
    if W64 <=? gl then None
    else if gl <? TxGas then None
    else if W256 <=? x_price c then None                  (* uint256.FromBig overflow *)
    else if W256 <=? x_price c * gl then None
    else if W256 <=? value + x_price c * gl then None
    else Some (value + x_price c * gl)
  else Some ((value + ((x_price c mod W256) * gl) mod W256) mod W256).

Definition convert_debit (c : ctx) (bal : N) (value gl : N) : option N :=
  match convert_total c value gl with
  | None => None
  | Some total =>
      if (total =? 0) || (bal <? total) then None
      else if negb (post_fork c) && (gl mod W64 <? TxGas) then None
      else Some total
  end.

Definition in_hold (c : ctx) : bool :=
  ((KawPowForkBlock <=? x_ptn c) && (x_ptn c <? KawPowForkBlock + KQuaiChangeHoldInterval)) ||
  ((ShaEquivalentDifficultyForkBlock <=? x_ptn c) && (x_ptn c <? ShaEquivalentDifficultyForkBlock + KQuaiChangeHoldInterval)).

(* core/vm/instructions.go:opConvert *)
Definition op_convert (c : ctx) (self bal idx : N) (addr value gl : N) : opres :=
  let to := addr mod W160 in
  if negb (in_scope (x_pfx c) to) then fail0
  else if negb (is_qi to) then fail0
  else if value <? MinQuaiConversionAmount then fail0
  else if x_ptn c <? ControllerKickInBlock then fail0
  else if in_hold c then fail0
  else if negb (internal_quai (x_pfx c) self) then nopush
  else match convert_debit c bal value gl with
  | None => fail0
  | Some total =>
      (* StateDB.SubBalance(internalSender, total) has happened *)
      if MaxUint16 <? idx then mkRes total (Some 0) None
      else mkRes total (Some 1) (Some (mkEtx to self value idx EtxConversionType (gl mod W64)))
  end.

(* core/vm/evm.go:CreateETX.  Result: (err == nil, effect).  On error the caller (Call) reverts. *)
Definition create_etx (c : ctx) (from bal idx : N) (to gas value : N) : bool * opres :=
  let p := x_pfx c in
  if negb (is_qi to) && in_scope p to then (false, nopush)
  else
    let conversion := is_qi to && in_scope p to in
    if conversion && (x_ptn c <? ControllerKickInBlock) then (false, nopush)
    else if conversion && in_hold c then (false, nopush)
    else if is_qi to && negb (in_scope p to) then (false, nopush)
    else if conversion && (value <? MinQuaiConversionAmount) then (false, nopush)
    else if gas <? ETXGas then (false, nopush)
    else if negb (internal_quai p from) then (false, nopush)
    else if gas - ETXGas <? TxGas then (false, nopush)
    else if bal <? value then (false, nopush)                       (* !CanTransfer *)
    else (* SubBalance(fromInternal, value) *)
      if MaxUint16 <? idx then (false, mkRes value None None)
      else if negb conversion && negb (eligible c to) then (false, mkRes value None None)
      else (true, mkRes value None
              (Some (mkEtx to from value idx (if conversion then EtxConversionType else EtxDefaultType) (gas - ETXGas)))).

(* ---------- world state ---------- *)
Record world := mkW { w_bal : list (N * N); w_etxs : list etx }.

Fixpoint getb (a : N) (l : list (N * N)) : N :=
  match l with
  | [] => 0
  | (k, v) :: l' => if k =? a then v else getb a l'
  end.
Fixpoint setb (a v : N) (l : list (N * N)) : list (N * N) :=
  match l with
  | [] => [(a, v)]
  | (k, x) :: l' => if k =? a then (k, v) :: l' else (k, x) :: setb a v l'
  end.
(* StateDB.SubBalance / AddBalance return early on a zero amount *)
Definition subb (a v : N) (l : list (N * N)) := if v =? 0 then l else setb a (getb a l - v) l.
Definition addb (a v : N) (l : list (N * N)) := if v =? 0 then l else setb a (getb a l + v) l.

Fixpoint lenN_aux {A} (l : list A) (acc : N) : N :=
  match l with [] => acc | _ :: l' => lenN_aux l' (acc + 1) end.
Definition lenN {A} (l : list A) : N := lenN_aux l 0.

Definition opt_list {A} (o : option A) : list A := match o with Some x => [x] | None => [] end.

Definition apply_res (r : opres) (self : N) (w : world) : world :=
  mkW (subb self (r_debit r) (w_bal w)) (w_etxs w ++ opt_list (r_emit r)).

Fixpoint code_of (a : N) (l : list (N * list instr)) : option (list instr) :=
  match l with
  | [] => None
  | (k, cd) :: l' => if k =? a then Some cd else code_of a l'
  end.

(* domain assumption of the harness: an account without code exists iff its balance is non-zero *)
Definition exists_acct (c : ctx) (w : world) (a : N) : bool :=
  match code_of a (x_codes c) with Some _ => true | None => negb (getb a (w_bal w) =? 0) end.
Definition empty_acct (c : ctx) (w : world) (a : N) : bool :=
  match code_of a (x_codes c) with Some (_ :: _) => false | _ => getb a (w_bal w) =? 0 end.

(* core/evm.go:CanTransfer *)
Definition can_transfer (c : ctx) (w : world) (a v : N) : bool :=
  internal_quai (x_pfx c) a && (v <=? getb a (w_bal w)).

(* ---------- events (what happened, in execution order) ---------- *)
Inductive ev :=
| EvOp (k : N) (r : opres)            (* k = 0 ETX, 1 CONVERT, 2 CreateETX *)
| EvCall (ok : bool) (sub : list ev). (* a frame of any kind (or the top-level Call); ok = the frame was not reverted:
                                        err == nil, or -- constructors only -- err == ErrCodeStoreOutOfGas *)

(* ---------- one call frame (core/vm/interpreter.go:Run) ---------- *)
Record fstate := mkF { f_stack : list N; f_gas : N; f_mlen : N; f_mlast : N }.
(* HFaultExt: the frame faults with common.ErrExternalAddress, which the call opcodes re-raise in the
   calling frame (instructions.go:opCall & co: "else if err == common.ErrExternalAddress { return nil, err }") *)
Inductive halt := HStop | HReturn (n : N) | HRevert | HFault | HFaultExt.   (* n = len(ret) *)

(* result of EVM.Call & co: err class (0 nil, 1 ErrExecutionReverted, 2 other error, 3 model out of fuel,
   4 address outside the modelled domain, 5 common.ErrExternalAddress, 6 ErrCodeStoreOutOfGas), leftover gas,
   world, events *)
Record cres := mkC { c_err : N; c_gas : N; c_world : world; c_tr : list ev }.
(* evm.go:create: "if err != nil && err != ErrCodeStoreOutOfGas { evm.revertToSnapshot(snapshot) ... }":
   a constructor that cannot pay for the deposit of its code fails WITHOUT being reverted *)
Definition kept (r : cres) : bool := (c_err r =? 0) || (c_err r =? 6).

(* common.go:calcMemSize64 -- None = overflow *)
Definition calc_mem (off len : N) : option N :=
  if W64 <=? len then None
  else if len =? 0 then Some 0
  else if W64 <=? off then None
  else if W64 <=? off + len then None
  else Some (off + len).
(* common.go:toWordSize *)
Definition to_words (size : N) : N := if W64 - 32 <? size then W64 / 32 else (size + 31) / 32.
(* interpreter.go: memorySize = SafeMul(toWordSize(memSize), 32) *)
Definition mem_size32 (msz : N) : option N :=
  let s := to_words msz * 32 in if W64 <=? s then None else Some s.
(* gas_table.go:memoryGasCost -- (fee, new lastGasCost), None = ErrGasUintOverflow *)
Definition mem_gas (f : fstate) (newsz : N) : option (N * N) :=
  if newsz =? 0 then Some (0, f_mlast f)
  else if 137438953440 <? newsz then None                 (* 0x1FFFFFFFE0 *)
  else let wd := to_words newsz in
       if f_mlen f <? wd * 32
       then let tot := wd * MemoryGas + wd * wd / QuadCoeffDiv in Some (tot - f_mlast f, tot)
       else Some (0, f_mlast f).
(* memory.go:Resize *)
Definition resize (f : fstate) (s : N) : fstate :=
  mkF (f_stack f) (f_gas f) (if f_mlen f <? s then s else f_mlen f) (f_mlast f).

Definition cgas (r : oprow) : N := match r_cgasv r with Some g => g | None => 0 end.
Definition stack_bad (r : oprow) (f : fstate) : bool :=
  let n := lenN (f_stack f) in (n <? r_min r) || (r_max r <? n).
(* Contract.UseGas *)
Definition use_gas (g : N) (f : fstate) : option fstate :=
  if f_gas f <? g then None else Some (mkF (f_stack f) (f_gas f - g) (f_mlen f) (f_mlast f)).
Definition with_stack (f : fstate) (s : list N) : fstate := mkF s (f_gas f) (f_mlen f) (f_mlast f).
Definition with_mlast (f : fstate) (m : N) : fstate := mkF (f_stack f) (f_gas f) (f_mlen f) m.
Definition add_gas (f : fstate) (g : N) : fstate := mkF (f_stack f) (f_gas f + g) (f_mlen f) (f_mlast f).

Definition status_of (r : cres) : N := if c_err r =? 0 then 1 else 0.

(* jump-table row and stack arguments of the four call opcodes:
   (gas, addr, value, inOffset, inSize, retOffset, retSize, rest); DELEGATECALL / STATICCALL carry no value *)
Definition row_of (k : ckind) : oprow :=
  match k with CkCall => row_CALL | CkCallCode => row_CALLCODE | CkDelegate => row_DELEGATECALL | CkStatic => row_STATICCALL end.
Definition is_call (k : ckind) : bool := match k with CkCall => true | _ => false end.
Definition call_args (k : ckind) (st : list N) : option (N * N * N * N * N * N * N * list N) :=
  match k with
  | CkCall | CkCallCode =>
      match st with
      | g :: addr :: value :: ioff :: isz :: roff :: rsz :: st' => Some (g, addr, value, ioff, isz, roff, rsz, st')
      | _ => None
      end
  | CkDelegate | CkStatic =>
      match st with
      | g :: addr :: ioff :: isz :: roff :: rsz :: st' => Some (g, addr, 0, ioff, isz, roff, rsz, st')
      | _ => None
      end
  end.
(* CREATE: value, offset, size;  CREATE2: endowment, offset, size, salt *)
Definition create_args (two : bool) (st : list N) : option (N * N * N * list N) :=
  match st with
  | value :: off :: size :: st' =>
      if two then match st' with _ :: st'' => Some (value, off, size, st'') | [] => None end
      else Some (value, off, size, st')
  | _ => None
  end.

Section Exec.
  (* EVM.Call / CallCode / DelegateCall / StaticCall / Create one level down:
     kind, read-only, depth, calling contract (scope.Contract.Address()), target address, gas, value, world *)
  Variable callf : fkind -> bool -> N -> N -> N -> N -> N -> world -> cres.
  Variable c : ctx.
  Variable ro : bool.   (* interpreter.readOnly while this frame runs (inside a STATICCALL) *)
  Variable depth : N.   (* evm.depth while this frame runs *)
  Variable self : N.    (* contract.Address(): the account whose balance / identity the frame acts with *)

  Definition fault (f : fstate) (w : world) (tr : list ev) : halt * fstate * world * list ev := (HFault, f, w, tr).

  Fixpoint exec (code : list instr) (f : fstate) (w : world) (tr : list ev) {struct code}
    : halt * fstate * world * list ev :=
    match code with
    | [] => (HStop, f, w, tr)                                 (* GetOp past the end = STOP *)
    | i :: rest =>
      match i with
      | IStop => (HStop, f, w, tr)
      | IReturn =>
          if stack_bad row_RETURN f then fault f w tr else
          match f_stack f with
          | off :: sz :: st =>
            match calc_mem off sz with
            | None => fault f w tr
            | Some msz =>
              match mem_size32 msz with
              | None => fault f w tr
              | Some ms =>
                match mem_gas f ms with
                | None => fault f w tr
                | Some (fee, last) =>
                  match use_gas fee (with_mlast f last) with
                  | None => fault f w tr
                  | Some f2 => (HReturn sz, with_stack (resize f2 ms) st, w, tr)
                  end
                end
              end
            end
          | _ => fault f w tr
          end
      | IInvalid => fault f w tr
      | IPush v =>
          if stack_bad row_PUSH32 f then fault f w tr else
          match use_gas (cgas row_PUSH32) f with
          | None => fault f w tr
          | Some f1 => exec rest (with_stack f1 (v :: f_stack f1)) w tr
          end
      | IPop =>
          if stack_bad row_POP f then fault f w tr else
          match use_gas (cgas row_POP) f with
          | None => fault f w tr
          | Some f1 => exec rest (with_stack f1 (tl (f_stack f1))) w tr
          end
      | IMstore =>
          if stack_bad row_MSTORE f then fault f w tr else
          match use_gas (cgas row_MSTORE) f with
          | None => fault f w tr
          | Some f1 =>
            match f_stack f1 with
            | off :: _ :: st =>
              match (if W64 <=? off then None else if W64 <=? off + 32 then None else Some (off + 32)) with
              | None => fault f1 w tr
              | Some msz =>
                match mem_size32 msz with
                | None => fault f1 w tr
                | Some ms =>
                  match mem_gas f1 ms with
                  | None => fault f1 w tr
                  | Some (fee, last) =>
                    match use_gas fee (with_mlast f1 last) with
                    | None => fault f1 w tr
                    | Some f2 => exec rest (with_stack (resize f2 ms) st) w tr
                    end
                  end
                end
              end
            | _ => fault f1 w tr
            end
          end
      | IRevert =>
          if stack_bad row_REVERT f then fault f w tr else
          match f_stack f with
          | off :: sz :: st =>
            match calc_mem off sz with
            | None => fault f w tr
            | Some msz =>
              match mem_size32 msz with
              | None => fault f w tr
              | Some ms =>
                match mem_gas f ms with
                | None => fault f w tr
                | Some (fee, last) =>
                  match use_gas fee (with_mlast f last) with
                  | None => fault f w tr
                  | Some f2 => (HRevert, with_stack (resize f2 ms) st, w, tr)
                  end
                end
              end
            end
          | _ => fault f w tr
          end
      | IEtx alok =>
          if stack_bad row_ETX f then fault f w tr else
          if ro && r_writes row_ETX then fault f w tr else      (* interpreter.go: ErrWriteProtection *)
          match use_gas (cgas row_ETX) f with                   (* constantGas gasEtx *)
          | None => fault f w tr
          | Some f1 =>
            match f_stack f1 with
            | _ :: addr :: value :: gl :: tip :: cap :: ioff :: isz :: aoff :: asz :: st =>
              (* memory_table.go:memoryETX; the row has no dynamicGas: the expansion is not charged *)
              match calc_mem ioff isz, calc_mem aoff asz with
              | Some x, Some y =>
                if W64 <=? x + y then fault f1 w tr else
                match mem_size32 (x + y) with
                | None => fault f1 w tr
                | Some ms =>
                  let r := op_etx c self (getb self (w_bal w)) (lenN (w_etxs w)) alok addr value gl tip cap asz in
                  exec rest (with_stack (resize f1 ms) (opt_list (r_push r) ++ st)) (apply_res r self w) (tr ++ [EvOp 0 r])
                end
              | _, _ => fault f1 w tr
              end
            | _ => fault f1 w tr
            end
          end
      | IConvert =>
          if stack_bad row_CONVERT f then fault f w tr else
          if ro && r_writes row_CONVERT then fault f w tr else
          match use_gas (cgas row_CONVERT) f with
          | None => fault f w tr
          | Some f1 =>
            match f_stack f1 with
            | _ :: addr :: value :: gl :: st =>
              let r := op_convert c self (getb self (w_bal w)) (lenN (w_etxs w)) addr value gl in
              exec rest (with_stack f1 (opt_list (r_push r) ++ st)) (apply_res r self w) (tr ++ [EvOp 1 r])
            | _ => fault f1 w tr
            end
          end
      | ICallK k =>
          if stack_bad (row_of k) f then fault f w tr else
          match call_args k (f_stack f) with
          | None => fault f w tr
          | Some (g, addr, value, ioff, isz, roff, rsz, st) =>
            (* interpreter.go: in a read-only frame "op == CALL && stack.Back(2).Sign() != 0" is ErrWriteProtection *)
            if ro && is_call k && negb (value =? 0) then fault f w tr else
            match use_gas WarmStorageReadCost f with              (* constantGas gasWarmStorageRead *)
            | None => fault f w tr
            | Some f1 =>
              match calc_mem roff rsz, calc_mem ioff isz with     (* memoryCall / memoryDelegateCall / memoryStaticCall *)
              | Some x, Some y =>
                match mem_size32 (N.max x y) with
                | None => fault f1 w tr
                | Some ms =>
                  (* operations_acl.go:makeCallVariantGasCall with a warm address, then gas_table.go:gasCall /
                     gasCallCode / gasDelegateCall / gasStaticCall *)
                  let to := addr mod W160 in
                  (* gasCall only: InternalAndQuaiAddress error => ErrOutOfGas *)
                  if is_call k && negb (internal_quai (x_pfx c) to) then fault f1 w tr
                  else
                    match mem_gas f1 ms with
                    | None => fault f1 w tr
                    | Some (mfee, last) =>
                      let base := (if is_call k && negb (value =? 0) && empty_acct c w to then CallNewAccountGas else 0)
                                  + (if negb (value =? 0) then CallValueTransferGas else 0) + mfee in
                      (* base > contract.Gas: callGas underflows and the total can never be paid: ErrOutOfGas *)
                      if f_gas f1 <? base then fault f1 w tr else
                      let avail := f_gas f1 - base in
                      let cap := avail - avail / 64 in
                      let temp := if (W64 <=? g) || (cap <? g) then cap else g in   (* gas.go:callGas *)
                      match use_gas (base + temp) (with_mlast f1 last) with
                      | None => fault f1 w tr
                      | Some f2 =>
                        let f3 := resize f2 ms in
                        (* instructions.go:opCall / opCallCode / opDelegateCall / opStaticCall *)
                        let gas' := temp + (if negb (value =? 0) then CallStipend else 0) in
                        let r := callf (FK k) ro depth self to gas' value w in
                        if c_err r =? 5
                        then (HFaultExt, f3, w, tr ++ [EvCall false (c_tr r)])   (* ErrExternalAddress is re-raised *)
                        else exec rest (add_gas (with_stack f3 (status_of r :: st)) (c_gas r)) (c_world r)
                                  (tr ++ [EvCall (kept r) (c_tr r)])
                      end
                    end
                end
              | _, _ => fault f1 w tr
              end
            end
          end
      | ICreate two init naddr grind =>
          let row := if two then row_CREATE2 else row_CREATE in
          if stack_bad row f then fault f w tr else
          if ro && r_writes row then fault f w tr else          (* interpreter.go: ErrWriteProtection *)
          match use_gas (cgas row) f with                       (* constantGas gasCreateConstant / gasCreate2Constant *)
          | None => fault f w tr
          | Some f1 =>
            match create_args two (f_stack f1) with
            | None => fault f1 w tr
            | Some (value, off, size, st) =>
              match calc_mem off size with                      (* memoryCreate / memoryCreate2 *)
              | None => fault f1 w tr
              | Some msz =>
                match mem_size32 msz with
                | None => fault f1 w tr
                | Some ms =>
                  match mem_gas f1 ms with                      (* gasCreate = pureMemoryGascost; gasCreate2 adds the hashing *)
                  | None => fault f1 w tr
                  | Some (mfee, last) =>
                    let wfee := if two then to_words size * Sha3WordGas else 0 in
                    match use_gas (mfee + wfee) (with_mlast f1 last) with
                    | None => fault f1 w tr
                    | Some f2 =>
                      let f3 := resize f2 ms in
                      (* instructions.go:opCreate / opCreate2: all but one 64th of the gas goes to the constructor *)
                      let gsub := f_gas f3 - f_gas f3 / 64 in
                      let r := callf (FCreate init naddr grind) ro depth self 0 gsub value w in
                      let f4 := mkF ((if c_err r =? 0 then naddr else 0) :: st) (f_gas f3 - gsub + c_gas r) (f_mlen f3) (f_mlast f3) in
                      exec rest f4 (c_world r) (tr ++ [EvCall (kept r) (c_tr r)])
                    end
                  end
                end
              end
            end
          end
      end
    end.

  (* interpreter.Run on the code of a frame whose snapshot is w and whose entry state is w1, then the
     common tail of Call / CallCode / DelegateCall / StaticCall / create:
     "if err != nil { evm.revertToSnapshot(snapshot); if err != ErrExecutionReverted { gas = 0 } }" *)
  (* deposit = the frame is a constructor (evm.go:create): the returned bytes are stored as the code of the
     new account: maximum size, (first byte 0xEF: outside the domain, the harness drops such cases),
     CreateDataGas per byte -- and if that cannot be paid the frame fails but is NOT reverted *)
  Definition run_frame (deposit : bool) (code : option (list instr)) (gas : N) (w w1 : world) : cres :=
    match code with
    | None | Some [] => mkC 0 gas w1 []                       (* len(contract.Code) == 0: Run returns nil, nil *)
    | Some code =>
        let '(h, f, w2, tr) := exec code (mkF [] gas 0 0) w1 [] in
        match h with
        | HStop => mkC 0 (f_gas f) w2 tr
        | HReturn n =>
            if deposit then
              if MaxCodeSize <? n then mkC 2 0 w tr            (* ErrMaxCodeSizeExceeded: reverted, gas = 0 *)
              else if f_gas f <? n * CreateDataGas then mkC 6 (f_gas f) w2 tr   (* ErrCodeStoreOutOfGas: NOT reverted *)
              else mkC 0 (f_gas f - n * CreateDataGas) w2 tr   (* SetCode *)
            else mkC 0 (f_gas f) w2 tr
        | HRevert => mkC 1 (f_gas f) w tr                      (* revertToSnapshot, gas kept *)
        | HFault => mkC 2 0 w tr                               (* revertToSnapshot, gas = 0 *)
        | HFaultExt => mkC 5 0 w tr
        end
    end.
End Exec.

Definition transfer (from to v : N) (l : list (N * N)) : list (N * N) := addb to v (subb from v l).

(* evm.go: CallCode / DelegateCall / StaticCall: precompile (outside the domain), then
   addr.InternalAndQuaiAddress(): ErrQiAddress / ErrExternalAddress => "gas = 0; return nil, gas, err" *)
Definition target_err (c : ctx) (addr : N) : option N :=
  if reserved addr then Some 4
  else if is_qi addr then Some 2
  else if negb (in_scope (x_pfx c) addr) then Some 5
  else None.

(* core/vm/evm.go: Call, CallCode, DelegateCall, StaticCall, Create/Create2 + create.
   depth = evm.depth at entry, caller = caller.Address(), ro = interpreter.readOnly at entry. *)
Fixpoint call (fuel : nat) (c : ctx) (k : fkind) (ro : bool) (depth caller addr gas value : N) (w : world) {struct fuel} : cres :=
  match fuel with
  | O => mkC 3 gas w []
  | S fuel' =>
    match k with
    | FK CkCall =>
      if CallCreateDepth <? depth then mkC 2 gas w []                                   (* ErrDepth *)
      else if negb (value =? 0) && negb (can_transfer c w caller value) then mkC 2 gas w []  (* ErrInsufficientBalance *)
      else if reserved addr then mkC 4 gas w []
      else (* snapshot := evm.snapshot() *)
      if negb (internal_quai (x_pfx c) addr) then
        let '(ok, r) := create_etx c caller (getb caller (w_bal w)) (lenN (w_etxs w)) addr gas value in
        if ok then mkC 0 0 (apply_res r caller w) [EvOp 2 r]
        else mkC 2 0 w []                                                               (* revertToSnapshot *)
      else if negb (exists_acct c w addr) then
        if value =? 0 then mkC 0 gas w []
        else if CallNewAccountGas <? gas
        then (if negb (internal_quai (x_pfx c) caller) then mkC 2 (gas - CallNewAccountGas) w []
              else mkC 0 (gas - CallNewAccountGas) (mkW (transfer caller addr value (w_bal w)) (w_etxs w)) [])
        else mkC 2 gas w []
      else if negb (internal_quai (x_pfx c) caller) then mkC 2 gas w []                 (* Transfer error *)
      else
        let w1 := mkW (transfer caller addr value (w_bal w)) (w_etxs w) in
        run_frame (call fuel' c) c ro (depth + 1) addr false (code_of addr (x_codes c)) gas w w1
    | FK CkCallCode =>
      (* the code of addr runs as the caller: no transfer, the balance check is unconditional *)
      if CallCreateDepth <? depth then mkC 2 gas w []
      else if negb (can_transfer c w caller value) then mkC 2 gas w []
      else match target_err c addr with
           | Some e => mkC e 0 w []
           | None => run_frame (call fuel' c) c ro (depth + 1) caller false (code_of addr (x_codes c)) gas w w
           end
    | FK CkDelegate =>
      if CallCreateDepth <? depth then mkC 2 gas w []
      else match target_err c addr with
           | Some e => mkC e 0 w []
           | None => run_frame (call fuel' c) c ro (depth + 1) caller false (code_of addr (x_codes c)) gas w w
           end
    | FK CkStatic =>
      if CallCreateDepth <? depth then mkC 2 gas w []
      else match target_err c addr with
           | Some e => mkC e 0 w []
           | None => run_frame (call fuel' c) c true (depth + 1) addr false (code_of addr (x_codes c)) gas w w
           end
    | FCreate init naddr grind =>
      (* Create: caller.Address().InternalAndQuaiAddress(), address grinding; create: (nonce bump, not modelled,)
         depth, account-creation gas, CanTransfer, address checks, snapshot, CreateAccount, Transfer, Run.
         An address collision is outside the domain (the harness drops such cases); the code deposit is in
         [run_frame]. *)
      if negb (internal_quai (x_pfx c) caller) then mkC 2 0 w []
      else if gas <? grind then mkC 2 0 w []                                            (* GrindContract: out of gas *)
      else let gas1 := gas - grind in
      if CallCreateDepth <? depth then mkC 2 gas1 w []
      else if negb (CallNewAccountGas <? gas1) then mkC 2 gas1 w []
      else let gas2 := gas1 - CallNewAccountGas in
      if negb (can_transfer c w caller value) then mkC 2 gas2 w []
      else if negb (internal_quai (x_pfx c) naddr) then mkC 2 0 w []
      else
        let w1 := mkW (transfer caller naddr value (w_bal w)) (w_etxs w) in
        run_frame (call fuel' c) c ro (depth + 1) naddr true (Some init) gas2 w w1
    end
  end.

(* ---------- lockup precompile: UnwrapQi (core/vm/contracts.go:UnwrapQi) ----------
   owner = caller of the precompile, wrapped = its slot in the lockup contract (0 = empty slot),
   request = (beneficiary, value < 2^256, ETX gas limit < 2^64) parsed from the 60-byte input. *)
Record ures := mkU { u_ok : bool; u_gas : N; u_wrapped : N; u_emit : option etx }.

Definition unwrap_qi (c : ctx) (owner gas wrapped idx benef value gl : N) : ures :=
  if gas <? gl then mkU false gas wrapped None                              (* ErrOutOfGas *)
  else let gas1 := gas - gl in
  if negb (in_scope (x_pfx c) benef && is_qi benef) then mkU false gas1 wrapped None   (* InternalAndQiAddress *)
  else if negb (internal_quai (x_pfx c) owner) then mkU false gas1 wrapped None
  else if wrapped =? 0 then mkU false gas1 wrapped None                     (* empty slot *)
  else if wrapped <? value then mkU false gas1 wrapped None
  else (* StateDB.SetState(lockup, owner, wrapped - value) has happened *)
    if MaxUint16 <? idx then mkU false gas1 (wrapped - value) None
    else mkU true gas1 (wrapped - value) (Some (mkEtx benef owner value idx EtxUnwrapQiType gl)).

(* core/vm/evm.go:Call, lockup branch, at depth 0 with value 0: on error the snapshot is restored only
   from ShaEquivalentDifficultyForkBlock on.  Result: (err == nil, leftover gas, slot, ETX list). *)
Definition call_unwrap (c : ctx) (owner gas wrapped : N) (etxs : list etx) (benef value gl : N)
  : bool * N * N * list etx :=
  let r := unwrap_qi c owner gas wrapped (lenN etxs) benef value gl in
  if u_ok r then (true, u_gas r, u_wrapped r, etxs ++ opt_list (u_emit r))
  else if ShaEquivalentDifficultyForkBlock <=? x_ptn c then (false, u_gas r, wrapped, etxs)
  else (false, u_gas r, u_wrapped r, etxs ++ opt_list (u_emit r)).

(* ---------- specification-side helpers used by the theorems ---------- *)
(* ETXs recorded by the operations of a trace that sit in frames that were not reverted *)
Fixpoint emitted (e : ev) : list etx :=
  match e with
  | EvOp _ r => opt_list (r_emit r)
  | EvCall ok sub => if ok then flat_map emitted sub else []
  end.
Definition emitted_all (tr : list ev) : list etx := flat_map emitted tr.

(* ---------- correspondence check ---------- *)
Definition etx_eqb (a b : etx) : bool :=
  (e_to a =? e_to b) && (e_sender a =? e_sender b) && (e_value a =? e_value b) &&
  (e_index a =? e_index b) && (e_type a =? e_type b) && (e_gas a =? e_gas b).
Definition oN_eqb (a b : option N) : bool :=
  match a, b with Some x, Some y => x =? y | None, None => true | _, _ => false end.
Definition oetx_eqb (a b : option etx) : bool :=
  match a, b with Some x, Some y => etx_eqb x y | None, None => true | _, _ => false end.
Definition res_eqb (a b : opres) : bool :=
  (r_debit a =? r_debit b) && oN_eqb (r_push a) (r_push b) && oetx_eqb (r_emit a) (r_emit b).
Fixpoint ev_eqb (a b : ev) {struct a} : bool :=
  match a, b with
  | EvOp k r, EvOp k' r' => (k =? k') && res_eqb r r'
  | EvCall ok s, EvCall ok' s' =>
      Bool.eqb ok ok' &&
      (fix go (x y : list ev) {struct x} : bool :=
         match x, y with
         | [], [] => true
         | e :: x', e' :: y' => ev_eqb e e' && go x' y'
         | _, _ => false
         end) s s'
  | _, _ => false
  end.
Fixpoint evs_eqb (x y : list ev) : bool :=
  match x, y with
  | [], [] => true
  | e :: x', e' :: y' => ev_eqb e e' && evs_eqb x' y'
  | _, _ => false
  end.
Fixpoint etxs_eqb (x y : list etx) : bool :=
  match x, y with
  | [], [] => true
  | e :: x', e' :: y' => etx_eqb e e' && etxs_eqb x' y'
  | _, _ => false
  end.

Definition dummy_etx : etx := mkEtx 0 0 0 0 0 0.
Fixpoint repeatN {A} (x : A) (n : nat) (acc : list A) : list A :=
  match n with O => acc | S n' => repeatN x n' (x :: acc) end.

(* a case = the inputs of one top-level EVM.Call and what the real EVM did *)
Record ecase := mkCase {
  k_id : N;
  k_pfx : N; k_ptn : N; k_elig : N; k_price : N;
  k_accts : list (N * N * list instr);     (* address, balance, code ([] = no code) *)
  k_prefill : N;                            (* len(evm.ETXCache) before the call *)
  k_origin : N; k_to : N; k_gas : N; k_value : N;
  o_err : N;                                (* 0 nil, 1 reverted, 2 other *)
  o_gas : N;                                (* leftover gas *)
  o_tr : list ev;
  o_bals : list (N * N);                    (* final balances of all accounts of the case *)
  o_etxs : list etx                         (* ETXCache beyond the prefill *)
}.

Definition case_codes (k : ecase) : list (N * list instr) :=
  flat_map (fun x => match x with (a, _, cd) => match cd with [] => [] | _ => [(a, cd)] end end) (k_accts k).
Definition case_ctx (k : ecase) : ctx := mkCtx (k_pfx k) (k_ptn k) (k_elig k) (k_price k) (case_codes k).
Definition case_world (k : ecase) : world :=
  mkW (flat_map (fun x => match x with (a, b, _) => if b =? 0 then [] else [(a, b)] end) (k_accts k))
      (repeatN dummy_etx (N.to_nat (k_prefill k)) []).
Definition case_run (k : ecase) : cres :=
  call 1100%nat (case_ctx k) (FK CkCall) false 0 (k_origin k) (k_to k) (k_gas k) (k_value k) (case_world k).

Definition ecase_ok (k : ecase) : bool :=
  let r := case_run k in
  ((if c_err r =? 5 then 2 else c_err r) =? o_err k) && (c_gas r =? o_gas k) && evs_eqb (c_tr r) (o_tr k) &&
  forallb (fun x => getb (fst x) (w_bal (c_world r)) =? snd x) (o_bals k) &&
  etxs_eqb (skipn (N.to_nat (k_prefill k)) (w_etxs (c_world r))) (o_etxs k).

(* a case of the second family: a top-level Call to the lockup contract with an UnwrapQi request *)
Record ucase := mkUCase {
  u_id : N; u_pfx : N; u_ptn : N; u_owner : N; u_gas0 : N; u_wrapped0 : N; u_prefill : N;
  u_benef : N; u_value : N; u_gl : N;
  ou_ok : bool; ou_gas : N; ou_wrapped : N; ou_etxs : list etx
}.
Definition ucase_ok (k : ucase) : bool :=
  let c := mkCtx (u_pfx k) (u_ptn k) 0 1 [] in
  let pre := repeatN dummy_etx (N.to_nat (u_prefill k)) [] in
  match call_unwrap c (u_owner k) (u_gas0 k) (u_wrapped0 k) pre (u_benef k) (u_value k) (u_gl k) with
  | (ok, g, wr, etxs) =>
      Bool.eqb ok (ou_ok k) && (g =? ou_gas k) && (wr =? ou_wrapped k) &&
      etxs_eqb (skipn (N.to_nat (u_prefill k)) etxs) (ou_etxs k)
  end.


(* ---------- hand-over of the per-transaction cache; the block's outbound list ----------
   core/state_transition.go:TransitionDb   etxs := make(len(ETXCache)); copy(etxs, ETXCache); ETXCache = make(.., 0)
                                            ... ExecutionResult{Etxs: etxs}
   core/state_processor.go:applyTransaction evm.Reset (does not touch the cache); result := ApplyMessage;
                                            if !result.Failed() { receipt.OutboundEtxs = result.Etxs }
   core/state_processor.go:Process          ONE vmenv per block; per transaction: applyTransaction;
                                            if receipt.Status == Successful { emittedEtxs = append(emittedEtxs, receipt.OutboundEtxs...) }
   Value level (lists); the slice level -- where the copy matters -- is [hprocess] below.
   A transaction is abstracted to (its top-level call succeeded, what its execution appended to the cache). *)
Definition btx := (bool * list etx)%type.

(* (ExecutionResult.Etxs, EVM.ETXCache afterwards) *)
Definition transition_db (cache : list etx) (t : btx) : list etx * list etx := (cache ++ snd t, []).
(* (receipt.OutboundEtxs, EVM.ETXCache afterwards) *)
Definition apply_transaction (cache : list etx) (t : btx) : list etx * list etx :=
  let (etxs, cache') := transition_db cache t in ((if fst t then etxs else []), cache').
(* (the receipts' outbound sets, emittedEtxs) of a block processed with ONE cache *)
Fixpoint process (cache : list etx) (txs : list btx) : list (list etx) * list etx :=
  match txs with
  | [] => ([], [])
  | t :: rest =>
      let (rc, cache') := apply_transaction cache t in
      let (rs, bl) := process cache' rest in
      (rc :: rs, (if fst t then rc else []) ++ bl)
  end.
(* the worker: a new EVM (empty cache) for every transaction (core.ApplyTransaction) *)
Definition process_fresh (txs : list btx) : list (list etx) * list etx :=
  let rs := map (fun t : btx => fst (apply_transaction [] t)) txs in
  (rs, List.concat (map (fun t : btx => if fst t then fst (apply_transaction [] t) else []) txs)).
(* what a transaction sent: the ETXs its execution recorded, if it succeeded *)
Definition tx_sent (t : btx) : list etx := if fst t then snd t else [].

(* the same three functions over Go slices (Lib/C05_Slice.v): the cache is a slice into a backing array,
   opETX / opConvert / CreateETX append to it, revertToSnapshot re-slices it (ETXCache[:n]).
   [copying = true] is TransitionDb as it is (make + copy, then a new empty slice); [copying = false] is
   the variant without the copy (etxs := ETXCache; ETXCache = ETXCache[:0]) -- kept to show that the copy
   is what the retention theorem rests on (hprocess_without_copy_refuted). *)
Definition run_cops (l : list etx) (ops : list (cop etx)) : list etx := fold_left cop_list ops l.
Definition hbtx := (bool * list (cop etx))%type.
Definition htransition_db (grow : nat -> nat) (copying : bool) (h : heap etx) (cache : slice) (t : hbtx) : heap etx * slice * slice :=
  let (h1, c1) := run_cops_h dummy_etx grow h cache (snd t) in
  if copying then
    let (h2, etxs) := sl_copy h1 c1 in
    let (h3, c3) := sl_make h2 in (h3, etxs, c3)
  else (h1, c1, sl_reslice c1 0).
Fixpoint hprocess (grow : nat -> nat) (copying : bool) (h : heap etx) (cache : slice) (txs : list hbtx)
  : heap etx * list (option slice) * list etx :=
  match txs with
  | [] => (h, [], [])
  | t :: rest =>
      match htransition_db grow copying h cache t with
      | (h1, etxs, cache') =>
          (* the pointers are copied into emittedEtxs before the next transaction runs *)
          let now := if fst t then sl_read h1 etxs else [] in
          match hprocess grow copying h1 cache' rest with
          | (hf, rs, bl) => (hf, (if fst t then Some etxs else None) :: rs, now ++ bl)
          end
      end
  end.
(* a receipt's outbound set as it reads in a given heap (None: failed transaction, nil slice) *)
Definition read_receipt (h : heap etx) (r : option slice) : list etx :=
  match r with Some s => sl_read h s | None => [] end.
(* the value-level abstraction of a slice-level transaction, started on an empty cache *)
Definition abs_tx (t : hbtx) : btx := (fst t, run_cops [] (snd t)).

(* a block of model transactions: the top-level message call of each (gas purchase, intrinsic gas, nonce
   and refund of TransitionDb are not modelled), run on the world the previous one left, cache reset *)
Record mtx := mkMtx { m_from : N; m_to : N; m_gas : N; m_value : N }.
Definition mtx_call (fuel : nat) (c : ctx) (t : mtx) (w : world) : cres :=
  call fuel c (FK CkCall) false 0 (m_from t) (m_to t) (m_gas t) (m_value t) w.
Fixpoint process_calls (fuel : nat) (c : ctx) (txs : list mtx) (w : world) : list (list etx) * list etx :=
  match txs with
  | [] => ([], [])
  | t :: rest =>
      let r := mtx_call fuel c t w in
      let rc := if c_err r =? 0 then w_etxs (c_world r) else [] in
      let (rs, bl) := process_calls fuel c rest (mkW (w_bal (c_world r)) []) in
      (rc :: rs, rc ++ bl)
  end.
(* specification side: what the successful operations of each transaction of the block recorded *)
Fixpoint block_sent (fuel : nat) (c : ctx) (txs : list mtx) (w : world) : list (list etx) :=
  match txs with
  | [] => []
  | t :: rest =>
      let r := mtx_call fuel c t w in
      (if c_err r =? 0 then emitted_all (c_tr r) else []) :: block_sent fuel c rest (mkW (w_bal (c_world r)) [])
  end.

(* a case of the third family: per transaction (status, cache when its top-level call returned); observed after
   the LAST transaction of the block, processed with one EVM: every receipt's OutboundEtxs, the block's list *)
Record bcase := mkBCase {
  b_id : N; b_txs : list btx; ob_receipts : list (list etx); ob_block : list etx
}.
Fixpoint etxss_eqb (x y : list (list etx)) : bool :=
  match x, y with
  | [], [] => true
  | a :: x', b :: y' => etxs_eqb a b && etxss_eqb x' y'
  | _, _ => false
  end.
Definition bcase_ok (k : bcase) : bool :=
  let (rs, bl) := process [] (b_txs k) in
  etxss_eqb rs (ob_receipts k) && etxs_eqb bl (ob_block k) &&
  let (rs', bl') := process_fresh (b_txs k) in etxss_eqb rs' (ob_receipts k) && etxs_eqb bl' (ob_block k).


(* ---------- lockup precompile: ClaimCoinbaseLockup (core/vm/contracts.go:ClaimCoinbaseLockup) ----------
   The coinbase-lockup ledger (rawdb, read through evm.Batch first) is a list of records keyed by
   (owner contract, beneficiary miner, lockup byte, epoch); rawdb.ReadCoinbaseLockup yields (0, 0, 0) for an
   absent or batch-deleted key.  The delegate of a record is not modelled (the claim does not use it).
   request = (miner, to, lockup byte, epoch, ETX gas limit < 2^64) parsed from the 53-byte input;
   height = Context.BlockNumber (the two uint32 conversions of the Go code are written out). *)
Record lrec := mkLRec { l_bal : N; l_unlock : N; l_elems : N }.
Definition lkey := (N * N * N * N)%type.
Definition lkey_eqb (a b : lkey) : bool :=
  match a, b with (o, m, l, e), (o', m', l', e') => (o =? o') && (m =? m') && (l =? l') && (e =? e') end.
Fixpoint lget (k : lkey) (l : list (lkey * lrec)) : option lrec :=
  match l with
  | [] => None
  | (k', r) :: l' => if lkey_eqb k' k then Some r else lget k l'
  end.
Fixpoint ldel (k : lkey) (l : list (lkey * lrec)) : list (lkey * lrec) :=
  match l with
  | [] => []
  | (k', r) :: l' => if lkey_eqb k' k then ldel k l' else (k', r) :: ldel k l'
  end.
Definition W32 : N := 2 ^ 32.

Record lres := mkLRes {
  lr_ok : bool; lr_gas : N;
  lr_led : list (lkey * lrec);        (* the ledger as ReadCoinbaseLockup sees it afterwards *)
  lr_emit : option etx;
  lr_undo : option (lkey * lrec)      (* entry added to evm.CoinbasesDeleted (+ one hash in CoinbaseDeletedHashes) *)
}.

Definition claim_lockup (c : ctx) (height owner gas : N) (led : list (lkey * lrec)) (idx miner to lb epoch gl : N) : lres :=
  if gas <? gl then mkLRes false gas led None None                          (* ErrOutOfGas *)
  else let gas1 := gas - gl in
  let failr := mkLRes false gas1 led None None in
  if negb (internal_quai (x_pfx c) owner) then failr                        (* ownerContract.InternalAndQuaiAddress *)
  else if negb (in_scope (x_pfx c) miner) then failr                        (* beneficiaryMiner.InternalAddress *)
  else if (height / CoinbaseEpochBlocks + 1) mod W32 <=? epoch then failr   (* epoch >= latestEpoch *)
  else if negb (Bool.eqb (is_qi miner) (is_qi to)) then failr               (* different ledgers *)
  else match lget (owner, miner, lb, epoch) led with
  | None => failr                                                           (* trancheUnlockHeight == 0 *)
  | Some r =>
      if l_unlock r =? 0 then failr
      else if height mod W32 <? l_unlock r then failr                       (* not unlocked yet *)
      else if l_elems r =? 0 then failr
      else (* rawdb.DeleteCoinbaseLockup(evm.Batch, ...) has happened *)
        let led' := ldel (owner, miner, lb, epoch) led in
        if MaxUint16 <? idx then mkLRes false gas1 led' None None
        else mkLRes true gas1 led'
               (Some (mkEtx to owner (l_bal r) idx EtxCoinbaseLockupType gl))
               (Some ((owner, miner, lb, epoch), r))
  end.

(* core/vm/evm.go:Call, lockup branch, depth 0, value 0.  From ShaEquivalentDifficultyForkBlock on an error
   restores the EVM snapshot: state, ETXCache, CoinbaseDeletedHashes, CoinbasesDeleted -- NOT evm.Batch, where
   the record was deleted.  Result: (err == nil, leftover gas, ledger, ETX list, CoinbasesDeleted entries). *)
Definition call_claim (c : ctx) (height owner gas : N) (led : list (lkey * lrec)) (etxs : list etx)
  (miner to lb epoch gl : N) : bool * N * list (lkey * lrec) * list etx * list (lkey * lrec) :=
  let r := claim_lockup c height owner gas led (lenN etxs) miner to lb epoch gl in
  if lr_ok r then (true, lr_gas r, lr_led r, etxs ++ opt_list (lr_emit r), opt_list (lr_undo r))
  else if ShaEquivalentDifficultyForkBlock <=? x_ptn c then (false, lr_gas r, lr_led r, etxs, [])
  else (false, lr_gas r, lr_led r, etxs ++ opt_list (lr_emit r), opt_list (lr_undo r)).

Definition lrec_eqb (a b : lrec) : bool :=
  (l_bal a =? l_bal b) && (l_unlock a =? l_unlock b) && (l_elems a =? l_elems b).
Definition lentry_eqb (a b : lkey * lrec) : bool := lkey_eqb (fst a) (fst b) && lrec_eqb (snd a) (snd b).
Fixpoint lentries_eqb (x y : list (lkey * lrec)) : bool :=
  match x, y with
  | [], [] => true
  | a :: x', b :: y' => lentry_eqb a b && lentries_eqb x' y'
  | _, _ => false
  end.
(* what ReadCoinbaseLockup answers for key k *)
Definition lread (k : lkey) (l : list (lkey * lrec)) : lrec :=
  match lget k l with Some r => r | None => mkLRec 0 0 0 end.

(* a case of the fourth family: a top-level Call to the lockup contract with a 53-byte claim request;
   observed: err == nil, leftover gas, ReadCoinbaseLockup of every stored key and of the requested key afterwards,
   the ETX cache beyond the prefill, the entries of evm.CoinbasesDeleted (sorted by key) *)
Record lcase := mkLCase {
  lc_id : N; lc_pfx : N; lc_ptn : N; lc_height : N; lc_owner : N; lc_gas0 : N;
  lc_led : list (lkey * lrec); lc_prefill : N;
  lc_miner : N; lc_to : N; lc_lb : N; lc_epoch : N; lc_gl : N;
  ol_ok : bool; ol_gas : N; ol_reads : list (lkey * lrec); ol_etxs : list etx; ol_undo : list (lkey * lrec)
}.
Definition lcase_ok (k : lcase) : bool :=
  let c := mkCtx (lc_pfx k) (lc_ptn k) 0 1 [] in
  let pre := repeatN dummy_etx (N.to_nat (lc_prefill k)) [] in
  match call_claim c (lc_height k) (lc_owner k) (lc_gas0 k) (lc_led k) pre (lc_miner k) (lc_to k) (lc_lb k) (lc_epoch k) (lc_gl k) with
  | (ok, g, led, etxs, undo) =>
      Bool.eqb ok (ol_ok k) && (g =? ol_gas k) &&
      forallb (fun x : lkey * lrec => lrec_eqb (lread (fst x) led) (snd x)) (ol_reads k) &&
      (lenN (ol_reads k) =? lenN (lc_led k) + 1) &&
      etxs_eqb (skipn (N.to_nat (lc_prefill k)) etxs) (ol_etxs k) &&
      lentries_eqb undo (ol_undo k)
  end.

Inductive case := KE (k : ecase) | KU (k : ucase) | KB (k : bcase) | KL (k : lcase).
Definition case_id (x : case) : N := match x with KE k => k_id k | KU k => u_id k | KB k => b_id k | KL k => lc_id k end.
Definition case_ok (x : case) : bool := match x with KE k => ecase_ok k | KU k => ucase_ok k | KB k => bcase_ok k | KL k => lcase_ok k end.

Definition mismatches (cs : list case) : list N :=
  map case_id (filter (fun k => negb (case_ok k)) cs).

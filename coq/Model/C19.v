(* C19 -- executable sequential model of the Quai-transaction part of core/tx_pool.go
   (TxPool) with core/tx_list.go (txSortedMap/txList, txPricedList bookkeeping) and
   core/tx_noncer.go, at the granularity of quiescent points:

     one history step = one public operation (AddRemotes/AddLocals batch, SetGasPrice,
     chain-head event) followed by the reorg run (runReorg) that scheduleReorgLoop
     launches for it.

   Functions mirror the branch order of the Go code; file.go:func is cited.
   Definitions only; proofs are in Proofs/C19*.v.

   Scope notes (see design/C19.md):
   - a transaction is identified with its content tuple (sender, nonce, gas price, gas,
     value); the harness builds exactly one real signed transaction per tuple;
   - the pool-full branch of TxPool.add (txPricedList.Underpriced/Discard, which depends
     on heap order for equal prices) is not modelled: reaching it sets p_oos;
   - truncateQueue evicts whole accounts in heartbeat (wall clock) order: the order is a
     parameter [qorder] of every step, theorems quantify over it;
   - txList.costcap/gascap are a cache of an upper bound: the pool model uses Filter without
     it; the cache itself is modelled separately (clist, cl_add, cl_filter) and proved to be
     transparent under its invariant, which every list operation preserves;
   - lifetime eviction is modelled as its own kind of history step (evict_tick: the expired
     accounts are parameters); journal, Qi pool, senders cache, events are not modelled. *)
From Coq Require Import List NArith Bool.
Import ListNotations.
Local Open Scope N_scope.

(* ---------- transactions ---------- *)
Record tx := T { t_from : N; t_nonce : N; t_price : N; t_gas : N; t_value : N }.

(* types.Transaction.Cost: gas * gasPrice + value *)
Definition cost (t : tx) : N := t_price t * t_gas t + t_value t.

Definition tx_eqb (a b : tx) : bool :=
  (t_from a =? t_from b) && (t_nonce a =? t_nonce b) && (t_price a =? t_price b)
  && (t_gas a =? t_gas b) && (t_value a =? t_value b).

Definition mem_tx (t : tx) (l : list tx) : bool := existsb (tx_eqb t) l.
Definition mem_n (a : N) (l : list N) : bool := existsb (N.eqb a) l.

(* ---------- tx_list.go: txSortedMap / txList as a nonce-sorted list ---------- *)
Definition txl := list tx.

(* txSortedMap.Get *)
Fixpoint l_get (n : N) (l : txl) : option tx :=
  match l with
  | [] => None
  | x :: r => if t_nonce x =? n then Some x else l_get n r
  end.

(* txSortedMap.Put (overwrites an equal nonce) *)
Fixpoint l_put (t : tx) (l : txl) : txl :=
  match l with
  | [] => [t]
  | x :: r =>
      if t_nonce t <? t_nonce x then t :: l
      else if t_nonce t =? t_nonce x then t :: r
      else x :: l_put t r
  end.

(* txSortedMap.Remove *)
Definition l_remove (n : N) (l : txl) : txl := filter (fun x => negb (t_nonce x =? n)) l.

(* tx_list.go:txList.Add -- the replacement rule.  None = rejected. *)
Definition bump_threshold (bump oldprice : N) : N := (100 + bump) * oldprice / 100.
Definition l_add (t : tx) (bump : N) (l : txl) : option (txl * option tx) :=
  match l_get (t_nonce t) l with
  | Some old =>
      if t_price t <=? t_price old then None                       (* CompareFeeBetweenTx(old, tx) >= 0 *)
      else if t_price t <? bump_threshold bump (t_price old) then None  (* tx.CompareFee(thresholdFeeCap) < 0 *)
      else Some (l_put t l, Some old)
  | None => Some (l_put t l, None)
  end.

(* txSortedMap.Forward: (removed, kept) *)
Definition l_forward (thr : N) (l : txl) : txl * txl :=
  (filter (fun x => t_nonce x <? thr) l, filter (fun x => negb (t_nonce x <? thr)) l).

(* txList.Filter predicate: tx.Gas() > gasLimit || tx.Cost() > costLimit *)
Definition unpayable (bal maxgas : N) (t : tx) : bool := (maxgas <? t_gas t) || (bal <? cost t).

Definition min_nonce (x : tx) (l : txl) : N := fold_left (fun m t => N.min m (t_nonce t)) l (t_nonce x).

(* txList.Filter: (removed, invalids, kept); invalids only in strict mode *)
Definition l_filter (strict : bool) (bal maxgas : N) (l : txl) : txl * txl * txl :=
  let removed := filter (unpayable bal maxgas) l in
  let kept := filter (fun x => negb (unpayable bal maxgas x)) l in
  match removed with
  | [] => ([], [], l)
  | x :: r =>
      if strict then
        let lowest := min_nonce x r in
        (removed, filter (fun y => lowest <? t_nonce y) kept, filter (fun y => negb (lowest <? t_nonce y)) kept)
      else (removed, [], kept)
  end.

(* txSortedMap.Cap: (drops, kept) -- the highest nonces are dropped *)
Definition l_cap (k : N) (l : txl) : txl * txl := (skipn (N.to_nat k) l, firstn (N.to_nat k) l).

(* txSortedMap.Ready: (ready, kept) *)
Fixpoint l_run (next : N) (l : txl) : txl * txl :=
  match l with
  | x :: r => if t_nonce x =? next then let '(a, b) := l_run (next + 1) r in (x :: a, b) else ([], l)
  | [] => ([], [])
  end.
Definition l_ready (start : N) (l : txl) : txl * txl :=
  match l with
  | [] => ([], [])
  | x :: _ => if start <? t_nonce x then ([], l) else l_run (t_nonce x) l
  end.

(* txList.Remove in strict mode: (invalids, kept) after deleting nonce n *)
Definition l_remove_strict (n : N) (l : txl) : txl * txl :=
  let l' := l_remove n l in
  (filter (fun x => n <? t_nonce x) l', filter (fun x => negb (n <? t_nonce x)) l').

Definition len (l : txl) : N := N.of_nat (length l).

(* ---------- per-account maps ---------- *)
Definition amap := list (N * txl).
Fixpoint aget (a : N) (m : amap) : txl :=
  match m with
  | [] => []
  | (b, l) :: r => if b =? a then l else aget a r
  end.
Fixpoint adel (a : N) (m : amap) : amap :=
  match m with
  | [] => []
  | (b, l) :: r => if b =? a then adel a r else (b, l) :: adel a r
  end.
(* delete(pool.pending/queue, addr) when the list became empty *)
Definition aset (a : N) (l : txl) (m : amap) : amap :=
  match l with
  | [] => adel a m
  | _ => (a, l) :: adel a m
  end.
Definition akeys (m : amap) : list N := map fst m.
Definition atotal (m : amap) : N := fold_right (fun kv s => len (snd kv) + s) 0 m.

Definition nmap := list (N * N).
Fixpoint nfind (a : N) (m : nmap) : option N :=
  match m with
  | [] => None
  | (b, v) :: r => if b =? a then Some v else nfind a r
  end.
Definition nget (a : N) (m : nmap) : N := match nfind a m with Some v => v | None => 0 end.

(* ---------- configuration, chain state, pool ---------- *)
Record cfg := Cfg { c_bump : N; c_aslots : N; c_gslots : N; c_aqueue : N; c_gqueue : N }.

Record chainst := St { s_nonce : nmap; s_bal : nmap; s_basefee : N; s_maxgas : N }.

Record pool := Pool {
  p_pend : amap;                (* pool.pending *)
  p_queue : amap;               (* pool.queue *)
  p_all : list (tx * bool);     (* pool.all: (tx, local) *)
  p_heap : list tx;             (* pool.priced: urgent ++ floating as a bag *)
  p_stales : N;                 (* pool.priced.stales *)
  p_pn : nmap;                  (* pool.pendingNonces cache *)
  p_locals : list N;            (* pool.locals *)
  p_gasprice : N;               (* pool.gasPrice *)
  p_st : chainst;               (* pool.currentState / currentMaxGas / chain.CurrentBlock().BaseFee() *)
  p_oos : bool                  (* left the modelled domain (pool-full branch) *)
}.

Definition st_nonce (p : pool) (a : N) : N := nget a (s_nonce (p_st p)).
Definition st_bal (p : pool) (a : N) : N := nget a (s_bal (p_st p)).

Definition init (price_limit : N) (st : chainst) : pool :=
  Pool [] [] [] [] 0 [] [] price_limit st false.

Definition set_pend (a : N) (l : txl) (p : pool) : pool :=
  Pool (aset a l (p_pend p)) (p_queue p) (p_all p) (p_heap p) (p_stales p) (p_pn p) (p_locals p) (p_gasprice p) (p_st p) (p_oos p).
Definition set_queue (a : N) (l : txl) (p : pool) : pool :=
  Pool (p_pend p) (aset a l (p_queue p)) (p_all p) (p_heap p) (p_stales p) (p_pn p) (p_locals p) (p_gasprice p) (p_st p) (p_oos p).
Definition set_all (al : list (tx * bool)) (p : pool) : pool :=
  Pool (p_pend p) (p_queue p) al (p_heap p) (p_stales p) (p_pn p) (p_locals p) (p_gasprice p) (p_st p) (p_oos p).
Definition set_priced (h : list tx) (s : N) (p : pool) : pool :=
  Pool (p_pend p) (p_queue p) (p_all p) h s (p_pn p) (p_locals p) (p_gasprice p) (p_st p) (p_oos p).
Definition set_pn (m : nmap) (p : pool) : pool :=
  Pool (p_pend p) (p_queue p) (p_all p) (p_heap p) (p_stales p) m (p_locals p) (p_gasprice p) (p_st p) (p_oos p).
Definition set_locals (l : list N) (p : pool) : pool :=
  Pool (p_pend p) (p_queue p) (p_all p) (p_heap p) (p_stales p) (p_pn p) l (p_gasprice p) (p_st p) (p_oos p).
Definition set_gasprice (g : N) (p : pool) : pool :=
  Pool (p_pend p) (p_queue p) (p_all p) (p_heap p) (p_stales p) (p_pn p) (p_locals p) g (p_st p) (p_oos p).
Definition set_st (s : chainst) (p : pool) : pool :=
  Pool (p_pend p) (p_queue p) (p_all p) (p_heap p) (p_stales p) (p_pn p) (p_locals p) (p_gasprice p) s (p_oos p).
Definition set_oos (p : pool) : pool :=
  Pool (p_pend p) (p_queue p) (p_all p) (p_heap p) (p_stales p) (p_pn p) (p_locals p) (p_gasprice p) (p_st p) true.

(* ---------- txLookup ---------- *)
Definition all_has (t : tx) (p : pool) : bool := existsb (fun e => tx_eqb t (fst e)) (p_all p).   (* all.Get != nil *)
Definition all_add (t : tx) (local : bool) (p : pool) : pool := set_all ((t, local) :: p_all p) p.
Definition all_remove (t : tx) (p : pool) : pool := set_all (filter (fun e => negb (tx_eqb t (fst e))) (p_all p)) p.
Definition all_remove_list (l : list tx) (p : pool) : pool := fold_left (fun q t => all_remove t q) l p.
Definition remotes (p : pool) : list tx := map fst (filter (fun e => negb (snd e)) (p_all p)).

(* ---------- txPricedList bookkeeping ---------- *)
Definition heap_put (t : tx) (local : bool) (p : pool) : pool :=           (* txPricedList.Put *)
  if local then p else set_priced (t :: p_heap p) (p_stales p) p.
Definition reheap (p : pool) : pool := set_priced (remotes p) 0 p.           (* txPricedList.Reheap *)
Definition removed (count : N) (p : pool) : pool :=                          (* txPricedList.Removed *)
  let s := p_stales p + count in
  if s <=? len (p_heap p) / 4 then set_priced (p_heap p) s p else reheap p.

(* ---------- tx_noncer.go ---------- *)
Definition pn_get (p : pool) (a : N) : N :=
  match nfind a (p_pn p) with Some v => v | None => st_nonce p a end.
Definition pn_set (a v : N) (p : pool) : pool := set_pn ((a, v) :: p_pn p) p.
Definition pn_set_if_lower (a v : N) (p : pool) : pool :=
  if pn_get p a <=? v then p else pn_set a v p.

(* ---------- tx_pool.go:validateTx ---------- *)
Inductive verdict :=
| VOk | VKnown | VGasLimit | VLowBaseFee | VUnderpriced | VNonceLow | VFunds | VIntrinsic
| VReplaceUnderpriced | VOverflow | VInvalidSender | VOther.

Definition intrinsic_gas : N := 21000.   (* params.TxGas: plain transfer, no data, no access list *)

Definition validate (p : pool) (t : tx) : option verdict :=
  if s_maxgas (p_st p) <? t_gas t then Some VGasLimit
  else if t_price t <? s_basefee (p_st p) then Some VLowBaseFee
  else if t_price t <? p_gasprice p then Some VUnderpriced
  else if t_nonce t <? st_nonce p (t_from t) then Some VNonceLow
  else if st_bal p (t_from t) <? cost t then Some VFunds
  else if t_gas t <? intrinsic_gas then Some VIntrinsic
  else None.

(* ---------- tx_pool.go:enqueueTx ---------- *)
(* addAll = true: called from add.  Returns (pool, Some replaced?) or None if rejected. *)
Definition enqueue_tx (c : cfg) (t : tx) (local addAll : bool) (p : pool) : pool * option bool :=
  let a := t_from t in
  match l_add t (c_bump c) (aget a (p_queue p)) with
  | None => (p, None)                                    (* ErrReplaceUnderpriced *)
  | Some (q', old) =>
      let p1 := set_queue a q' p in
      let p2 := match old with Some o => removed 1 (all_remove o p1) | None => p1 end in
      let p3 := if addAll then heap_put t local (all_add t local p2) else p2 in
      (p3, Some (match old with Some _ => true | None => false end))
  end.

(* txLookup.RemoteToLocals: returns the number migrated *)
Definition remote_to_locals (p : pool) : pool * N :=
  let migr := filter (fun e => negb (snd e) && mem_n (t_from (fst e)) (p_locals p)) (p_all p) in
  (set_all (map (fun e => (fst e, snd e || mem_n (t_from (fst e)) (p_locals p))) (p_all p)) p, len (map fst migr)).

(* ---------- tx_pool.go:add ---------- *)
(* returns (pool, verdict, replaced) *)
Definition add (c : cfg) (t : tx) (local : bool) (p : pool) : pool * verdict * bool :=
  if all_has t p then (p, VKnown, false) else
  let isLocal := local || mem_n (t_from t) (p_locals p) in
  match validate p t with
  | Some v => (p, v, false)
  | None =>
      if c_gslots c + c_gqueue c <? len (map fst (p_all p)) + 1 then (set_oos p, VOverflow, false)   (* pool full: not modelled *)
      else
      let a := t_from t in
      let pl := aget a (p_pend p) in
      match l_get (t_nonce t) pl with
      | Some _ =>                                        (* list.Overlaps(tx) *)
          match l_add t (c_bump c) pl with
          | None => (p, VReplaceUnderpriced, false)
          | Some (pl', old) =>
              let p1 := set_pend a pl' p in
              let p2 := match old with Some o => removed 1 (all_remove o p1) | None => p1 end in
              let p3 := heap_put t isLocal (all_add t isLocal p2) in
              (p3, VOk, match old with Some _ => true | None => false end)
          end
      | None =>
          match enqueue_tx c t isLocal true p with
          | (_, None) => (p, VReplaceUnderpriced, false)
          | (p1, Some replaced) =>
              let p2 :=
                if local && negb (mem_n a (p_locals p1)) then
                  let p' := set_locals (a :: p_locals p1) p1 in
                  let '(p'', migrated) := remote_to_locals p' in
                  removed migrated p''
                else p1 in
              (p2, VOk, replaced)
          end
      end
  end.

(* tx_pool.go:addTxsLocked: (pool, verdicts, dirty accounts) *)
Fixpoint add_locked (c : cfg) (txs : list tx) (local : bool) (p : pool) : pool * list verdict * list N :=
  match txs with
  | [] => (p, [], [])
  | t :: r =>
      let '(p1, v, replaced) := add c t local p in
      let '(p2, vs, dirty) := add_locked c r local p1 in
      (p2, v :: vs,
       match v with VOk => if replaced then dirty else t_from t :: dirty | _ => dirty end)
  end.

(* tx_pool.go:addTxs: known transactions are filtered against the pool content at entry,
   the rest goes through addTxsLocked; verdicts are merged back in order. *)
Fixpoint merge_verdicts (known : list bool) (vs : list verdict) : list verdict :=
  match known with
  | [] => []
  | true :: k => VKnown :: merge_verdicts k vs
  | false :: k => match vs with v :: vs' => v :: merge_verdicts k vs' | [] => VOther :: merge_verdicts k [] end
  end.
Definition add_txs (c : cfg) (txs : list tx) (local : bool) (p : pool) : pool * list verdict * list N :=
  let known := map (fun t => all_has t p) txs in
  let news := filter (fun t => negb (all_has t p)) txs in
  let '(p1, vs, dirty) := add_locked c news local p in
  (p1, merge_verdicts known vs, dirty).

(* ---------- tx_pool.go:promoteTx ---------- *)
Definition promote_tx (c : cfg) (a : N) (t : tx) (p : pool) : pool :=
  match l_add t (c_bump c) (aget a (p_pend p)) with
  | None => removed 1 (all_remove t p)                   (* an older transaction was better *)
  | Some (pl', old) =>
      let p1 := set_pend a pl' p in
      let p2 := match old with Some o => removed 1 (all_remove o p1) | None => p1 end in
      pn_set a (t_nonce t + 1) p2
  end.

(* ---------- tx_pool.go:promoteExecutables, one account ---------- *)
(* every txList operation mutates pool.queue[a] in place before the hash index is
   updated; the entry is deleted at the end when the list is empty (aget reads [] both ways) *)
Definition promote_one (c : cfg) (a : N) (p : pool) : pool :=
  match aget a (p_queue p) with
  | [] => p                                              (* list == nil: continue *)
  | q =>
      let '(forwards, q1) := l_forward (st_nonce p a) q in                       (* list.Forward *)
      let p1 := all_remove_list forwards (set_queue a q1 p) in
      let '(drops, _, q2) := l_filter false (st_bal p a) (s_maxgas (p_st p)) q1 in  (* list.Filter *)
      let p2 := all_remove_list drops (set_queue a q2 p1) in
      let '(readies, q3) := l_ready (pn_get p2 a) q2 in                           (* list.Ready *)
      let p3 := fold_left (fun s t => promote_tx c a t s) readies (set_queue a q3 p2) in
      let '(caps, q4) := l_cap (c_aqueue c) q3 in                                 (* list.Cap *)
      let p4 := all_remove_list caps (set_queue a q4 p3) in
      removed (len forwards + len drops + len caps) p4
  end.

Definition promote_list (c : cfg) (accts : list N) (p : pool) : pool :=
  fold_left (fun s a => promote_one c a s) accts p.

(* enqueueTx(hash, tx, false, false) as used by removeTx / demoteUnexecutables *)
Definition requeue (c : cfg) (t : tx) (p : pool) : pool := fst (enqueue_tx c t false false p).

(* ---------- tx_pool.go:demoteUnexecutables, one account ---------- *)
Definition demote_one (c : cfg) (a : N) (p : pool) : pool :=
  let nonce := st_nonce p a in
  let '(olds, l1) := l_forward nonce (aget a (p_pend p)) in                      (* list.Forward *)
  let p1 := all_remove_list olds (set_pend a l1 p) in
  let '(drops, invalids, l2) := l_filter true (st_bal p a) (s_maxgas (p_st p)) l1 in  (* list.Filter, strict *)
  let p2 := all_remove_list drops (set_pend a l2 p1) in
  let p4 := fold_left (fun s t => requeue c t s) invalids p2 in
  match l2, l_get nonce l2 with
  | _ :: _, None =>                                      (* gap in front: list.Cap(0) *)
      fold_left (fun s t => requeue c t s) l2 (set_pend a [] p4)
  | _, _ => p4
  end.

Definition demote_all (c : cfg) (p : pool) : pool :=
  fold_left (fun s a => demote_one c a s) (akeys (p_pend p)) p.

(* ---------- tx_pool.go:removeTx ---------- *)
Definition remove_tx (c : cfg) (t : tx) (outofbound : bool) (p : pool) : pool :=
  if negb (all_has t p) then p else
  let a := t_from t in
  let p1 := all_remove t p in
  let p2 := if outofbound then removed 1 p1 else p1 in
  let pl := aget a (p_pend p2) in
  match l_get (t_nonce t) pl with
  | Some _ =>                                            (* pending.Remove(tx): by nonce *)
      let '(invalids, pl') := l_remove_strict (t_nonce t) pl in
      let p3 := set_pend a pl' p2 in
      let p4 := fold_left (fun s x => requeue c x s) invalids p3 in
      pn_set_if_lower a (t_nonce t) p4
  | None => set_queue a (l_remove (t_nonce t) (aget a (p_queue p2))) p2
  end.

(* ---------- tx_pool.go:SetGasPrice ---------- *)
Definition set_gas_price (c : cfg) (price : N) (p : pool) : pool :=
  let old := p_gasprice p in
  let p1 := set_gasprice price p in
  if old <? price then
    let drop := filter (fun t => t_price t <? price) (remotes p1) in     (* all.RemotesBelowTip *)
    let p2 := fold_left (fun s t => remove_tx c t false s) drop p1 in
    removed (len drop) p2
  else p1.

(* ---------- tx_pool.go:truncatePending ---------- *)
Definition plen (p : pool) (a : N) : N := len (aget a (p_pend p)).

(* list.Cap(list.Len()-1) on pool.pending[a] with its bookkeeping *)
Definition drop_last (a : N) (p : pool) : pool :=
  let l := aget a (p_pend p) in
  match rev l with
  | [] => p
  | x :: _ =>
      let p1 := set_pend a (removelast l) p in
      let p2 := all_remove x p1 in
      let p3 := pn_set_if_lower a (t_nonce x) p2 in
      removed 1 p3
  end.

Fixpoint insert_desc (p : pool) (a : N) (l : list N) : list N :=
  match l with
  | [] => [a]
  | b :: r => if plen p b <? plen p a then a :: l else b :: insert_desc p a r
  end.
(* prque by list length: highest first *)
Definition spammers (c : cfg) (p : pool) : list N :=
  fold_right (fun a acc => insert_desc p a acc) [] (filter (fun a => c_aslots c <? plen p a) (akeys (p_pend p))).

Fixpoint equalize (fuel : nat) (c : cfg) (prev : list N) (lastprev threshold : N) (p : pool) (pending : N) : pool * N :=
  match fuel with
  | O => (p, pending)
  | S f =>
      if (c_gslots c <? pending) && (threshold <? plen p lastprev) then
        equalize f c prev lastprev threshold (fold_left (fun s a => drop_last a s) prev p) (pending - N.of_nat (length prev))
      else (p, pending)
  end.

Fixpoint tp_stage1 (fuel : nat) (c : cfg) (sp offenders : list N) (p : pool) (pending : N) : pool * N * list N :=
  match sp with
  | [] => (p, pending, offenders)
  | o :: rest =>
      if c_gslots c <? pending then
        match rev offenders with
        | [] => tp_stage1 fuel c rest (offenders ++ [o]) p pending
        | lastprev :: _ =>
            let '(p', pending') := equalize fuel c offenders lastprev (plen p o) p pending in
            tp_stage1 fuel c rest (offenders ++ [o]) p' pending'
        end
      else (p, pending, offenders)
  end.

Fixpoint tp_stage2 (fuel : nat) (c : cfg) (offenders : list N) (lastoff : N) (p : pool) (pending : N) : pool :=
  match fuel with
  | O => p
  | S f =>
      if (c_gslots c <? pending) && (c_aslots c <? plen p lastoff) then
        tp_stage2 f c offenders lastoff (fold_left (fun s a => drop_last a s) offenders p) (pending - N.of_nat (length offenders))
      else p
  end.

Definition truncate_pending (c : cfg) (p : pool) : pool :=
  let pending := atotal (p_pend p) in
  if pending <=? c_gslots c then p else
  let fuel := S (N.to_nat pending) in
  let '(p1, pending1, offenders) := tp_stage1 fuel c (spammers c p) [] p pending in
  match rev offenders with
  | [] => p1
  | lastoff :: _ => tp_stage2 fuel c offenders lastoff p1 pending1
  end.

(* ---------- tx_pool.go:truncateQueue ---------- *)
(* [order]: queue accounts, the one evicted first in front (= latest heartbeat) *)
Fixpoint tq_loop (c : cfg) (order : list N) (drop : N) (p : pool) : pool :=
  match order with
  | [] => p
  | a :: rest =>
      if drop =? 0 then p else
      let l := aget a (p_queue p) in
      if len l <=? drop then
        tq_loop c rest (drop - len l) (fold_left (fun s t => remove_tx c t true s) l p)
      else
        fold_left (fun s t => remove_tx c t true s) (firstn (N.to_nat drop) (rev l)) p
  end.
Definition truncate_queue (c : cfg) (order : list N) (p : pool) : pool :=
  let queued := atotal (p_queue p) in
  if queued <=? c_gqueue c then p else tq_loop c order (queued - c_gqueue c) p.

(* ---------- tx_pool.go:reset ---------- *)
Record reset_req := Reset { r_st : chainst; r_discarded : list tx; r_included : list tx }.

(* types.TxDifferenceWithoutETXs(discarded, included) *)
Definition reinject (r : reset_req) : list tx := filter (fun t => negb (mem_tx t (r_included r))) (r_discarded r).

Definition do_reset (c : cfg) (r : reset_req) (p : pool) : pool :=
  let p1 := set_pn [] (set_st (r_st r) p) in             (* currentState, pendingNonces = newTxNoncer *)
  let '(p2, _, _) := add_locked c (reinject r) false p1 in
  p2.

(* "Update all accounts to the latest known pending nonce" *)
Definition fix_nonces (p : pool) : pool :=
  fold_left (fun s a => match rev (aget a (p_pend p)) with x :: _ => pn_set a (t_nonce x + 1) s | [] => s end)
            (akeys (p_pend p)) p.

(* ---------- tx_pool.go:runReorg ---------- *)
Definition run (c : cfg) (rs : option reset_req) (dirty qorder : list N) (p : pool) : pool :=
  let p1 := match rs with Some r => do_reset c r p | None => p end in
  let addrs := match rs with Some _ => akeys (p_queue p1) | None => dirty end in
  let p2 := promote_list c addrs p1 in
  let p3 := match rs with Some _ => reheap (demote_all c p2) | None => p2 end in
  let p4 := truncate_pending c p3 in
  let p5 := truncate_queue c qorder p4 in
  fix_nonces p5.

(* ---------- histories ---------- *)
Inductive op :=
| OAdd (local : bool) (txs : list tx)        (* AddLocals / AddRemotes + the promotion run *)
| OSetGasPrice (price : N)                   (* SetGasPrice + an idle run *)
| OHead (r : reset_req)                      (* ChainHeadEvent -> requestReset -> run with reset *)
| OTick.                                     (* a timer-launched run with nothing to do *)

(* one step; [qo] = heartbeat order handed to truncateQueue *)
Definition step (c : cfg) (p : pool) (o : op) (qo : list N) : pool * list verdict :=
  match o with
  | OAdd local txs =>
      let '(p1, vs, dirty) := add_txs c txs local p in (run c None dirty qo p1, vs)
  | OSetGasPrice price => (run c None [] qo (set_gas_price c price p), [])
  | OHead r => (run c (Some r) [] qo p, [])
  | OTick => (run c None [] qo p, [])
  end.

Definition run_hist (c : cfg) (p : pool) (h : list (op * list N)) : pool :=
  fold_left (fun s oq => fst (step c s (fst oq) (snd oq))) h p.

(* ---------- tx_pool.go:loop, case <-evict.C: lifetime eviction ---------- *)
(* for addr := range pool.queue { if time.Since(pool.beats[addr]) > Lifetime {
     for _, tx := range pool.queue[addr].Flatten() { pool.removeTx(tx.Hash(), true) } } } *)
Definition evict_queue (c : cfg) (a : N) (p : pool) : pool :=
  fold_left (fun s t => remove_tx c t true s) (aget a (p_queue p)) p.
(* for _, txList := range pool.pending { txs := txList.Flatten();
     if time.Since(txs[0].Time()) > Lifetime { for _, tx := range txs { pool.removeTx(tx.Hash(), true) } } }
   (the first removal re-queues the rest of the list, the following ones take it out of the queue) *)
Definition evict_pending (c : cfg) (a : N) (p : pool) : pool :=
  fold_left (fun s t => remove_tx c t true s) (aget a (p_pend p)) p.
(* one tick of the eviction ticker, under pool.mu: first the queue loop, then the pending loop.
   Which accounts have expired is wall clock (heartbeats, first-seen times): parameters. *)
Definition evict_tick (c : cfg) (qexp pexp : list N) (p : pool) : pool :=
  fold_left (fun s a => evict_pending c a s) pexp (fold_left (fun s a => evict_queue c a s) qexp p).

(* histories extended by eviction ticks (no reorg run follows a tick) *)
Inductive xop :=
| XOp (o : op) (qo : list N)            (* a step of the histories above *)
| XEvict (qexp pexp : list N).          (* an eviction tick with these expired queue / pending accounts *)
Definition xstep (c : cfg) (p : pool) (x : xop) : pool :=
  match x with
  | XOp o qo => fst (step c p o qo)
  | XEvict qexp pexp => evict_tick c qexp pexp p
  end.
Definition run_xhist (c : cfg) (p : pool) (h : list xop) : pool := fold_left (xstep c) h p.

(* ---------- tx_list.go: txList with its cached thresholds ---------- *)
(* txList = txSortedMap + costcap ("price of the highest costing transaction") + gascap
   ("gas limit of the highest spending transaction").  The pool model above works on the
   plain list (l_add, l_filter, ...); this section models the cache explicitly, the proofs
   (Proofs/C19_Cache.v) show that under the cache invariant [cap_okb] -- which every
   operation preserves -- the cached list behaves exactly like the plain one, and the
   harness compares it in lock step with stand-alone real txLists (list cases below). *)
Record clist := CL { cl_txs : txl; cl_costcap : N; cl_gascap : N }.

Definition cl_new : clist := CL [] 0 0.                 (* newTxList *)

(* the cache invariant: both thresholds are upper bounds over the list *)
Definition cap_okb (l : clist) : bool :=
  forallb (fun t => (cost t <=? cl_costcap l) && (t_gas t <=? cl_gascap l)) (cl_txs l).

(* txList.Add: after the replacement rule, l.txs.Put(tx), then
   if costcap < tx.Cost() { costcap = cost }; if gascap < tx.Gas() { gascap = gas } *)
Definition cl_add (t : tx) (bump : N) (l : clist) : option (clist * option tx) :=
  match l_add t bump (cl_txs l) with
  | None => None
  | Some (txs', old) =>
      Some (CL txs' (if cl_costcap l <? cost t then cost t else cl_costcap l)
                    (if cl_gascap l <? t_gas t then t_gas t else cl_gascap l), old)
  end.

(* txList.Filter: short circuit on the cached thresholds; otherwise both thresholds are
   set to the limits and the list is filtered: (removed, invalids, list) *)
Definition cl_filter (strict : bool) (bal maxgas : N) (l : clist) : txl * txl * clist :=
  if (cl_costcap l <=? bal) && (cl_gascap l <=? maxgas) then ([], [], l)
  else
    let '(removed, invalids, kept) := l_filter strict bal maxgas (cl_txs l) in
    (removed, invalids, CL kept bal maxgas).

(* the operations of txList as the pool uses them *)
Inductive lop :=
| LAdd (t : tx)                  (* Add(tx, priceBump) *)
| LFilter (bal maxgas : N)       (* Filter(costLimit, gasLimit) *)
| LForward (thr : N)             (* Forward(threshold) *)
| LRemove (n : N)                (* Remove(tx) -- by nonce *)
| LCap (k : N)                   (* Cap(threshold) *)
| LReady (start : N).            (* Ready(start) *)

(* result of an operation: accepted / found flag and the two returned lists (nonce order) *)
Record lres := LR { lr_ok : bool; lr_a : txl; lr_b : txl }.

Definition opt_list (o : option tx) : txl := match o with Some x => [x] | None => [] end.

(* one operation on the plain list (what the pool model uses) *)
Definition l_step (strict : bool) (bump : N) (l : txl) (o : lop) : txl * lres :=
  match o with
  | LAdd t => match l_add t bump l with
              | None => (l, LR false [] [])
              | Some (l', old) => (l', LR true (opt_list old) [])
              end
  | LFilter bal maxgas => let '(r, i, k) := l_filter strict bal maxgas l in (k, LR true r i)
  | LForward thr => let '(r, k) := l_forward thr l in (k, LR true r [])
  | LRemove n =>
      match l_get n l with
      | None => (l, LR false [] [])
      | Some _ => if strict then let '(i, k) := l_remove_strict n l in (k, LR true [] i)
                  else (l_remove n l, LR true [] [])
      end
  | LCap k => let '(d, kept) := l_cap k l in (kept, LR true d [])
  | LReady start => let '(r, k) := l_ready start l in (k, LR true r [])
  end.

(* the same on the cached list: only Add and Filter touch (and consult) the thresholds *)
Definition cl_step (strict : bool) (bump : N) (l : clist) (o : lop) : clist * lres :=
  match o with
  | LAdd t => match cl_add t bump l with
              | None => (l, LR false [] [])
              | Some (l', old) => (l', LR true (opt_list old) [])
              end
  | LFilter bal maxgas => let '(r, i, l') := cl_filter strict bal maxgas l in (l', LR true r i)
  | _ => let '(txs', res) := l_step strict bump (cl_txs l) o in (CL txs' (cl_costcap l) (cl_gascap l), res)
  end.

Definition cl_run (strict : bool) (bump : N) (ops : list lop) : clist :=
  fold_left (fun l o => fst (cl_step strict bump l o)) ops cl_new.
Definition l_run_ops (strict : bool) (bump : N) (ops : list lop) : txl :=
  fold_left (fun l o => fst (l_step strict bump l o)) ops [].

(* ---------- correspondence check ---------- *)
(* observation of one quiescent point, transactions as indices into the case's table *)
Record obs := Obs {
  ob_accts : list (list N * list N * N);    (* per account 0..k-1: pending, queue (nonce order), pendingNonces.get *)
  ob_locals : list N;                       (* all.locals, sorted indices *)
  ob_remotes : list N;                      (* all.remotes, sorted indices *)
  ob_localaccts : list N;                   (* pool.locals, sorted *)
  ob_gasprice : N
}.

Inductive cop :=
| CAdd (local : bool) (idx : list N)
| CSetGasPrice (price : N)
| CHead (st : chainst) (discarded included : list N)
(* correspondence-only (candidate linearisations of concurrent additions): AddRemotes/AddLocals
   return before the promotion run they request; the run may come after further additions, and
   a run only promotes the accounts whose request it has taken. *)
| CAddNoRun (local : bool) (idx : list N)     (* addTxs without the run: the dirty accounts accumulate *)
| CRunOn (accts : list N)                     (* a run promoting those of the accumulated dirty accounts listed *)
| CRunAny                                     (* a run promoting SOME subset of them (every subset is tried) *)
| CEvict (qexp pexp : list N).                (* an eviction tick (no run follows): expired queue / pending accounts *)

Definition dummy_tx : tx := T 0 0 0 0 0.
Definition tx_at (tbl : list tx) (i : N) : tx := nth (N.to_nat i) tbl dummy_tx.
Fixpoint index_of_aux (t : tx) (tbl : list tx) (i : N) : N :=
  match tbl with
  | [] => i
  | x :: r => if tx_eqb t x then i else index_of_aux t r (i + 1)
  end.
Definition index_of (tbl : list tx) (t : tx) : N := index_of_aux t tbl 0.

Definition to_op (tbl : list tx) (o : cop) : op :=
  match o with
  | CAdd l idx => OAdd l (map (tx_at tbl) idx)
  | CSetGasPrice g => OSetGasPrice g
  | CHead st d i => OHead (Reset st (map (tx_at tbl) d) (map (tx_at tbl) i))
  | CAddNoRun _ _ | CRunOn _ | CRunAny | CEvict _ _ => OTick   (* not steps of [op]: handled by cstep_exec / check_steps_d *)
  end.

Fixpoint list_eqb (a b : list N) : bool :=
  match a, b with
  | [], [] => true
  | x :: a', y :: b' => (x =? y) && list_eqb a' b'
  | _, _ => false
  end.

Fixpoint insert_sorted (x : N) (l : list N) : list N :=
  match l with
  | [] => [x]
  | y :: r => if x <=? y then x :: l else y :: insert_sorted x r
  end.
Definition sort_n (l : list N) : list N := fold_right insert_sorted [] l.

(* verdict classes compared: the two fmt.Errorf rejections are one class *)
Definition vclass (v : verdict) : N :=
  match v with
  | VOk => 0 | VKnown => 1 | VGasLimit => 11 | VLowBaseFee => 11 | VUnderpriced => 4 | VNonceLow => 5
  | VFunds => 6 | VIntrinsic => 7 | VReplaceUnderpriced => 8 | VOverflow => 9 | VInvalidSender => 10 | VOther => 11
  end.

Fixpoint seqN (start : N) (count : nat) : list N :=
  match count with O => [] | S k => start :: seqN (start + 1) k end.

Definition observe (tbl : list tx) (naccts : N) (p : pool) : obs :=
  Obs (map (fun a => (map (index_of tbl) (aget a (p_pend p)), map (index_of tbl) (aget a (p_queue p)), pn_get p a))
           (seqN 0 (N.to_nat naccts)))
      (sort_n (map (fun e => index_of tbl (fst e)) (filter (fun e => snd e) (p_all p))))
      (sort_n (map (fun e => index_of tbl (fst e)) (filter (fun e => negb (snd e)) (p_all p))))
      (sort_n (p_locals p))
      (p_gasprice p).

Fixpoint accts_eqb (a b : list (list N * list N * N)) : bool :=
  match a, b with
  | [], [] => true
  | (p1, q1, n1) :: a', (p2, q2, n2) :: b' => list_eqb p1 p2 && list_eqb q1 q2 && (n1 =? n2) && accts_eqb a' b'
  | _, _ => false
  end.
Definition obs_eqb (a b : obs) : bool :=
  accts_eqb (ob_accts a) (ob_accts b) && list_eqb (ob_locals a) (ob_locals b) && list_eqb (ob_remotes a) (ob_remotes b)
  && list_eqb (ob_localaccts a) (ob_localaccts b) && (ob_gasprice a =? ob_gasprice b).

(* a case: id, configuration, price limit, number of accounts, genesis state, transaction
   table, and one or more candidate histories (sequential cases: exactly one, every step
   checked; concurrent cases: the admissible linearisations, only the final snapshot
   checked).  A step carries the verdict classes and the snapshot observed on the real
   pool after it, when they are to be compared. *)
Definition cstep := (cop * option (list N) * option obs)%type.
Definition pcase := (N * cfg * N * N * chainst * list tx * list (list cstep))%type.

(* a list case: id, strict flag, price bump, and the operations applied to one stand-alone
   real txList (hook), each with what the real list returned (flag, two lists sorted by
   nonce) and its content and thresholds afterwards *)
Definition lobs := (bool * txl * txl * txl * N * N)%type.   (* ok, out1, out2, content, costcap, gascap *)
Definition lcase := (N * bool * N * list (lop * lobs))%type.
Definition case := (pcase + lcase)%type.

(* one checked step; [dirty] = accounts whose promotion has been requested but not run yet
   (only non-empty inside candidate linearisations using CAddNoRun / CRunOn) *)
Definition cstep_exec (c : cfg) (tbl : list tx) (p : pool) (dirty : list N) (o : cop) : pool * list verdict * list N :=
  match o with
  | CAddNoRun l idx =>
      let '(p1, vs, d) := add_txs c (map (tx_at tbl) idx) l p in (p1, vs, d ++ dirty)
  | CRunOn accts =>
      (run c None (filter (fun a => mem_n a accts) dirty) [] p, [], filter (fun a => negb (mem_n a accts)) dirty)
  | CEvict qexp pexp => (evict_tick c qexp pexp p, [], dirty)
  | _ => let '(p', vs') := step c p (to_op tbl o) [] in (p', vs', dirty)
  end.

Fixpoint powerset (l : list N) : list (list N) :=
  match l with
  | [] => [[]]
  | x :: r => let ps := powerset r in ps ++ map (cons x) ps
  end.

Fixpoint check_steps_d (c : cfg) (tbl : list tx) (naccts : N) (p : pool) (dirty : list N) (h : list cstep) : bool :=
  match h with
  | [] => negb (p_oos p)
  | (CRunAny, _, _) :: r =>
      existsb (fun accts =>
                 let '(p', _, dirty') := cstep_exec c tbl p dirty (CRunOn accts) in
                 check_steps_d c tbl naccts p' dirty' r)
              (powerset (seqN 0 (N.to_nat naccts)))
  | (o, vs, ob) :: r =>
      let '(p', vs', dirty') := cstep_exec c tbl p dirty o in
      match vs with Some v => list_eqb (map vclass vs') v | None => true end
      && match ob with Some b => obs_eqb (observe tbl naccts p') b | None => true end
      && check_steps_d c tbl naccts p' dirty' r
  end.
Definition check_steps (c : cfg) (tbl : list tx) (naccts : N) (p : pool) (h : list cstep) : bool :=
  check_steps_d c tbl naccts p [] h.

Definition pcase_ok (cs : pcase) : bool :=
  let '(_, c, price_limit, naccts, st, tbl, alts) := cs in
  existsb (check_steps c tbl naccts (init price_limit st)) alts.

Fixpoint txl_eqb (a b : txl) : bool :=
  match a, b with
  | [], [] => true
  | x :: a', y :: b' => tx_eqb x y && txl_eqb a' b'
  | _, _ => false
  end.

Fixpoint check_lops (strict : bool) (bump : N) (l : clist) (h : list (lop * lobs)) : bool :=
  match h with
  | [] => true
  | (o, (ok, o1, o2, content, cc, gc)) :: r =>
      let '(l', res) := cl_step strict bump l o in
      Bool.eqb (lr_ok res) ok && txl_eqb (lr_a res) o1 && txl_eqb (lr_b res) o2
      && txl_eqb (cl_txs l') content && (cl_costcap l' =? cc) && (cl_gascap l' =? gc)
      && check_lops strict bump l' r
  end.

Definition lcase_ok (cs : lcase) : bool :=
  let '(_, strict, bump, h) := cs in check_lops strict bump cl_new h.

Definition case_ok (cs : case) : bool :=
  match cs with inl p => pcase_ok p | inr l => lcase_ok l end.

Definition case_id (cs : case) : N :=
  match cs with
  | inl (id, _, _, _, _, _, _) => id
  | inr (id, _, _, _) => id
  end.

Definition mismatches (cs : list case) : list N :=
  map case_id (filter (fun c => negb (case_ok c)) cs).

(* C09 — executable model of the header-extension rules of go-quai:
   common/big.go (LogBig, IntrinsicLogEntropy, BitsToBigBits, ...) over modernc.org/mathutil.BinaryLog,
   core/headerchain_validation.go (CalcDifficulty, verifyHeader: zone-context rules),
   core/block_validator.go CalcGasLimit, consensus/misc/statefee.go CalcStateLimit,
   core/headerchain.go CalcBaseFee (before the KawPow fork), ComputeExpansionNumber, calcOrderCache,
   core/poem.go CalcOrder / TotalLogEntropy / DeltaLogEntropy / UncledDeltaLogEntropy.
   Definitions only; proofs are in Proofs/C09*.v.  Exact Z arithmetic; Go's big.Int.Div is Euclidean
   division, which for the positive divisors used here is Coq's floor division [/]. *)
From Coq Require Import List ZArith Bool NArith.
From Coq Require String.
Import String.StringSyntax.
From GQ Require Import Lib.Key Lib.SMap Generated.C09Params.
Import ListNotations.
Local Open Scope Z_scope.

(* ------------------------------------------------------------------------------------------ *)
(** * 1. mathutil.BinaryLog                                                                    *)

(** ** 1a. value semantics: the float (n, fracBits) of binarylog.go is the number n / 2^fracBits;
    it is represented here by x = value * 2^mb (mb = mantissaBits = maxFracBits).  Divisions by powers of
    two are written as shifts ([Z.shiftr a k = a / 2^k], [Z.shiftl 1 k = 2^k]) because the model is evaluated by vm_compute. *)

(* newFloat(n, c, mb) + normalize: value n / 2^c, rounded half-up to mb fractional bits when c > mb *)
Definition blog_init (mb n : Z) : Z :=
  let c := Z.log2 n in
  if c <=? mb then Z.shiftl n (mb - c) else Z.shiftr (n + Z.shiftl 1 (c - mb - 1)) (c - mb).

(* one iteration of the loop: sqr (round half-up to mb bits), ge2?, div2 (round half-up) *)
Definition blog_step (mb x : Z) : bool * Z :=
  let y := Z.shiftr (x * x + Z.shiftl 1 (mb - 1)) mb in
  if Z.shiftl 1 (mb + 1) <=? y then (true, Z.shiftr (y + 1) 1) else (false, y).

Fixpoint blog_mant (mb : Z) (k : nat) (x m : Z) : Z :=
  match k with
  | O => m
  | S k' => let '(b, x') := blog_step mb x in blog_mant mb k' x' (2 * m + Z.b2z b)
  end.

(* BinaryLog(n, mb) = (characteristic, mantissa); defined for n > 0 (Go panics otherwise) *)
Definition binary_log (n mb : Z) : Z * Z :=
  (Z.log2 n, blog_mant mb (Z.to_nat mb) (blog_init mb n) 0).

(** ** 1b. representation semantics: binarylog.go line by line, including the partial
    trailing-zero stripping of normalize() and the early exit on eq1().  Used by the correspondence
    check beside 1a (both must equal the observed result). *)
Record bfloat := mkF { f_n : Z; f_fb : Z }.

(* for ; f.fracBits > 0 && i <= f.fracBits && f.n.Bit(i) == 0; i++ { f.fracBits-- } *)
Fixpoint strip_loop (fuel : nat) (n fb i : Z) : Z * Z :=
  match fuel with
  | O => (fb, i)
  | S f => if (0 <? fb) && (i <=? fb) && negb (Z.testbit n i)
           then strip_loop f n (fb - 1) (i + 1) else (fb, i)
  end.

Definition normalize (mb : Z) (x : bfloat) : bfloat :=
  let n := f_n x in
  let fb := f_fb x in
  if n =? 0 then x else
  let '(n1, fb1) :=
    if 0 <? fb - mb
    then let d := fb - mb in (Z.shiftr n d + Z.b2z (Z.testbit n (d - 1)), fb - d)
    else (n, fb) in
  let '(fb2, i) := strip_loop (Z.to_nat fb1 + 1) n1 fb1 0 in
  mkF (if i =? 0 then n1 else Z.shiftr n1 i) fb2.

Definition bitlen (n : Z) : Z := if n <=? 0 then 0 else Z.log2 n + 1.
Definition f_eq1 (x : bfloat) : bool := (f_fb x =? 0) && (bitlen (f_n x) =? 1).
Definition f_ge2 (x : bfloat) : bool := f_fb x + 1 <? bitlen (f_n x).
Definition f_sqr (mb : Z) (x : bfloat) : bfloat := normalize mb (mkF (f_n x * f_n x) (2 * f_fb x)).
Definition f_div2 (mb : Z) (x : bfloat) : bfloat := normalize mb (mkF (f_n x) (f_fb x + 1)).

(* for ; mantissaBits != 0 && !x.eq1(); mantissaBits-- { x.sqr(); mantissa <<= 1; if x.ge2() { mantissa |= 1; x.div2() } } *)
Fixpoint blog_loop_f (mb : Z) (k : nat) (x : bfloat) (m : Z) : Z :=
  match k with
  | O => m
  | S k' =>
      if f_eq1 x then m else
      let x1 := f_sqr mb x in
      if f_ge2 x1 then blog_loop_f mb k' (f_div2 mb x1) (2 * m + 1)
      else blog_loop_f mb k' x1 (2 * m)
  end.

Definition binary_log_f (n mb : Z) : Z * Z :=
  let c := Z.log2 n in (c, blog_loop_f mb (Z.to_nat mb) (normalize mb (mkF n c)) 0).

(* ------------------------------------------------------------------------------------------ *)
(** * 2. common/big.go                                                                         *)

(* LogBig(diff) = c * 2^MantBits + m ; panics for diff <= 0 *)
Definition log_big (n : Z) : Z :=
  let '(c, m) := binary_log n mant_bits in c * 2 ^ mant_bits + m.
Definition log_big_f (n : Z) : Z :=
  let '(c, m) := binary_log_f n mant_bits in c * 2 ^ mant_bits + m.
Definition log_big_opt (n : Z) : option Z := if n <=? 0 then None else Some (log_big n).

(* IntrinsicLogEntropy(powHash) = LogBig(2^256 / powHash); panics for the zero hash *)
Definition intrinsic_entropy (powhash : Z) : Z := log_big (big2e256 / powhash).
Definition intrinsic_entropy_opt (powhash : Z) : option Z :=
  if powhash <=? 0 then None else log_big_opt (big2e256 / powhash).

(* BitsToBigBits: BinaryLog(original, 64), c * 2^64 + m *)
Definition bits_to_bigbits (n : Z) : Z := let '(c, m) := binary_log n 64 in c * 2 ^ 64 + m.
Definition bits_to_bigbits_opt (n : Z) : option Z := if n <=? 0 then None else Some (bits_to_bigbits n).
(* BigBitsToBits *)
Definition bigbits_to_bits (x : Z) : Z := x / big2e64.
(* EntropyBigBitsToDifficultyBits *)
Definition entropy_bigbits_to_difficulty_bits (b : Z) : Z := big2e256 / 2 ^ (b / big2e64).

(* common.BytesToHash(x.Bytes()): a big-endian byte string longer than 32 bytes keeps its LAST 32 bytes *)
Definition crop_hash (x : Z) : Z := x mod big2e256.

(* ------------------------------------------------------------------------------------------ *)
(** * 3. CalcDifficulty (core/headerchain_validation.go)                                       *)

Inductive gp_info :=
| GpNone                 (* GetHeaderByHash(parent.ParentHash()) == nil *)
| GpGenesis              (* the parent of the parent is a genesis block *)
| GpTime (t : Z).        (* otherwise: its timestamp *)

(* the retarget formula (last part of CalcDifficulty) *)
Definition retarget (dl mind pd pt gpt : Z) : Z :=
  let td0 := pt - gpt in
  let td := if max_time_diff_between_blocks <? td0 then max_time_diff_between_blocks else td0 in
  let x := (dl - td) * pd in
  let k := Z.log2 pd in                       (* characteristic of BinaryLog(parent.Difficulty(), 64) *)
  let x := x * k in
  let x := x / dl in
  let x := x / difficulty_adjustment_factor in
  let x := x / difficulty_adjustment_period in
  let x := x + pd in
  if x <? mind then mind else x.

(* genesis-parent branch: (expansionNum == 0 && parent.Location() == {}) | (genesis.ExpansionNumber() > 0 &&
   parent.Hash() == DefaultGenesisHash) | entropy-derived; None = the Go code returns nil *)
Record genesis_case := mkG {
  g_first : bool;          (* expansionNum == 0 && parent.Location().Equal(Location{}) *)
  g_second : bool;         (* genesisBlock.ExpansionNumber() > 0 && parent.Hash() == DefaultGenesisHash *)
  g_pe_prime : Z;          (* genesis.ParentEntropy(PRIME_CTX) *)
  g_expansion : Z          (* expansionNum *)
}.

Definition nthZ (l : list Z) (i : Z) : Z := nth (Z.to_nat i) l 0.
Definition prime_entropy_target (e : Z) : Z := nthZ prime_entropy_targets e.
Definition region_entropy_target (e : Z) : Z := nthZ region_entropy_targets e.

Definition calc_difficulty_genesis (pd : Z) (g : genesis_case) : option Z :=
  if g_first g then Some pd else
  if g_second g then Some pd else
  (* TotalLogEntropy(genesis) = 0 because IsGenesisHash *)
  if 0 <? g_pe_prime g then None else
  Some (entropy_bigbits_to_difficulty_bits ((0 - g_pe_prime g) / prime_entropy_target (g_expansion g))).

(* CalcDifficulty for a non-genesis parent; None = BinaryLog panics (difficulty <= 0) *)
Definition calc_difficulty (dl mind pd pt : Z) (gp : gp_info) : option Z :=
  match gp with
  | GpNone => Some pd
  | GpGenesis => Some pd
  | GpTime gpt => if pd <=? 0 then None else Some (retarget dl mind pd pt gpt)
  end.

(* ------------------------------------------------------------------------------------------ *)
(** * 4. CalcGasLimit / CalcStateLimit (uint64 arithmetic)                                     *)

Definition u64 (x : Z) : Z := x mod 2 ^ 64.
Definition min_gas_limit (number : Z) : Z := min_gas_limit_const.  (* params.MinGasLimit: constant function *)

Definition calc_limit (pnum plimit ceil : Z) : Z :=
  if pnum <? time_to_start_tx then 0 else
  let mgl := min_gas_limit pnum in
  if plimit =? 0 then mgl else
  if pnum <? u64 (2 * blocks_per_month) then
    let gl := u64 (pnum * ceil) / u64 (2 * blocks_per_month) in
    if gl <? mgl then mgl else gl
  else ceil.
Definition calc_gas_limit := calc_limit.     (* (parent.NumberU64(ZONE), parent.GasLimit(), gasCeil) *)
Definition calc_state_limit := calc_limit.   (* (parent.NumberU64(ZONE), parent.StateLimit(), stateCeil) *)

(* ------------------------------------------------------------------------------------------ *)
(** * 5. CalcBaseFee before the KawPow fork (PrimeTerminusNumber < KawPowForkBlock)            *)

(* params.OneOverKqi *)
Definition one_over_kqi (number : Z) : Z :=
  let base := if qi_activation_block <? number then 8000000000 else 26000000 in
  let dp := (365 * blocks_per_day * 269) / 100 in
  if 2 * dp <? number then base * 4 else
  let dc := number / dp in
  let rem := number mod dp in
  (dp + rem) * base * 2 ^ dc / dp.

(* misc.CalculateQuaiReward / CalculateQiReward / QiToQuai, pre-fork branch *)
Definition quai_reward (diff er : Z) : Z :=
  let r := er * log_big diff / big2e64 in if r =? 0 then 1 else r.
Definition qi_reward (diff number : Z) : Z :=
  let r := diff / one_over_kqi number in if r =? 0 then 1 else r.
Definition qi_to_quai (diff er number amt : Z) : Z := quai_reward diff er * amt / qi_reward diff number.

(* hc.CalcBaseFee(block): block genesis -> 0; exchange rate = params.ExchangeRate when the block's parent is genesis,
   else the prime terminus' rate (er_pt) *)
Definition calc_base_fee (is_genesis parent_is_genesis : bool) (er_pt diff number : Z) : Z :=
  if is_genesis then 0 else
  let er := if parent_is_genesis then initial_exchange_rate else er_pt in
  qi_to_quai diff er number min_base_fee_in_qits / tx_gas.

(* ------------------------------------------------------------------------------------------ *)
(** * 6. headers, CalcOrder, entropy sums (core/poem.go)                                       *)

Record header := mkH {
  h_hash : Z;               (* header.Hash() as an integer: identity of the block *)
  h_genesis : bool;         (* hc.IsGenesisHash(header.Hash()) *)
  h_num : Z;                (* Number(nodeCtx) *)
  h_num_prime : Z;          (* Number(PRIME_CTX) *)
  h_time : Z;
  h_diff : Z;
  h_pow : Z;                (* engine.ComputePowHash(header) as an integer (input: PoW functions are not modelled) *)
  h_ws : Z;                 (* WorkShareLogEntropy(header) (observed input before the fork; see ws_entropy_postfork) *)
  h_pe_p : Z; h_pe_r : Z; h_pe_z : Z;       (* ParentEntropy(PRIME/REGION/ZONE) *)
  h_pd_r : Z; h_pd_z : Z;                   (* ParentDeltaEntropy(REGION/ZONE) *)
  h_pud_r : Z; h_pud_z : Z;                 (* ParentUncledDeltaEntropy(REGION/ZONE) *)
  h_uncled : Z;             (* UncledEntropy *)
  h_expansion : Z;
  h_gas_limit : Z; h_gas_used : Z; h_state_limit : Z; h_state_used : Z;
  h_base_fee : Z;
  h_pt_hash : Z; h_pt_num : Z               (* PrimeTerminusHash / PrimeTerminusNumber *)
}.

Inductive co_result :=
| CoOk (entropy order : Z)
| CoErr                    (* verifySeal error: difficulty <= 0 or powHash > 2^256 / difficulty *)
| CoPanic.                 (* division by zero / BinaryLog of 0 *)

(* WorkShareLogEntropy after the fork: LogBig(len(uncles)) / AlphaInverse (0 without uncles) *)
Definition ws_entropy_postfork (n_uncles : Z) : Z :=
  (if 0 <? n_uncles then log_big n_uncles else 0) / alpha_inverse.

(* Width of the integer header fields.  Number(ctx), PrimeTerminusNumber, Difficulty, ParentEntropy, ParentDeltaEntropy,
   ParentUncledDeltaEntropy, UncledEntropy and BaseFee are *big.Int decoded from the wire with SetBytes WITHOUT a width
   limit (core/types/block.go ProtoDecode, wo.go ProtoDecode): every one of them is an unbounded Z here and every rule
   of [valid_child] compares them as unbounded integers (big.Int.Cmp / Sub in the Go code).
   The Go accessors that TRUNCATE are written explicitly:
     header.NumberU64(ctx) = Number(ctx).Uint64() = the low 64 bits          -> [num64]
       used by CalcOrder (the "number == 0" genesis shortcut), CalcGasLimit, CalcStateLimit,
       CalculateQiReward/OneOverKqi (base fee), the lock-byte rule (not modelled), WorkShareDistance;
     PrimeTerminusNumber().Uint64() (fork-height switches; not modelled: the harness stays below the forks);
     common.BytesToHash(x.Bytes()) keeps the last 32 bytes                   -> [crop_hash].
   The number rule itself ("number is parent+1", [rule_number]) is NOT truncated: verifyHeader subtracts big.Ints. *)
Definition num64 (h : header) : Z := u64 (h_num h).

(* CalcOrder without the memo *)
Definition calc_order (h : header) : co_result :=
  if num64 h =? 0 then CoOk 0 ctx_prime else
  (* hc.verifySeal (PowMode normal): difficulty sign, then powHash <= target *)
  if h_diff h <=? 0 then CoErr else
  let target := big2e256 / h_diff h in
  if target <? h_pow h then CoErr else
  if h_pow h <=? 0 then CoPanic else
  let ie := intrinsic_entropy (h_pow h) in
  if crop_hash target <=? 0 then CoPanic else
  let zt := intrinsic_entropy (crop_hash target) in
  let e := h_expansion h in
  let pet := prime_entropy_target e in
  let tot_p := h_pd_r h + h_pd_z h + ie in
  let tgt_p := pet * zt / big2 in
  let thr_p := zt + bits_to_bigbits pet in
  if (thr_p <? ie) && (tgt_p <? tot_p) then CoOk ie ctx_prime else
  let tot_r := h_pd_z h + ie in
  let ret := region_entropy_target e in
  let tgt_r := zt * ret / big2 in
  let thr_r := zt + bits_to_bigbits ret in
  if (thr_r <? ie) && (tgt_r <? tot_r) then CoOk ie ctx_region else
  CoOk ie ctx_zone.

(* TotalLogEntropy in a node of context [ctx]; errors are logged and 0 is returned, as in the code.
   The [_of] variants take the result [co] of CalcOrder(h) as an argument so that an evaluation of
   several of them on the same header computes the order once (vm_compute is call-by-value). *)
Definition total_entropy_of (co : co_result) (ctx : Z) (h : header) : Z :=
  if h_genesis h then 0 else
  match co with
  | CoOk ie o =>
      let ie := if ctx =? ctx_zone then ie + h_ws h else ie in
      if o =? ctx_prime then h_pe_p h + h_pd_r h + h_pd_z h + ie
      else if o =? ctx_region then h_pe_r h + h_pd_z h + ie
      else if o =? ctx_zone then h_pe_z h + ie
      else 0
  | _ => 0
  end.
Definition total_entropy (ctx : Z) (h : header) : Z := total_entropy_of (calc_order h) ctx h.

Definition delta_entropy_of (co : co_result) (ctx : Z) (h : header) : Z :=
  if h_genesis h then 0 else
  match co with
  | CoOk ie o =>
      let ie := if ctx =? ctx_zone then ie + h_ws h else ie in
      if o =? ctx_prime then 0
      else if o =? ctx_region then h_pd_r h + h_pd_z h + ie
      else if o =? ctx_zone then h_pd_z h + ie
      else 0
  | _ => 0
  end.
Definition delta_entropy (ctx : Z) (h : header) : Z := delta_entropy_of (calc_order h) ctx h.

Definition uncled_delta_entropy_of (co : co_result) (h : header) : Z :=
  if h_genesis h then 0 else
  match co with
  | CoOk _ o =>
      if o =? ctx_prime then 0
      else if o =? ctx_region then h_pud_r h + h_pud_z h + h_uncled h
      else if o =? ctx_zone then h_pud_z h + h_uncled h
      else 0
  | _ => 0
  end.
Definition uncled_delta_entropy (h : header) : Z := uncled_delta_entropy_of (calc_order h) h.

(* ------------------------------------------------------------------------------------------ *)
(** * 7. verifyHeader, zone context: the modelled subset of rules                              *)

Record pt_info := mkPT {
  pt_found : bool;           (* GetBlockByHash(primeTerminusHash) != nil *)
  pt_genesis : bool;         (* IsGenesisHash(primeTerminusHash): a genesis block of THIS slice (the node's database) *)
  pt_expansion : Z; pt_threshold : Z;      (* primeTerminus.ExpansionNumber() / ThresholdCount() *)
  ppt_found : bool; ppt_expansion : Z      (* fetchPrimeBlock(primeTerminus.ParentHash(PRIME)) *)
}.

Record env := mkEnv {
  e_now : Z;                 (* unixNow *)
  e_dl : Z; e_mind : Z; e_gas_ceil : Z;    (* powConfig.DurationLimit / MinDifficulty / GasCeil *)
  e_gp : gp_info;            (* the parent's parent as CalcDifficulty sees it *)
  e_gcase : genesis_case;    (* only used when the parent is a genesis block *)
  e_pt_self : pt_info;       (* database view when the prime terminus is the parent itself (prime-order parent) *)
  e_pt_ref : pt_info;        (* database view of parent.PrimeTerminusHash() *)
  e_er_pt : Z;               (* ExchangeRate of GetBlockByHash(parent.PrimeTerminusHash()) *)
  e_loc : Z * Z              (* hc.NodeLocation() of the zone node: (region, zone) *)
}.

(* hc.NodeLocation().Equal(common.Location{0, 0}): the original slice.  Every other slice starts from an expansion
   genesis: a prime block of the old tree whose threshold count matured. *)
Definition loc00 (e : env) : bool := (fst (e_loc e) =? 0) && (snd (e_loc e) =? 0).

Definition u8 (x : Z) : Z := x mod 256.

Definition order_of (co : co_result) : option Z := match co with CoOk _ o => Some o | _ => None end.
Definition parent_order (p : header) : option Z := order_of (calc_order p).
Definition is_prime_of (co : co_result) : bool :=
  match order_of co with Some o => o =? ctx_prime | None => false end.
Definition parent_is_prime (p : header) : bool := is_prime_of (calc_order p).

(* ComputeExpansionNumber(parent): [i] = the database view of the prime terminus of the child, [l00] = the node sits in
   the original slice [0,0].  The "terminus is genesis" shortcut hands the expansion number down unchanged ONLY in
   slice [0,0] (IsGenesisHash(primeTerminusHash) && NodeLocation().Equal(Location{0, 0})); in every other slice a
   genesis terminus goes through the same two branches as an ordinary one. *)
Definition expansion_of (l00 : bool) (i : pt_info) : option Z :=
  if negb (pt_found i) then None else
  if pt_genesis i && l00 then Some (pt_expansion i) else
  if pt_threshold i =? tree_expansion_trigger_window + tree_expansion_wait_count
  then Some (u8 (pt_expansion i + 1)) else
  if negb (ppt_found i) then None else Some (ppt_expansion i).
Definition expected_expansion_of (co : co_result) (e : env) : option Z :=
  match order_of co with
  | None => None
  | Some o => expansion_of (loc00 e) (if o =? ctx_prime then e_pt_self e else e_pt_ref e)
  end.
Definition expected_expansion (e : env) (p : header) : option Z := expected_expansion_of (calc_order p) e.

Definition expected_difficulty (e : env) (p : header) : option Z :=
  if h_genesis p then calc_difficulty_genesis (h_diff p) (e_gcase e)
  else calc_difficulty (e_dl e) (e_mind e) (h_diff p) (h_time p) (e_gp e).

Definition expected_parent_entropy_of (co : co_result) (p : header) : Z := total_entropy_of co ctx_zone p.
Definition expected_parent_entropy (p : header) : Z := expected_parent_entropy_of (calc_order p) p.
Definition expected_parent_delta_of (co : co_result) (p : header) : Z :=
  match order_of co with
  | Some o => if o <? ctx_zone then 0 else delta_entropy_of co ctx_zone p
  | None => 0
  end.
Definition expected_parent_delta (p : header) : Z := expected_parent_delta_of (calc_order p) p.
Definition expected_parent_uncled_delta_of (co : co_result) (p : header) : Z :=
  match order_of co with
  | Some o => if o <? ctx_zone then 0 else uncled_delta_entropy_of co p
  | None => 0
  end.
Definition expected_parent_uncled_delta (p : header) : Z := expected_parent_uncled_delta_of (calc_order p) p.
Definition expected_gas_limit (e : env) (p : header) : Z := calc_gas_limit (num64 p) (h_gas_limit p) (e_gas_ceil e).
Definition expected_state_limit (p : header) : Z := calc_state_limit (num64 p) (h_state_limit p) state_ceil.
Definition expected_base_fee (e : env) (p : header) : Z :=
  calc_base_fee (h_genesis p) (match e_gp e with GpGenesis => true | _ => false end) (e_er_pt e) (h_diff p) (num64 p).
Definition expected_pt_hash_of (co : co_result) (p : header) : Z :=
  if is_prime_of co then h_hash p else if h_genesis p then h_hash p else h_pt_hash p.
Definition expected_pt_hash (p : header) : Z := expected_pt_hash_of (calc_order p) p.
Definition expected_pt_num_of (co : co_result) (p : header) : Z :=
  if is_prime_of co then h_num_prime p else if h_genesis p then h_num_prime p else h_pt_num p.
Definition expected_pt_num (p : header) : Z := expected_pt_num_of (calc_order p) p.
Definition expected_number (p : header) : Z := (if h_genesis p then 0 else h_num p) + 1.

Definition opt_eqb (a : option Z) (b : Z) : bool := match a with Some x => x =? b | None => false end.

Definition rule_time_future (e : env) (c : header) : bool := h_time c <=? e_now e + allowed_future_block_time.
Definition rule_time_parent (p c : header) : bool := h_time p <=? h_time c.
Definition rule_difficulty (e : env) (p c : header) : bool := opt_eqb (expected_difficulty e p) (h_diff c).
Definition rule_parent_order_of (co : co_result) : bool :=
  match order_of co with Some o => o <=? ctx_zone | None => false end.
Definition rule_parent_order (p : header) : bool := rule_parent_order_of (calc_order p).
Definition rule_parent_entropy (p c : header) : bool := expected_parent_entropy p =? h_pe_z c.
Definition rule_parent_delta (p c : header) : bool := expected_parent_delta p =? h_pd_z c.
Definition rule_parent_uncled_delta (p c : header) : bool := expected_parent_uncled_delta p =? h_pud_z c.
Definition rule_expansion (e : env) (p c : header) : bool := opt_eqb (expected_expansion e p) (h_expansion c).
Definition rule_gas (e : env) (p c : header) : bool :=
  (h_gas_limit c <=? 2 ^ 63 - 1) && (h_gas_used c <=? h_gas_limit c) && (expected_gas_limit e p =? h_gas_limit c).
Definition rule_state (p c : header) : bool :=
  (h_state_used c <=? h_state_limit c) && (expected_state_limit p =? h_state_limit c).
Definition rule_base_fee (e : env) (p c : header) : bool := expected_base_fee e p =? h_base_fee c.
Definition rule_pt (p c : header) : bool :=
  (expected_pt_hash p =? h_pt_hash c) && (expected_pt_num p =? h_pt_num c).
(* the number rule on unbounded integers: header.Number(ctx) - parentNumber == 1 with big.Int arithmetic; a number
   congruent to parent+1 modulo 2^64 (or any other width) is NOT parent+1 *)
Definition rule_number (p c : header) : bool := h_num c =? expected_number p.

(* verifyHeader(header = c, parent = p, uncle = false, unixNow) in a zone node, restricted to the rules above
   (the remaining checks — extra size, body/header hash binding, location, coinbase scope, pow id, lock byte, data,
   share fields — are not modelled; the harness keeps them satisfied) *)
Definition valid_child (e : env) (p c : header) : bool :=
  rule_time_future e c && rule_time_parent p c && rule_difficulty e p c && rule_parent_order p &&
  rule_parent_entropy p c && rule_parent_delta p c && rule_parent_uncled_delta p c &&
  rule_expansion e p c && rule_gas e p c && rule_state p c && rule_base_fee e p c && rule_pt p c &&
  rule_number p c.

(* the same predicate with CalcOrder(parent) evaluated once (Proofs: valid_child_fast_eq) *)
Definition valid_child_fast (e : env) (p c : header) : bool :=
  let co := calc_order p in
  rule_time_future e c && rule_time_parent p c && rule_difficulty e p c && rule_parent_order_of co &&
  (expected_parent_entropy_of co p =? h_pe_z c) && (expected_parent_delta_of co p =? h_pd_z c) &&
  (expected_parent_uncled_delta_of co p =? h_pud_z c) &&
  opt_eqb (expected_expansion_of co e) (h_expansion c) && rule_gas e p c && rule_state p c && rule_base_fee e p c &&
  ((expected_pt_hash_of co p =? h_pt_hash c) && (expected_pt_num_of co p =? h_pt_num c)) &&
  rule_number p c.

(* ------------------------------------------------------------------------------------------ *)
(** * 7b. after the KawPow fork: share-difficulty fields, fork-aware base fee                  *)

(* every fork switch reads PrimeTerminusNumber().Uint64(): the low 64 bits *)
Definition ptn64 (ptn : Z) : Z := u64 ptn.
Definition post_fork (ptn : Z) : bool := kawpow_fork_block <=? ptn64 ptn.

(* the share data of a header that carries them (after the fork ProtoDecode insists on all nine) and what
   hc.CountWorkSharesByAlgo finds in its body (sha / scrypt shares, and those of them with an out-of-scope coinbase) *)
Record pshares := mkPS {
  ps_sha_diff : Z; ps_sha_count : Z; ps_sha_uncled : Z;
  ps_scr_diff : Z; ps_scr_count : Z; ps_scr_uncled : Z;
  ps_sha_target : Z; ps_scr_target : Z; ps_kawpow : Z;
  ps_n_sha : Z; ps_n_sha_uncled : Z; ps_n_scr : Z; ps_n_scr_uncled : Z
}.

(* the share fields of a child as verifyHeader reads them: None = nil *)
Record shares := mkSh {
  sh_sha_diff : option Z; sh_sha_count : option Z; sh_sha_uncled : option Z;
  sh_scr_diff : option Z; sh_scr_count : option Z; sh_scr_uncled : option Z;
  sh_sha_target : option Z; sh_scr_target : option Z; sh_kawpow : option Z
}.

(* the exponential moving average used for the share counts: (old * (n-1) + new) / n *)
Definition ema (n old new : Z) : Z := (old * (n - 1) + new) / n.

(* hc.CalculatePowDiffAndCount(parent, header, powId) for powId = SHA_BTC/SHA_BCH ([sha] = true) or Scrypt; [ptn] =
   header.PrimeTerminusNumber(), [pdiff] = parent.Difficulty(); None = BinaryLog panics (share difficulty <= 0) *)
Definition pow_diff_and_count (sha : bool) (ptn pdiff : Z) (ps : pshares) : option (Z * Z * Z) :=
  if ptn64 ptn =? kawpow_fork_block then
    let rate := pdiff / duration_limit_default in         (* params.DurationLimit, not the node's powConfig *)
    if sha then Some (rate * initial_sha_diff_multiple * sha_block_time / big3, target_sha_shares, 0)
    else Some (rate * initial_scrypt_diff_multiple * scrypt_block_time / big3, target_sha_shares, 0)
  else
    let late := conversion_stability_fork_block <=? ptn64 ptn in
    let n := if late then new_work_share_ema_blocks else work_share_ema_blocks in
    let d := if sha then ps_sha_diff ps else ps_scr_diff ps in
    let cnt := if sha then ps_sha_count ps else ps_scr_count ps in
    let unc := if sha then ps_sha_uncled ps else ps_scr_uncled ps in
    let num := (if sha then ps_n_sha ps else ps_n_scr ps) * big2e32 in
    let uncs := (if sha then ps_n_sha_uncled ps else ps_n_scr_uncled ps) * big2e32 in
    let err := num - (if sha then ps_sha_target ps else ps_scr_target ps) in
    let adj := if late then new_pow_diff_adjustment_factor else pow_diff_adjustment_factor in
    if d <=? 0 then None else
    let nd := err * d * Z.log2 d / adj / big2e32 + d in
    let lb := if sha then sha_diff_lower_bound else scrypt_diff_lower_bound in
    let nd := if kquai_reset_after_kawpow_fork_block <=? ptn64 ptn then (if nd <? lb then lb else nd) else nd in
    Some (nd, ema n cnt num, ema n unc uncs).

(* hc.CalculateShareTarget(parent, header); None = division by a zero parent difficulty *)
Definition share_target (ptn pdiff : Z) (ps : pshares) : option Z :=
  if ptn64 ptn =? kawpow_fork_block then Some target_sha_shares else
  if ptn64 ptn <? inclusion_depth_change_block then
    if pdiff <=? 0 then None else
    let maxs := ps_kawpow ps * max_subsidy_numerator / max_subsidy_denominator in
    let t := (pdiff - maxs) * ps_sha_target ps / pdiff / blocks_per_day + ps_sha_target ps in
    Some (Z.min (Z.max t target_sha_shares) max_sha_shares)
  else if ptn64 ptn <? inclusion_depth_change_block + inclusion_depth_update_period then
    Some (target_sha_shares + (max_sha_shares - target_sha_shares) * (ptn64 ptn - inclusion_depth_change_block)
                              / inclusion_depth_update_period)
  else Some max_sha_shares.

(* hc.CalculateKawpowDifficulty(parent, header) for a parent without AuxPow (a ProgPoW block of the transition period; the
   AuxPow branch - liveness of the template, the donor header's bits - is not modelled) *)
Definition kawpow_difficulty (ptn : Z) (ps : pshares) : Z :=
  if ptn64 ptn =? kawpow_fork_block then initial_kawpow_diff else ps_kawpow ps.

(* the nine values in the order verifyHeader compares them *)
Definition expected_shares (ptn pdiff : Z) (ps : pshares) : option (list Z) :=
  match pow_diff_and_count true ptn pdiff ps, pow_diff_and_count false ptn pdiff ps, share_target ptn pdiff ps with
  | Some (d1, c1, u1), Some (d2, c2, u2), Some t => Some [d1; c1; u1; d2; c2; u2; t; t; kawpow_difficulty ptn ps]
  | _, _, _ => None
  end.

Definition shares_list (cs : shares) : list (option Z) :=
  [sh_sha_diff cs; sh_sha_count cs; sh_sha_uncled cs; sh_scr_diff cs; sh_scr_count cs; sh_scr_uncled cs;
   sh_sha_target cs; sh_scr_target cs; sh_kawpow cs].
Definition is_none (a : option Z) : bool := match a with None => true | Some _ => false end.
Fixpoint opts_eqb (a : list (option Z)) (b : list Z) : bool :=
  match a, b with
  | [], [] => true
  | x :: a', y :: b' => opt_eqb x y && opts_eqb a' b'
  | _, _ => false
  end.

(* the share rules of verifyHeader: after the fork each of the nine fields equals the value derived from the parent, before
   the fork each of them is nil ([ptn] is the CHILD's prime terminus number; a panic of a helper counts as a rejection) *)
Definition rule_shares (ptn pdiff : Z) (ps : pshares) (cs : shares) : bool :=
  if post_fork ptn then
    match expected_shares ptn pdiff ps with
    | Some want => opts_eqb (shares_list cs) want
    | None => false
    end
  else forallb is_none (shares_list cs).

(* misc.KawPowEquivalentDifficulty / ShaAnchoredEquivalentDifficulty / ForkAwareKawPowEquivalentDifficulty *)
Definition kawpow_equivalent_difficulty (diff sha_count scr_count : Z) : Z :=
  let expected := (expected_workshares_per_block + 1) * big2e32 in
  let total := Z.min (scr_count + sha_count) (expected - big2e32) in
  diff * expected / (expected - total).
Definition fork_aware_difficulty (ptn diff : Z) (ps : pshares) : Z :=
  if ptn64 ptn <? sha_equivalent_difficulty_fork_block
  then kawpow_equivalent_difficulty diff (ps_sha_count ps) (ps_scr_count ps)
  else let n := ps_sha_diff ps / initial_sha_diff_multiple in
       kawpow_equivalent_difficulty
         (if n <? min_difficulty_for_sha_equivalent_difficulty then min_difficulty_for_sha_equivalent_difficulty else n)
         (ps_sha_count ps) (ps_scr_count ps).

(* misc.CalculateQuaiReward / CalculateQiReward / QiToQuai in both regimes ([ptn] = the block's own prime terminus number;
   big.Int.Quo truncates: [Z.quot]); None = LogBig panics *)
Definition reward_difficulty (ptn diff : Z) (ps : pshares) : Z :=
  if post_fork ptn then fork_aware_difficulty ptn diff ps else diff.
Definition quai_reward_x (ptn diff er : Z) (ps : pshares) : option Z :=
  let d := reward_difficulty ptn diff ps in
  if d <=? 0 then None else
  let ld := log_big d in
  let ld := if kquai_reset_after_kawpow_fork_block <=? ptn64 ptn then ld - log_big kquai_difficulty_divisor else ld in
  let r := Z.quot (er * ld) big2e64 in
  Some (if r =? 0 then 1 else r).
Definition qi_reward_x (ptn diff number : Z) (ps : pshares) : Z :=
  let r := Z.quot (reward_difficulty ptn diff ps) (one_over_kqi number) in if r =? 0 then 1 else r.

(* hc.CalcBaseFee(block) in both regimes *)
Definition calc_base_fee_x (is_genesis parent_is_genesis : bool) (er_pt diff number ptn : Z) (ps : pshares) : option Z :=
  if is_genesis then Some 0 else
  let er := if parent_is_genesis then initial_exchange_rate else er_pt in
  match quai_reward_x ptn diff er ps with
  | None => None
  | Some q => Some (Z.quot (q * min_base_fee_in_qits) (qi_reward_x ptn diff number ps) / tx_gas)
  end.

Definition expected_base_fee_x (e : env) (p : header) (ps : pshares) : option Z :=
  calc_base_fee_x (h_genesis p) (match e_gp e with GpGenesis => true | _ => false end) (e_er_pt e) (h_diff p) (num64 p)
                  (h_pt_num p) ps.
Definition rule_base_fee_x (e : env) (p c : header) (ps : pshares) : bool :=
  opt_eqb (expected_base_fee_x e p ps) (h_base_fee c).

(* CheckPowIdValidity for a header WITHOUT AuxPow (the only kind the harness fabricates): allowed before the fork and in
   the transition period after it *)
Definition rule_pow_id_no_auxpow (ptn : Z) : bool := ptn64 ptn <=? kawpow_fork_block + kawpow_transition_period.

(* every modelled rule except the base fee (the order of CalcOrder(parent) evaluated once) *)
Definition valid_child_core (e : env) (p c : header) : bool :=
  let co := calc_order p in
  rule_time_future e c && rule_time_parent p c && rule_difficulty e p c && rule_parent_order_of co &&
  (expected_parent_entropy_of co p =? h_pe_z c) && (expected_parent_delta_of co p =? h_pd_z c) &&
  (expected_parent_uncled_delta_of co p =? h_pud_z c) &&
  opt_eqb (expected_expansion_of co e) (h_expansion c) && rule_gas e p c && rule_state p c &&
  ((expected_pt_hash_of co p =? h_pt_hash c) && (expected_pt_num_of co p =? h_pt_num c)) &&
  rule_number p c.

(* verifyHeader in a zone node in BOTH fork regimes, for headers without AuxPow: [ps] = the parent's share data (unused
   when the child sits on the fork block itself or before it), [cs] = the child's share fields *)
Definition valid_child_x (e : env) (p c : header) (ps : pshares) (cs : shares) : bool :=
  valid_child_core e p c && rule_pow_id_no_auxpow (h_pt_num c) && rule_base_fee_x e p c ps &&
  rule_shares (h_pt_num c) (h_diff p) ps cs.

(* the rejection sites of verifyHeader in source order and what the model does with each: the first components must equal
   the inventory generated from the source text (Generated/C09Params.v verify_header_sites_src) *)
Inductive site_class :=
| SModel        (* a rule of valid_child_x *)
| SZoneOther    (* zone-context rule outside the model: kept satisfied, one monitor-only deviation each *)
| SDomOnly      (* prime / region context only *)
| SAuxPow.      (* only for headers with AuxPow *)
Local Open Scope string_scope.
Definition verify_header_sites : list (String.string * site_class) := [
  ("extra-data too long", SZoneOther);
  ("invalid header hash", SZoneOther);
  ("ErrFutureBlock", SModel);
  ("ErrOlderBlockTime", SModel);
  ("invalid difficulty", SModel);
  ("err<-CalcOrder", SModel);
  ("order of the block is greater than the context", SModel);
  ("block location is not in the same slice as the node location", SZoneOther);
  ("invalid parent entropy", SModel);
  ("invalid parent delta entropy", SModel);
  ("invalid parent delta entropy", SModel);
  ("invalid parent uncled sub delta entropy", SModel);
  ("invalid parent uncled sub delta entropy", SModel);
  ("invalid efficiency score", SDomOnly);
  ("invalid threshold count", SDomOnly);
  ("err<-ComputeEfficiencyScore", SDomOnly);
  ("invalid efficiency score", SDomOnly);
  ("invalid threshold count", SDomOnly);
  ("invalid etx eligible slices", SDomOnly);
  ("invalid prime state root", SDomOnly);
  ("invalid region state root", SDomOnly);
  ("invalid miner difficulty", SDomOnly);
  ("err<-ComputeExpansionNumber", SModel);
  ("invalid expansion number", SModel);
  ("Qi coinbase is not allowed before block", SZoneOther);
  ("err<-CheckPowIdValidity", SModel);
  ("err<-ExtractSignatureTimeFromCoinbase", SAuxPow);
  ("auxpow header time", SAuxPow);
  ("quai block time", SAuxPow);
  ("coinbase seal hash not found in the auxpow", SAuxPow);
  ("coinbase seal hash does not match uncle seal hash, expected", SAuxPow);
  ("auxpow2 is shorter than a hash for scrypt powid", SAuxPow);
  ("auxpow2 is empty for scrypt powid", SAuxPow);
  ("coinbase seal hash does not match uncle aux merkle root, expected", SAuxPow);
  ("err<-ExtractMerkleSizeAndNonceFromCoinbase", SAuxPow);
  ("invalid merkle size", SAuxPow);
  ("invalid merkle nonce", SAuxPow);
  ("invalid merkle root in auxpow", SAuxPow);
  ("invalid prev out point index and sequence in coinbase transaction", SAuxPow);
  ("invalid auxpow signature", SAuxPow);
  ("out-of-scope primary coinbase in the header", SZoneOther);
  ("header lock byte", SZoneOther);
  ("header data field is empty", SZoneOther);
  ("lock byte header data", SZoneOther);
  ("out-of-scope lockup contract in the header", SZoneOther);
  ("out-of-scope beneficiary in the header", SZoneOther);
  ("invalid gasLimit", SModel);
  ("invalid gasUsed", SModel);
  ("invalid gasLimit", SModel);
  ("invalid stateUsed", SModel);
  ("invalid StateLimit", SModel);
  ("invalid baseFee", SModel);
  ("invalid primeTerminusHash", SModel);
  ("invalid primeTerminusNumber", SModel);
  ("invalid sha difficulty", SModel);
  ("invalid sha count", SModel);
  ("invalid sha uncled", SModel);
  ("invalid scrypt difficulty", SModel);
  ("invalid scrypt count", SModel);
  ("invalid scrypt uncled", SModel);
  ("sha diff and count must be nil before kawpow fork block", SModel);
  ("scrypt diff and count must be nil before kawpow fork block", SModel);
  ("invalid sha share target", SModel);
  ("invalid scrypt share target", SModel);
  ("invalid kawpow difficulty", SModel);
  ("sha share target must be nil before kawpow fork block", SModel);
  ("scrypt share target must be nil before kawpow fork block", SModel);
  ("kawpow difficulty must be nil before kawpow fork block", SModel);
  ("ErrInvalidNumber", SModel)
].
Local Close Scope string_scope.
Fixpoint strings_eqb (a b : list String.string) : bool :=
  match a, b with
  | [], [] => true
  | x :: a', y :: b' => String.eqb x y && strings_eqb a' b'
  | _, _ => false
  end.
Definition is_model_site (c : site_class) : bool := match c with SModel => true | _ => false end.
Definition is_zone_other_site (c : site_class) : bool := match c with SZoneOther => true | _ => false end.
Definition sites_match_source : bool := strings_eqb (map fst verify_header_sites) verify_header_sites_src.
Definition modelled_sites : Z := Z.of_nat (length (filter (fun s => is_model_site (snd s)) verify_header_sites)).
Definition zone_other_sites : Z := Z.of_nat (length (filter (fun s => is_zone_other_site (snd s)) verify_header_sites)).

(* ------------------------------------------------------------------------------------------ *)
(** * 8. the CalcOrder memo (hc.calcOrderCache)                                                *)

Definition hkey (h : header) : key := [Z.to_N (h_hash h)].
Definition cache := smap (Z * Z).

(* CheckInCalcOrderCache: an entry with zero entropy is ignored *)
Definition cache_lookup (c : cache) (k : key) : option (Z * Z) :=
  match get k c with
  | Some (e, o) => if e =? 0 then None else Some (e, o)
  | None => None
  end.
(* AddToCalcOrderCache: refuses zero entropy *)
Definition cache_add (c : cache) (k : key) (e o : Z) : cache :=
  if e =? 0 then c else put k (e, o) c.

(* CalcOrder with the memo: returns the new cache and the result *)
Definition calc_order_cached (c : cache) (h : header) : cache * co_result :=
  match cache_lookup c (hkey h) with
  | Some (e, o) => (c, CoOk e o)
  | None =>
      match calc_order h with
      | CoOk e o => if num64 h =? 0 then (c, CoOk e o) else (cache_add c (hkey h) e o, CoOk e o)
      | r => (c, r)
      end
  end.

Inductive cache_op :=
| OpCall (h : header)        (* hc.CalcOrder(h) *)
| OpEvict (k : Z)            (* LRU eviction of one entry / Remove *)
| OpPurge.                   (* restart: empty memo *)

Definition cache_step (c : cache) (o : cache_op) : cache * option co_result :=
  match o with
  | OpCall h => let '(c', r) := calc_order_cached c h in (c', Some r)
  | OpEvict k => (del [Z.to_N k] c, None)
  | OpPurge => ([], None)
  end.

Fixpoint cache_run (c : cache) (ops : list cache_op) : list (option co_result) :=
  match ops with
  | [] => []
  | o :: ops' => let '(c', r) := cache_step c o in r :: cache_run c' ops'
  end.

Definition cache_state (c : cache) (ops : list cache_op) : cache :=
  fold_left (fun st o => fst (cache_step st o)) ops c.

(* ------------------------------------------------------------------------------------------ *)
(** * 8b. histories of CalcOrder / TotalLogEntropy / DeltaLogEntropy / UncledDeltaLogEntropy calls

   The only state these functions share is the CalcOrder memo: TotalLogEntropy, DeltaLogEntropy and
   UncledDeltaLogEntropy call hc.CalcOrder(header) (through the memo) and then ADD to the returned entropy.  In the Go
   code the returned *big.Int IS the memoised object, so the sums must be formed in fresh integers
   (new(big.Int).Add(...)); the model expresses that by value semantics: a call never changes a stored entry.  The
   harness checks this on the real code (monitors hist:.. and alias:..), the correspondence check compares every
   result of a history with [hist_run]. *)
Inductive hist_fn := FOrder | FTotal | FDelta | FUDelta.
Inductive hist_res :=
| ROrder (r : co_result)
| RZ (z : Z)
| RPanic.                   (* CalcOrder panicked inside Total/Delta/UncledDelta *)

Definition hist_fn_sum (f : hist_fn) : bool := match f with FOrder => false | _ => true end.

Definition hist_project (ctx : Z) (f : hist_fn) (h : header) (co : co_result) : hist_res :=
  match f with
  | FOrder => ROrder co
  | _ =>
    match co with
    | CoPanic => RPanic
    | _ => RZ (match f with
               | FTotal => total_entropy_of co ctx h
               | FDelta => delta_entropy_of co ctx h
               | _ => uncled_delta_entropy_of co h
               end)
    end
  end.

(* the function of the header alone (no memo) *)
Definition hist_pure (ctx : Z) (f : hist_fn) (h : header) : hist_res :=
  if hist_fn_sum f && h_genesis h then RZ 0 else hist_project ctx f h (calc_order h).

Inductive hist_op :=
| HCall (f : hist_fn) (h : header)
| HEvict (k : Z)
| HPurge.

Definition hist_step (ctx : Z) (c : cache) (o : hist_op) : cache * option hist_res :=
  match o with
  | HCall f h =>
      (* IsGenesisHash(header.Hash()) is tested BEFORE CalcOrder in the three sums: memo untouched *)
      if hist_fn_sum f && h_genesis h then (c, Some (RZ 0)) else
      let '(c', r) := calc_order_cached c h in (c', Some (hist_project ctx f h r))
  | HEvict k => (del [Z.to_N k] c, None)
  | HPurge => ([], None)
  end.

Fixpoint hist_run (ctx : Z) (c : cache) (ops : list hist_op) : list (option hist_res) :=
  match ops with
  | [] => []
  | o :: ops' => let '(c', r) := hist_step ctx c o in r :: hist_run ctx c' ops'
  end.

Definition hist_uncached (ctx : Z) (o : hist_op) : option hist_res :=
  match o with HCall f h => Some (hist_pure ctx f h) | _ => None end.

(* compact encoding used by the correspondence cases: (code, index into the pool); codes 0..3 = the four functions,
   4 = eviction of pool[index], 5 = purge *)
Definition zero_header : header := mkH 0 false 0 0 0 0 0 0 0 0 0 0 0 0 0 0 0 0 0 0 0 0 0 0.
Definition hist_decode (pool : list header) (p : Z * Z) : hist_op :=
  let h := nth (Z.to_nat (snd p)) pool zero_header in
  if fst p =? 0 then HCall FOrder h else
  if fst p =? 1 then HCall FTotal h else
  if fst p =? 2 then HCall FDelta h else
  if fst p =? 3 then HCall FUDelta h else
  if fst p =? 4 then HEvict (h_hash h) else HPurge.

(* ------------------------------------------------------------------------------------------ *)
(** * 8c. HeaderChain.VerifyHeader / AppendHeader and the block store                           *)

(* What the node's database knows about a header hash.
     StCandidate: the work object was stored by HeaderChain.WriteBlock (Core.WriteBlock does that for every block
                  received from a peer BEFORE it is appended; a failed append leaves the same state behind):
                  GetHeaderOrCandidateByHash answers, GetHeaderByHash does not (no termini);
     StAppended : Slice.Append went through and wrote the termini: GetHeaderByHash answers. *)
Inductive store_status := StUnknown | StCandidate | StAppended.

(* HeaderChain.VerifyHeader(c) (PowMode normal):
     if hc.GetHeaderByHash(c.Hash()) != nil { return nil }           -- only a header that IS part of the chain
     parent := hc.GetBlockByHash(c.ParentHash()); nil -> ErrUnknownAncestor
     return hc.verifyHeader(c, parent, false, time.Now().Unix())
   [par] = the stored parent together with the database view around it (None: unknown ancestor). *)
Definition verify_header_top (st : store_status) (par : option (env * header)) (c : header) : bool :=
  match st with
  | StAppended => true
  | _ => match par with
         | None => false
         | Some (e, p) => valid_child_fast e p c
         end
  end.

Inductive store_op :=
| SoVerify          (* hc.VerifyHeader(c) *)
| SoAppendHeader    (* hc.AppendHeader(c): VerifyHeader, then the manifest commitment (kept satisfied by the harness) *)
| SoWrite           (* hc.WriteBlock(c): stored as a candidate *)
| SoPurge           (* every memo purged *)
| SoRestart         (* a new HeaderChain over the same database *)
| SoCommit.         (* Slice.Append finished: termini written, the header is part of the chain *)

Definition store_step (par : option (env * header)) (c : header) (st : store_status) (op : store_op)
  : store_status * option bool :=
  match op with
  | SoVerify | SoAppendHeader => (st, Some (verify_header_top st par c))
  | SoWrite => (match st with StAppended => StAppended | _ => StCandidate end, None)
  | SoPurge | SoRestart => (st, None)
  | SoCommit => (StAppended, None)
  end.

Fixpoint store_run (par : option (env * header)) (c : header) (st : store_status) (ops : list store_op)
  : list (option bool) :=
  match ops with
  | [] => []
  | op :: rest => let r := store_step par c st op in snd r :: store_run par c (fst r) rest
  end.

(* the same run with the verdict of verifyHeader computed once (vm_compute is call-by-value): used by the
   correspondence check; equal to [store_run] (Proofs: store_run_fast_eq) *)
Definition verdict_top (v : bool) (st : store_status) : bool := match st with StAppended => true | _ => v end.
Fixpoint store_run_v (v : bool) (st : store_status) (ops : list store_op) : list (option bool) :=
  match ops with
  | [] => []
  | op :: rest =>
      match op with
      | SoVerify | SoAppendHeader => Some (verdict_top v st) :: store_run_v v st rest
      | SoWrite => None :: store_run_v v (match st with StAppended => StAppended | _ => StCandidate end) rest
      | SoPurge | SoRestart => None :: store_run_v v st rest
      | SoCommit => None :: store_run_v v StAppended rest
      end
  end.
Definition store_run_fast (e : env) (p c : header) (ops : list store_op) : list (option bool) :=
  let v := valid_child_fast e p c in store_run_v v StUnknown ops.

Definition store_decode (k : Z) : store_op :=
  if k =? 0 then SoVerify else if k =? 1 then SoAppendHeader else if k =? 2 then SoWrite else
  if k =? 3 then SoPurge else if k =? 4 then SoRestart else SoCommit.

(* the node: blocks arrive from peers in any order; each is stored as a candidate and/or appended.  [NAppend c]
   = AppendHeader(c) and, when it returns nil, the commit of Slice.Append. *)
Inductive node_op := NWrite (c : header) | NAppend (c : header) | NPurge.
Record node_store := mkNS { ns_candidates : list Z; ns_appended : list Z }.
Definition status_of (s : node_store) (c : header) : store_status :=
  if existsb (Z.eqb (h_hash c)) (ns_appended s) then StAppended
  else if existsb (Z.eqb (h_hash c)) (ns_candidates s) then StCandidate else StUnknown.
Definition node_step (look : header -> option (env * header)) (s : node_store) (op : node_op) : node_store :=
  match op with
  | NWrite c => mkNS (h_hash c :: ns_candidates s) (ns_appended s)
  | NAppend c =>
      if verify_header_top (status_of s c) (look c) c
      then mkNS (ns_candidates s) (h_hash c :: ns_appended s) else s
  | NPurge => s
  end.
Definition node_run (look : header -> option (env * header)) (s : node_store) (ops : list node_op) : node_store :=
  fold_left (node_step look) ops s.

(* ------------------------------------------------------------------------------------------ *)
(** * 9. correspondence cases                                                                  *)

Definition co_eqb (a b : co_result) : bool :=
  match a, b with
  | CoOk e o, CoOk e' o' => (e =? e') && (o =? o')
  | CoErr, CoErr => true
  | CoPanic, CoPanic => true
  | _, _ => false
  end.
Definition oz_eqb (a b : option Z) : bool :=
  match a, b with
  | Some x, Some y => x =? y
  | None, None => true
  | _, _ => false
  end.
Definition oco_eqb (a b : option co_result) : bool :=
  match a, b with
  | Some x, Some y => co_eqb x y
  | None, None => true
  | _, _ => false
  end.
Definition hres_eqb (a b : hist_res) : bool :=
  match a, b with
  | ROrder x, ROrder y => co_eqb x y
  | RZ x, RZ y => x =? y
  | RPanic, RPanic => true
  | _, _ => false
  end.
Fixpoint ohres_eqb (a b : list (option hist_res)) : bool :=
  match a, b with
  | [], [] => true
  | Some x :: a', Some y :: b' => hres_eqb x y && ohres_eqb a' b'
  | None :: a', None :: b' => ohres_eqb a' b'
  | _, _ => false
  end.
Fixpoint obools_eqb (a b : list (option bool)) : bool :=
  match a, b with
  | [], [] => true
  | Some x :: a', Some y :: b' => Bool.eqb x y && obools_eqb a' b'
  | None :: a', None :: b' => obools_eqb a' b'
  | _, _ => false
  end.
Fixpoint ocos_eqb (a b : list (option co_result)) : bool :=
  match a, b with
  | [], [] => true
  | x :: a', y :: b' => oco_eqb x y && ocos_eqb a' b'
  | _, _ => false
  end.

Fixpoint lz_eqb (a b : list Z) : bool :=
  match a, b with
  | [], [] => true
  | x :: a', y :: b' => (x =? y) && lz_eqb a' b'
  | _, _ => false
  end.
Definition olz_eqb (a b : option (list Z)) : bool :=
  match a, b with
  | Some x, Some y => lz_eqb x y
  | None, None => true
  | _, _ => false
  end.

Inductive case_body :=
| CLog (n : Z) (obs : option Z)                       (* common.LogBig; None = panic *)
| CIntr (powhash : Z) (obs : option Z)                (* common.IntrinsicLogEntropy *)
| CBits (n : Z) (obs : option Z)                      (* common.BitsToBigBits *)
| CToBits (x obs : Z)                                 (* common.BigBitsToBits *)
| CEntToDiff (x obs : Z)                              (* common.EntropyBigBitsToDifficultyBits *)
| CDiff (dl mind pd pt : Z) (gp : gp_info) (obs : option Z)        (* hc.CalcDifficulty, non-genesis parent *)
| CDiffGen (pd : Z) (g : genesis_case) (obs : option Z)            (* hc.CalcDifficulty, genesis parent *)
| CGas (pnum plimit ceil obs : Z)                     (* core.CalcGasLimit *)
| CState (pnum plimit ceil obs : Z)                   (* misc.CalcStateLimit *)
| CBaseFee (is_gen parent_gen : bool) (er diff number obs : Z)      (* hc.CalcBaseFee (pre-fork) *)
| CKqi (number obs : Z)                               (* params.OneOverKqi *)
| COrder (h : header) (obs : co_result)               (* hc.CalcOrder, cold memo *)
| CTotals (ctx : Z) (h : header) (obs_total obs_delta obs_udelta : Z)   (* Total/Delta/UncledDelta LogEntropy *)
| CWsPost (n_uncles obs : Z)                          (* hc.WorkShareLogEntropy after the fork *)
| CExpansion (e : env) (p : header) (obs : option Z)  (* hc.ComputeExpansionNumber *)
| CVerify (e : env) (p c : header) (obs : bool)       (* hc.verifyHeader verdict (true = accepted) *)
| CCache (ops : list cache_op) (obs : list (option co_result))    (* history of CalcOrder calls / evictions *)
| CHist (ctx : Z) (pool : list header) (ops : list (Z * Z)) (obs : list (option hist_res))
                                                      (* history of CalcOrder / Total / Delta / UncledDelta calls *)
| CStore (e : env) (p c : header) (ops : list Z) (obs : list (option bool))
                                                      (* VerifyHeader / AppendHeader verdicts on c (stored parent p) in a
                                                         history of WriteBlock / purge / restart / commit *)
| CShare (ptn pdiff : Z) (ps : pshares) (obs : option (list Z))
                                                      (* CalculatePowDiffAndCount (sha, scrypt), CalculateShareTarget (twice),
                                                         CalculateKawpowDifficulty on a parent without AuxPow; None = panic *)
| CBaseFeeX (is_gen parent_gen : bool) (er diff number ptn : Z) (ps : pshares) (obs : option Z)
                                                      (* hc.CalcBaseFee in both fork regimes *)
| CVerifyX (e : env) (p c : header) (ps : pshares) (cs : shares) (obs : bool).
                                                      (* hc.verifyHeader verdict, both fork regimes (headers without AuxPow) *)

Definition case := (N * case_body)%type.

Definition body_ok (b : case_body) : bool :=
  match b with
  | CLog n obs => oz_eqb (log_big_opt n) obs && (if n <=? 0 then true else oz_eqb (Some (log_big_f n)) obs)
  | CIntr h obs => oz_eqb (intrinsic_entropy_opt h) obs
  | CBits n obs => oz_eqb (bits_to_bigbits_opt n) obs
  | CToBits x obs => bigbits_to_bits x =? obs
  | CEntToDiff x obs => entropy_bigbits_to_difficulty_bits x =? obs
  | CDiff dl mind pd pt gp obs => oz_eqb (calc_difficulty dl mind pd pt gp) obs
  | CDiffGen pd g obs => oz_eqb (calc_difficulty_genesis pd g) obs
  | CGas pn pl ceil obs => calc_gas_limit pn pl ceil =? obs
  | CState pn pl ceil obs => calc_state_limit pn pl ceil =? obs
  | CBaseFee g pg er d n obs => calc_base_fee g pg er d n =? obs
  | CKqi n obs => one_over_kqi n =? obs
  | COrder h obs => co_eqb (calc_order h) obs
  | CTotals ctx h t d u =>
      let co := calc_order h in
      (total_entropy_of co ctx h =? t) && (delta_entropy_of co ctx h =? d) && (uncled_delta_entropy_of co h =? u)
  | CWsPost n obs => ws_entropy_postfork n =? obs
  | CExpansion e p obs => oz_eqb (expected_expansion e p) obs
  | CVerify e p c obs => Bool.eqb (valid_child_fast e p c) obs
  | CCache ops obs => ocos_eqb (cache_run [] ops) obs
  | CHist ctx pool ops obs => ohres_eqb (hist_run ctx [] (map (hist_decode pool) ops)) obs
  | CStore e p c ops obs => obools_eqb (store_run_fast e p c (map store_decode ops)) obs
  | CShare ptn pdiff ps obs => olz_eqb (expected_shares ptn pdiff ps) obs
  | CBaseFeeX g pg er d n ptn ps obs => oz_eqb (calc_base_fee_x g pg er d n ptn ps) obs
  | CVerifyX e p c ps cs obs => Bool.eqb (valid_child_x e p c ps cs) obs
  end.

Definition case_ok (c : case) : bool := body_ok (snd c).
Definition mismatches (cs : list case) : list N := map fst (filter (fun c => negb (case_ok c)) cs).

(* ------------------------------------------------------------------------------------------ *)
(** * 10. side conditions on the generated data (proved by vm_compute in Proofs)              *)

Definition min_difficulties : list Z := map (fun r => snd r) networks.
Definition duration_limits : list Z := map (fun r => fst (fst (fst r))) networks.
Definition min_difficulty_ge_2 : bool := forallb (fun d => 2 <=? d) min_difficulties.
Definition duration_limits_pos : bool := forallb (fun d => 0 <? d) duration_limits.
Definition min_is_half_genesis : bool :=
  forallb (fun r => snd r =? snd (fst r) / 2) networks.
Definition log_consts_ok : bool :=
  (mant_bits =? 64) && (big2e64 =? 2 ^ 64) && (big2e256 =? 2 ^ 256) && (big2 =? 2) &&
  (ctx_prime =? 0) && (ctx_region =? 1) && (ctx_zone =? 2).
Definition retarget_consts_pos : bool :=
  (0 <? difficulty_adjustment_factor) && (0 <? difficulty_adjustment_period) && (0 <=? max_time_diff_between_blocks).
Definition min_gas_limit_is_const : bool :=
  forallb (fun s => snd s =? min_gas_limit_const) min_gas_limit_samples.
Definition one_over_kqi_samples_ok : bool :=
  forallb (fun s => one_over_kqi (fst s) =? snd s) one_over_kqi_samples.
Definition limit_consts_ok : bool :=
  (2 * blocks_per_month <? 2 ^ 64) && (0 <? blocks_per_month) && (0 <=? time_to_start_tx) && (0 <? tx_gas).
Definition entropy_targets_ok : bool :=
  (Z.of_nat (length prime_entropy_targets) =? 256) && (Z.of_nat (length region_entropy_targets) =? 256) &&
  forallb (fun t => 1 <=? t) prime_entropy_targets && forallb (fun t => 1 <=? t) region_entropy_targets &&
  (0 <? alpha_inverse).

(* after the fork *)
Definition fork_consts_ok : bool :=
  (kquai_reset_after_kawpow_fork_block =? kawpow_fork_block) && (big2e32 =? 2 ^ 32) && (big3 =? 3) &&
  (0 <? target_sha_shares) && (target_sha_shares <=? max_sha_shares) &&
  (1 <? work_share_ema_blocks) && (1 <? new_work_share_ema_blocks) &&
  (0 <? pow_diff_adjustment_factor) && (0 <? new_pow_diff_adjustment_factor) &&
  (0 <? max_subsidy_denominator) && (0 <=? max_subsidy_numerator) && (0 <? duration_limit_default) &&
  (0 <? inclusion_depth_update_period) && (0 <? initial_sha_diff_multiple) && (0 <? expected_workshares_per_block) &&
  (kawpow_fork_block + kawpow_transition_period <? inclusion_depth_change_block) &&
  (inclusion_depth_change_block + inclusion_depth_update_period <? 2 ^ 64) &&
  (kawpow_fork_block <? sha_equivalent_difficulty_fork_block) &&
  (sha_equivalent_difficulty_fork_block <=? conversion_stability_fork_block) &&
  (0 <? sha_diff_lower_bound) && (0 <? scrypt_diff_lower_bound) && (0 <? kquai_difficulty_divisor) &&
  (0 <? initial_kawpow_diff) && (0 <? blocks_per_day).

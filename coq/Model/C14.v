(* C14 — executable model of the encodings of go-quai consensus objects.
   Definitions only (proofs: Proofs/C14.v, libraries: Lib/C14_*.v).

   Layers:
   1. protobuf wire format, generic in the generated schemas (Lib/C14_ProtoWire.v,
      Generated/C14Schemas.v): what proto.Marshal / proto.Unmarshal do;
   2. RLP (Lib/C14_RLP.v): rlp.EncodeToBytes / rlp decoding of item trees;
   3. hand-modelled ProtoEncode/ProtoDecode layers of the small consensus objects
      (core/types/utxo.go TxOut, UtxoEntry, OutPoint, TxIn-shape, OutpointAndDenomination;
      core/types/block.go Termini), branch by branch;
   4. [case]: what the harness observed on the real code, compared here. *)
From Coq Require Import List NArith Bool.
From GQ Require Import Lib.Key Lib.C14_Varint Lib.C14_BigEndian Lib.C14_ProtoWire Lib.C14_RLP Generated.C14Schemas.
Import ListNotations.
Local Open Scope N_scope.

(* ------------------------------------------------------------------ *)
(* 1. the schemas the generic theorems are instantiated on             *)

(* messages using a kind outside the modelled fragment are replaced by the empty
   message (ids stay stable); they are listed, and nothing covered may refer to them *)
Definition covered (s : schema) : schema := map (fun d => if uses_other d then [] else d) s.
Definition sc : schema := covered schemas.

Fixpoint ids_where (f : msgdesc -> bool) (i : N) (s : schema) : list N :=
  match s with
  | [] => []
  | d :: t => if f d then i :: ids_where f (i + 1) t else ids_where f (i + 1) t
  end.
Definition outside_fragment (s : schema) : list N := ids_where uses_other 0 s.

Definition refers_to (ids : list N) (d : msgdesc) : bool :=
  existsb (fun fd => match f_kind fd with KMsg r => existsb (N.eqb r) ids | _ => false end) d.
Definition refs_covered (s : schema) : bool :=
  negb (existsb (fun d => negb (uses_other d) && refers_to (outside_fragment s) d) s).

Fixpoint list_eqb {A} (eqb : A -> A -> bool) (a b : list A) : bool :=
  match a, b with
  | [], [] => true
  | x :: a', y :: b' => eqb x y && list_eqb eqb a' b'
  | _, _ => false
  end.

(* ------------------------------------------------------------------ *)
(* comparison of field trees                                           *)

Fixpoint fval_eqb (a b : fval) : bool :=
  match a, b with
  | FInt x, FInt y => x =? y
  | FBytes x, FBytes y => keqb x y
  | FMsg x, FMsg y =>
      (fix go (l1 l2 : list (N * fval)) : bool :=
         match l1, l2 with
         | [], [] => true
         | e1 :: t1, e2 :: t2 => (fst e1 =? fst e2) && fval_eqb (snd e1) (snd e2) && go t1 t2
         | _, _ => false
         end) x y
  | _, _ => false
  end.
Definition msg_eqb (a b : msg) : bool := fval_eqb (FMsg a) (FMsg b).
Definition omsg_eqb (a b : option msg) : bool :=
  match a, b with
  | None, None => true
  | Some x, Some y => msg_eqb x y
  | _, _ => false
  end.

(* ------------------------------------------------------------------ *)
(* 3. object layers                                                    *)

(* big.Int.Bytes(): minimal big-endian bytes, zero = empty *)
Definition big_bytes (n : N) : bytes := be_enc n.
(* new(big.Int).SetBytes(b) *)
Definition big_of_bytes (b : bytes) : N := be_dec b.

(* common.Hash.SetBytes: crop from the left to 32 bytes, left-pad with zeros *)
Definition hash_len : nat := 32.
Definition set_bytes (n : nat) (b : bytes) : bytes :=
  let l := length b in
  if Nat.leb l n then repeat 0 (n - l) ++ b else skipn (l - n) b.
Definition hash_of_bytes (b : bytes) : bytes := set_bytes hash_len b.

(* field access on a decoded tree *)
Fixpoint get_field (m : msg) (k : N) : option fval :=
  match m with
  | [] => None
  | e :: t => if fst e =? k then Some (snd e) else get_field t k
  end.
Definition get_all (m : msg) (k : N) : list fval := map snd (filter (fun e => fst e =? k) m).
Definition as_int (v : fval) : N := match v with FInt n => n | _ => 0 end.
Definition as_bytes (v : fval) : bytes := match v with FBytes b => b | _ => [] end.
Definition as_msg (v : fval) : msg := match v with FMsg m => m | _ => [] end.

(* common.Hash.ProtoEncode: ProtoHash{Value: h[:]} -- 32 bytes, never empty, so always on the wire *)
Definition hash_msg (h : bytes) : msg := match h with [] => [] | _ => [(1, FBytes h)] end.
(* common.Hash.ProtoDecode: h.SetBytes(hash.GetValue()) *)
Definition hash_of_msg (m : msg) : bytes :=
  hash_of_bytes (match get_field m 1 with Some v => as_bytes v | None => [] end).

(* --- TxOut / UtxoEntry (core/types/utxo.go) --- *)
Record txout := mkTxOut {
  to_denom : N;                 (* uint8 *)
  to_addr : option bytes;       (* []byte: None = nil *)
  to_lock : option N            (* *big.Int: None = nil *)
}.

(* TxOut.ProtoEncode / UtxoEntry.ProtoEncode: denomination always set (uint32(uint8)), address
   as is (nil = absent), lock always present (nil encodes like 0: empty bytes) *)
Definition txout_encode (o : txout) : msg :=
  [(1, FInt (to_denom o mod 256))]
  ++ match to_addr o with Some a => [(2, FBytes a)] | None => [] end
  ++ [(3, FBytes (big_bytes (match to_lock o with Some l => l | None => 0 end)))].

Inductive dres (A : Type) := DOk (a : A) | DErr.
Arguments DOk {A} _.
Arguments DErr {A}.

(* TxOut.ProtoDecode: nil denomination -> error; > 255 -> error; Lock = SetBytes(lock) (never nil) *)
Definition txout_decode (m : msg) : dres txout :=
  match get_field m 1 with
  | None => DErr
  | Some d =>
      if 255 <? as_int d then DErr
      else DOk (mkTxOut (as_int d)
                        (match get_field m 2 with Some a => Some (as_bytes a) | None => None end)
                        (Some (big_of_bytes (match get_field m 3 with Some l => as_bytes l | None => [] end))))
  end.

(* UtxoEntry.ProtoDecode: same, but an absent lock stays nil *)
Definition utxo_decode (m : msg) : dres txout :=
  match get_field m 1 with
  | None => DErr
  | Some d =>
      if 255 <? as_int d then DErr
      else DOk (mkTxOut (as_int d)
                        (match get_field m 2 with Some a => Some (as_bytes a) | None => None end)
                        (match get_field m 3 with Some l => Some (big_of_bytes (as_bytes l)) | None => None end))
  end.

(* --- OutPoint --- *)
Record outpoint := mkOutPoint { op_hash : bytes; op_index : N (* uint16 *) }.

Definition outpoint_encode (o : outpoint) : msg :=
  [(1, FMsg (hash_msg (op_hash o))); (2, FInt (op_index o mod 65536))].

(* OutPoint.ProtoDecode: missing hash / index -> error; Index = uint16(uint32) TRUNCATES silently *)
Definition outpoint_decode (m : msg) : dres outpoint :=
  match get_field m 1, get_field m 2 with
  | Some h, Some i => DOk (mkOutPoint (hash_of_msg (as_msg h)) (as_int i mod 65536))
  | _, _ => DErr
  end.

(* --- OutpointAndDenomination --- *)
Record opd := mkOpd { od_hash : bytes; od_index : N; od_denom : N; od_lock : option N }.

Definition opd_encode (o : opd) : msg :=
  [(1, FMsg (hash_msg (od_hash o))); (2, FInt (od_index o mod 65536)); (3, FInt (od_denom o mod 256))]
  ++ match od_lock o with
     | Some l => [(4, FBytes (big_bytes l))]     (* Lock.Bytes() of zero is an empty non-nil slice: present and empty *)
     | None => []
     end.

(* ProtoDecode: index = uint16(..), denomination = uint8(..) both truncate; lock nil -> 0 *)
Definition opd_decode (m : msg) : dres opd :=
  match get_field m 1, get_field m 2, get_field m 3 with
  | Some h, Some i, Some d =>
      DOk (mkOpd (hash_of_msg (as_msg h)) (as_int i mod 65536) (as_int d mod 256)
                 (Some (big_of_bytes (match get_field m 4 with Some l => as_bytes l | None => [] end))))
  | _, _, _ => DErr
  end.

(* --- Termini (core/types/block.go): two arrays of hashes, always written with MaxWidth slots --- *)
Definition max_width : nat := 16.
Record termini := mkTermini { t_dom : list bytes; t_sub : list bytes }.

Definition zero_hash : bytes := repeat 0 hash_len.
Definition pad_to (n : nat) (l : list bytes) : list (option bytes) :=
  map Some l ++ repeat None (n - length l).
(* Termini.ProtoEncode: slots beyond len(t.domTermini) stay nil *ProtoHash = empty message on the wire;
   more than MaxWidth entries panic (index out of range) -- the harness never builds those *)
Definition termini_encode (t : termini) : msg :=
  map (fun h => (1, FMsg (match h with Some x => hash_msg x | None => [] end))) (pad_to max_width (t_dom t))
  ++ map (fun h => (2, FMsg (match h with Some x => hash_msg x | None => [] end))) (pad_to max_width (t_sub t)).

(* Termini.ProtoDecode: nil slices -> error; otherwise one hash per element, any count *)
Definition termini_decode (m : msg) : dres termini :=
  match get_all m 1, get_all m 2 with
  | [], _ => DErr
  | _, [] => DErr
  | d, s => DOk (mkTermini (map (fun v => hash_of_msg (as_msg v)) d) (map (fun v => hash_of_msg (as_msg v)) s))
  end.


(* --- rawdb keys and values with fixed-width big-endian fields (core/rawdb/schema.go, accessors_chain.go) --- *)

(* binary.BigEndian.PutUintN into an n-byte field *)
Definition be_fixed (n : nat) (v : N) : bytes := set_bytes n (be_enc v).

(* UtxoKey(hash, index) = "ut" ++ hash ++ uint16 index *)
Definition utxo_prefix : bytes := [117; 116].
Definition utxo_key (h : bytes) (i : N) : bytes := utxo_prefix ++ h ++ be_fixed 2 (i mod 65536).
(* ReverseUtxoKey: only the length is checked, the prefix is not *)
Definition reverse_utxo_key (k : bytes) : dres (bytes * N) :=
  if Nat.eqb (length k) 36 then DOk (firstn 32 (skipn 2 k), be_dec (skipn 34 k)) else DErr.

(* coinbase lockup record: amount (32 bytes, right aligned) ++ unlock height (uint32) ++ elements (uint16)
   ++ delegate (20 bytes, only when it is not the zero address): 38 or 58 bytes
   (WriteCoinbaseLockup / WriteCoinbaseLockupToSlice / ReadCoinbaseLockup) *)
Record lockup := mkLockup { lk_amount : N; lk_height : N; lk_elements : N; lk_delegate : option bytes }.
Definition is_zero_bytes (b : bytes) : bool := forallb (N.eqb 0) b.
Definition lockup_encode (l : lockup) : dres bytes :=
  let a := be_enc (lk_amount l) in
  if Nat.ltb 32 (length a) then DErr       (* "amount is too large" *)
  else DOk (set_bytes 32 a ++ be_fixed 4 (lk_height l mod 4294967296) ++ be_fixed 2 (lk_elements l mod 65536)
            ++ match lk_delegate l with
               | Some d => if is_zero_bytes d then [] else d
               | None => []
               end).
Definition lockup_decode (b : bytes) : lockup :=
  mkLockup (be_dec (firstn 32 b)) (be_dec (firstn 4 (skipn 32 b))) (be_dec (firstn 2 (skipn 36 b)))
           (if Nat.eqb (length b) 58 then Some (skipn 38 b) else None).

(* ------------------------------------------------------------------ *)
(* 3b. Transaction (core/types/transaction.go ProtoEncode / ProtoDecode), all three types,
   field by field. The Go code fills a ProtoTransaction struct (pointer / slice fields: nil =
   absent) which proto.Marshal emits in field-number order: [build] is that step. *)

Fixpoint build (l : list (N * option fval)) : msg :=
  match l with
  | [] => []
  | (k, Some v) :: t => (k, v) :: build t
  | (_, None) :: t => build t
  end.

(* protoTx.GetX(): the zero value when the field is absent *)
Definition get_bytes (m : msg) (k : N) : bytes := match get_field m k with Some v => as_bytes v | None => [] end.
Definition get_int (m : msg) (k : N) : N := match get_field m k with Some v => as_int v | None => 0 end.
Definition get_msg (m : msg) (k : N) : msg := match get_field m k with Some v => as_msg v | None => [] end.
Definition has (m : msg) (k : N) : bool := match get_field m k with Some _ => true | None => false end.

(* common.BytesToAddress(b, location).Bytes(): the 20 stored bytes (setBytes crops from the left / left-pads);
   the internal/external classification depends on the node location and is not part of the encoding *)
Definition addr_len : nat := 20.
Definition addr_of_bytes (b : bytes) : bytes := set_bytes addr_len b.

(* AccessList.ProtoEncode / ProtoDecode *)
Record acctuple := mkAT { at_addr : bytes; at_keys : list bytes }.
Definition at_encode (t : acctuple) : msg :=
  match at_addr t with [] => [] | a => [(1, FBytes a)] end        (* `bytes address = 1`: implicit presence *)
  ++ map (fun h => (2, FMsg (hash_msg h))) (at_keys t).
Definition al_encode (al : list acctuple) : msg := map (fun t => (1, FMsg (at_encode t))) al.
Definition at_decode (m : msg) : acctuple :=
  mkAT (addr_of_bytes (get_bytes m 1)) (map (fun v => hash_of_msg (as_msg v)) (get_all m 2)).
Definition al_decode (m : msg) : list acctuple := map (fun v => at_decode (as_msg v)) (get_all m 1).

(* TxIn: previous outpoint + public key; the key is compressed on the wire (33 bytes) and uncompressed in
   memory (65 bytes). Compression / decompression are curve operations: parameters of the model
   (compressPubKeyIfNeeded / decompressPubKeyIfNeeded: a key that already has the target length passes unchecked). *)
Record txin := mkTxIn { in_prev : outpoint; in_pub : bytes }.

Section TxModel.
  Variable compress65 : bytes -> option bytes.     (* crypto.UnmarshalPubkey + CompressPubkey *)
  Variable decompress33 : bytes -> option bytes.   (* crypto.DecompressPubkey + FromECDSAPub *)

  Definition pub_to_wire (p : bytes) : option bytes :=
    if Nat.eqb (length p) 65 then compress65 p else if Nat.eqb (length p) 33 then Some p else None.
  Definition pub_of_wire (p : bytes) : option bytes :=
    if Nat.eqb (length p) 33 then decompress33 p else if Nat.eqb (length p) 65 then Some p else None.

  Definition txin_encode (i : txin) : option msg :=
    match pub_to_wire (in_pub i) with
    | Some w => Some [(1, FMsg (outpoint_encode (in_prev i))); (2, FBytes w)]
    | None => None
    end.
  (* TxIn.ProtoDecode: outpoint first (missing outpoint / hash / index -> error), then the key *)
  Definition txin_decode (m : msg) : dres txin :=
    match get_field m 1 with
    | None => DErr
    | Some o =>
        match outpoint_decode (as_msg o) with
        | DErr => DErr
        | DOk op => match pub_of_wire (get_bytes m 2) with Some p => DOk (mkTxIn op p) | None => DErr end
        end
    end.

  Fixpoint all_some {A} (l : list (option A)) : option (list A) :=
    match l with
    | [] => Some []
    | None :: _ => None
    | Some x :: t => match all_some t with Some r => Some (x :: r) | None => None end
    end.
  Fixpoint all_ok {A} (l : list (dres A)) : dres (list A) :=
    match l with
    | [] => DOk []
    | DErr :: _ => DErr
    | DOk x :: t => match all_ok t with DOk r => DOk (x :: r) | DErr => DErr end
    end.

  (* the three optional proof-of-work fields, independent of each other *)
  Record workf := mkWork { w_parent : option bytes; w_mix : option bytes; w_nonce : option N }.
  Definition work_entries (w : workf) : list (N * option fval) :=
    [(19, option_map (fun h => FMsg (hash_msg h)) (w_parent w));
     (20, option_map (fun h => FMsg (hash_msg h)) (w_mix w));
     (21, option_map FInt (w_nonce w))].
  (* common.BytesToHash(protoTx.ParentHash.Value); BlockNonce(uint64ToByteArr(work nonce)) *)
  Definition work_decode (m : msg) : workf :=
    mkWork (option_map (fun v => hash_of_msg (as_msg v)) (get_field m 19))
           (option_map (fun v => hash_of_msg (as_msg v)) (get_field m 20))
           (option_map as_int (get_field m 21)).

  Record quaitx := mkQuai {
    q_to : option bytes; q_nonce : N; q_value : N; q_gas : N; q_data : bytes; q_chain : N; q_price : N;
    q_al : list acctuple; q_v : N; q_r : N; q_s : N; q_work : workf }.
  Record exttx := mkExt {
    e_to : bytes; e_value : N; e_gas : N; e_data : bytes; e_al : list acctuple; e_orig : bytes;
    e_index : N (* uint16 *); e_sender : bytes; e_type : N }.
  Record qitx := mkQi {
    i_chain : N; i_ins : list txin; i_outs : list txout; i_sig : bytes (* Signature.Serialize(): r || s *);
    i_data : bytes; i_work : workf }.
  Inductive tx := TQuai (q : quaitx) | TExt (e : exttx) | TQi (i : qitx).

  Definition QuaiTxType : N := 0.
  Definition ExternalTxType : N := 1.
  Definition QiTxType : N := 2.

  (* Transaction.ProtoEncode. Data: nil is written as an empty, present field. Big integers: x.Bytes(). *)
  Definition tx_encode (t : tx) : option msg :=
    match t with
    | TQuai q =>
        Some (build ([(1, Some (FInt QuaiTxType));
                      (2, option_map FBytes (q_to q));
                      (3, Some (FInt (q_nonce q)));
                      (4, Some (FBytes (big_bytes (q_value q))));
                      (5, Some (FInt (q_gas q)));
                      (6, Some (FBytes (q_data q)));
                      (7, Some (FBytes (big_bytes (q_chain q))));
                      (8, Some (FBytes (big_bytes (q_price q))));
                      (9, Some (FMsg (al_encode (q_al q))));
                      (10, Some (FBytes (big_bytes (q_v q))));
                      (11, Some (FBytes (big_bytes (q_r q))));
                      (12, Some (FBytes (big_bytes (q_s q))))] ++ work_entries (q_work q)))
    | TExt e =>
        Some (build [(1, Some (FInt ExternalTxType));
                     (2, Some (FBytes (e_to e)));
                     (4, Some (FBytes (big_bytes (e_value e))));
                     (5, Some (FInt (e_gas e)));
                     (6, Some (FBytes (e_data e)));
                     (9, Some (FMsg (al_encode (e_al e))));
                     (13, Some (FMsg (hash_msg (e_orig e))));
                     (14, Some (FInt (e_index e mod 65536)));
                     (18, Some (FBytes (e_sender e)));
                     (22, Some (FInt (e_type e)))])
    | TQi i =>
        match all_some (map txin_encode (i_ins i)) with
        | None => None
        | Some ins =>
            Some (build ([(1, Some (FInt QiTxType));
                          (6, Some (FBytes (i_data i)));
                          (7, Some (FBytes (big_bytes (i_chain i))));
                          (15, Some (FMsg (map (fun m => (1, FMsg m)) ins)));
                          (16, Some (FMsg (map (fun o => (1, FMsg (txout_encode o))) (i_outs i))));
                          (17, Some (FBytes (i_sig i)))] ++ work_entries (i_work i)))
        end
    end.

  (* crypto.ValidateSignatureValues(byte(v.Uint64()), r, s) *)
  Definition secp256k1N : N := 115792089237316195423570985008687907852837564279074904382605163141518161494337.
  Definition secp256k1halfN : N := secp256k1N / 2.
  Definition secp256k1P : N := 115792089237316195423570985008687907853269984665640564039457584007908834671663.
  Definition ecdsa_sane (v r s : N) : bool :=
    negb (r <? 1) && negb (s <? 1) && negb (secp256k1halfN <? s) && (r <? secp256k1N) && (s <? secp256k1N)
    && ((v mod 256 =? 0) || (v mod 256 =? 1)).
  (* schnorr.ParseSignature: 64 bytes, r < field prime, s < group order *)
  Definition schnorr_ok (b : bytes) : bool :=
    Nat.eqb (length b) 64 && (be_dec (firstn 32 b) <? secp256k1P) && (be_dec (skipn 32 b) <? secp256k1N).

  (* Transaction.ProtoDecode, in the order of the Go checks *)
  Definition tx_decode (m : msg) : dres tx :=
    if negb (has m 1) then DErr
    else
      let ty := get_int m 1 in
      if ty =? QuaiTxType then
        if negb (has m 3) then DErr else if negb (has m 5) then DErr else if negb (has m 9) then DErr
        else if negb (has m 4) then DErr else if negb (has m 8) then DErr else if negb (has m 6) then DErr
        else if negb (has m 7) then DErr
        else if negb (has m 10) then DErr else if negb (has m 11) then DErr else if negb (has m 12) then DErr
        else
          let v := big_of_bytes (get_bytes m 10) in
          let r := big_of_bytes (get_bytes m 11) in
          let s := big_of_bytes (get_bytes m 12) in
          if (negb (v =? 0) || negb (r =? 0) || negb (s =? 0)) && negb (ecdsa_sane v r s) then DErr
          else DOk (TQuai (mkQuai (option_map (fun x => addr_of_bytes (as_bytes x)) (get_field m 2))
                                  (get_int m 3) (big_of_bytes (get_bytes m 4)) (get_int m 5) (get_bytes m 6)
                                  (big_of_bytes (get_bytes m 7)) (big_of_bytes (get_bytes m 8))
                                  (al_decode (get_msg m 9)) v r s (work_decode m)))
      else if ty =? ExternalTxType then
        if negb (has m 5) then DErr else if negb (has m 9) then DErr else if negb (has m 4) then DErr
        else if negb (has m 6) then DErr else if negb (has m 2) then DErr else if negb (has m 13) then DErr
        else if negb (has m 14) then DErr else if negb (has m 22) then DErr
        else DOk (TExt (mkExt (addr_of_bytes (get_bytes m 2)) (big_of_bytes (get_bytes m 4)) (get_int m 5)
                               (get_bytes m 6) (al_decode (get_msg m 9)) (hash_of_msg (get_msg m 13))
                               (get_int m 14 mod 65536) (addr_of_bytes (get_bytes m 18)) (get_int m 22)))
      else if ty =? QiTxType then
        if negb (has m 15) then DErr else if negb (has m 16) then DErr else if negb (has m 17) then DErr
        else if negb (has m 7) then DErr else if negb (has m 6) then DErr
        else
          match all_ok (map (fun v => txin_decode (as_msg v)) (get_all (get_msg m 15) 1)) with
          | DErr => DErr
          | DOk [] => DErr                                   (* "QiTx must have at least one input" *)
          | DOk ins =>
              match all_ok (map (fun v => txout_decode (as_msg v)) (get_all (get_msg m 16) 1)) with
              | DErr => DErr
              | DOk outs =>
                  if negb (schnorr_ok (get_bytes m 17)) then DErr
                  else DOk (TQi (mkQi (big_of_bytes (get_bytes m 7)) ins outs (get_bytes m 17) (get_bytes m 6)
                                      (work_decode m)))
              end
          end
      else DErr.
End TxModel.

(* the curve operations as observed on the real code: association lists recorded by the harness *)
Fixpoint assoc_bytes (tbl : list (bytes * option bytes)) (k : bytes) : option bytes :=
  match tbl with
  | [] => None
  | (a, v) :: t => if keqb a k then v else assoc_bytes t k
  end.

(* ------------------------------------------------------------------ *)
(* 4. cases                                                            *)

Definition bytes_eqb := keqb.
Definition obytes_eqb (a b : option bytes) : bool :=
  match a, b with None, None => true | Some x, Some y => keqb x y | _, _ => false end.
Definition oN_eqb (a b : option N) : bool :=
  match a, b with None, None => true | Some x, Some y => x =? y | _, _ => false end.

Definition txout_eqb (a b : txout) : bool :=
  (to_denom a =? to_denom b) && obytes_eqb (to_addr a) (to_addr b) && oN_eqb (to_lock a) (to_lock b).
Definition outpoint_eqb (a b : outpoint) : bool := keqb (op_hash a) (op_hash b) && (op_index a =? op_index b).
Definition opd_eqb (a b : opd) : bool :=
  keqb (od_hash a) (od_hash b) && (od_index a =? od_index b) && (od_denom a =? od_denom b) && oN_eqb (od_lock a) (od_lock b).
Definition termini_eqb (a b : termini) : bool :=
  list_eqb keqb (t_dom a) (t_dom b) && list_eqb keqb (t_sub a) (t_sub b).

Definition hi_eqb (a b : bytes * N) : bool := keqb (fst a) (fst b) && (snd a =? snd b).
Definition lockup_eqb (a b : lockup) : bool :=
  (lk_amount a =? lk_amount b) && (lk_height a =? lk_height b) && (lk_elements a =? lk_elements b)
  && obytes_eqb (lk_delegate a) (lk_delegate b).

Definition at_eqb (a b : acctuple) : bool := keqb (at_addr a) (at_addr b) && list_eqb keqb (at_keys a) (at_keys b).
Definition work_eqb (a b : workf) : bool :=
  obytes_eqb (w_parent a) (w_parent b) && obytes_eqb (w_mix a) (w_mix b) && oN_eqb (w_nonce a) (w_nonce b).
Definition txin_eqb (a b : txin) : bool := outpoint_eqb (in_prev a) (in_prev b) && keqb (in_pub a) (in_pub b).
Definition tx_eqb (a b : tx) : bool :=
  match a, b with
  | TQuai x, TQuai y =>
      obytes_eqb (q_to x) (q_to y) && (q_nonce x =? q_nonce y) && (q_value x =? q_value y) && (q_gas x =? q_gas y)
      && keqb (q_data x) (q_data y) && (q_chain x =? q_chain y) && (q_price x =? q_price y)
      && list_eqb at_eqb (q_al x) (q_al y) && (q_v x =? q_v y) && (q_r x =? q_r y) && (q_s x =? q_s y)
      && work_eqb (q_work x) (q_work y)
  | TExt x, TExt y =>
      keqb (e_to x) (e_to y) && (e_value x =? e_value y) && (e_gas x =? e_gas y) && keqb (e_data x) (e_data y)
      && list_eqb at_eqb (e_al x) (e_al y) && keqb (e_orig x) (e_orig y) && (e_index x =? e_index y)
      && keqb (e_sender x) (e_sender y) && (e_type x =? e_type y)
  | TQi x, TQi y =>
      (i_chain x =? i_chain y) && list_eqb txin_eqb (i_ins x) (i_ins y) && list_eqb txout_eqb (i_outs x) (i_outs y)
      && keqb (i_sig x) (i_sig y) && keqb (i_data x) (i_data y) && work_eqb (i_work x) (i_work y)
  | _, _ => false
  end.

Definition dres_eqb {A} (eqb : A -> A -> bool) (a b : dres A) : bool :=
  match a, b with DOk x, DOk y => eqb x y | DErr, DErr => true | _, _ => false end.

(* decode an object from wire bytes: proto.Unmarshal, then the object's ProtoDecode *)
Definition obj_decode {A} (mid : N) (dec : msg -> dres A) (b : bytes) : dres A :=
  match decode sc mid b with Some m => dec m | None => DErr end.

Inductive case :=
(* a well-formed message built in Go: proto.Marshal bytes and the field tree read back from proto.Unmarshal *)
| CProto (id mid : N) (b : bytes) (tree : msg)
(* arbitrary / mutated bytes: proto.Unmarshal verdict and tree of the known fields *)
| CProtoDec (id mid : N) (b : bytes) (res : option msg)
(* RLP: rlp.EncodeToBytes of an item tree; rlp decode verdict of the bytes *)
| CRlp (id : N) (t : item) (b : bytes)
| CRlpDec (id : N) (b : bytes) (res : option item)
(* objects: the Go object, the bytes of proto.Marshal(ProtoEncode(x)), what ProtoDecode(Unmarshal(bytes)) gives *)
| CTxOut (id : N) (x : txout) (b : bytes) (back : dres txout)
| CUtxo (id : N) (x : txout) (b : bytes) (back : dres txout)
| COutPoint (id : N) (x : outpoint) (b : bytes) (back : dres outpoint)
| COpd (id : N) (x : opd) (b : bytes) (back : dres opd)
| CTermini (id : N) (x : termini) (b : bytes) (back : dres termini)
(* decoding side only: raw bytes into the object decoder *)
| CTxOutDec (id : N) (b : bytes) (back : dres txout)
| CUtxoDec (id : N) (b : bytes) (back : dres txout)
| COutPointDec (id : N) (b : bytes) (back : dres outpoint)
| COpdDec (id : N) (b : bytes) (back : dres opd)
(* rawdb: UtxoKey(h, i) and what ReverseUtxoKey returns for it / for arbitrary key bytes *)
| CUtxoKey (id : N) (h : bytes) (i : N) (key : bytes) (rev : dres (bytes * N))
| CUtxoKeyDec (id : N) (key : bytes) (rev : dres (bytes * N))
(* rawdb: lockup record written by WriteCoinbaseLockupToSlice / WriteCoinbaseLockup, and what ReadCoinbaseLockup returns *)
| CLockup (id : N) (l : lockup) (rec : dres bytes) (back : lockup)
(* Transaction: the Go object (projected through its getters), proto.Marshal(tx.ProtoEncode()) (DErr: ProtoEncode
   returned an error), what ProtoDecode(Unmarshal(bytes)) gives; ctbl / dtbl: the public-key compressions /
   decompressions the real code computed on the way *)
| CTx (id : N) (ctbl dtbl : list (bytes * option bytes)) (x : tx) (b : dres bytes) (back : dres tx)
(* decoding side only: an arbitrary ProtoTransaction (absent fields, odd widths, bad signatures) *)
| CTxDec (id : N) (dtbl : list (bytes * option bytes)) (b : bytes) (back : dres tx).

Definition case_id (c : case) : N :=
  match c with
  | CProto i _ _ _ | CProtoDec i _ _ _ | CRlp i _ _ | CRlpDec i _ _
  | CTxOut i _ _ _ | CUtxo i _ _ _ | COutPoint i _ _ _ | COpd i _ _ _ | CTermini i _ _ _
  | CTxOutDec i _ _ | CUtxoDec i _ _ | COutPointDec i _ _ | COpdDec i _ _
  | CUtxoKey i _ _ _ _ | CUtxoKeyDec i _ _ | CLockup i _ _ _ | CTx i _ _ _ _ _ | CTxDec i _ _ _ => i
  end.

Definition oitem_eqb (a b : option item) : bool :=
  match a, b with None, None => true | Some x, Some y => item_eqb x y | _, _ => false end.

Definition case_ok (c : case) : bool :=
  match c with
  | CProto _ mid b t =>
      keqb (encode t) b && omsg_eqb (decode sc mid b) (Some t) && wf_msg sc mid t
  | CProtoDec _ mid b res => omsg_eqb (decode sc mid b) res
  | CRlp _ t b => keqb (rlp_encode t) b && oitem_eqb (rlp_decode b) (Some t)
  | CRlpDec _ b res => oitem_eqb (rlp_decode b) res
  | CTxOut _ x b back =>
      keqb (encode (txout_encode x)) b && dres_eqb txout_eqb (obj_decode id_block_ProtoTxOut txout_decode b) back
  | CUtxo _ x b back =>
      keqb (encode (txout_encode x)) b && dres_eqb txout_eqb (obj_decode id_block_ProtoTxOut utxo_decode b) back
  | COutPoint _ x b back =>
      keqb (encode (outpoint_encode x)) b && dres_eqb outpoint_eqb (obj_decode id_block_ProtoOutPoint outpoint_decode b) back
  | COpd _ x b back =>
      keqb (encode (opd_encode x)) b && dres_eqb opd_eqb (obj_decode id_block_ProtoOutPointAndDenomination opd_decode b) back
  | CTermini _ x b back =>
      keqb (encode (termini_encode x)) b && dres_eqb termini_eqb (obj_decode id_block_ProtoTermini termini_decode b) back
  | CTxOutDec _ b back => dres_eqb txout_eqb (obj_decode id_block_ProtoTxOut txout_decode b) back
  | CUtxoDec _ b back => dres_eqb txout_eqb (obj_decode id_block_ProtoTxOut utxo_decode b) back
  | COutPointDec _ b back => dres_eqb outpoint_eqb (obj_decode id_block_ProtoOutPoint outpoint_decode b) back
  | COpdDec _ b back => dres_eqb opd_eqb (obj_decode id_block_ProtoOutPointAndDenomination opd_decode b) back
  | CUtxoKey _ h i key rev => keqb (utxo_key h i) key && dres_eqb hi_eqb (reverse_utxo_key key) rev
  | CUtxoKeyDec _ key rev => dres_eqb hi_eqb (reverse_utxo_key key) rev
  | CLockup _ l rec back =>
      dres_eqb keqb (lockup_encode l) rec
      && match rec with DOk b => lockup_eqb (lockup_decode b) back | DErr => true end
  | CTx _ ctbl dtbl x b back =>
      match tx_encode (assoc_bytes ctbl) x, b with
      | Some m, DOk bb =>
          keqb (encode m) bb
          && dres_eqb tx_eqb (obj_decode id_block_ProtoTransaction (tx_decode (assoc_bytes dtbl)) bb) back
      | None, DErr => true
      | _, _ => false
      end
  | CTxDec _ dtbl b back =>
      dres_eqb tx_eqb (obj_decode id_block_ProtoTransaction (tx_decode (assoc_bytes dtbl)) b) back
  end.

Definition mismatches (cs : list case) : list N :=
  map case_id (filter (fun c => negb (case_ok c)) cs).

(* C14 — executable model of the encodings of go-quai consensus objects.
   Definitions only (proofs: Proofs/C14.v, libraries: Lib/C14_*.v).

   Layers:
   1. protobuf wire format, generic in the generated schemas (Lib/C14_ProtoWire.v,
      Generated/C14Schemas.v): what proto.Marshal / proto.Unmarshal do;
   2. RLP (Lib/C14_RLP.v): rlp.EncodeToBytes / rlp decoding of item trees;
   3. hand-modelled ProtoEncode/ProtoDecode layers of the small consensus objects
      (core/types/utxo.go TxOut, UtxoEntry, OutPoint, TxIn-shape, OutpointAndDenomination;
      core/types/block.go Termini), branch by branch;
   4. [case]: what the harness observed on the real code, compared here. *)
From Coq Require Import List NArith Bool.
From GQ Require Import Lib.Key Lib.C14_Varint Lib.C14_BigEndian Lib.C14_ProtoWire Lib.C14_RLP Generated.C14Schemas.
Import ListNotations.
Local Open Scope N_scope.

(* ------------------------------------------------------------------ *)
(* 1. the schemas the generic theorems are instantiated on             *)

(* messages using a kind outside the modelled fragment are replaced by the empty
   message (ids stay stable); they are listed, and nothing covered may refer to them *)
Definition covered (s : schema) : schema := map (fun d => if uses_other d then [] else d) s.
Definition sc : schema := covered schemas.

Fixpoint ids_where (f : msgdesc -> bool) (i : N) (s : schema) : list N :=
  match s with
  | [] => []
  | d :: t => if f d then i :: ids_where f (i + 1) t else ids_where f (i + 1) t
  end.
Definition outside_fragment (s : schema) : list N := ids_where uses_other 0 s.

Definition refers_to (ids : list N) (d : msgdesc) : bool :=
  existsb (fun fd => match f_kind fd with KMsg r => existsb (N.eqb r) ids | _ => false end) d.
Definition refs_covered (s : schema) : bool :=
  negb (existsb (fun d => negb (uses_other d) && refers_to (outside_fragment s) d) s).

Fixpoint list_eqb {A} (eqb : A -> A -> bool) (a b : list A) : bool :=
  match a, b with
  | [], [] => true
  | x :: a', y :: b' => eqb x y && list_eqb eqb a' b'
  | _, _ => false
  end.

(* ------------------------------------------------------------------ *)
(* comparison of field trees                                           *)

Fixpoint fval_eqb (a b : fval) : bool :=
  match a, b with
  | FInt x, FInt y => x =? y
  | FBytes x, FBytes y => keqb x y
  | FMsg x, FMsg y =>
      (fix go (l1 l2 : list (N * fval)) : bool :=
         match l1, l2 with
         | [], [] => true
         | e1 :: t1, e2 :: t2 => (fst e1 =? fst e2) && fval_eqb (snd e1) (snd e2) && go t1 t2
         | _, _ => false
         end) x y
  | _, _ => false
  end.
Definition msg_eqb (a b : msg) : bool := fval_eqb (FMsg a) (FMsg b).
Definition omsg_eqb (a b : option msg) : bool :=
  match a, b with
  | None, None => true
  | Some x, Some y => msg_eqb x y
  | _, _ => false
  end.

(* ------------------------------------------------------------------ *)
(* 3. object layers                                                    *)

(* big.Int.Bytes(): minimal big-endian bytes, zero = empty *)
Definition big_bytes (n : N) : bytes := be_enc n.
(* new(big.Int).SetBytes(b) *)
Definition big_of_bytes (b : bytes) : N := be_dec b.

(* common.Hash.SetBytes: crop from the left to 32 bytes, left-pad with zeros *)
Definition hash_len : nat := 32.
Definition set_bytes (n : nat) (b : bytes) : bytes :=
  let l := length b in
  if Nat.leb l n then repeat 0 (n - l) ++ b else skipn (l - n) b.
Definition hash_of_bytes (b : bytes) : bytes := set_bytes hash_len b.

(* field access on a decoded tree *)
Fixpoint get_field (m : msg) (k : N) : option fval :=
  match m with
  | [] => None
  | e :: t => if fst e =? k then Some (snd e) else get_field t k
  end.
Definition get_all (m : msg) (k : N) : list fval := map snd (filter (fun e => fst e =? k) m).
Definition as_int (v : fval) : N := match v with FInt n => n | _ => 0 end.
Definition as_bytes (v : fval) : bytes := match v with FBytes b => b | _ => [] end.
Definition as_msg (v : fval) : msg := match v with FMsg m => m | _ => [] end.

(* common.Hash.ProtoEncode: ProtoHash{Value: h[:]} -- 32 bytes, never empty, so always on the wire *)
Definition hash_msg (h : bytes) : msg := match h with [] => [] | _ => [(1, FBytes h)] end.
(* common.Hash.ProtoDecode: h.SetBytes(hash.GetValue()) *)
Definition hash_of_msg (m : msg) : bytes :=
  hash_of_bytes (match get_field m 1 with Some v => as_bytes v | None => [] end).

(* --- TxOut / UtxoEntry (core/types/utxo.go) --- *)
Record txout := mkTxOut {
  to_denom : N;                 (* uint8 *)
  to_addr : option bytes;       (* []byte: None = nil *)
  to_lock : option N            (* *big.Int: None = nil *)
}.

(* TxOut.ProtoEncode / UtxoEntry.ProtoEncode: denomination always set (uint32(uint8)), address
   as is (nil = absent), lock always present (nil encodes like 0: empty bytes) *)
Definition txout_encode (o : txout) : msg :=
  [(1, FInt (to_denom o mod 256))]
  ++ match to_addr o with Some a => [(2, FBytes a)] | None => [] end
  ++ [(3, FBytes (big_bytes (match to_lock o with Some l => l | None => 0 end)))].

Inductive dres (A : Type) := DOk (a : A) | DErr.
Arguments DOk {A} _.
Arguments DErr {A}.

(* TxOut.ProtoDecode: nil denomination -> error; > 255 -> error; Lock = SetBytes(lock) (never nil) *)
Definition txout_decode (m : msg) : dres txout :=
  match get_field m 1 with
  | None => DErr
  | Some d =>
      if 255 <? as_int d then DErr
      else DOk (mkTxOut (as_int d)
                        (match get_field m 2 with Some a => Some (as_bytes a) | None => None end)
                        (Some (big_of_bytes (match get_field m 3 with Some l => as_bytes l | None => [] end))))
  end.

(* UtxoEntry.ProtoDecode: same, but an absent lock stays nil *)
Definition utxo_decode (m : msg) : dres txout :=
  match get_field m 1 with
  | None => DErr
  | Some d =>
      if 255 <? as_int d then DErr
      else DOk (mkTxOut (as_int d)
                        (match get_field m 2 with Some a => Some (as_bytes a) | None => None end)
                        (match get_field m 3 with Some l => Some (big_of_bytes (as_bytes l)) | None => None end))
  end.

(* --- OutPoint --- *)
Record outpoint := mkOutPoint { op_hash : bytes; op_index : N (* uint16 *) }.

Definition outpoint_encode (o : outpoint) : msg :=
  [(1, FMsg (hash_msg (op_hash o))); (2, FInt (op_index o mod 65536))].

(* OutPoint.ProtoDecode: missing hash / index -> error; Index = uint16(uint32) TRUNCATES silently *)
Definition outpoint_decode (m : msg) : dres outpoint :=
  match get_field m 1, get_field m 2 with
  | Some h, Some i => DOk (mkOutPoint (hash_of_msg (as_msg h)) (as_int i mod 65536))
  | _, _ => DErr
  end.

(* --- OutpointAndDenomination --- *)
Record opd := mkOpd { od_hash : bytes; od_index : N; od_denom : N; od_lock : option N }.

Definition opd_encode (o : opd) : msg :=
  [(1, FMsg (hash_msg (od_hash o))); (2, FInt (od_index o mod 65536)); (3, FInt (od_denom o mod 256))]
  ++ match od_lock o with
     | Some l => [(4, FBytes (big_bytes l))]     (* Lock.Bytes() of zero is an empty non-nil slice: present and empty *)
     | None => []
     end.

(* ProtoDecode: index = uint16(..), denomination = uint8(..) both truncate; lock nil -> 0 *)
Definition opd_decode (m : msg) : dres opd :=
  match get_field m 1, get_field m 2, get_field m 3 with
  | Some h, Some i, Some d =>
      DOk (mkOpd (hash_of_msg (as_msg h)) (as_int i mod 65536) (as_int d mod 256)
                 (Some (big_of_bytes (match get_field m 4 with Some l => as_bytes l | None => [] end))))
  | _, _, _ => DErr
  end.

(* --- Termini (core/types/block.go): two arrays of hashes, always written with MaxWidth slots --- *)
Definition max_width : nat := 16.
Record termini := mkTermini { t_dom : list bytes; t_sub : list bytes }.

Definition zero_hash : bytes := repeat 0 hash_len.
Definition pad_to (n : nat) (l : list bytes) : list (option bytes) :=
  map Some l ++ repeat None (n - length l).
(* Termini.ProtoEncode: slots beyond len(t.domTermini) stay nil *ProtoHash = empty message on the wire;
   more than MaxWidth entries panic (index out of range) -- the harness never builds those *)
Definition termini_encode (t : termini) : msg :=
  map (fun h => (1, FMsg (match h with Some x => hash_msg x | None => [] end))) (pad_to max_width (t_dom t))
  ++ map (fun h => (2, FMsg (match h with Some x => hash_msg x | None => [] end))) (pad_to max_width (t_sub t)).

(* Termini.ProtoDecode: nil slices -> error; otherwise one hash per element, any count *)
Definition termini_decode (m : msg) : dres termini :=
  match get_all m 1, get_all m 2 with
  | [], _ => DErr
  | _, [] => DErr
  | d, s => DOk (mkTermini (map (fun v => hash_of_msg (as_msg v)) d) (map (fun v => hash_of_msg (as_msg v)) s))
  end.


(* --- rawdb keys and values with fixed-width big-endian fields (core/rawdb/schema.go, accessors_chain.go) --- *)

(* binary.BigEndian.PutUintN into an n-byte field *)
Definition be_fixed (n : nat) (v : N) : bytes := set_bytes n (be_enc v).

(* UtxoKey(hash, index) = "ut" ++ hash ++ uint16 index *)
Definition utxo_prefix : bytes := [117; 116].
Definition utxo_key (h : bytes) (i : N) : bytes := utxo_prefix ++ h ++ be_fixed 2 (i mod 65536).
(* ReverseUtxoKey: only the length is checked, the prefix is not *)
Definition reverse_utxo_key (k : bytes) : dres (bytes * N) :=
  if Nat.eqb (length k) 36 then DOk (firstn 32 (skipn 2 k), be_dec (skipn 34 k)) else DErr.

(* coinbase lockup record: amount (32 bytes, right aligned) ++ unlock height (uint32) ++ elements (uint16)
   ++ delegate (20 bytes, only when it is not the zero address): 38 or 58 bytes
   (WriteCoinbaseLockup / WriteCoinbaseLockupToSlice / ReadCoinbaseLockup) *)
Record lockup := mkLockup { lk_amount : N; lk_height : N; lk_elements : N; lk_delegate : option bytes }.
Definition is_zero_bytes (b : bytes) : bool := forallb (N.eqb 0) b.
Definition lockup_encode (l : lockup) : dres bytes :=
  let a := be_enc (lk_amount l) in
  if Nat.ltb 32 (length a) then DErr       (* "amount is too large" *)
  else DOk (set_bytes 32 a ++ be_fixed 4 (lk_height l mod 4294967296) ++ be_fixed 2 (lk_elements l mod 65536)
            ++ match lk_delegate l with
               | Some d => if is_zero_bytes d then [] else d
               | None => []
               end).
Definition lockup_decode (b : bytes) : lockup :=
  mkLockup (be_dec (firstn 32 b)) (be_dec (firstn 4 (skipn 32 b))) (be_dec (firstn 2 (skipn 36 b)))
           (if Nat.eqb (length b) 58 then Some (skipn 38 b) else None).

(* ------------------------------------------------------------------ *)
(* 4. cases                                                            *)

Definition bytes_eqb := keqb.
Definition obytes_eqb (a b : option bytes) : bool :=
  match a, b with None, None => true | Some x, Some y => keqb x y | _, _ => false end.
Definition oN_eqb (a b : option N) : bool :=
  match a, b with None, None => true | Some x, Some y => x =? y | _, _ => false end.

Definition txout_eqb (a b : txout) : bool :=
  (to_denom a =? to_denom b) && obytes_eqb (to_addr a) (to_addr b) && oN_eqb (to_lock a) (to_lock b).
Definition outpoint_eqb (a b : outpoint) : bool := keqb (op_hash a) (op_hash b) && (op_index a =? op_index b).
Definition opd_eqb (a b : opd) : bool :=
  keqb (od_hash a) (od_hash b) && (od_index a =? od_index b) && (od_denom a =? od_denom b) && oN_eqb (od_lock a) (od_lock b).
Definition termini_eqb (a b : termini) : bool :=
  list_eqb keqb (t_dom a) (t_dom b) && list_eqb keqb (t_sub a) (t_sub b).

Definition hi_eqb (a b : bytes * N) : bool := keqb (fst a) (fst b) && (snd a =? snd b).
Definition lockup_eqb (a b : lockup) : bool :=
  (lk_amount a =? lk_amount b) && (lk_height a =? lk_height b) && (lk_elements a =? lk_elements b)
  && obytes_eqb (lk_delegate a) (lk_delegate b).

Definition dres_eqb {A} (eqb : A -> A -> bool) (a b : dres A) : bool :=
  match a, b with DOk x, DOk y => eqb x y | DErr, DErr => true | _, _ => false end.

(* decode an object from wire bytes: proto.Unmarshal, then the object's ProtoDecode *)
Definition obj_decode {A} (mid : N) (dec : msg -> dres A) (b : bytes) : dres A :=
  match decode sc mid b with Some m => dec m | None => DErr end.

Inductive case :=
(* a well-formed message built in Go: proto.Marshal bytes and the field tree read back from proto.Unmarshal *)
| CProto (id mid : N) (b : bytes) (tree : msg)
(* arbitrary / mutated bytes: proto.Unmarshal verdict and tree of the known fields *)
| CProtoDec (id mid : N) (b : bytes) (res : option msg)
(* RLP: rlp.EncodeToBytes of an item tree; rlp decode verdict of the bytes *)
| CRlp (id : N) (t : item) (b : bytes)
| CRlpDec (id : N) (b : bytes) (res : option item)
(* objects: the Go object, the bytes of proto.Marshal(ProtoEncode(x)), what ProtoDecode(Unmarshal(bytes)) gives *)
| CTxOut (id : N) (x : txout) (b : bytes) (back : dres txout)
| CUtxo (id : N) (x : txout) (b : bytes) (back : dres txout)
| COutPoint (id : N) (x : outpoint) (b : bytes) (back : dres outpoint)
| COpd (id : N) (x : opd) (b : bytes) (back : dres opd)
| CTermini (id : N) (x : termini) (b : bytes) (back : dres termini)
(* decoding side only: raw bytes into the object decoder *)
| CTxOutDec (id : N) (b : bytes) (back : dres txout)
| CUtxoDec (id : N) (b : bytes) (back : dres txout)
| COutPointDec (id : N) (b : bytes) (back : dres outpoint)
| COpdDec (id : N) (b : bytes) (back : dres opd)
(* rawdb: UtxoKey(h, i) and what ReverseUtxoKey returns for it / for arbitrary key bytes *)
| CUtxoKey (id : N) (h : bytes) (i : N) (key : bytes) (rev : dres (bytes * N))
| CUtxoKeyDec (id : N) (key : bytes) (rev : dres (bytes * N))
(* rawdb: lockup record written by WriteCoinbaseLockupToSlice / WriteCoinbaseLockup, and what ReadCoinbaseLockup returns *)
| CLockup (id : N) (l : lockup) (rec : dres bytes) (back : lockup).

Definition case_id (c : case) : N :=
  match c with
  | CProto i _ _ _ | CProtoDec i _ _ _ | CRlp i _ _ | CRlpDec i _ _
  | CTxOut i _ _ _ | CUtxo i _ _ _ | COutPoint i _ _ _ | COpd i _ _ _ | CTermini i _ _ _
  | CTxOutDec i _ _ | CUtxoDec i _ _ | COutPointDec i _ _ | COpdDec i _ _
  | CUtxoKey i _ _ _ _ | CUtxoKeyDec i _ _ | CLockup i _ _ _ => i
  end.

Definition oitem_eqb (a b : option item) : bool :=
  match a, b with None, None => true | Some x, Some y => item_eqb x y | _, _ => false end.

Definition case_ok (c : case) : bool :=
  match c with
  | CProto _ mid b t =>
      keqb (encode t) b && omsg_eqb (decode sc mid b) (Some t) && wf_msg sc mid t
  | CProtoDec _ mid b res => omsg_eqb (decode sc mid b) res
  | CRlp _ t b => keqb (rlp_encode t) b && oitem_eqb (rlp_decode b) (Some t)
  | CRlpDec _ b res => oitem_eqb (rlp_decode b) res
  | CTxOut _ x b back =>
      keqb (encode (txout_encode x)) b && dres_eqb txout_eqb (obj_decode id_block_ProtoTxOut txout_decode b) back
  | CUtxo _ x b back =>
      keqb (encode (txout_encode x)) b && dres_eqb txout_eqb (obj_decode id_block_ProtoTxOut utxo_decode b) back
  | COutPoint _ x b back =>
      keqb (encode (outpoint_encode x)) b && dres_eqb outpoint_eqb (obj_decode id_block_ProtoOutPoint outpoint_decode b) back
  | COpd _ x b back =>
      keqb (encode (opd_encode x)) b && dres_eqb opd_eqb (obj_decode id_block_ProtoOutPointAndDenomination opd_decode b) back
  | CTermini _ x b back =>
      keqb (encode (termini_encode x)) b && dres_eqb termini_eqb (obj_decode id_block_ProtoTermini termini_decode b) back
  | CTxOutDec _ b back => dres_eqb txout_eqb (obj_decode id_block_ProtoTxOut txout_decode b) back
  | CUtxoDec _ b back => dres_eqb txout_eqb (obj_decode id_block_ProtoTxOut utxo_decode b) back
  | COutPointDec _ b back => dres_eqb outpoint_eqb (obj_decode id_block_ProtoOutPoint outpoint_decode b) back
  | COpdDec _ b back => dres_eqb opd_eqb (obj_decode id_block_ProtoOutPointAndDenomination opd_decode b) back
  | CUtxoKey _ h i key rev => keqb (utxo_key h i) key && dres_eqb hi_eqb (reverse_utxo_key key) rev
  | CUtxoKeyDec _ key rev => dres_eqb hi_eqb (reverse_utxo_key key) rev
  | CLockup _ l rec back =>
      dres_eqb keqb (lockup_encode l) rec
      && match rec with DOk b => lockup_eqb (lockup_decode b) back | DErr => true end
  end.

Definition mismatches (cs : list case) : list N :=
  map case_id (filter (fun c => negb (case_ok c)) cs).

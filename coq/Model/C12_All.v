(* C12 — case type of the correspondence check: the cases of Model/C12.v (StateDB histories, EVM
   scenarios and call trees, slot blocks) or an account block (Model/C12_Fin.v: one account over the
   transactions of a block, observed after the frames of every transaction and after every boundary,
   on a trie-backed or a snapshot-backed StateDB). *)
From Coq Require Import List NArith ZArith Bool.
From GQ Require Import Model.C12 Model.C12_Fin.
Import ListNotations.

Inductive case :=
| Old (c : C12.case)
| CF (id : N) (snap : bool) (base : option (N * Z * bool)) (b : fblock) (obs : list (fobs * fobs)).
Coercion Old : C12.case >-> case.

Definition case_id (c : case) : N := match c with Old c => C12.case_id c | CF i _ _ _ _ => i end.
Definition case_ok (c : case) : bool :=
  match c with Old c => C12.case_ok c | CF _ snap base b obs => fcase_ok snap base b obs end.
Definition mismatches (cs : list case) : list N :=
  map case_id (filter (fun c => negb (case_ok c)) cs).

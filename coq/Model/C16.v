(* C16 — executable model of go-quai address construction and classification.
   One Gallina function per constructor / decoder / predicate of the Go code, written
   in the branch order of the source (file.go:func cited at each definition), from the
   RAW input (arbitrary-length bytes, hex text as character codes, wire bytes) and the
   node location to  Internal a | External a | Err.
   Definitions only; lemmas are in Proofs/C16.v, property theorems in Props/C16.v.

   The model is faithful to the CURRENT source, including defect F10
   (common.BytesToAddress classifies on the un-cropped / un-padded input slice).
   [fix_applied] below is the single switch that turns the model into the one of the
   repaired code (design/C16.fix.diff). *)
From Coq Require Import List NArith Bool.
From GQ Require Import Lib.Key Generated.C16Sites.
Import ListNotations.
Local Open Scope N_scope.

Definition bytes := list N.
Definition location := list N.            (* common.Location = []byte: [] prime, [r] region, [r;z] zone *)

Definition ADDRESS_LENGTH : nat := 20.    (* common.AddressLength *)
Definition HASH_LENGTH : nat := 32.       (* common.HashLength *)
Definition ZONE_CTX : N := 2.

Definition len (b : bytes) : N := N.of_nat (length b).

(* ------------------------------------------------------------------ *)
(* THE switch.  false = current source.  After design/C16.fix.diff has been applied to
   common/address.go:BytesToAddress set it to true (and delete the three *_refuted
   theorems about bytes_to_address in Props/C16.v, see design/C16.md). *)
Definition fix_applied : bool := true.

(* ------------------------------------------------------------------ *)
(* common/types.go Location.Context: Zone() >= 0 iff len >= 2, Region() >= 0 iff len >= 1 *)
Definition context (l : location) : N :=
  match l with
  | [] => 0
  | [_] => 1
  | _ :: _ :: _ => 2
  end.

(* common/types.go Location.BytePrefix: loc[0]<<4 + loc[1] in uint8 arithmetic
   (index panic for non-zone locations: callers test the context first; modelled as 0) *)
Definition byte_prefix (l : location) : N :=
  match l with
  | r :: z :: _ => (r * 16 + z) mod 256
  | _ => 0
  end.

(* InternalAddress.setBytes / ExternalAddress.setBytes / AddressBytes.SetBytes / Hash.SetBytes:
   crop from the left if longer than n, otherwise right-align in n zero bytes *)
Definition set_bytes (n : nat) (b : bytes) : bytes :=
  if Nat.ltb n (length b) then skipn (length b - n) b
  else repeat 0 (n - length b) ++ b.

Definition to20 (b : bytes) : bytes := set_bytes ADDRESS_LENGTH b.
Definition bytes_to_hash (b : bytes) : bytes := set_bytes HASH_LENGTH b.   (* common.BytesToHash *)

(* common/types.go ZeroAddress(loc) = InternalAddress{loc.BytePrefix()} *)
Definition zero_address (l : location) : bytes := byte_prefix l :: repeat 0 19.

(* common/types.go IsInChainScope — note: b[0] of the slice AS GIVEN *)
Definition in_chain_scope (b : bytes) (l : location) : bool :=
  if negb (context l =? ZONE_CTX) then false
  else if keqb (bytes_to_hash b) (bytes_to_hash (zero_address l)) then true
  else match b with
       | [] => false
       | b0 :: _ => b0 =? byte_prefix l
       end.

(* ------------------------------------------------------------------ *)
(* Addresses (20 bytes): zone and ledger *)

(* AddressBytes.Location / InternalAddress.Location / ExternalAddress.Location / LocationFromAddressBytes:
   upper nibble = region, lower nibble = zone of byte 0 *)
Definition location_of (a : bytes) : location :=
  let b0 := nth 0 a 0 in [N.shiftr (N.land b0 240) 4; N.land b0 15].

Definition second (a : bytes) : N := nth 1 a 0.
(* IsInQiLedgerScope: a[1] > 127 ; IsInQuaiLedgerScope: a[1] <= 127 *)
Definition is_qi (a : bytes) : bool := 127 <? second a.
Definition is_quai (a : bytes) : bool := second a <=? 127.

(* Location.Equal = bytes.Equal *)
Definition loc_eqb (a b : location) : bool := keqb a b.

(* the specification-level predicate: address a lies in zone l *)
Definition in_zone (a : bytes) (l : location) : bool :=
  (context l =? ZONE_CTX) && (nth 0 a 0 =? byte_prefix l).

(* Location.ContainsAddress *)
Definition contains_address (l : location) (a : bytes) : bool :=
  if negb (context l =? ZONE_CTX) then false else byte_prefix l =? nth 0 a 0.

(* ------------------------------------------------------------------ *)
(* common.Address = interface holding *InternalAddress or *ExternalAddress (or nil) *)
Inductive res :=
| Internal (a : bytes)
| External (a : bytes)
| Err.

Definition res_bytes (r : res) : bytes :=
  match r with Internal a | External a => a | Err => [] end.

(* common/address.go BytesToAddress, parameterised by the repair:
   fx = false: IsInChainScope(b, loc) on the raw slice (current code)
   fx = true : IsInChainScope on the 20 stored bytes (design/C16.fix.diff) *)
Definition bytes_to_address_gen (fx : bool) (b : bytes) (l : location) : res :=
  let view := if fx then to20 b else b in
  if in_chain_scope view l then Internal (to20 b) else External (to20 b).

Definition bytes_to_address : bytes -> location -> res := bytes_to_address_gen fix_applied.

(* common/address.go Bytes20ToAddress (argument is a [20]byte) *)
Definition bytes20_to_address (b : bytes) (l : location) : res := bytes_to_address b l.

(* Address.InternalAddress *)
Definition internal_address (r : res) : option bytes :=
  match r with Internal a => Some a | _ => None end.

(* Address.InternalAndQuaiAddress: nil -> err; Qi -> err; not internal -> err *)
Definition internal_and_quai (r : res) : option bytes :=
  match r with
  | Err => None
  | Internal a => if is_qi a then None else Some a
  | External a => None
  end.

(* Address.InternalAndQiAddress *)
Definition internal_and_qi (r : res) : option bytes :=
  match r with
  | Err => None
  | Internal a => if is_quai a then None else Some a
  | External a => None
  end.

(* common/address.go CheckIfBytesAreInternalAndQiAddress (true = nil error) *)
Definition check_internal_qi (b : bytes) (l : location) : bool :=
  if negb (Nat.eqb (length b) ADDRESS_LENGTH) then false
  else if negb (in_chain_scope b l) then false
  else if is_quai b then false
  else true.

(* common/address.go IsConversionOutput *)
Definition is_conversion_output (a : bytes) (l : location) : bool :=
  if negb (Nat.eqb (length a) ADDRESS_LENGTH) then false
  else loc_eqb (location_of a) l && (second a <=? 127).

(* ------------------------------------------------------------------ *)
(* hex text (strings as lists of character codes) *)

(* encoding/hex reverse table *)
Definition hex_val (c : N) : option N :=
  if (48 <=? c) && (c <=? 57) then Some (c - 48)
  else if (97 <=? c) && (c <=? 102) then Some (c - 87)
  else if (65 <=? c) && (c <=? 70) then Some (c - 55)
  else None.

Definition is_hex_char (c : N) : bool := match hex_val c with Some _ => true | None => false end.

(* encoding/hex.DecodeString, errors dropped (common.Hex2Bytes): the bytes decoded before the first bad pair *)
Fixpoint hex_decode (s : list N) : bytes :=
  match s with
  | p :: q :: s' =>
      match hex_val p, hex_val q with
      | Some a, Some b => (a * 16 + b) :: hex_decode s'
      | _, _ => []
      end
  | _ => []
  end.

(* common.has0xPrefix / hexutil.bytesHave0xPrefix *)
Definition has_0x (s : list N) : bool :=
  match s with
  | 48 :: x :: _ => (x =? 120) || (x =? 88)
  | _ => false
  end.

(* common/bytes.go FromHex *)
Definition from_hex (s : list N) : bytes :=
  let s1 := if has_0x s then skipn 2 s else s in
  let s2 := if N.odd (len s1) then 48 :: s1 else s1 in
  hex_decode s2.

Definition hex_digit (n : N) : N := if n <? 10 then 48 + n else 87 + n.
Definition hex_encode (a : bytes) : list N :=
  flat_map (fun b => [hex_digit (b / 16); hex_digit (b mod 16)]) a.
Definition hex0x (a : bytes) : list N := 48 :: 120 :: hex_encode a.     (* "0x" ++ hex *)

(* common/address.go HexToAddress *)
Definition hex_to_address (s : list N) (l : location) : res := bytes_to_address (from_hex s) l.
(* common/address.go HexToAddressBytes (no classification) *)
Definition hex_to_address_bytes (s : list N) : bytes := to20 (from_hex s).

(* common/address.go IsHexAddress *)
Definition is_hex_address (s : list N) : bool :=
  let s1 := if has_0x s then skipn 2 s else s in
  Nat.eqb (length s1) (2 * ADDRESS_LENGTH) && forallb is_hex_char s1.

(* common/types.go NewMixedcaseAddressFromString *)
Definition mixedcase_from_string (s : list N) (l : location) : res :=
  if negb (is_hex_address s) then Err else bytes_to_address (from_hex s) l.

(* hexutil.UnmarshalFixedText into a 20-byte buffer: checkText(wantPrefix) ; length ; syntax ; decode *)
Definition unmarshal_fixed_text (s : list N) : option bytes :=
  match s with
  | [] => None                                     (* raw = nil: length 0, want 40 *)
  | _ =>
      if has_0x s then
        let raw := skipn 2 s in
        if N.odd (len raw) then None
        else if negb (Nat.eqb (Nat.div (length raw) 2) ADDRESS_LENGTH) then None
        else if forallb is_hex_char raw then Some (hex_decode raw)
        else None
      else None
  end.

(* hexutil.isString *)
Definition is_string (s : list N) : bool :=
  match s with
  | 34 :: _ :: _ => last s 0 =? 34
  | _ => false
  end.
Definition unquote (s : list N) : list N := removelast (tl s).

(* Address.UnmarshalText: Bytes20ToAddress(temp, Location{0,0}) — location-less *)
Definition unmarshal_text (s : list N) : res :=
  match unmarshal_fixed_text s with
  | Some t => bytes20_to_address t [0; 0]
  | None => Err
  end.

(* Address.UnmarshalJSON: error and empty input -> zero address at Location{0,0} *)
Definition unmarshal_json (s : list N) : res :=
  let r := if is_string s then unmarshal_fixed_text (unquote s) else None in
  match r with
  | Some t => bytes20_to_address t [0; 0]
  | None =>
      match s with
      | [] => bytes20_to_address (repeat 0 20) [0; 0]
      | _ => Err
      end
  end.

(* MixedcaseAddress.UnmarshalJSON: Bytes20ToAddress(temp, Location{}) *)
Definition mixedcase_unmarshal_json (s : list N) : res :=
  match (if is_string s then unmarshal_fixed_text (unquote s) else None) with
  | Some t => bytes20_to_address t []
  | None => Err
  end.

(* Address.DecodeRLP on the payload of an RLP string: BytesToAddress(temp, Location{0,0}) *)
Definition decode_rlp (payload : bytes) : res := bytes_to_address payload [0; 0].

(* Address.ProtoDecode: nil message or nil Value -> error *)
Definition proto_decode (v : option bytes) (l : location) : res :=
  match v with
  | None => Err
  | Some b => bytes_to_address b l
  end.

(* core/types/transaction.go Transaction.ProtoDecode: `to`, `etx_sender`, access-list tuple
   addresses are handed to BytesToAddress with whatever length came over the wire *)
Definition wire_to_address (b : bytes) (l : location) : res := bytes_to_address b l.

(* Address.Scan (database/sql) *)
Definition scan (src : bytes) (l : location) : res :=
  if negb (Nat.eqb (length src) ADDRESS_LENGTH) then Err else bytes20_to_address src l.

(* math/big Int.Bytes: big-endian without leading zeros *)
Fixpoint strip_zeros (b : bytes) : bytes :=
  match b with
  | 0 :: b' => strip_zeros b'
  | _ => b
  end.
(* common/address.go BigToAddress, input = any big-endian representation of the integer *)
Definition big_to_address (b : bytes) (l : location) : res := bytes_to_address (strip_zeros b) l.

(* crypto/crypto.go PubkeyBytesToAddress, PubkeyToAddress, CreateAddress, CreateAddress2,
   types.recoverPlain: BytesToAddress(Keccak256(...)[12:], loc); the digest is an input *)
Definition digest_to_address (digest : bytes) (l : location) : res :=
  bytes_to_address (skipn 12 digest) l.

(* ------------------------------------------------------------------ *)
(* core/vm/evm.go GrindContract: attempts i = 0 .. fuel-1, digest i = Keccak256(0xff ++ sender ++ salt_i ++ codeHash) *)
Inductive grind_res :=
| GOk (a : bytes) (gas : N)
| GErr.                                  (* out of gas, or attempts exhausted *)

Fixpoint grind_loop (H : N -> bytes) (l : location) (fuel : nat) (i gas cost : N) : grind_res :=
  match fuel with
  | O => GErr                                             (* "exceeded number of attempts" *)
  | S fuel' =>
      if gas <? cost then GErr                            (* "out of gas grinding" *)
      else
        let gas' := gas - cost in
        match internal_and_quai (digest_to_address (H i) l) with
        | Some a => GOk a gas'
        | None => grind_loop H l fuel' (i + 1) gas' cost
        end
  end.

(* attempt bound: params.PreviousMaxAddressGrindAttempts before MaxGrindIncreaseForkBlock, else MaxAddressGrindAttempts *)
Definition grind_attempts (prev_max max fork_block block_number : N) : N :=
  if block_number <? fork_block then prev_max else max.

Definition grind (H : N -> bytes) (l : location) (attempts gas cost : N) : grind_res :=
  grind_loop H l (N.to_nat attempts) 0 gas cost.

(* core/vm/evm.go EVM.Create address selection: CreateAddress first, grind if it is not
   an internal Quai address (keccak gas is only charged on the grinding path) *)
Definition create_select (d0 : bytes) (H : N -> bytes) (l : location) (attempts gas cost : N) : grind_res :=
  match internal_and_quai (digest_to_address d0 l) with
  | Some a => GOk a gas
  | None => grind H l attempts gas cost
  end.

(* core/vm/evm.go EVM.Create2 + create: no grinding, create() refuses non internal-Quai addresses *)
Definition create2_select (d : bytes) (l : location) : option bytes :=
  internal_and_quai (digest_to_address d l).

(* core/state/statedb.go createObject guard on an InternalAddress value (true = object created) *)
Definition create_object_guard (a : bytes) (l : location) : bool :=
  if negb (in_chain_scope a l) then false
  else if negb (is_quai a) then false
  else true.

(* ------------------------------------------------------------------ *)
(* core/state_processor.go ProcessQiTx, classification of one output (txOut.Address raw, len(tx.Data())):
   toAddr := BytesToAddress(txOut.Address, location); branches use toAddr.Location() and the ledger bit *)
Inductive qi_out :=
| QConvert          (* Qi->Quai conversion, aggregated, no UTXO *)
| QWrap             (* wrapped Qi, aggregated; local UTXO unless skipped by fork *)
| QReject
| QEtx              (* cross-zone ETX *)
| QUtxo.            (* UTXO created in this zone *)

Definition MAX_QI_TX_DATA_LENGTH : N := 22.     (* params.MaxQiTxDataLength, checked against Generated *)

Definition qi_output (addr : bytes) (datalen : N) (l : location) : qi_out :=
  let a := to20 addr in
  let here := loc_eqb (location_of a) l in
  if here && is_quai a && (datalen =? MAX_QI_TX_DATA_LENGTH) then QConvert
  else if here && is_quai a && (datalen =? 20) then QWrap
  else if is_quai a then QReject
  else if negb here then QEtx             (* is_qi holds here; further eligibility checks not modelled *)
  else QUtxo.

(* ------------------------------------------------------------------ *)
(* core/state_processor.go ProcessQiTx, the WHOLE transaction (extension round): the three data
   guards, the output loop with its shared mutable state (the `addresses` set seeded with the owners
   of the spent inputs, the flags `conversion` / `wrapping`, `convertAddress`), the wrapping branch
   that falls through to the ETX / UTXO part before the fork params.QiWrappingChangeBlock
   (qiWrappingSkipsLocalUTXO), the kQuai hold intervals and the aggregated conversion / wrapping ETX.
   Not modelled (the harness keeps them satisfied): input checks, fees, gas pool / ETX gas limits,
   denominations, lock, ETX eligibility, signature. *)
Record qi_st := mk_qst {
  q_seen : list bytes;          (* addresses: map[AddressBytes]struct{} (keys are 20 bytes) *)
  q_conv : bool;                (* conversion *)
  q_wrap : bool;                (* wrapping *)
  q_cto : bytes                 (* convertAddress (20 bytes; [] while unset) *)
}.

Inductive qi_ev :=
| EvUtxo (idx : N) (owner : bytes)              (* rawdb.CreateUTXO(batch, tx.Hash(), idx, NewUtxoEntry(&txOut)): owner = RAW txOut.Address *)
| EvEtx (ty : N) (idx : N) (cls : N) (to : bytes).  (* ty 0 = DefaultType, 1 = ConversionType, 2 = WrappingQiType;
                                                       cls = class of the To object (0 internal / 1 external) *)

Fixpoint mem_key (a : bytes) (s : list bytes) : bool :=
  match s with [] => false | x :: r => keqb a x || mem_key a r end.

Definition class_of (b : bytes) (l : location) : N :=
  match bytes_to_address b l with Internal _ => 0 | _ => 1 end.

(* the three guards on tx.Data() at the head of ProcessQiTx (ledger tests do not depend on a location) *)
Definition qi_data_ok (data : bytes) : bool :=
  let n := N.of_nat (length data) in
  if negb (n =? 0) && (negb (n =? MAX_QI_TX_DATA_LENGTH) && negb (n =? 20)) then false
  else if (n =? 20) && negb (is_quai (to20 data)) then false
  else if (n =? MAX_QI_TX_DATA_LENGTH) && negb (is_qi (to20 (firstn 20 (skipn 2 data)))) then false
  else true.

(* one iteration of `for txOutIdx, txOut := range tx.TxOut()`; skip = qiWrappingSkipsLocalUTXO(currentHeader) *)
Definition qi_step (l : location) (data : bytes) (skip : bool) (st : qi_st) (idx : N) (addr : bytes)
  : option (qi_st * list qi_ev) :=
  let a := to20 addr in
  let dl := N.of_nat (length data) in
  if mem_key a (q_seen st) then None                       (* Duplicate address in QiTx outputs *)
  else
    let here := loc_eqb (location_of a) l in
    let tail (st' : qi_st) : option (qi_st * list qi_ev) :=
      if negb here then                                    (* this output creates an ETX *)
        if negb (is_qi a) then None
        else Some (st', [EvEtx 0 idx (class_of addr l) a])
      else Some (st', [EvUtxo idx addr]) in                (* this output creates a normal UTXO *)
    if here && is_quai a && (dl =? MAX_QI_TX_DATA_LENGTH) then      (* Qi->Quai conversion *)
      if q_conv st && negb (keqb a (q_cto st)) then None
      else Some (mk_qst (q_seen st) true (q_wrap st) a, [])         (* delete(addresses, ..); continue *)
    else if here && is_quai a && (dl =? 20) then                    (* wrapped Qi *)
      match internal_and_quai (bytes_to_address data l) with        (* ownerContract *)
      | None => None
      | Some _ =>
          let st' := mk_qst (q_seen st) (q_conv st) true a in
          if skip then Some (st', []) else tail st'                 (* before the fork: falls through *)
      end
    else if is_quai a then None
    else tail (mk_qst (a :: q_seen st) (q_conv st) (q_wrap st) (q_cto st)).

Fixpoint qi_loop (l : location) (data : bytes) (skip : bool) (st : qi_st) (idx : N) (outs : list bytes)
  : option (qi_st * list qi_ev) :=
  match outs with
  | [] => Some (st, [])
  | o :: r =>
      match qi_step l data skip st idx o with
      | None => None
      | Some (st1, e1) =>
          match qi_loop l data skip st1 (idx + 1) r with
          | None => None
          | Some (st2, e2) => Some (st2, e1 ++ e2)
          end
      end
  end.

(* conversions are refused during the two kQuai hold intervals (prime terminus number) *)
Definition in_hold (ptn : N) : bool :=
  ((C16Sites.kawpow_fork_block <=? ptn) && (ptn <? C16Sites.kawpow_fork_block + C16Sites.kquai_change_hold_interval))
  || ((C16Sites.sha_equivalent_difficulty_fork_block <=? ptn)
      && (ptn <? C16Sites.sha_equivalent_difficulty_fork_block + C16Sites.kquai_change_hold_interval)).

Definition qi_finish (l : location) (ptn : N) (st : qi_st) : option (list qi_ev) :=
  if q_conv st && in_hold ptn then None
  else if q_conv st || q_wrap st then
    if q_conv st && q_wrap st then None
    else Some [EvEtx (if q_wrap st then 2 else 1) 0 (class_of (q_cto st) l) (q_cto st)]
  else Some [].

Definition wrap_skips (ptn : N) : bool := C16Sites.qi_wrapping_change_block <=? ptn.

(* owners = keys put into `addresses` by the input loop (first 20 bytes of the owners of the spent UTXOs) *)
Definition qi_process (l : location) (owners outs : list bytes) (data : bytes) (ptn : N) : option (list qi_ev) :=
  if negb (qi_data_ok data) then None
  else
    match qi_loop l data (wrap_skips ptn) (mk_qst owners false false []) 0 outs with
    | None => None
    | Some (st, evs) =>
        match qi_finish l ptn st with
        | None => None
        | Some f => Some (evs ++ f)
        end
    end.

Definition ev_is_utxo (e : qi_ev) : bool := match e with EvUtxo _ _ => true | _ => false end.
(* what the harness sees: the UTXOs found under (tx.Hash(), i) for i = 0.., and the returned ETX slice *)
Definition qi_view (r : option (list qi_ev)) : option (list qi_ev * list qi_ev) :=
  match r with
  | None => None
  | Some evs => Some (filter ev_is_utxo evs, filter (fun e => negb (ev_is_utxo e)) evs)
  end.

(* ------------------------------------------------------------------ *)
(* Addresses handed out from STORED / CACHED bytes.
   core/types/transaction_signing.go: Sender, SignerV1.Sender, SignerV1.Equal, sigCache;
   core/types/transaction.go: Transaction.From, SetFrom, Hash, FromChain, AsMessage.
   The sender cache of a *Transaction holds (signer, 20 bytes).  Signer.Equal compares the chain
   id ONLY, so an entry written by a signer of one location is served to signers of every other
   location of the same chain; the model keeps the filling signer's location in the state
   (as the code does) so that the theorems can say that no result depends on it. *)
Inductive tx_kind := TQuai | TEtx | TQi.

Record txobj := mk_tx {
  tk : tx_kind;
  tchain : N;                    (* tx.ChainId() *)
  tdigest : option bytes;        (* Keccak256(pubkey recovered from (V,R,S)); None: signature values invalid *)
  tetx_raw : bytes;              (* ExternalTx only: wire bytes of etx_sender ... *)
  tetx_loc : location            (* ... and the location the transaction object was decoded at *)
}.

(* the Address object stored in ExternalTx.Sender by Transaction.ProtoDecode *)
Definition etx_stored (t : txobj) : res := wire_to_address (tetx_raw t) (tetx_loc t).

Record sstate := mk_st {
  st_cache : option (N * location * bytes);   (* tx.from: (signer chain id, signer location, from) *)
  st_hashed : bool;                           (* tx.hash memoised *)
  st_fromchain : option location              (* tx.fromChain memoised *)
}.
Definition st_init : sstate := mk_st None false None.
Definition set_cache (s : sstate) (c : option (N * location * bytes)) : sstate :=
  mk_st c (st_hashed s) (st_fromchain s).
Definition set_hashed (s : sstate) : sstate := mk_st (st_cache s) true (st_fromchain s).
Definition set_fromchain (s : sstate) (l : location) : sstate := mk_st (st_cache s) (st_hashed s) (Some l).

(* SignerV1.Sender (no cache): ETX -> stored object; Qi -> error; chain id mismatch -> error;
   recoverPlain: invalid signature -> error, else BytesToAddress(Keccak256(pub[1:])[12:], s.nodeLocation) *)
Definition signer_sender (t : txobj) (chain : N) (l : location) : res :=
  match tk t with
  | TEtx => etx_stored t
  | TQi => Err
  | TQuai =>
      if negb (tchain t =? chain) then Err
      else match tdigest t with
           | None => Err
           | Some d => digest_to_address d l
           end
  end.

(* types.Sender(signer, tx) *)
Definition sender_step (t : txobj) (s : sstate) (chain : N) (l : location) : res * sstate :=
  match tk t with
  | TEtx => (etx_stored t, s)
  | TQi => (Err, s)
  | TQuai =>
      let miss :=
        match signer_sender t chain l with
        | Err => (Err, s)
        | r => (r, set_cache s (Some (chain, l, res_bytes r)))        (* addr.Bytes20() *)
        end in
      match st_cache s with
      | Some (c, _, from) =>
          if c =? chain                                               (* sigCache.signer.Equal(signer) *)
          then (bytes20_to_address from l, s)                         (* re-wrapped at signer.Location() *)
          else miss
      | None => miss
      end
  end.

(* Transaction.Hash() without location argument: a QuaiTx recovers its sender through
   Sender(NewSigner(tx.ChainId(), Location{0,0}), tx); on error the hash is not memoised.
   Transaction.Hash(r, z): no sender recovery. *)
Definition hash_step (t : txobj) (s : sstate) (withloc : bool) : sstate :=
  if st_hashed s then s
  else match tk t with
       | TQuai =>
           if withloc then set_hashed s
           else match sender_step t s (tchain t) [0; 0] with
                | (Err, s') => s'
                | (_, s') => set_hashed s'
                end
       | _ => set_hashed s
       end.

Inductive sop :=
| SSender (chain : N) (l : location)                (* types.Sender(NewSigner(chain, l), tx) *)
| SDirect (chain : N) (l : location)                (* NewSigner(chain, l).Sender(tx) *)
| SFrom (l : location)                              (* tx.From(l) *)
| SSetFrom (a : bytes) (chain : N) (l : location)   (* tx.SetFrom(<address with bytes a>, NewSigner(chain, l)) *)
| SHash (withloc : bool)                            (* tx.Hash() / tx.Hash(r, z) *)
| SAsMsg (chain : N) (l : location)                 (* tx.AsMessage(NewSigner(chain, l), nil): From() / ETXSender() *)
| SFromChain (l : location).                        (* tx.FromChain(l) *)

Inductive sobs :=
| SAddr (class : N) (a : bytes) (iquai iqi : bool)
| SErr            (* error / panic *)
| SNil            (* From: nil pointer *)
| SUnit
| SLoc (l : location).

Definition sobs_of_res (r : res) : sobs :=
  match r with
  | Internal a => SAddr 0 a (negb (is_qi a)) (negb (is_quai a))
  | External a => SAddr 1 a false false
  | Err => SErr
  end.

(* Transaction.AsMessage on an ExternalTx sets msg.from = ZeroAddress(s.Location()) before it reads the
   stored sender: Location.BytePrefix indexes loc[1], i.e. panics for a prime / region signer *)
Definition asmsg_obs (t : txobj) (l : location) (r : res) : sobs :=
  match tk t with
  | TEtx => if Nat.ltb (length l) 2 then SErr else sobs_of_res r
  | _ => sobs_of_res r
  end.

Definition sop_step (t : txobj) (s : sstate) (o : sop) : sobs * sstate :=
  match o with
  | SSender chain l => let (r, s') := sender_step t s chain l in (sobs_of_res r, s')
  | SDirect chain l => (sobs_of_res (signer_sender t chain l), s)
  | SFrom l =>
      match st_cache s with
      | Some (_, _, from) => (sobs_of_res (bytes20_to_address from l), s)
      | None => (SNil, s)
      end
  | SSetFrom a chain l => (SUnit, set_cache s (Some (chain, l, to20 a)))
  | SHash w => (SUnit, hash_step t s w)
  | SAsMsg chain l =>
      let s1 := hash_step t s false in
      let (r, s2) := sender_step t s1 chain l in (asmsg_obs t l r, s2)
  | SFromChain l =>
      match st_fromchain s with
      | Some x => (SLoc x, s)
      | None =>
          match tk t with
          | TEtx => let x := location_of (res_bytes (etx_stored t)) in (SLoc x, set_fromchain s x)
          | _ =>
              match sender_step t s (tchain t) l with
              | (Err, _) => (SErr, s)                                  (* panic("failed to get transaction sender!") *)
              | (r, s') => let x := location_of (res_bytes r) in (SLoc x, set_fromchain s' x)
              end
          end
      end
  end.

Fixpoint run_ops (t : txobj) (s : sstate) (ops : list sop) : list sobs * sstate :=
  match ops with
  | [] => ([], s)
  | o :: ops' =>
      let (x, s1) := sop_step t s o in
      let (xs, s2) := run_ops t s1 ops' in (x :: xs, s2)
  end.

(* ------------------------------------------------------------------ *)
(* correspondence cases *)

Inductive input :=
| IBytes (b : bytes) (l : location)
| IBytes20 (b : bytes) (l : location)
| IHex (s : list N) (l : location)
| IHexBytes (s : list N)
| IBig (b : bytes) (l : location)
| IProto (v : option bytes) (l : location)
| IWire (b : bytes) (l : location)             (* Transaction.ProtoDecode to / etx_sender / access list *)
| IRlp (payload : bytes)
| IText (s : list N)
| IJson (s : list N)
| IMixedJson (s : list N)
| IMixedStr (s : list N) (l : location)
| IScan (b : bytes) (l : location)
| IDigest (d : bytes) (l : location)
| IScope (b : bytes) (l : location)
| ICheckQi (b : bytes) (l : location)
| IConvOut (b : bytes) (l : location)
| IGuard (a : bytes) (l : location)
| IGrind (l : location) (block_number gas cost : N) (prefixes : list (N * N)) (final : bytes)
| ICreate (l : location) (d0 : bytes) (block_number gas cost : N) (prefixes : list (N * N)) (final : bytes)
| IQiOut (addr : bytes) (datalen : N) (l : location)
| ISender (t : txobj) (ops : list sop)        (* one history on one *Transaction object *)
| IQiTx (l : location) (owners outs : list bytes) (data : bytes) (ptn : N).   (* one whole Qi transaction *)

Inductive obs :=
| OAddr (class : N) (a : bytes) (zone : location) (qi iquai iqi : bool)   (* class 0 = internal, 1 = external *)
| OErr
| OBytes (a : bytes)
| OBool (b : bool)
| OGrind (r : grind_res)
| OQi (q : qi_out)
| OSeq (xs : list sobs)
| OQiTx (r : option (list qi_ev * list qi_ev)).

Definition obs_of_res (r : res) : obs :=
  match r with
  | Internal a => OAddr 0 a (location_of a) (is_qi a)
                    (match internal_and_quai r with Some _ => true | None => false end)
                    (match internal_and_qi r with Some _ => true | None => false end)
  | External a => OAddr 1 a (location_of a) (is_qi a) false false
  | Err => OErr
  end.

(* digests of the failed grinding attempts are abbreviated to the two bytes that decide the
   outcome (address bytes 0 and 1); the last one is given in full *)
Definition expand (p : N * N) : bytes := repeat 0 12 ++ fst p :: snd p :: repeat 0 18.
Definition digest_fun (prefixes : list (N * N)) (final : bytes) (i : N) : bytes :=
  match nth_error prefixes (N.to_nat i) with
  | Some p => expand p
  | None => final
  end.

(* the attempt bound of the running code: generated constants of params *)
Definition attempts_at (block_number : N) : N :=
  grind_attempts C16Sites.previous_max_address_grind_attempts C16Sites.max_address_grind_attempts
                 C16Sites.max_grind_increase_fork_block block_number.

Definition eval (i : input) : obs :=
  match i with
  | IBytes b l => obs_of_res (bytes_to_address b l)
  | IBytes20 b l => obs_of_res (bytes20_to_address b l)
  | IHex s l => obs_of_res (hex_to_address s l)
  | IHexBytes s => OBytes (hex_to_address_bytes s)
  | IBig b l => obs_of_res (big_to_address b l)
  | IProto v l => obs_of_res (proto_decode v l)
  | IWire b l => obs_of_res (wire_to_address b l)
  | IRlp p => obs_of_res (decode_rlp p)
  | IText s => obs_of_res (unmarshal_text s)
  | IJson s => obs_of_res (unmarshal_json s)
  | IMixedJson s => obs_of_res (mixedcase_unmarshal_json s)
  | IMixedStr s l => obs_of_res (mixedcase_from_string s l)
  | IScan b l => obs_of_res (scan b l)
  | IDigest d l => obs_of_res (digest_to_address d l)
  | IScope b l => OBool (in_chain_scope b l)
  | ICheckQi b l => OBool (check_internal_qi b l)
  | IConvOut b l => OBool (is_conversion_output b l)
  | IGuard a l => OBool (create_object_guard a l)
  | IGrind l bn g c ps f => OGrind (grind (digest_fun ps f) l (attempts_at bn) g c)
  | ICreate l d0 bn g c ps f =>
      match create_select d0 (digest_fun ps f) l (attempts_at bn) g c with
      | GOk a _ => OBytes a
      | GErr => OErr
      end
  | IQiOut addr dl l => OQi (qi_output addr dl l)
  | ISender t ops => OSeq (fst (run_ops t st_init ops))
  | IQiTx l owners outs data ptn => OQiTx (qi_view (qi_process l owners outs data ptn))
  end.

Definition grind_res_eqb (a b : grind_res) : bool :=
  match a, b with
  | GOk x g, GOk y h => keqb x y && (g =? h)
  | GErr, GErr => true
  | _, _ => false
  end.

Definition qi_out_eqb (a b : qi_out) : bool :=
  match a, b with
  | QConvert, QConvert | QWrap, QWrap | QReject, QReject | QEtx, QEtx | QUtxo, QUtxo => true
  | _, _ => false
  end.

Definition sobs_eqb (x y : sobs) : bool :=
  match x, y with
  | SAddr c a iq iqi, SAddr c' a' iq' iqi' => (c =? c') && keqb a a' && Bool.eqb iq iq' && Bool.eqb iqi iqi'
  | SErr, SErr | SNil, SNil | SUnit, SUnit => true
  | SLoc a, SLoc b => keqb a b
  | _, _ => false
  end.

Fixpoint sobs_list_eqb (xs ys : list sobs) : bool :=
  match xs, ys with
  | [], [] => true
  | x :: xs', y :: ys' => sobs_eqb x y && sobs_list_eqb xs' ys'
  | _, _ => false
  end.

Definition qi_ev_eqb (x y : qi_ev) : bool :=
  match x, y with
  | EvUtxo i a, EvUtxo j b => (i =? j) && keqb a b
  | EvEtx t i c a, EvEtx u j d b => (t =? u) && (i =? j) && (c =? d) && keqb a b
  | _, _ => false
  end.

Fixpoint qi_evs_eqb (xs ys : list qi_ev) : bool :=
  match xs, ys with
  | [], [] => true
  | x :: xs', y :: ys' => qi_ev_eqb x y && qi_evs_eqb xs' ys'
  | _, _ => false
  end.

Definition obs_eqb (x y : obs) : bool :=
  match x, y with
  | OAddr c a z q iq iqi, OAddr c' a' z' q' iq' iqi' =>
      (c =? c') && keqb a a' && keqb z z' && Bool.eqb q q' && Bool.eqb iq iq' && Bool.eqb iqi iqi'
  | OErr, OErr => true
  | OBytes a, OBytes b => keqb a b
  | OBool a, OBool b => Bool.eqb a b
  | OGrind a, OGrind b => grind_res_eqb a b
  | OQi a, OQi b => qi_out_eqb a b
  | OSeq a, OSeq b => sobs_list_eqb a b
  | OQiTx None, OQiTx None => true
  | OQiTx (Some (u, e)), OQiTx (Some (u', e')) => qi_evs_eqb u u' && qi_evs_eqb e e'
  | _, _ => false
  end.

Definition case := (N * input * obs)%type.
Definition case_ok (c : case) : bool := let '(_, i, o) := c in obs_eqb (eval i) o.
Definition mismatches (cs : list case) : list N :=
  map (fun c => fst (fst c)) (filter (fun c => negb (case_ok c)) cs).

(* C11 — executable model of the database write sequences of block append / rollback /
   reorg in go-quai and of restart after a crash between two top-level writes.
   Definitions only; proofs are in Proofs/C11.v.

   Code modelled (file.go:func):
   - core/headerchain.go:SetCurrentHeader   normal extension: WriteCanonicalHash (direct put) ->
       AppendBlock -> WriteHeadBlockHash (direct put); on error DeleteCanonicalHash.
       reorg: per rolled-back block ONE batch (DeleteCanonicalHash, undo of the flat key space from
       the undo records, WriteHeadBlockHash(parent), WriteCanonicalHash(parent)); then per
       forwarded block the same three steps as a normal extension, errors swallowed (loop goes on).
   - core/bodydb.go:Append + core/state_processor.go:Apply/Process   bloom (direct put), state trie
       commit (own batch), ETX trie commit (own batch), ONE block batch (UTXO/lockup creations and
       deletions, undo records, receipts, multiset, set size, ProcessedState marker, tx lookups).
       Process rejects a block spending an outpoint that is neither in the database nor created
       earlier in the same batch, and needs the parent's state tries and multiset.
   - core/headerchain.go:loadLastState     restart: head := stored head block hash.
   - core/verif_zone.go:Store (= the writes Slice.Append issues before SetCurrentHeader).

   Trusted/assumed (not modelled): a batch commit is atomic and durable inside leveldb/pebble;
   no torn writes below the engine.  [crash] therefore cuts the sequence only BETWEEN top-level
   operations. *)
From Coq Require Import List NArith Bool.
Import ListNotations.
Local Open Scope N_scope.

(* ---- keys, by the classes of core/rawdb/schema.go ---- *)
Inductive key :=
| KHead                    (* "LastWorkObject": head block hash *)
| KCanon (n : N)           (* "h"+num+"n": canonical hash at height n *)
| KFlat (u : N)            (* "ut"/"cl": one entry of the flat, unversioned UTXO / lockup space *)
| KTrie (b i : N)          (* the state (i=0) / ETX-set (i=1) trie of block b is fully present *)
| KMeta (b : N)            (* per-block records written by the block batch: undo records,
                              multiset, set size, receipts, ProcessedState marker *)
| KBlk (b i : N)           (* header, body, number index, termini, manifest of block b *)
| KBloom (b : N).

Definition key_eqb (a b : key) : bool :=
  match a, b with
  | KHead, KHead => true
  | KCanon x, KCanon y => x =? y
  | KFlat x, KFlat y => x =? y
  | KTrie x i, KTrie y j => (x =? y) && (i =? j)
  | KMeta x, KMeta y => x =? y
  | KBlk x i, KBlk y j => (x =? y) && (i =? j)
  | KBloom x, KBloom y => x =? y
  | _, _ => false
  end.

Definition db := key -> option N.

Definition upd (d : db) (k : key) (o : option N) : db :=
  fun k' => if key_eqb k' k then o else d k'.

Inductive sop := SPut (k : key) (v : N) | SDel (k : key).
(* a top-level write: one direct put/delete, or one batch commit *)
Inductive wop := W1 (o : sop) | WBatch (l : list sop).

Definition apply_sop (d : db) (o : sop) : db :=
  match o with SPut k v => upd d k (Some v) | SDel k => upd d k None end.
Definition apply_sops (l : list sop) (d : db) : db := fold_left apply_sop l d.
Definition apply_wop (d : db) (w : wop) : db :=
  match w with W1 o => apply_sop d o | WBatch l => apply_sops l d end.
Definition apply_all (ws : list wop) (d : db) : db := fold_left apply_wop ws d.

(* the process stops after the first k top-level writes; a batch is all-or-nothing *)
Definition crash (k : nat) (ws : list wop) (d : db) : db := apply_all (firstn k ws) d.

(* ---- blocks: identity and effect on the flat key space ---- *)
Record block := mkB {
  bid : N;                      (* hash; 0 is the genesis block *)
  bparent : N;
  bnum : N;
  bcreated : list (N * N);      (* entries created: key, value *)
  bspent : list (N * N)         (* entries deleted: key, value they had (what the undo record keeps) *)
}.

Definition put_ops (l : list (N * N)) : list sop := map (fun p => SPut (KFlat (fst p)) (snd p)) l.
Definition del_ops (l : list (N * N)) : list sop := map (fun p => SDel (KFlat (fst p))) l.

Definition eff_ops (b : block) : list sop := put_ops (bcreated b) ++ del_ops (bspent b).
(* headerchain.go rollback loop: recreate the spent entries, then delete the created keys *)
Definition undo_ops (b : block) : list sop := put_ops (bspent b) ++ del_ops (bcreated b).

Definition store_writes (b : block) : list wop :=
  map (fun i => W1 (SPut (KBlk (bid b) i) 1)) [0; 1; 2; 3; 4].

(* hib = "the head hash is part of the block batch" (false on the current tree; generated) *)
Definition block_batch (hib : bool) (b : block) : list sop :=
  eff_ops b ++ [SPut (KMeta (bid b)) 1] ++ (if hib then [SPut KHead (bid b)] else []).

Definition fwd_pre (b : block) : list wop := [W1 (SPut (KCanon (bnum b)) (bid b))].
Definition fwd_post (hib : bool) (b : block) : list wop :=
  [ W1 (SPut (KBloom (bid b)) 1);
    WBatch [SPut (KTrie (bid b) 0) 1];
    WBatch [SPut (KTrie (bid b) 1) 1];
    WBatch (block_batch hib b);
    W1 (SPut KHead (bid b)) ].
Definition fwd_writes (hib : bool) (b : block) : list wop := fwd_pre b ++ fwd_post hib b.
Definition fwd_fail (b : block) : list wop := [W1 (SDel (KCanon (bnum b)))].

Definition back_writes (b : block) (pid pnum : N) : list wop :=
  [WBatch (SDel (KCanon (bnum b)) :: undo_ops b ++ [SPut KHead pid; SPut (KCanon pnum) pid])].

Inductive step :=
| SStore (b : block)
| SFwd (b : block)
| SBack (b : block) (pid pnum : N).

Definition step_writes (hib : bool) (s : step) : list wop :=
  match s with
  | SStore b => store_writes b
  | SFwd b => fwd_writes hib b
  | SBack b pid pnum => back_writes b pid pnum
  end.
Definition script_writes (hib : bool) (ss : list step) : list wop := flat_map (step_writes hib) ss.

(* ---- what the code reads back ---- *)
Definition isSome {A} (o : option A) : bool := match o with Some _ => true | None => false end.

(* loadLastState: the head is whatever the head-hash key says (the ProcessedState marker,
   canonical hashes etc. are not consulted) *)
Definition head_id (d : db) : N := match d KHead with Some h => h | None => 0 end.

Definition present (d : db) (id : N) : bool :=
  (id =? 0) || (isSome (d (KTrie id 0)) && isSome (d (KTrie id 1)) && isSome (d (KMeta id))).
Definition state_ok (d : db) : bool := present d (head_id d).

Definition memk (u : N) (l : list (N * N)) : bool := existsb (fun p => fst p =? u) l.

(* Process: parent state + multiset must be there; every spent outpoint must exist in the
   database or be created by the same block (batch pending view) *)
Definition inputs_present (d : db) (b : block) : bool :=
  forallb (fun p => isSome (d (KFlat (fst p))) || memk (fst p) (bcreated b)) (bspent b).
Definition check (d : db) (b : block) : bool := present d (bparent b) && inputs_present d b.

Definition exec_step (hib : bool) (d : db) (s : step) : db :=
  match s with
  | SFwd b =>
      let d1 := apply_all (fwd_pre b) d in
      if check d1 b then apply_all (fwd_post hib b) d1 else apply_all (fwd_fail b) d1
  | _ => apply_all (step_writes hib s) d
  end.
Definition exec (hib : bool) (d : db) (ss : list step) : db := fold_left (exec_step hib) ss d.

(* ---- SetCurrentHeader: which steps it takes from the current head to a target ---- *)
Fixpoint find (bs : list block) (id : N) : option block :=
  match bs with
  | [] => None
  | b :: bs' => if bid b =? id then Some b else find bs' id
  end.

Fixpoint path (fuel : nat) (bs : list block) (id : N) : list block :=
  match fuel with
  | O => []
  | S f =>
      if id =? 0 then []
      else match find bs id with
           | Some b => path f bs (bparent b) ++ [b]
           | None => []
           end
  end.

Fixpoint strip_common (a b : list block) : list block * list block :=
  match a, b with
  | x :: a', y :: b' => if bid x =? bid y then strip_common a' b' else (a, b)
  | _, _ => (a, b)
  end.

Definition num_of (bs : list block) (id : N) : N :=
  match find bs id with Some b => bnum b | None => 0 end.

Definition plan (bs : list block) (head target : N) : list step :=
  let fuel := S (length bs) in
  let '(old, new) := strip_common (path fuel bs head) (path fuel bs target) in
  map (fun b => SBack b (bparent b) (num_of bs (bparent b))) (rev old) ++ map SFwd new.

Inductive action := AAppend (t : N) | AReorg (t : N).

Definition store_of (bs : list block) (t : N) : list step :=
  match find bs t with Some b => [SStore b] | None => [] end.

(* Slice.Append of a block = store it, then SetCurrentHeader; a bare SetCurrentHeader for a reorg *)
Definition action_steps (bs : list block) (head : N) (a : action) : list step :=
  match a with
  | AAppend t => store_of bs t ++ plan bs head t
  | AReorg t => plan bs head t
  end.

Definition retarget (a : action) (t : N) : action :=
  match a with AAppend _ => AAppend t | AReorg _ => AReorg t end.

Definition init : db := fun k => match k with KHead => Some 0 | _ => None end.

(* ---- observables ---- *)
Inductive opclass :=
| CPutBlock | CPutCanon | CDelCanon | CPutHead
| CBatchTrie | CBatchBlock (with_head : bool) | CBatchRollback | COther.

Definition sop_key (o : sop) : key := match o with SPut k _ => k | SDel k => k end.
Definition has_key (f : key -> bool) (l : list sop) : bool := existsb (fun o => f (sop_key o)) l.
Definition is_meta (k : key) := match k with KMeta _ => true | _ => false end.
Definition is_head (k : key) := match k with KHead => true | _ => false end.
Definition is_canon (k : key) := match k with KCanon _ => true | _ => false end.
Definition is_trie (k : key) := match k with KTrie _ _ => true | _ => false end.

Definition class_of (w : wop) : opclass :=
  match w with
  | W1 (SPut (KBlk _ _) _) | W1 (SPut (KBloom _) _) => CPutBlock
  | W1 (SPut (KCanon _) _) => CPutCanon
  | W1 (SDel (KCanon _)) => CDelCanon
  | W1 (SPut KHead _) => CPutHead
  | W1 _ => COther
  | WBatch l =>
      if has_key is_meta l then CBatchBlock (has_key is_head l)
      else if has_key is_head l && has_key is_canon l then CBatchRollback
      else if forallb (fun o => is_trie (sop_key o)) l then CBatchTrie
      else COther
  end.

(* the keys a block OWNS in the unversioned part of the database: flat 'ut'/'cl' entries and its
   per-block records (undo records, multiset, set size, ProcessedState marker). The harness'
   structural write-log monitor (scenario.go:checkLog) evaluates on every logged append / reorg that
   they are only touched by block batches and rollback batches, one per block. *)
Definition is_flat (k : key) := match k with KFlat _ => true | _ => false end.
Definition is_owned (k : key) := is_flat k || is_meta k.
Definition touches_owned (w : wop) : bool :=
  match w with W1 o => is_owned (sop_key o) | WBatch l => has_key is_owned l end.
Definition is_block_batch (w : wop) : bool :=
  match w with WBatch l => has_key is_meta l | _ => false end.
Definition is_rollback_batch (w : wop) : bool :=
  match w with WBatch l => negb (has_key is_meta l) && has_key is_head l && has_key is_canon l | _ => false end.
Definition is_fwd_step (s : step) := match s with SFwd _ => true | _ => false end.
Definition is_back_step (s : step) := match s with SBack _ _ _ => true | _ => false end.

Definition opclass_eqb (a b : opclass) : bool :=
  match a, b with
  | CPutBlock, CPutBlock | CPutCanon, CPutCanon | CDelCanon, CDelCanon | CPutHead, CPutHead
  | CBatchTrie, CBatchTrie | CBatchRollback, CBatchRollback | COther, COther => true
  | CBatchBlock x, CBatchBlock y => Bool.eqb x y
  | _, _ => false
  end.

Fixpoint list_eqb {A} (e : A -> A -> bool) (a b : list A) : bool :=
  match a, b with
  | [], [] => true
  | x :: a', y :: b' => e x y && list_eqb e a' b'
  | _, _ => false
  end.

(* sorted, duplicate-free universe of flat keys mentioned by the blocks *)
Fixpoint insert (x : N) (l : list N) : list N :=
  match l with
  | [] => [x]
  | y :: l' => if x <? y then x :: l else if x =? y then l else y :: insert x l'
  end.
Definition universe (bs : list block) : list N :=
  fold_left (fun acc b => fold_left (fun a p => insert (fst p) a) (bcreated b ++ bspent b) acc) bs [].

Definition flat_list (U : list N) (d : db) : list (N * N) :=
  flat_map (fun u => match d (KFlat u) with Some v => [(u, v)] | None => [] end) U.

Definition pair_eqb (a b : N * N) : bool := (fst a =? fst b) && (snd a =? snd b).

(* ---- cases written by the harness ---- *)
Record obs := mkObs {
  o_k : N;                                  (* crash after the first k top-level writes *)
  o_head : N;                               (* head reported by the restarted node *)
  o_flat : N;                               (* flat key space of the surviving image (index into c_flats) *)
  o_state : bool;                           (* state tries + multiset of the reported head present *)
  o_conts : list (N * N * N)                (* continuation target, head reached, flat afterwards (index) *)
}.

Record case := mkCase {
  c_id : N;
  c_hib : bool;                             (* Generated.C11Gen.head_in_batch *)
  c_blocks : list block;
  c_base : list N;                          (* canonical chain appended (completely) before *)
  c_action : action;
  c_seq : list opclass;                     (* observed classes of the top-level writes *)
  c_flats : list (list (N * N));            (* table of the distinct flat-key-space contents observed *)
  c_obs : list obs                          (* one per crash point *)
}.

Definition base_steps (bs : list block) (base : list N) : list step :=
  flat_map (fun id => match find bs id with Some b => [SStore b; SFwd b] | None => [] end) base.

Definition flat_at (T : list (list (N * N))) (i : N) : list (N * N) := nth (N.to_nat i) T [(0, 0)].

Definition cont_ok (hib : bool) (bs : list block) (U : list N) (T : list (list (N * N))) (a : action)
           (dk : db) (c : N * N * N) : bool :=
  let '(t, h, fl) := c in
  let d' := exec hib dk (action_steps bs (head_id dk) (retarget a t)) in
  (head_id d' =? h) && list_eqb pair_eqb (flat_list U d') (flat_at T fl).

Definition obs_ok (hib : bool) (bs : list block) (U : list N) (T : list (list (N * N))) (a : action)
           (ws : list wop) (d0 : db) (o : obs) : bool :=
  let dk := crash (N.to_nat (o_k o)) ws d0 in
  (head_id dk =? o_head o)
  && list_eqb pair_eqb (flat_list U dk) (flat_at T (o_flat o))
  && Bool.eqb (state_ok dk) (o_state o)
  && forallb (cont_ok hib bs U T a dk) (o_conts o).

Definition case_ok (c : case) : bool :=
  let hib := c_hib c in
  let bs := c_blocks c in
  let U := universe bs in
  let d0 := exec hib init (base_steps bs (c_base c)) in
  let ws := script_writes hib (action_steps bs (head_id d0) (c_action c)) in
  list_eqb opclass_eqb (map class_of ws) (c_seq c)
  && (N.of_nat (length (c_obs c)) =? N.of_nat (length ws) + 1)
  && forallb (obs_ok hib bs U (c_flats c) (c_action c) ws d0) (c_obs c).

Definition mismatches (cs : list case) : list N :=
  map c_id (filter (fun c => negb (case_ok c)) cs).

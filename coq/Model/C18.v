(* C18 -- executable model of go-quai's Merkle Patricia trie (trie/trie.go, trie/encoding.go,
   trie/proof.go, core/types/hashing.go).  Definitions only; proofs are in Proofs/C18_*.v.

   The in-memory node kinds are those of trie/node.go:
     nil            -> Nil
     valueNode      -> Val v
     *shortNode     -> Short key child     (leaf = key ends with the terminator 16 and child is a Val;
                                             extension = child is a Full)
     *fullNode      -> Full children       (17 slots: nibbles 0..15 and the value slot 16)
     hashNode       -> not modelled: an unloaded subtree is the subtree (the hook resolves hash
                       nodes through the database before dumping; resolveHash failing is out of scope)
   Keys are in HEX encoding (one symbol per nibble plus the terminator 16, encoding.go:keybytesToHex),
   exactly what Trie.insert / Trie.delete receive.  A Go panic (invalid node type, index out of
   range) is the error value None. *)
From Coq Require Import List NArith ZArith Bool Arith Uint63.
From GQ Require Import Lib.Key.
Import ListNotations.

Definition val := list N.
Definition hkey := list N.

Inductive node :=
| Nil
| Val (v : val)
| Short (k : hkey) (n : node)
| Full (cs : list node).

(* encoding.go:keybytesToHex *)
Fixpoint hex (bs : list N) : hkey :=
  match bs with
  | [] => [16%N]
  | b :: r => (b / 16)%N :: (b mod 16)%N :: hex r
  end.

(* bytes.Equal(n.Key, key[pos:pos+len(n.Key)]) with the length guard: the rest of key behind k *)
Fixpoint strip (k key : hkey) : option hkey :=
  match k with
  | [] => Some key
  | a :: k' =>
      match key with
      | [] => None
      | x :: key' => if N.eqb a x then strip k' key' else None
      end
  end.

(* encoding.go:prefixLen *)
Fixpoint prefix_len (a b : hkey) : nat :=
  match a, b with
  | x :: a', y :: b' => if N.eqb x y then S (prefix_len a' b') else O
  | _, _ => O
  end.

(* n.Children[i] handed to a recursive call (the local fix keeps the recursion structural) *)
Definition child_app {A : Type} (f : node -> A) (d : A) : list node -> nat -> A :=
  fix go (cs : list node) (i : nat) {struct cs} : A :=
    match cs with
    | [] => d
    | x :: cs' => match i with O => f x | S i' => go cs' i' end
    end.

Fixpoint set_nth (cs : list node) (i : nat) (n : node) : list node :=
  match cs with
  | [] => []
  | x :: r => match i with O => n :: r | S i' => x :: set_nth r i' n end
  end.

Definition empty17 : list node := repeat Nil 17.

(* trie.go:tryGet (a value is returned when the key is used up) *)
Fixpoint lookup (n : node) (key : hkey) {struct n} : option val :=
  match n with
  | Nil => None
  | Val v => match key with [] => Some v | _ => None end
  | Short k c => match strip k key with Some rest => lookup c rest | None => None end
  | Full cs =>
      match key with
      | [] => None
      | c :: rest => child_app (fun x => lookup x rest) None cs (N.to_nat c)
      end
  end.

(* trie.go:insert(nil, _, key, value): value itself when the key is used up, else a short node *)
Definition mk_short (k : hkey) (n : node) : node :=
  match k with [] => n | _ => Short k n end.

(* trie.go:insert.  The dirty flag only avoids re-allocating an unchanged path; the returned
   tree is the same either way, so it is not modelled. *)
Fixpoint insert (n : node) (key : hkey) (value : node) {struct n} : option node :=
  match key with
  | [] => Some value                                    (* len(key) == 0 *)
  | c :: rest =>
    match n with
    | Short k child =>
        let m := prefix_len key k in
        if Nat.eqb m (length k) then                    (* whole short key matches *)
          match insert child (skipn m key) value with
          | Some nn => Some (Short k nn)
          | None => None
          end
        else                                            (* branch out where they differ *)
          match nth_error k m, nth_error key m with
          | Some a, Some b =>
              if N.ltb a 17 && N.ltb b 17 then
                let br := Full (set_nth (set_nth empty17 (N.to_nat a) (mk_short (skipn (S m) k) child))
                                        (N.to_nat b) (mk_short (skipn (S m) key) value)) in
                Some (if Nat.eqb m 0 then br else Short (firstn m key) br)
              else None                                 (* index out of range *)
          | _, _ => None                                (* index out of range *)
          end
    | Full cs =>
        match child_app (fun x => insert x rest value) None cs (N.to_nat c) with
        | Some nn => Some (Full (set_nth cs (N.to_nat c) nn))
        | None => None
        end
    | Nil => Some (Short key value)
    | Val _ => None                                     (* panic: invalid node *)
    end
  end.

(* the loop of trie.go:delete that looks for a single remaining child:
   pos = -1 (SNone), the index (SOne), or -2 (SMany) *)
Inductive single := SNone | SOne (i : nat) | SMany.

Fixpoint scan (cs : list node) (i : nat) (pos : single) : single :=
  match cs with
  | [] => pos
  | Nil :: r => scan r (S i) pos
  | _ :: r => match pos with SNone => scan r (S i) (SOne i) | _ => SMany end
  end.

(* trie.go:delete; returns (dirty, node) *)
Fixpoint delete (n : node) (key : hkey) {struct n} : option (bool * node) :=
  match n with
  | Short k child =>
      let m := prefix_len key k in
      if Nat.ltb m (length k) then Some (false, n)      (* don't replace n on mismatch *)
      else if Nat.eqb m (length key) then Some (true, Nil)
      else
        match delete child (skipn (length k) key) with
        | None => None
        | Some (false, _) => Some (false, n)
        | Some (true, Short k2 c2) => Some (true, Short (k ++ k2) c2)   (* merge short nodes *)
        | Some (true, c') => Some (true, Short k c')
        end
  | Full cs =>
      match key with
      | [] => None                                      (* key[0]: index out of range *)
      | c :: rest =>
          match child_app (fun x => delete x rest) None cs (N.to_nat c) with
          | None => None
          | Some (false, _) => Some (false, n)
          | Some (true, nn) =>
              let cs' := set_nth cs (N.to_nat c) nn in
              match nn with
              | Nil =>
                  match scan cs' 0 SNone with
                  | SOne pos =>
                      if negb (Nat.eqb pos 16) then
                        match nth pos cs' Nil with
                        | Short k2 c2 => Some (true, Short (N.of_nat pos :: k2) c2)
                        | x => Some (true, Short [N.of_nat pos] x)
                        end
                      else Some (true, Short [N.of_nat pos] (nth pos cs' Nil))
                  | _ => Some (true, Full cs')
                  end
              | _ => Some (true, Full cs')
              end
          end
      end
  | Val _ => Some (true, Nil)
  | Nil => Some (false, Nil)
  end.

(* trie.go:TryUpdate / TryDelete / TryGet on KEYBYTES keys *)
Definition is_empty {A : Type} (l : list A) : bool := match l with [] => true | _ => false end.

Definition update (t : node) (k v : list N) : option node :=
  if is_empty v then
    match delete t (hex k) with Some (_, n) => Some n | None => None end
  else insert t (hex k) (Val v).

Definition get (t : node) (k : list N) : list N :=
  match lookup t (hex k) with Some v => v | None => [] end.

Fixpoint run (t : node) (h : list (list N * list N)) : option node :=
  match h with
  | [] => Some t
  | (k, v) :: h' => match update t k v with Some t' => run t' h' | None => None end
  end.

(* ---- several handles on one trie: SecureTrie.Copy (secure_trie.go: `cpy := *t`), which is what
   core/state's CopyTrie / StateDB.Copy use, and the struct copy of the embedded Trie it implies.
   A copy is a second handle on the SAME nodes.  In the model nodes are immutable values and every
   operation is a pure function from trees to trees, so a handle is just a tree: [MCopy h] appends
   the tree of handle h as a new handle, [MUpd h k v] replaces the tree of handle h only.  That the
   Go code (which shares node pointers and key slices between the handles) behaves like this is the
   persistence obligation checked on the real code by the harness' copy/persistence monitors. *)
Inductive mop :=
| MUpd (h : nat) (k v : list N)     (* TryUpdate / TryDelete (empty v) through handle h *)
| MCopy (h : nat).                  (* a copy of handle h becomes the next handle *)

Fixpoint mrun (hs : list node) (ops : list mop) : option (list node) :=
  match ops with
  | [] => Some hs
  | MUpd h k v :: r =>
      match nth_error hs h with
      | Some t => match update t k v with Some t' => mrun (set_nth hs h t') r | None => None end
      | None => None
      end
  | MCopy h :: r =>
      match nth_error hs h with Some t => mrun (hs ++ [t]) r | None => None end
  end.

(* the linear history of each handle: what was written through it and, before it was taken, through
   the handle it was copied from *)
Fixpoint set_nth_h (hs : list (list (list N * list N))) (i : nat) (x : list (list N * list N)) :=
  match hs with
  | [] => []
  | y :: r => match i with O => x :: r | S i' => y :: set_nth_h r i' x end
  end.

Fixpoint mhist (hs : list (list (list N * list N))) (ops : list mop) : list (list (list N * list N)) :=
  match ops with
  | [] => hs
  | MUpd h k v :: r =>
      match nth_error hs h with
      | Some x => mhist (set_nth_h hs h (x ++ [(k, v)])) r
      | None => hs
      end
  | MCopy h :: r =>
      match nth_error hs h with Some x => mhist (hs ++ [x]) r | None => hs end
  end.

Definition addresses (h : nat) (o : mop) : bool :=
  match o with MUpd h' _ _ => Nat.eqb h h' | MCopy _ => false end.

(* ---- canonical form ---- *)
Definition is_nil (n : node) : bool := match n with Nil => true | _ => false end.
Definition is_short (n : node) : bool := match n with Short _ _ => true | _ => false end.

Fixpoint count_nonnil (cs : list node) : nat :=
  match cs with
  | [] => O
  | x :: r => (if is_nil x then 0 else 1) + count_nonnil r
  end.

(* wfn: a non-empty subtree in canonical form.  No empty short key, no short node under a short
   node, no nil under a short node, full nodes have 17 slots of which at least two are occupied,
   no empty value. *)
Fixpoint wfn (n : node) : bool :=
  match n with
  | Nil => false
  | Val v => negb (is_empty v)
  | Short k c => negb (is_empty k) && negb (is_short c) && wfn c
  | Full cs => Nat.eqb (length cs) 17 && Nat.leb 2 (count_nonnil cs)
               && forallb (fun x => is_nil x || wfn x) cs
  end.

Definition wf (n : node) : bool := is_nil n || wfn n.

(* ---- structural comparison with the dump of the real trie ---- *)
Fixpoint node_eqb (a b : node) {struct a} : bool :=
  match a, b with
  | Nil, Nil => true
  | Val v, Val w => keqb v w
  | Short k c, Short k' c' => keqb k k' && node_eqb c c'
  | Full cs, Full cs' =>
      (fix go (l l' : list node) {struct l} : bool :=
         match l, l' with
         | [], [] => true
         | x :: r, y :: r' => node_eqb x y && go r r'
         | _, _ => false
         end) cs cs'
  | _, _ => false
  end.

(* ================= Merkle proofs (trie/hasher.go, trie/proof.go) ================= *)
(* A collapsed node is a node whose large children are replaced by their hash
   (hasher.go:hashShortNodeChildren / hashFullNodeChildren); it is what gets RLP-encoded and stored. *)
Inductive pnode :=
| PNil
| PVal (v : val)
| PShort (k : hkey) (c : pnode)
| PFull (cs : list pnode)
| PHash (h : N).

Definition pchild_app {A : Type} (f : pnode -> A) (d : A) : list pnode -> nat -> A :=
  fix go (cs : list pnode) (i : nat) {struct cs} : A :=
    match cs with
    | [] => d
    | x :: cs' => match i with O => f x | S i' => go cs' i' end
    end.

Section Merkle.
  (* H stands for keccak256 of the RLP encoding of a collapsed node; [small] for "the encoding is
     shorter than 32 bytes" (such a child is embedded in its parent instead of being referenced
     by hash, hasher.go:shortnodeToHash/fullnodeToHash).  Both are arbitrary. *)
  Variable H : pnode -> N.
  Variable small : pnode -> bool.

  (* hasher.go:hash(n, force=false) as seen from the parent: the stored form of a child *)
  Definition refer (p : pnode) : pnode :=
    match p with
    | PShort _ _ | PFull _ => if small p then p else PHash (H p)
    | _ => p                                            (* values and nil are stored inline *)
    end.

  (* the collapsed form of a node: children replaced by their references *)
  Fixpoint collapse (n : node) : pnode :=
    match n with
    | Nil => PNil
    | Val v => PVal v
    | Short k c => PShort k (refer (collapse c))
    | Full cs => PFull (map (fun x => refer (collapse x)) cs)
    end.

  (* Trie.Hash(): the root is always hashed (force=true); empty trie = hash of the empty node *)
  Definition root_hash (t : node) : N := H (collapse t).

  (* proof.go:Prove: the nodes on the path of key; those stored by hash (and the root) become
     proof elements.  [top] = i == 0. *)
  Fixpoint prove (n : node) (key : hkey) (top : bool) {struct n} : list pnode :=
    match key with
    | [] => []
    | c :: rest =>
      let me := collapse n in
      let emit := if top then [me] else match refer me with PHash _ => [me] | _ => [] end in
      match n with
      | Short k child =>
          match strip k key with
          | Some rest' => emit ++ prove child rest' false
          | None => emit
          end
      | Full cs => emit ++ child_app (fun x => prove x rest false) [] cs (N.to_nat c)
      | _ => []
      end
    end.

  (* proof.go:get(tn, key, skipResolved=true) on a decoded proof node *)
  Inductive walk_res := WAbsent | WValue (v : val) | WHash (h : N) (rest : hkey) | WPanic.

  Fixpoint walk (p : pnode) (key : hkey) {struct p} : walk_res :=
    match p with
    | PShort k c =>
        match strip k key with
        | Some rest => walk c rest
        | None => WAbsent
        end
    | PFull cs =>
        match key with
        | [] => WPanic
        | c :: rest => pchild_app (fun x => walk x rest) WPanic cs (N.to_nat c)
        end
    | PHash h => WHash h key
    | PNil => WAbsent
    | PVal v => WValue v
    end.

  (* proof.go:VerifyProof over a proof database = list of collapsed nodes addressed by hash.
     Result: None = error, Some None = proven absent, Some (Some v) = proven value. *)
  Definition db_get (db : list pnode) (h : N) : option pnode :=
    find (fun p => N.eqb (H p) h) db.

  Fixpoint verify (fuel : nat) (want : N) (key : hkey) (db : list pnode) : option (option val) :=
    match fuel with
    | O => None
    | S fuel' =>
        match db_get db want with
        | None => None                                  (* proof node missing *)
        | Some p =>
            match walk p key with
            | WAbsent => Some None
            | WValue v => Some (Some v)
            | WHash h rest => verify fuel' h rest db
            | WPanic => None
            end
        end
    end.
End Merkle.

(* ================= DeriveSha insertion order (core/types/hashing.go) ================= *)
(* rlp.AppendUint64 *)
Fixpoint be_bytes (fuel : nat) (x : N) (acc : list N) : list N :=
  match fuel with
  | O => acc
  | S f => if N.eqb x 0 then acc else be_bytes f (x / 256)%N ((x mod 256)%N :: acc)
  end.

Definition rlp_uint (i : N) : list N :=
  if N.eqb i 0 then [128%N]
  else if N.ltb i 128 then [i]
  else let b := be_bytes 8 i [] in (128 + N.of_nat (length b))%N :: b.

Fixpoint nrange (from : N) (cnt : nat) : list N :=
  match cnt with O => [] | S c => from :: nrange (from + 1)%N c end.

(* the indices in the order DeriveSha feeds them to the hasher: 1..min(n-1,127), 0, 128..n-1 *)
Definition derive_order (n : N) : list N :=
  nrange 1 (N.to_nat (N.min n 128) - 1)
  ++ (if N.ltb 0 n then [0%N] else [])
  ++ nrange 128 (N.to_nat n - 128).

(* ================= range proofs (proof.go:VerifyRangeProof) ================= *)
(* the monotonicity guard, as the Go loop:
     for i := 0; i < len(keys)-1; i++ { if bytes.Compare(keys[i], keys[i+1]) >= 0 { return error } } *)
Fixpoint strict_inc (ks : list (list N)) : bool :=
  match ks with
  | a :: r => match r with b :: _ => kltb a b | [] => true end && strict_inc r
  | [] => true
  end.

(* what an accepted (keys, values) list claims about the trie it was verified against: the keys are
   strictly increasing and replaying the list (the verifier's own TryUpdate loop; an empty value
   deletes) onto the trie changes nothing.  [range_nonstrict_refuted] shows that the second half
   alone is not enough. *)
Definition range_ok (t : node) (ps : list (list N * list N)) : bool :=
  strict_inc (map fst ps) &&
  match run t ps with Some t' => node_eqb t' t | None => false end.

(* ================= trie.Database: holders of committed roots (database.go) ================= *)
(* The garbage-collected memory layer at the granularity of ROOTS (a root's inner nodes live and
   die with it, sharing only keeps more alive).  Roots are numbered; the parent is always the meta
   root common.Hash{} (Reference(root, {}) / Dereference(root), what core/state_processor.go does per
   block).  [pres] = the root is in db.dirties, [disk] = it was flushed, [parents] = node.parents,
   [mkids] = db.dirties[{}].children[root].  [hold] is a ghost: the number of holders, i.e.
   References of an openable root minus Dereferences -- what the callers believe. *)
Record dbst := mkdb { pres : nat -> bool; disk : nat -> bool; parents : nat -> nat; mkids : nat -> nat; hold : nat -> nat }.

Definition fupd {A : Type} (f : nat -> A) (r : nat) (x : A) : nat -> A :=
  fun r' => if Nat.eqb r' r then x else f r'.

Definition db0 : dbst := mkdb (fun _ => false) (fun _ => false) (fun _ => O) (fun _ => O) (fun _ => O).

(* database.go:insert (reached from Trie.Commit): "If the node's already cached, skip", else a new
   entry with parents = 0 *)
Definition db_ins (s : dbst) (r : nat) : dbst :=
  if pres s r then s
  else mkdb (fupd (pres s) r true) (disk s) (fupd (parents s) r O) (mkids s) (hold s).

(* database.go:reference(child = r, parent = {}).  [root_dup] = the clause
   "If the reference already exists, only duplicate for roots" (`ok && parent != (common.Hash{})`)
   lets the meta root hold a root several times; root_dup = false is the code without it. *)
Definition db_ref (root_dup : bool) (s : dbst) (r : nat) : dbst :=
  if negb (pres s r) then
    (* "If the node does not exist, it's a node pulled from disk, skip" *)
    if disk s r then mkdb (pres s) (disk s) (parents s) (mkids s) (fupd (hold s) r (S (hold s r))) else s
  else if Nat.ltb 0 (mkids s r) && negb root_dup then
    mkdb (pres s) (disk s) (parents s) (mkids s) (fupd (hold s) r (S (hold s r)))
  else
    mkdb (pres s) (disk s) (fupd (parents s) r (S (parents s r))) (fupd (mkids s) r (S (mkids s r)))
         (fupd (hold s) r (S (hold s r))).

(* database.go:dereference(child = r, parent = {}); natural-number subtraction is the guarded
   decrement (`if node.parents > 0 { node.parents-- }`) *)
Definition db_deref (s : dbst) (r : nat) : dbst :=
  let mk := fupd (mkids s) r (mkids s r - 1) in
  let hd := fupd (hold s) r (hold s r - 1) in
  if negb (pres s r) then mkdb (pres s) (disk s) (parents s) mk hd
  else
    let p := parents s r - 1 in
    if Nat.eqb p 0 then mkdb (fupd (pres s) r false) (disk s) (fupd (parents s) r O) mk hd
    else mkdb (pres s) (disk s) (fupd (parents s) r p) mk hd.

(* database.go:Commit(root): written to disk and uncached (references are not touched) *)
Definition db_flush (s : dbst) (r : nat) : dbst :=
  if pres s r then mkdb (fupd (pres s) r false) (fupd (disk s) r true) (parents s) (mkids s) (hold s) else s.

(* database.go:Cap(0): the whole flush list goes to disk *)
Definition db_capall (s : dbst) : dbst :=
  mkdb (fun _ => false) (fun r => disk s r || pres s r) (parents s) (mkids s) (hold s).

(* a new trie.Database over the same disk: the memory layer and every holder are gone *)
Definition db_reopen (s : dbst) : dbst :=
  mkdb (fun _ => false) (disk s) (fun _ => O) (fun _ => O) (fun _ => O).

Inductive dbop :=
| DIns (r : nat) | DRef (r : nat) | DDeref (r : nat) | DFlush (r : nat) | DCapAll | DReopen
| DObs (r : nat) (openable : bool).   (* observation: can the root be opened and fully walked? *)

Definition db_step (root_dup : bool) (s : dbst) (o : dbop) : dbst :=
  match o with
  | DIns r => db_ins s r
  | DRef r => db_ref root_dup s r
  | DDeref r => db_deref s r
  | DFlush r => db_flush s r
  | DCapAll => db_capall s
  | DReopen => db_reopen s
  | DObs _ _ => s
  end.

Definition db_run (root_dup : bool) (ops : list dbop) (s : dbst) : dbst := fold_left (db_step root_dup) ops s.

Definition db_openable (s : dbst) (r : nat) : bool := pres s r || disk s r.

(* correspondence: a root with a holder (or a persisted one) was observed openable *)
Fixpoint db_crun (s : dbst) (ops : list dbop) : bool :=
  match ops with
  | [] => true
  | DObs r b :: rest => implb (Nat.ltb 0 (hold s r) || disk s r) b && db_crun s rest
  | o :: rest => db_crun (db_step true s o) rest
  end.

(* ================= StackTrie (trie/stacktrie.go) ================= *)
(* The streaming hasher behind DeriveSha.  Node types as in stacktrie.go (emptyNode, branchNode,
   extNode, leafNode, hashedNode).  Key chunks are HEX nibbles WITHOUT the terminator (TryUpdate cuts
   it off: st.insert(k[:len(k)-1], value)); a node's [key] is the chunk from its keyOffset on, so
   the model hands the REST of the key down.  A hashed node is opaque to the code (it keeps only
   the hash or the short RLP); the model keeps the subtree that was hashed as a ghost so that
   [to_node] can say which trie the StackTrie stands for.  Go panics are None. *)
Inductive snode :=
| SE                                  (* emptyNode / nil child *)
| SL (k : hkey) (v : val)             (* leafNode *)
| SX (k : hkey) (c : snode)           (* extNode, children[0] = c *)
| SB (cs : list snode)                (* branchNode, children[0..15] *)
| SH (g : node).                      (* hashedNode (ghost: what was hashed) *)

(* the trie a StackTrie stands for *)
Fixpoint to_node (s : snode) : node :=
  match s with
  | SE => Nil
  | SL k v => Short (k ++ [16%N]) (Val v)
  | SX k c => Short k (to_node c)
  | SB cs => Full (map to_node cs ++ [Nil])
  | SH g => g
  end.

(* stacktrie.go:hash(): the node becomes a hashedNode *)
Definition st_hash (s : snode) : snode :=
  match s with
  | SH g => SH g                                      (* "Shortcut if node is already hashed" *)
  | _ => SH (to_node s)
  end.

Definition is_se (s : snode) : bool := match s with SE => true | _ => false end.

(* "Unresolve elder siblings": for i := idx-1; i >= 0; i-- { if children[i] != nil { hash it; break } }
   on the list of the children below idx: the LAST non-nil one is hashed *)
Fixpoint hash_last (l : list snode) : list snode * bool :=
  match l with
  | [] => ([], false)
  | x :: r =>
      let (r', found) := hash_last r in
      if found then (x :: r', true)
      else if is_se x then (x :: r, false) else (st_hash x :: r, true)
  end.

Definition hash_elder (cs : list snode) (i : nat) : list snode :=
  fst (hash_last (firstn i cs)) ++ skipn i cs.

Definition schild_app {A : Type} (f : snode -> A) (d : A) : list snode -> nat -> A :=
  fix go (cs : list snode) (i : nat) {struct cs} : A :=
    match cs with
    | [] => d
    | x :: cs' => match i with O => f x | S i' => go cs' i' end
    end.

Fixpoint sset_nth (cs : list snode) (i : nat) (n : snode) : list snode :=
  match cs with
  | [] => []
  | x :: r => match i with O => n :: r | S i' => x :: sset_nth r i' n end
  end.

Definition sempty16 : list snode := repeat SE 16.

(* the two-children branch both split cases build: p.children[origIdx] = n; p.children[newIdx] = o *)
Definition sbranch2 (a b : N) (n o : snode) : snode :=
  SB (sset_nth (sset_nth sempty16 (N.to_nat a) n) (N.to_nat b) o).

(* stacktrie.go:insert(key, value); [key] = key[st.keyOffset:] *)
Fixpoint st_insert (s : snode) (key : hkey) (v : val) {struct s} : option snode :=
  match s with
  | SB cs =>
      match key with
      | [] => None                                      (* key[st.keyOffset]: index out of range *)
      | c :: rest =>
          let i := N.to_nat c in
          if Nat.ltb i 16 then
            (* the elder-sibling loop touches children below idx only: children[idx] is that of cs *)
            match schild_app (fun x => st_insert x rest v) None cs i with
            | Some nn => Some (SB (sset_nth (hash_elder cs i) i nn))
            | None => None
            end
          else None                                     (* children[idx]: index out of range *)
      end
  | SX k c =>
      let m := prefix_len key k in                      (* getDiffIndex *)
      if Nat.eqb m (length k) then                      (* chunks identical: recurse into the child *)
        match st_insert c (skipn m key) v with
        | Some c' => Some (SX k c')
        | None => None
        end
      else
        match nth_error k m, nth_error key m with
        | Some a, Some b =>
            if N.ltb a 16 && N.ltb b 16 then
              let n := st_hash (if Nat.ltb m (length k - 1) then SX (skipn (S m) k) c else c) in
              let p := sbranch2 a b n (SL (skipn (S m) key) v) in
              Some (if Nat.eqb m 0 then p else SX (firstn m k) p)
            else None
        | _, _ => None                                  (* getDiffIndex: key shorter than the chunk *)
        end
  | SL k v0 =>
      let m := prefix_len key k in
      if Nat.leb (length k) m then None                 (* "Trying to insert into existing key" *)
      else
        match nth_error k m, nth_error key m with
        | Some a, Some b =>
            if N.ltb a 16 && N.ltb b 16 then
              let p := sbranch2 a b (st_hash (SL (skipn (S m) k) v0)) (SL (skipn (S m) key) v) in
              Some (if Nat.eqb m 0 then p else SX (firstn m k) p)
            else None
        | _, _ => None                                  (* getDiffIndex: key shorter than the chunk *)
        end
  | SE => Some (SL key v)
  | SH _ => None                                        (* "trying to insert into hash" *)
  end.

(* keybytesToHex(key) without the terminator *)
Fixpoint nibbles (bs : list N) : hkey :=
  match bs with
  | [] => []
  | b :: r => (b / 16)%N :: (b mod 16)%N :: nibbles r
  end.

(* stacktrie.go:TryUpdate *)
Definition st_update (s : snode) (k v : list N) : option snode :=
  if is_empty v then None                               (* panic("deletion not supported") *)
  else st_insert s (nibbles k) v.

Fixpoint st_run (s : snode) (h : list (list N * list N)) : option snode :=
  match h with
  | [] => Some s
  | (k, v) :: h' => match st_update s k v with Some s' => st_run s' h' | None => None end
  end.

(* "a diverges below b": a < b in bytes.Compare order and neither is a prefix of the other -- what a
   StackTrie needs of consecutive keys *)
Fixpoint div_lt (a b : list N) : bool :=
  match a, b with
  | x :: a', y :: b' => if N.eqb x y then div_lt a' b' else N.ltb x y
  | _, _ => false
  end.

Fixpoint chain_div (ks : list (list N)) : bool :=
  match ks with
  | a :: r => match r with b :: _ => div_lt a b | [] => true end && chain_div r
  | [] => true
  end.

(* ================= correspondence cases ================= *)
Inductive cop :=
| CUpd (k v : list N)          (* TryUpdate (empty v = delete) *)
| CDel (k : list N)            (* TryDelete *)
| CCommit                      (* Commit + reload from the trie.Database: invisible in the model *)
| CGet (k : list N) (v : list N)   (* observed TryGet *)
| CDump (d : node).            (* observed structural dump *)

Fixpoint crun (t : node) (ops : list cop) : bool :=
  match ops with
  | [] => true
  | CUpd k v :: r => match update t k v with Some t' => crun t' r | None => false end
  | CDel k :: r => match update t k [] with Some t' => crun t' r | None => false end
  | CCommit :: r => crun t r
  | CGet k v :: r => keqb (get t k) v && crun t r
  | CDump d :: r => node_eqb t d && crun t r
  end.

(* the same with several handles (copies): every observation is checked on the handle it was made on *)
Definition cstep (t : node) (o : cop) : option node :=
  match o with
  | CUpd k v => update t k v
  | CDel k => update t k []
  | CCommit => Some t
  | CGet k v => if keqb (get t k) v then Some t else None
  | CDump d => if node_eqb t d then Some t else None
  end.

Inductive mcop :=
| MOp (h : nat) (o : cop)
| MCp (h : nat).

Fixpoint mcrun (hs : list node) (ops : list mcop) : bool :=
  match ops with
  | [] => true
  | MOp h o :: r =>
      match nth_error hs h with
      | Some t => match cstep t o with Some t' => mcrun (set_nth hs h t') r | None => false end
      | None => false
      end
  | MCp h :: r =>
      match nth_error hs h with Some t => mcrun (hs ++ [t]) r | None => false end
  end.

(* Case files carry byte strings packed into primitive 63-bit integers (7 bytes per word,
   big endian, first word = length): Coq parses those an order of magnitude faster than lists
   of N numerals.  [unpack] is the inverse of the harness' pack(). *)
Definition w2n (w : int) : N := Z.to_N (Uint63.to_Z w).

Definition word_bytes (w : int) : list N :=
  let n := w2n w in
  [ (n / 281474976710656) mod 256; (n / 1099511627776) mod 256; (n / 4294967296) mod 256;
    (n / 16777216) mod 256; (n / 65536) mod 256; (n / 256) mod 256; n mod 256 ]%N.

Definition unpack (p : list int) : list N :=
  match p with
  | [] => []
  | len :: ws => firstn (N.to_nat (w2n len)) (flat_map word_bytes ws)
  end.

Inductive dnode :=
| DN
| DV (v : list int)
| DS (k : list int) (c : dnode)
| DF (cs : list dnode).

Fixpoint undump (d : dnode) : node :=
  match d with
  | DN => Nil
  | DV v => Val (unpack v)
  | DS k c => Short (unpack k) (undump c)
  | DF cs => Full (map undump cs)
  end.

Inductive rcop :=
| RUpd (k v : list int)
| RDel (k : list int)
| RCommit
| RGet (k v : list int)
| RDump (d : dnode).

Definition decode_op (o : rcop) : cop :=
  match o with
  | RUpd k v => CUpd (unpack k) (unpack v)
  | RDel k => CDel (unpack k)
  | RCommit => CCommit
  | RGet k v => CGet (unpack k) (unpack v)
  | RDump d => CDump (undump d)
  end.

Inductive rmcop :=
| RM (h : nat) (o : rcop)
| RCp (h : nat).

Definition decode_mop (o : rmcop) : mcop :=
  match o with
  | RM h o => MOp h (decode_op o)
  | RCp h => MCp h
  end.

(* ---- StackTrie cases: the observed shape of the real StackTrie (hook trie/verif_c18_stack.go) after
   an insertion, the observed panic, and the dump of the real trie.Trie built from the same list ---- *)
Inductive xnode :=
| XE
| XL (k v : list int)
| XX (k : list int) (c : xnode)
| XB (cs : list xnode)
| XH.

Fixpoint shape_eqb (s : snode) (x : xnode) {struct s} : bool :=
  match s, x with
  | SE, XE => true
  | SL k v, XL k' v' => keqb k (unpack k') && keqb v (unpack v')
  | SX k c, XX k' c' => keqb k (unpack k') && shape_eqb c c'
  | SB cs, XB xs =>
      (fix go (l : list snode) (l' : list xnode) {struct l} : bool :=
         match l, l' with
         | [], [] => true
         | a :: r, b :: r' => shape_eqb a b && go r r'
         | _, _ => false
         end) cs xs
  | SH _, XH => true
  | _, _ => false
  end.

Inductive rscop :=
| RSUpd (k v : list int) (panicked : bool)   (* StackTrie.TryUpdate; did the real one panic? *)
| RSShape (x : xnode)                        (* observed shape of the real StackTrie *)
| RSTrie (d : dnode).                        (* dump of the real trie.Trie holding the same pairs *)

(* [acc] = the pairs inserted so far, newest first.  After an observed panic the history ends. *)
Fixpoint st_crun (s : snode) (acc : list (list N * list N)) (ops : list rscop) : bool :=
  match ops with
  | [] => true
  | RSUpd k v p :: r =>
      match st_update s (unpack k) (unpack v) with
      | Some s' => negb p && st_crun s' ((unpack k, unpack v) :: acc) r
      | None => p
      end
  | RSShape x :: r => shape_eqb s x && st_crun s acc r
  | RSTrie d :: r =>
      node_eqb (to_node s) (undump d)
      && match run Nil (rev acc) with Some t => node_eqb t (undump d) | None => false end
      && st_crun s acc r
  end.

(* kinds of cases: a trie history, a history over several handles (copies), or an observed
   DeriveSha key order *)
Inductive cbody :=
| BTrie (ops : list rcop)
| BMulti (ops : list rmcop)
| BOrder (n : N) (keys : list int)   (* the keys, each preceded by its length, concatenated and packed *)
| BRange (d : dnode) (qs : list (list (list int * list int)))   (* the trie, and the lists VerifyRangeProof accepted *)
| BDb (ops : list dbop)               (* a history over one trie.Database with observations *)
| BStack (ops : list rscop).          (* a list fed to a StackTrie, with observed shapes *)

Definition frame_keys (ks : list (list N)) : list N :=
  flat_map (fun k => N.of_nat (length k) :: k) ks.

Definition case := (N * cbody)%type.
Definition case_ok (c : case) : bool :=
  match snd c with
  | BTrie ops => crun Nil (map decode_op ops)
  | BMulti ops => mcrun [Nil] (map decode_mop ops)
  | BOrder n keys => keqb (frame_keys (map rlp_uint (derive_order n))) (unpack keys)
  | BRange d qs =>
      let t := undump d in
      forallb (fun q => range_ok t (map (fun kv => (unpack (fst kv), unpack (snd kv))) q)) qs
  | BDb ops => db_crun db0 ops
  | BStack ops => st_crun SE [] ops
  end.
Definition mismatches (cs : list case) : list N :=
  map fst (filter (fun c => negb (case_ok c)) cs).

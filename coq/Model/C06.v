(* C06 — Block execution is deterministic and header commitments equal stored state.
   Executable model (no proofs) of the UTXO-set commitment maintained by
     core/state_processor.go:Process            (builds UtxosCreatedHashes / UtxosDeletedHashes)
     core/headerchain_validation.go:Finalize    (set size arithmetic, per-denomination TrimBlock, multiSet.Add/Remove)
     core/headerchain_validation.go:TrimBlock   (reads created keys and UTXOs from the DATABASE, not from the block's batch)
     crypto/multiset/multiset.go                (MuHash accumulator: abelian-group homomorphism)
   Elements are the hashes the multiset holds (types.UTXOHash / types.CoinbaseLockupHash of one live
   'ut' / 'cl' database entry); here small integers (indices assigned by the harness).  Keys are the
   database keys of those entries (indices too).  The accumulator is the free abelian group over
   elements, represented as a formal sum (list of signed elements) with [count] as its meaning. *)
From Coq Require Import List NArith ZArith Bool.
Import ListNotations.
Local Open Scope N_scope.

Definition elem := N.
Definition key := N.

(* ---------- accumulator: formal sums over elements (free abelian group) ---------- *)
Definition acc := list (elem * bool).          (* (e,true) = +e (multiSet.Add), (e,false) = -e (multiSet.Remove) *)
Definition sgn (b : bool) : Z := if b then 1%Z else (-1)%Z.
Fixpoint count (a : acc) (e : elem) : Z :=
  match a with
  | [] => 0%Z
  | (x, s) :: t => ((if N.eqb x e then sgn s else 0) + count t e)%Z
  end.
Definition acc_add (a : acc) (e : elem) : acc := (e, true) :: a.
Definition acc_remove (a : acc) (e : elem) : acc := (e, false) :: a.
Definition acc_adds (a : acc) (l : list elem) : acc := fold_left acc_add l a.
Definition acc_removes (a : acc) (l : list elem) : acc := fold_left acc_remove l a.
Definition of_content (l : list elem) : acc := acc_adds [] l.
(* equality in the free abelian group, decided on the finite support *)
Definition acc_eqb (a b : acc) : bool :=
  forallb (fun e => Z.eqb (count a e) (count b e)) (map fst a ++ map fst b).

(* ---------- database content: live entries, strictly sorted by key ---------- *)
Definition db := list (key * elem).
Fixpoint db_get (d : db) (k : key) : option elem :=
  match d with
  | [] => None
  | (k', e) :: t => if N.eqb k k' then Some e else if N.ltb k k' then None else db_get t k
  end.
Fixpoint db_put (k : key) (e : elem) (d : db) : db :=
  match d with
  | [] => [(k, e)]
  | (k', e') :: t =>
      if N.ltb k k' then (k, e) :: d
      else if N.eqb k k' then (k, e) :: t
      else (k', e') :: db_put k e t
  end.
Fixpoint db_del (k : key) (d : db) : db :=
  match d with
  | [] => []
  | (k', e') :: t =>
      if N.eqb k k' then t
      else if N.ltb k k' then d
      else (k', e') :: db_del k t
  end.
Definition content (d : db) : list elem := map snd d.

(* ---------- the block's effect on the batch, in execution order ---------- *)
(* Create: rawdb.CreateUTXO (Process: coinbase / conversion / Qi-ETX outputs; ProcessQiTx outputs) and the
           first AddNewLock of a lockup key: hash appended to UtxosCreatedHashes.
   Update: vm.AddNewLock on a key: reads the old record THROUGH the batch (rawdb.ReadCoinbaseLockup),
           appends the old hash to UtxosDeletedHashes when there was one, the new hash to UtxosCreatedHashes.
   Spend : ProcessQiTx input (rawdb.GetUTXOWithBatch then DeleteUTXO) or a lockup claim: hash of the record
           seen through the batch appended to UtxosDeletedHashes. *)
Inductive op := Create (k : key) (e : elem) | Update (k : key) (e : elem) | Spend (k : key).

Definition eff (d : db) (o : op) : db * list elem * list elem :=
  match o with
  | Create k e => (db_put k e d, [e], [])
  | Update k e =>
      match db_get d k with
      | Some old => (db_put k e d, [e], [old])
      | None => (db_put k e d, [e], [])
      end
  | Spend k =>
      match db_get d k with
      | Some old => (db_del k d, [], [old])
      | None => (d, [], [])
      end
  end.

(* state_processor.go:Process transaction loop: batch view, created list, deleted list (append order) *)
Fixpoint run_ops (d : db) (ops : list op) : db * list elem * list elem :=
  match ops with
  | [] => (d, [], [])
  | o :: t =>
      let '(d1, c1, x1) := eff d o in
      let '(d2, c2, x2) := run_ops d1 t in
      (d2, c1 ++ c2, x1 ++ x2)
  end.

(* ---------- trimming ---------- *)
(* which state TrimBlock looks the candidate keys up in:
     ParentDb = hc.Database().Get(key): the committed parent state (the code as it is);
     AfterOps = the state after this block's own batch operations (the proposed repair). *)
Inductive trim_view := ParentDb | AfterOps.
(* a candidate = (key created at height number-depth with this denomination, its record has Lock = 0) *)
Definition cand := (key * bool)%type.
(* headerchain_validation.go:TrimBlock for one denomination *)
Definition trim_one (view : db) (cs : list cand) : list (key * elem) :=
  flat_map (fun c : cand =>
              if snd c then match db_get view (fst c) with Some e => [(fst c, e)] | None => [] end
              else []) cs.

Definition W64 : N := 18446744073709551616.   (* 2^64: utxoSetSize is a Go uint64 *)

Record st := mkSt { s_db : db; s_acc : acc; s_size : N }.
Definition genesis : st := mkSt [] [] 0.

(* headerchain_validation.go:Finalize(setRoots=false) after Process' transaction loop.
   None = "UTXO set size is less than the number of utxos to delete" (block rejected).
   The goroutines (one per denomination, each appending under the mutex) are run here in list order;
   Proofs: any other completion order / interleaving gives the same result. *)
Definition finalize (tv : trim_view) (s : st) (ops : list op) (cands : list (list cand))
  : option (st * list key) :=
  let '(d1, cr, de) := run_ops (s_db s) ops in
  let sz1 := s_size s + N.of_nat (length cr) in
  if N.ltb sz1 (N.of_nat (length de)) then None else
  let sz2 := sz1 - N.of_nat (length de) in
  let view := match tv with ParentDb => s_db s | AfterOps => d1 end in
  let tr := flat_map (trim_one view) cands in
  (* *utxoSetSize-- once per trimmed entry, uint64 wrap-around *)
  let sz3 := (sz2 + (W64 - (N.of_nat (length tr)) mod W64)) mod W64 in
  let d2 := fold_left (fun d kv => db_del (fst kv) d) tr d1 in
  let a := acc_removes (acc_adds (s_acc s) cr) (de ++ map snd tr) in
  Some (mkSt d2 a sz3, map fst tr).

(* ---------- chains ---------- *)
Definition block := (list op * list (list cand))%type.
Fixpoint run_chain (tv : trim_view) (s : st) (bs : list block) : option st :=
  match bs with
  | [] => Some s
  | b :: t => match finalize tv s (fst b) (snd b) with
              | Some (s', _) => run_chain tv s' t
              | None => None
              end
  end.

(* the commitment a header makes about the state: accumulator = content, size = number of entries *)
Definition commit_ok (s : st) : bool :=
  acc_eqb (s_acc s) (of_content (content (s_db s))) && N.eqb (s_size s) (N.of_nat (length (s_db s))).

(* ---------- correspondence cases ---------- *)
(* one observed block: the batch operations and trim candidates read off the real code, and what the real
   node stored: trimmed keys (ReadTrimmedUTXOs), the full 'ut'+'cl' scan (sorted by key index), the stored
   set size, and whether MuHash(scan) equals the stored multiset / header UTXORoot. *)
(* o_undone = Some (k, u): the node later switched its head back over k blocks with the real
   HeaderChain.SetCurrentHeader, this block being the OLDEST of the k (the new head is this block's parent), and u is
   the 'ut'/'cl' scan observed after that rollback (None: no such switch was observed for this block). *)
Record blk := mkBlk {
  b_ops : list op; b_cands : list (list cand);
  o_trimmed : list key; o_content : db; o_size : N; o_rootok : bool; o_undone : option (nat * db) }.

(* ---------- head switch: one iteration of the rollback loop of core/headerchain.go:SetCurrentHeader ---------- *)
(* The undo records Process writes for the Qi outputs of a block:
     rawdb.WriteSpentUTXOs      : every ProcessQiTx input with the record SEEN THROUGH THE BATCH (so an output created
                                  earlier in the same block and spent later in it is listed),
     rawdb.WriteCreatedUTXOKeys : the key of every output the block creates.
   Lockup ('cl') records have undo lists of their own (DeletedCoinbaseLockups / CreatedCoinbaseLockupKeys); they are
   not modelled here (C10), [Update] contributes nothing. *)
Fixpoint undo_records (d : db) (ops : list op) : list (key * elem) * list key :=
  match ops with
  | [] => ([], [])
  | o :: t =>
      let '(d1, _, _) := eff d o in
      let '(sp, cr) := undo_records d1 t in
      match o with
      | Create k _ => (sp, k :: cr)
      | Spend k => match db_get d k with Some old => ((k, old) :: sp, cr) | None => (sp, cr) end
      | Update _ _ => (sp, cr)
      end
  end.
Definition puts (l : list (key * elem)) (d : db) : db := fold_left (fun d kv => db_put (fst kv) (snd kv) d) l d.
Definition delks (l : list key) (d : db) : db := fold_left (fun d k => db_del k d) l d.
(* both loops write into ONE batch: for a key in both records the later write wins.
   RestoreThenDelete = the source as it is: rawdb.CreateUTXO for ReadSpentUTXOs ++ ReadTrimmedUTXOs, then
   batch.Delete for ReadCreatedUTXOKeys. *)
Inductive undo_order := RestoreThenDelete | DeleteThenRestore.
Definition undo (o : undo_order) (sp : list (key * elem)) (cr : list key) (d : db) : db :=
  match o with
  | RestoreThenDelete => delks cr (puts sp d)
  | DeleteThenRestore => puts sp (delks cr d)
  end.
(* the database after [finalize] wrote the block, then rolled back *)
Definition rollback_block (o : undo_order) (tv : trim_view) (s : st) (ops : list op) (cands : list (list cand))
  : option db :=
  match finalize tv s ops cands with
  | None => None
  | Some (s', _) =>
      let '(d1, _, _) := run_ops (s_db s) ops in
      let view := match tv with ParentDb => s_db s | AfterOps => d1 end in
      let tr := flat_map (trim_one view) cands in
      let '(sp, cr) := undo_records (s_db s) ops in
      Some (undo o (sp ++ tr) cr (s_db s'))
  end.
Definition is_ut (o : op) : bool := match o with Update _ _ => false | _ => true end.

(* ---------- head switch over several blocks: the whole rollback loop of SetCurrentHeader ---------- *)
(* one iteration applied to the database as it IS at that moment [d] (not assumed to be what the block wrote): the undo
   records and the trimmed record are the ones stored when the block was appended on parent state [s] *)
Definition undo_block (o : undo_order) (tv : trim_view) (s : st) (ops : list op) (cands : list (list cand)) (d : db)
  : db :=
  let '(d1, _, _) := run_ops (s_db s) ops in
  let view := match tv with ParentDb => s_db s | AfterOps => d1 end in
  let tr := flat_map (trim_one view) cands in
  let '(sp, cr) := undo_records (s_db s) ops in
  undo o (sp ++ tr) cr d.
(* the blocks [bs] are appended on [s] (oldest first), then the loop `for prevHeader != commonHeader` walks back from the
   newest to the oldest, one batch per block, each written before the next iteration starts *)
Fixpoint switch_back (o : undo_order) (tv : trim_view) (s : st) (bs : list block) : option db :=
  match bs with
  | [] => Some (s_db s)
  | b :: t =>
      match finalize tv s (fst b) (snd b) with
      | None => None
      | Some (s', _) =>
          match switch_back o tv s' t with
          | None => None
          | Some d => Some (undo_block o tv s (fst b) (snd b) d)
          end
      end
  end.

Fixpoint db_eqb (a b : db) : bool :=
  match a, b with
  | [], [] => true
  | (k, e) :: a', (k', e') :: b' => N.eqb k k' && N.eqb e e' && db_eqb a' b'
  | _, _ => false
  end.
Definition memN (x : N) (l : list N) : bool := existsb (N.eqb x) l.
Definition set_eqb (a b : list N) : bool :=
  Nat.eqb (length a) (length b) && forallb (fun x => memN x b) a && forallb (fun x => memN x a) b.

Fixpoint check_chain (tv : trim_view) (s : st) (bs : list blk) : bool :=
  match bs with
  | [] => true
  | b :: t =>
      match finalize tv s (b_ops b) (b_cands b) with
      | None => false
      | Some (s', tr) =>
          set_eqb tr (o_trimmed b) && db_eqb (s_db s') (o_content b) && N.eqb (s_size s') (o_size b)
          && Bool.eqb (acc_eqb (s_acc s') (of_content (content (s_db s')))) (o_rootok b)
          && match o_undone b with
             | None => true
             | Some (k, u) =>
                 match switch_back RestoreThenDelete tv s
                         (firstn k (map (fun x => (b_ops x, b_cands x)) (b :: t))) with
                 | Some d => Nat.leb 1 k && Nat.leb k (S (length t)) && db_eqb d u
                 | None => false
                 end
             end
          && check_chain tv s' t
      end
  end.

(* ---------- the block batch shared by the TrimBlock goroutines ---------- *)
(* ethdb.Batch: "A batch cannot be used concurrently".  The record buffer of a batch is an ordinary append
   (memorydb: b.writes = append(b.writes, kv); leveldb / pebble: the batch's byte buffer): read the length,
   write the record at that position, publish length + 1.  A goroutine executing batch.Delete(k) therefore
   performs two steps, [ERead g] and [EWrite g k]; a schedule is the global order of these steps.
   [rb_log] = the buffer, [rb_n] = its published length; [regs] = the position each goroutine read. *)
Record rbuf := mkBuf { rb_log : list key; rb_n : nat }.
Inductive ev := ERead (g : N) | EWrite (g : N) (k : key).
Definition set_nth (i : nat) (k : key) (l : list key) : list key := firstn i l ++ k :: skipn (S i) l.
Fixpoint reg (g : N) (regs : list (N * nat)) : option nat :=
  match regs with
  | [] => None
  | (g', i) :: t => if N.eqb g g' then Some i else reg g t
  end.
Fixpoint run_sched (b : rbuf) (regs : list (N * nat)) (s : list ev) : rbuf :=
  match s with
  | [] => b
  | ERead g :: t => run_sched b ((g, rb_n b) :: regs) t
  | EWrite g k :: t =>
      match reg g regs with
      | Some i => run_sched (mkBuf (set_nth i k (rb_log b)) (S i)) regs t
      | None => run_sched b regs t
      end
  end.
(* what batch.Write() hands to the database *)
Definition written (b : rbuf) : list key := firstn (rb_n b) (rb_log b).
Definition empty_buf : rbuf := mkBuf [] 0.
(* headerchain_validation.go:TrimBlock as it is: batch.Delete inside lock.Lock() .. lock.Unlock(): the two steps
   of one Delete are adjacent in every schedule; [ks] = the deletes in the order the goroutines got the lock,
   each with the goroutine (denomination) that issued it *)
Definition locked_sched (ks : list (N * key)) : list ev :=
  flat_map (fun gk : N * key => [ERead (fst gk); EWrite (fst gk) (snd gk)]) ks.
(* a schedule in which every goroutine still runs its own steps in program order (each write after a read of the
   same goroutine, one write per read) *)
Fixpoint sched_wf (armed : list N) (s : list ev) : bool :=
  match s with
  | [] => true
  | ERead g :: t => negb (memN g armed) && sched_wf (g :: armed) t
  | EWrite g _ :: t => memN g armed && sched_wf (filter (fun x => negb (N.eqb x g)) armed) t
  end.
Definition ewrites (s : list ev) : list key :=
  flat_map (fun e => match e with EWrite _ k => [k] | ERead _ => [] end) s.

(* ====================================================================================================
   Account storage bookkeeping of one state object during one block
     core/state/state_object.go: GetState / GetCommittedState / SetState / finalize / updateTrie
     core/state/statedb.go     : CreateAccount / createObject (snapDestructs)
   This is what decides the account's Size field (part of the account record, hence of the EVM root) and
   the storage root.  The clause modelled: the result does not depend on whether the executing node reads
   the parent state through a snapshot layer (s.db.snap != nil) or through the tries (s.db.snap == nil).
   Slots and words are small integers; word 0 = common.Hash{} (SSTORE of 0 deletes the slot).
   ==================================================================================================== *)
Definition slot := N.
Definition word := N.
Definition smap := db.                         (* storage trie content: sorted, non-zero words only *)
Definition amap := list (slot * word).         (* a Go map used for lookups only (originStorage): newest binding first *)
Fixpoint aget (m : amap) (k : slot) : option word :=
  match m with
  | [] => None
  | (k', v) :: t => if N.eqb k k' then Some v else aget t k
  end.
Definition wopt (o : option word) : word := match o with Some v => v | None => 0 end.

(* state.New found a layer for the parent root (sdb.snap != nil) or not *)
(* SnapFails: a layer exists but the read fails (snapshot.ErrNotCoveredYet while the generator is still
   running after a restart): GetCommittedState falls back to the trie for the word *)
Inductive source := NoSnap | SnapLayer | SnapFails.

Record sobj := mkObj {
  so_trie : smap;            (* s.getTrie(db): the object's storage trie *)
  so_origin : amap;          (* s.originStorage *)
  so_pending : smap;         (* s.dirtyStorage over s.pendingStorage: the latest word written per slot in this block *)
  so_uniq : list slot;       (* s.uniqueNewKeysStorage *)
  so_size : Z;               (* s.data.Size (big.Int) *)
  so_destructed : bool }.    (* s.addrHash in s.db.snapDestructs (only read when a layer exists) *)

(* state_object.go:GetState/GetCommittedState, in source order:
     pending/dirty hit; originStorage hit; PROBE of the object's trie, a missing key is recorded in
     uniqueNewKeysStorage; with a layer: destructed in this block => return the zero word (nothing cached),
     else the word comes from the snapshot [snapv]; without a layer the word comes from the trie. *)
Definition get_committed (src : source) (snapv : smap) (o : sobj) (k : slot) : word * sobj :=
  match db_get (so_pending o) k with
  | Some v => (v, o)
  | None =>
    match aget (so_origin o) k with
    | Some v => (v, o)
    | None =>
      let probe := db_get (so_trie o) k in
      let uq := match probe with None => k :: so_uniq o | Some _ => so_uniq o end in
      match src with
      | SnapLayer =>
          if so_destructed o
          then (0, mkObj (so_trie o) (so_origin o) (so_pending o) uq (so_size o) (so_destructed o))
          else let v := wopt (db_get snapv k) in
               (v, mkObj (so_trie o) ((k, v) :: so_origin o) (so_pending o) uq (so_size o) (so_destructed o))
      | SnapFails =>
          if so_destructed o
          then (0, mkObj (so_trie o) (so_origin o) (so_pending o) uq (so_size o) (so_destructed o))
          else let v := wopt probe in
               (v, mkObj (so_trie o) ((k, v) :: so_origin o) (so_pending o) uq (so_size o) (so_destructed o))
      | NoSnap =>
          let v := wopt probe in
          (v, mkObj (so_trie o) ((k, v) :: so_origin o) (so_pending o) uq (so_size o) (so_destructed o))
      end
    end
  end.

(* state_object.go:SetState: reads the previous word first, a write of the same word is dropped *)
Definition set_state (src : source) (snapv : smap) (o : sobj) (k : slot) (v : word) : sobj :=
  let '(prev, o1) := get_committed src snapv o k in
  if N.eqb prev v then o1
  else mkObj (so_trie o1) (so_origin o1) (db_put k v (so_pending o1)) (so_uniq o1) (so_size o1) (so_destructed o1).

(* state_object.go:updateTrie, one pending slot (the Go map is iterated in arbitrary order; the slots are
   distinct, every step touches only its own slot) *)
Definition upd_step (uq : list slot) (acc : smap * amap * Z) (kv : slot * word) : smap * amap * Z :=
  let '(tr, og, sz) := acc in
  let '(k, v) := kv in
  if N.eqb v (wopt (aget og k)) then acc
  else if N.eqb v 0
       then (db_del k tr, (k, v) :: og, if memN k uq then sz else (sz - 1)%Z)
       else (db_put k v tr, (k, v) :: og, if memN k uq then (sz + 1)%Z else sz).
Definition update_trie (o : sobj) : sobj :=
  match so_pending o with
  | [] => o                                             (* len(pendingStorage) == 0: nothing is reset *)
  | _ =>
    let '(tr, og, sz) := fold_left (upd_step (so_uniq o)) (so_pending o) (so_trie o, so_origin o, so_size o) in
    mkObj tr og [] [] sz (so_destructed o)
  end.

(* statedb.go:CreateAccount over an existing object: a new object (empty root, empty caches); the address is in
   snapDestructs from now on; Size is carried over iff the previous object was not deleted
   (carry = false: it self-destructed in an earlier transaction of the block). *)
Definition recreate (carry : bool) (o : sobj) : sobj :=
  mkObj [] [] [] [] (if carry then so_size o else 0%Z) true.

Inductive sop := SGet (k : slot) | SSet (k : slot) (v : word) | SCreate (carry : bool) | SRoot.

Fixpoint run_sto (src : source) (snapv : smap) (o : sobj) (ops : list sop) : sobj * list word :=
  match ops with
  | [] => (o, [])
  | SGet k :: t => let '(v, o1) := get_committed src snapv o k in
                   let '(o2, rs) := run_sto src snapv o1 t in (o2, v :: rs)
  | SSet k v :: t => run_sto src snapv (set_state src snapv o k v) t
  | SCreate c :: t => run_sto src snapv (recreate c o) t
  | SRoot :: t => run_sto src snapv (update_trie o) t
  end.

(* what a block commits to / what the EVM saw: storage content, Size, the words read *)
Definition sobs := (smap * Z * list word)%type.
Definition sto_obs (r : sobj * list word) : sobs := (so_trie (fst r), so_size (fst r), snd r).
(* the object as loaded from the parent state: storage [p], Size [sz] *)
Definition sto_init (p : smap) (sz : Z) : sobj := mkObj p [] [] [] sz false.
Definition sto_block (src : source) (p : smap) (sz : Z) (ops : list sop) : sobs :=
  sto_obs (run_sto src p (sto_init p sz) ops).

Fixpoint wl_eqb (a b : list word) : bool :=
  match a, b with
  | [], [] => true
  | x :: a', y :: b' => N.eqb x y && wl_eqb a' b'
  | _, _ => false
  end.
Definition sobs_eqb (a b : sobs) : bool :=
  let '(t1, z1, r1) := a in let '(t2, z2, r2) := b in db_eqb t1 t2 && Z.eqb z1 z2 && wl_eqb r1 r2.

(* observed on the real core/state code: parent storage and Size, the operations, and what the StateDB
   delivered without a snapshot tree and with a layer for the parent root (diff layer; generated disk layer) *)
Record scase := mkSCase {
  sc_parent : smap; sc_psize : Z; sc_ops : list sop;
  sc_nosnap : sobs; sc_snap : list sobs }.
Definition scase_ok (c : scase) : bool :=
  sobs_eqb (sto_block NoSnap (sc_parent c) (sc_psize c) (sc_ops c)) (sc_nosnap c)
  && forallb (sobs_eqb (sto_block SnapLayer (sc_parent c) (sc_psize c) (sc_ops c))) (sc_snap c).

(* ---------- cases ---------- *)
(* Chain = one chain from genesis on the real node; the trim view is the one the harness' targeted
   probe observed on the current source (ParentDb on the unrepaired tree).
   Storage = a batch of scenarios, each one block's worth of storage operations on one account of a real StateDB. *)
Inductive case := Chain (id : N) (tv : trim_view) (bs : list blk) | Storage (id : N) (cs : list scase).
Definition case_id (c : case) : N := match c with Chain id _ _ => id | Storage id _ => id end.
Definition case_ok (c : case) : bool :=
  match c with
  | Chain _ tv bs => check_chain tv genesis bs
  | Storage _ scs => forallb scase_ok scs
  end.
Definition mismatches (cs : list case) : list N :=
  map case_id (filter (fun c => negb (case_ok c)) cs).

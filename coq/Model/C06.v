(* C06 — Block execution is deterministic and header commitments equal stored state.
   Executable model (no proofs) of the UTXO-set commitment maintained by
     core/state_processor.go:Process            (builds UtxosCreatedHashes / UtxosDeletedHashes)
     core/headerchain_validation.go:Finalize    (set size arithmetic, per-denomination TrimBlock, multiSet.Add/Remove)
     core/headerchain_validation.go:TrimBlock   (reads created keys and UTXOs from the DATABASE, not from the block's batch)
     crypto/multiset/multiset.go                (MuHash accumulator: abelian-group homomorphism)
   Elements are the hashes the multiset holds (types.UTXOHash / types.CoinbaseLockupHash of one live
   'ut' / 'cl' database entry); here small integers (indices assigned by the harness).  Keys are the
   database keys of those entries (indices too).  The accumulator is the free abelian group over
   elements, represented as a formal sum (list of signed elements) with [count] as its meaning. *)
From Coq Require Import List NArith ZArith Bool.
Import ListNotations.
Local Open Scope N_scope.

Definition elem := N.
Definition key := N.

(* ---------- accumulator: formal sums over elements (free abelian group) ---------- *)
Definition acc := list (elem * bool).          (* (e,true) = +e (multiSet.Add), (e,false) = -e (multiSet.Remove) *)
Definition sgn (b : bool) : Z := if b then 1%Z else (-1)%Z.
Fixpoint count (a : acc) (e : elem) : Z :=
  match a with
  | [] => 0%Z
  | (x, s) :: t => ((if N.eqb x e then sgn s else 0) + count t e)%Z
  end.
Definition acc_add (a : acc) (e : elem) : acc := (e, true) :: a.
Definition acc_remove (a : acc) (e : elem) : acc := (e, false) :: a.
Definition acc_adds (a : acc) (l : list elem) : acc := fold_left acc_add l a.
Definition acc_removes (a : acc) (l : list elem) : acc := fold_left acc_remove l a.
Definition of_content (l : list elem) : acc := acc_adds [] l.
(* equality in the free abelian group, decided on the finite support *)
Definition acc_eqb (a b : acc) : bool :=
  forallb (fun e => Z.eqb (count a e) (count b e)) (map fst a ++ map fst b).

(* ---------- database content: live entries, strictly sorted by key ---------- *)
Definition db := list (key * elem).
Fixpoint db_get (d : db) (k : key) : option elem :=
  match d with
  | [] => None
  | (k', e) :: t => if N.eqb k k' then Some e else if N.ltb k k' then None else db_get t k
  end.
Fixpoint db_put (k : key) (e : elem) (d : db) : db :=
  match d with
  | [] => [(k, e)]
  | (k', e') :: t =>
      if N.ltb k k' then (k, e) :: d
      else if N.eqb k k' then (k, e) :: t
      else (k', e') :: db_put k e t
  end.
Fixpoint db_del (k : key) (d : db) : db :=
  match d with
  | [] => []
  | (k', e') :: t =>
      if N.eqb k k' then t
      else if N.ltb k k' then d
      else (k', e') :: db_del k t
  end.
Definition content (d : db) : list elem := map snd d.

(* ---------- the block's effect on the batch, in execution order ---------- *)
(* Create: rawdb.CreateUTXO (Process: coinbase / conversion / Qi-ETX outputs; ProcessQiTx outputs) and the
           first AddNewLock of a lockup key: hash appended to UtxosCreatedHashes.
   Update: vm.AddNewLock on a key: reads the old record THROUGH the batch (rawdb.ReadCoinbaseLockup),
           appends the old hash to UtxosDeletedHashes when there was one, the new hash to UtxosCreatedHashes.
   Spend : ProcessQiTx input (rawdb.GetUTXOWithBatch then DeleteUTXO) or a lockup claim: hash of the record
           seen through the batch appended to UtxosDeletedHashes. *)
Inductive op := Create (k : key) (e : elem) | Update (k : key) (e : elem) | Spend (k : key).

Definition eff (d : db) (o : op) : db * list elem * list elem :=
  match o with
  | Create k e => (db_put k e d, [e], [])
  | Update k e =>
      match db_get d k with
      | Some old => (db_put k e d, [e], [old])
      | None => (db_put k e d, [e], [])
      end
  | Spend k =>
      match db_get d k with
      | Some old => (db_del k d, [], [old])
      | None => (d, [], [])
      end
  end.

(* state_processor.go:Process transaction loop: batch view, created list, deleted list (append order) *)
Fixpoint run_ops (d : db) (ops : list op) : db * list elem * list elem :=
  match ops with
  | [] => (d, [], [])
  | o :: t =>
      let '(d1, c1, x1) := eff d o in
      let '(d2, c2, x2) := run_ops d1 t in
      (d2, c1 ++ c2, x1 ++ x2)
  end.

(* ---------- trimming ---------- *)
(* which state TrimBlock looks the candidate keys up in:
     ParentDb = hc.Database().Get(key): the committed parent state (the code as it is);
     AfterOps = the state after this block's own batch operations (the proposed repair). *)
Inductive trim_view := ParentDb | AfterOps.
(* a candidate = (key created at height number-depth with this denomination, its record has Lock = 0) *)
Definition cand := (key * bool)%type.
(* headerchain_validation.go:TrimBlock for one denomination *)
Definition trim_one (view : db) (cs : list cand) : list (key * elem) :=
  flat_map (fun c : cand =>
              if snd c then match db_get view (fst c) with Some e => [(fst c, e)] | None => [] end
              else []) cs.

Definition W64 : N := 18446744073709551616.   (* 2^64: utxoSetSize is a Go uint64 *)

Record st := mkSt { s_db : db; s_acc : acc; s_size : N }.
Definition genesis : st := mkSt [] [] 0.

(* headerchain_validation.go:Finalize(setRoots=false) after Process' transaction loop.
   None = "UTXO set size is less than the number of utxos to delete" (block rejected).
   The goroutines (one per denomination, each appending under the mutex) are run here in list order;
   Proofs: any other completion order / interleaving gives the same result. *)
Definition finalize (tv : trim_view) (s : st) (ops : list op) (cands : list (list cand))
  : option (st * list key) :=
  let '(d1, cr, de) := run_ops (s_db s) ops in
  let sz1 := s_size s + N.of_nat (length cr) in
  if N.ltb sz1 (N.of_nat (length de)) then None else
  let sz2 := sz1 - N.of_nat (length de) in
  let view := match tv with ParentDb => s_db s | AfterOps => d1 end in
  let tr := flat_map (trim_one view) cands in
  (* *utxoSetSize-- once per trimmed entry, uint64 wrap-around *)
  let sz3 := (sz2 + (W64 - (N.of_nat (length tr)) mod W64)) mod W64 in
  let d2 := fold_left (fun d kv => db_del (fst kv) d) tr d1 in
  let a := acc_removes (acc_adds (s_acc s) cr) (de ++ map snd tr) in
  Some (mkSt d2 a sz3, map fst tr).

(* ---------- chains ---------- *)
Definition block := (list op * list (list cand))%type.
Fixpoint run_chain (tv : trim_view) (s : st) (bs : list block) : option st :=
  match bs with
  | [] => Some s
  | b :: t => match finalize tv s (fst b) (snd b) with
              | Some (s', _) => run_chain tv s' t
              | None => None
              end
  end.

(* the commitment a header makes about the state: accumulator = content, size = number of entries *)
Definition commit_ok (s : st) : bool :=
  acc_eqb (s_acc s) (of_content (content (s_db s))) && N.eqb (s_size s) (N.of_nat (length (s_db s))).

(* ---------- correspondence cases ---------- *)
(* one observed block: the batch operations and trim candidates read off the real code, and what the real
   node stored: trimmed keys (ReadTrimmedUTXOs), the full 'ut'+'cl' scan (sorted by key index), the stored
   set size, and whether MuHash(scan) equals the stored multiset / header UTXORoot. *)
Record blk := mkBlk {
  b_ops : list op; b_cands : list (list cand);
  o_trimmed : list key; o_content : db; o_size : N; o_rootok : bool }.

Fixpoint db_eqb (a b : db) : bool :=
  match a, b with
  | [], [] => true
  | (k, e) :: a', (k', e') :: b' => N.eqb k k' && N.eqb e e' && db_eqb a' b'
  | _, _ => false
  end.
Definition memN (x : N) (l : list N) : bool := existsb (N.eqb x) l.
Definition set_eqb (a b : list N) : bool :=
  Nat.eqb (length a) (length b) && forallb (fun x => memN x b) a && forallb (fun x => memN x a) b.

Fixpoint check_chain (tv : trim_view) (s : st) (bs : list blk) : bool :=
  match bs with
  | [] => true
  | b :: t =>
      match finalize tv s (b_ops b) (b_cands b) with
      | None => false
      | Some (s', tr) =>
          set_eqb tr (o_trimmed b) && db_eqb (s_db s') (o_content b) && N.eqb (s_size s') (o_size b)
          && Bool.eqb (acc_eqb (s_acc s') (of_content (content (s_db s')))) (o_rootok b)
          && check_chain tv s' t
      end
  end.

(* a case = one chain from genesis on the real node; the trim view is the one the harness' targeted
   probe observed on the current source (ParentDb on the unrepaired tree) *)
Definition case := (N * trim_view * list blk)%type.
Definition case_ok (c : case) : bool :=
  let '(_, tv, bs) := c in check_chain tv genesis bs.
Definition mismatches (cs : list case) : list N :=
  map (fun c => fst (fst c)) (filter (fun c => negb (case_ok c)) cs).
